//go:build verif

// Add-only access file for the C13 driver (mapped into package oracles by the overlay build).
package oracles

import (
	"reflect"
	"sync"
	"sync/atomic"
	"time"
	"unsafe"

	"github.com/tikv/client-go/v2/oracle"
)

// VerifFlightDups reports whether a single-flight call for key is in the group's map and how many
// callers have joined it in addition to its creator. Reads singleflight.Group{mu, m} and call.dups
// under the group's own mutex.
func VerifFlightDups(oc oracle.Oracle, key string) (present bool, dups int) {
	o := oc.(*pdOracle)
	g := reflect.ValueOf(&o.tsForValidation).Elem()
	mu := (*sync.Mutex)(unsafe.Pointer(g.FieldByName("mu").UnsafeAddr()))
	mu.Lock()
	defer mu.Unlock()
	m := g.FieldByName("m")
	if m.IsNil() {
		return false, 0
	}
	c := m.MapIndex(reflect.ValueOf(key))
	if !c.IsValid() || c.IsNil() {
		return false, 0
	}
	return true, int(c.Elem().FieldByName("dups").Int())
}

// VerifSetLastTS calls the unexported setLastTS directly (concurrent stress).
func VerifSetLastTS(oc oracle.Oracle, ts uint64, scope string) { oc.(*pdOracle).setLastTS(ts, scope) }

// VerifAdaptiveInterval returns (configured, adaptive) update intervals.
func VerifAdaptiveInterval(oc oracle.Oracle) (time.Duration, time.Duration) {
	o := oc.(*pdOracle)
	return time.Duration(o.lastTSUpdateInterval.Load()), time.Duration(o.adaptiveLastTSUpdateInterval.Load())
}

// VerifSetLocalHook fixes the clock of a local oracle.
func VerifSetLocalHook(oc oracle.Oracle, t time.Time) {
	o := oc.(*localOracle)
	if o.hook == nil {
		o.hook = &struct{ currentTime time.Time }{}
	}
	o.hook.currentTime = t
}

// VerifNextInterval runs nextUpdateInterval on a bare pdOracle whose interval record is given.
func VerifNextInterval(cfg, ada, lastShortMs, lastTickNs int64, state int, nowNs, req int64) (ret, adaAfter int64, stateAfter int) {
	o := &pdOracle{}
	o.lastTSUpdateInterval.Store(cfg)
	o.adaptiveLastTSUpdateInterval.Store(ada)
	o.adaptiveUpdateIntervalState.lastShortStalenessReadTime.Store(lastShortMs)
	o.adaptiveUpdateIntervalState.lastTick = time.Unix(0, lastTickNs)
	o.adaptiveUpdateIntervalState.state = adaptiveUpdateTSIntervalState(state)
	r := o.nextUpdateInterval(time.Unix(0, nowNs), time.Duration(req))
	return int64(r), o.adaptiveLastTSUpdateInterval.Load(), int(o.adaptiveUpdateIntervalState.state)
}

// VerifSetInterval runs SetLowResolutionTimestampUpdateInterval on a bare record.
func VerifSetInterval(cfg, ada, nw int64) (ok bool, cfgAfter, adaAfter int64) {
	o := &pdOracle{}
	o.lastTSUpdateInterval.Store(cfg)
	o.adaptiveLastTSUpdateInterval.Store(ada)
	err := o.SetLowResolutionTimestampUpdateInterval(time.Duration(nw))
	return err == nil, o.lastTSUpdateInterval.Load(), o.adaptiveLastTSUpdateInterval.Load()
}

// VerifAdjust runs adjustUpdateLowResolutionTSIntervalWithRequestedStaleness; sent = 0 when nothing was sent.
func VerifAdjust(cfg, ada, lastShortMs int64, read, cur uint64, nowNs int64) (lastShortAfter, sent int64) {
	o := &pdOracle{}
	o.adaptiveUpdateIntervalState.shrinkIntervalCh = make(chan time.Duration, 1)
	o.lastTSUpdateInterval.Store(cfg)
	o.adaptiveLastTSUpdateInterval.Store(ada)
	o.adaptiveUpdateIntervalState.lastShortStalenessReadTime.Store(lastShortMs)
	o.adjustUpdateLowResolutionTSIntervalWithRequestedStaleness(read, cur, time.Unix(0, nowNs))
	select {
	case d := <-o.adaptiveUpdateIntervalState.shrinkIntervalCh:
		sent = int64(d)
	default:
	}
	return o.adaptiveUpdateIntervalState.lastShortStalenessReadTime.Load(), sent
}

// VerifStale runs getStaleTimestampWithLastTS on a record whose arrival lies offNs before now; the clock
// readings taken right before and after the call bracket the time.Now() inside.
func VerifStale(tso uint64, offNs int64, prev uint64) (ts uint64, err error, before, arr, after int64) {
	o := &pdOracle{}
	arr = time.Now().UnixNano() - offNs
	last := &lastTSO{tso: tso, arrival: time.Unix(0, arr)}
	before = time.Now().UnixNano()
	ts, err = o.getStaleTimestampWithLastTS(last, prev)
	after = time.Now().UnixNano()
	return
}

// VerifLastArrival returns the arrival of the published record of a scope.
func VerifLastArrival(oc oracle.Oracle, scope string) (time.Time, bool) {
	l, ok := oc.(*pdOracle).getLastTSWithArrivalTS(scope)
	if !ok {
		return time.Time{}, false
	}
	return l.arrival, true
}

// VerifStoreLast stores a record with a chosen arrival directly (as export_test.go's SetEmptyPDOracleLastTs does).
func VerifStoreLast(oc oracle.Oracle, ts uint64, arrival time.Time) {
	o := oc.(*pdOracle)
	p, _ := o.lastTSMap.LoadOrStore(oracle.GlobalTxnScope, &atomic.Pointer[lastTSO]{})
	p.(*atomic.Pointer[lastTSO]).Store(&lastTSO{tso: ts, arrival: arrival})
}
