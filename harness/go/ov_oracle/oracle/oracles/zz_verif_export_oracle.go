//go:build verif

// Add-only access file for the C13 driver (mapped into package oracles by the overlay build).
package oracles

import (
	"reflect"
	"sync"
	"time"
	"unsafe"

	"github.com/tikv/client-go/v2/oracle"
)

// VerifFlightDups reports whether a single-flight call for key is in the group's map and how many
// callers have joined it in addition to its creator. Reads singleflight.Group{mu, m} and call.dups
// under the group's own mutex.
func VerifFlightDups(oc oracle.Oracle, key string) (present bool, dups int) {
	o := oc.(*pdOracle)
	g := reflect.ValueOf(&o.tsForValidation).Elem()
	mu := (*sync.Mutex)(unsafe.Pointer(g.FieldByName("mu").UnsafeAddr()))
	mu.Lock()
	defer mu.Unlock()
	m := g.FieldByName("m")
	if m.IsNil() {
		return false, 0
	}
	c := m.MapIndex(reflect.ValueOf(key))
	if !c.IsValid() || c.IsNil() {
		return false, 0
	}
	return true, int(c.Elem().FieldByName("dups").Int())
}

// VerifSetLastTS calls the unexported setLastTS directly (concurrent stress).
func VerifSetLastTS(oc oracle.Oracle, ts uint64, scope string) { oc.(*pdOracle).setLastTS(ts, scope) }

// VerifAdaptiveInterval returns (configured, adaptive) update intervals.
func VerifAdaptiveInterval(oc oracle.Oracle) (time.Duration, time.Duration) {
	o := oc.(*pdOracle)
	return time.Duration(o.lastTSUpdateInterval.Load()), time.Duration(o.adaptiveLastTSUpdateInterval.Load())
}

// VerifSetLocalHook fixes the clock of a local oracle.
func VerifSetLocalHook(oc oracle.Oracle, t time.Time) {
	o := oc.(*localOracle)
	if o.hook == nil {
		o.hook = &struct{ currentTime time.Time }{}
	}
	o.hook.currentTime = t
}
