//go:build verif

package main

import (
	"context"
	"fmt"
	"strconv"
	"strings"
	"time"

	"github.com/pingcap/failpoint"
	"github.com/tikv/client-go/v2/oracle"
	"github.com/tikv/client-go/v2/oracle/oracles"
	"github.com/tikv/client-go/v2/testutils"
	"github.com/tikv/client-go/v2/tikv"
	"github.com/tikv/client-go/v2/util"
)

// classes tc / kv: the consumers of the oracle with a fully scripted PD. A real KVStore over mocktikv whose oracle is
// replaced (SetOracle) by a pdOracle over the scripted PD (no background updater): every timestamp the store, the
// transaction and the committer obtain is an arithmetic progression the model predicts. Back-off sleeps are skipped
// (failpoint fastBackoffBySkipSleep: the Backoffer's accounting is unchanged, only time.Sleep is left out).
type tcEnv struct {
	store    *tikv.KVStore
	wrap     *txTiKV
	pdc      *scriptPD
	cur      uint64 // next timestamp PD hands out
	inc      uint64
	failNext int
	log      []string
	n        int
}

var tce *tcEnv

func tcInit() *tcEnv {
	if tce != nil {
		return tce
	}
	client, cluster, pdClient, err := testutils.NewMockTiKV("", nil)
	if err != nil {
		panic(err)
	}
	testutils.BootstrapWithSingleStore(cluster)
	e := &tcEnv{wrap: &txTiKV{}, pdc: &scriptPD{}, cur: uint64(1800000000000) << 18, inc: 1}
	e.store, err = tikv.NewTestTiKVStore(client, pdClient, func(c tikv.Client) tikv.Client { e.wrap.Client = c; return e.wrap }, nil, 0)
	if err != nil {
		panic(err)
	}
	e.pdc.counter = func() pdres {
		if e.failNext > 0 {
			e.failNext--
			e.log = append(e.log, "err")
			return pdres{err: true}
		}
		ts := e.cur
		e.cur += e.inc
		e.log = append(e.log, u(ts))
		return pdres{p: oracle.ExtractPhysical(ts), l: oracle.ExtractLogical(ts)}
	}
	o, err := oracles.NewPdOracle(e.pdc, &oracles.PDOracleOptions{UpdateInterval: time.Hour, NoUpdateTS: true})
	if err != nil {
		panic(err)
	}
	e.store.GetOracle().Close()
	e.store.SetOracle(o)
	tce = e
	return e
}

func skipSleep(on bool) {
	if on {
		util.EnableFailpoints()
		if err := failpoint.Enable("tikvclient/fastBackoffBySkipSleep", "return"); err != nil {
			panic(err)
		}
	} else {
		_ = failpoint.Disable("tikvclient/fastBackoffBySkipSleep")
	}
}

// execTc: mode(0 2pc,1 async,2 1pc) causal registrations(ms offsets / z) timeoutMs nkeys stepMs
func execTc(f []string) {
	e := tcInit()
	skipSleep(true)
	defer skipSleep(false)
	mode, causal, to, nk, stepMs := pn(f[1]), f[2] == "1", pi(f[4]), pn(f[5]), pu(f[6])
	e.inc = stepMs<<18 + 1
	txn, err := e.store.Begin()
	if err != nil {
		panic(err)
	}
	txn.SetEnableAsyncCommit(mode == 1)
	txn.SetEnable1PC(mode == 2)
	txn.SetCausalConsistency(causal)
	e.n++
	for k := 0; k < nk; k++ {
		if err := txn.Set([]byte(fmt.Sprintf("c13-tc-%d-%d", e.n, k)), []byte("v")); err != nil {
			panic(err)
		}
	}
	var regs []string
	for _, tok := range strings.Split(f[3], ",") {
		var v uint64
		if tok != "z" {
			v = oracle.ComposeTS(oracle.ExtractPhysical(txn.StartTS())+pi(tok), 0)
		}
		txn.SetCommitWaitUntilTSO(v)
		regs = append(regs, u(v))
	}
	txn.SetCommitWaitUntilTSOTimeout(time.Duration(to) * time.Millisecond)
	e.log = nil
	e.wrap.mu.Lock()
	a0, p0 := e.wrap.async, e.wrap.onepc
	e.wrap.lastMin = 0
	e.wrap.mu.Unlock()
	err = txn.Commit(context.Background())
	e.wrap.mu.Lock()
	da, dp, reqMin := e.wrap.async-a0, e.wrap.onepc-p0, e.wrap.lastMin
	e.wrap.mu.Unlock()
	r := "err"
	if err == nil {
		r = "ok " + u(txn.CommitTS())
	}
	lg := "-"
	if len(e.log) > 0 {
		lg = strings.Join(e.log, ",")
	}
	emit("tc", f[1], f[2], f[3], f[4], f[5], f[6], "=>", r, u(txn.StartTS()), strings.Join(regs, ","), u(reqMin), lg, strconv.Itoa(da), strconv.Itoa(dp))
}

// execKv: op(cur|retry|min) fails — tikv/kv.go: CurrentTimestamp / GetTimestampWithRetry / CurrentAllTSOKeyspaceGroupMinTs
// against a PD that fails the next `fails` requests
func execKv(f []string) {
	e := tcInit()
	skipSleep(true)
	defer skipSleep(false)
	e.inc = 1
	e.failNext = pn(f[2])
	e.log = nil
	expect := e.cur
	var ts uint64
	var err error
	switch f[1] {
	case "cur":
		ts, err = e.store.CurrentTimestamp(oracle.GlobalTxnScope)
	case "retry":
		ts, err = e.store.GetTimestampWithRetry(tikv.NewBackofferWithVars(context.Background(), 15000, nil), oracle.GlobalTxnScope)
	case "min":
		ts, err = e.store.CurrentAllTSOKeyspaceGroupMinTs()
	}
	e.failNext = 0
	emit("kv", f[1], f[2], "=>", tsres(ts, err), u(expect), strconv.Itoa(len(e.log)))
}
