//go:build verif

package main

import (
	"context"
	"github.com/tikv/client-go/v2/oracle"
	"github.com/tikv/client-go/v2/oracle/oracles"
	"strconv"
	"strings"
	"time"
)

// ---------------------------------------------------------------- class ar: arithmetic
func execAr(f []string) {
	switch f[1] {
	case "compose":
		p, l := pi(f[2]), pi(f[3])
		ts := oracle.ComposeTS(p, l)
		emit("ar", "compose", f[2], f[3], "=>", u(ts), i(oracle.ExtractPhysical(ts)), i(oracle.ExtractLogical(ts)))
	case "ext":
		ts := pu(f[2])
		emit("ar", "ext", f[2], "=>", i(oracle.ExtractPhysical(ts)), i(oracle.ExtractLogical(ts)))
	case "tsub":
		a, b := pu(f[2]), pu(f[3])
		emit("ar", "tsub", f[2], f[3], "=>", i(int64(oracle.GetTimeFromTS(a).Sub(oracle.GetTimeFromTS(b)))))
	case "gotime":
		ns := pi(f[2])
		emit("ar", "gotime", f[2], "=>", u(oracle.GoTimeToTS(time.Unix(0, ns))))
	}
}

// ---------------------------------------------------------------- class seq: one caller at a time
type seqCase struct {
	pdc  *scriptPD
	o    oracle.Oracle
	futs map[string]oracle.Future
	t0   time.Time
}

var sc *seqCase

func execSeq(f []string) {
	op := f[1]
	opt := func(s string) *oracle.Option { return &oracle.Option{TxnScope: scopes[pn(s)]} }
	ctx := context.Background()
	switch op {
	case "begin": // id enabled initpd
		if sc != nil && sc.o != nil {
			sc.o.Close()
		}
		sc = &seqCase{pdc: &scriptPD{}, futs: map[string]oracle.Future{}, t0: time.Now()}
		oracles.EnableTSValidation.Store(f[3] == "1")
		sc.pdc.queue = []pdres{parsePD(f[4])}
		o, err := oracles.NewPdOracle(sc.pdc, &oracles.PDOracleOptions{UpdateInterval: time.Hour, NoUpdateTS: true})
		sc.o = o
		emit("seq", "begin", f[2], f[3], f[4], "=>", b01(err == nil))
	case "G": // scope pd
		if sc.o == nil {
			return
		}
		sc.pdc.queue = []pdres{parsePD(f[3])}
		ts, err := sc.o.GetTimestamp(ctx, opt(f[2]))
		emit("seq", "G", f[2], f[3], "=>", tsres(ts, err))
	case "A": // fid scope pd
		if sc.o == nil {
			return
		}
		sc.pdc.queue = []pdres{parsePD(f[4])}
		sc.futs[f[2]] = sc.o.GetTimestampAsync(ctx, opt(f[3]))
		emit("seq", "A", f[2], f[3], f[4], "=>")
	case "W": // fid
		if sc.o == nil || sc.futs[f[2]] == nil {
			return
		}
		ts, err := sc.futs[f[2]].Wait()
		delete(sc.futs, f[2])
		emit("seq", "W", f[2], "=>", tsres(ts, err))
	case "L", "LA": // scope
		if sc.o == nil {
			return
		}
		var ts uint64
		var err error
		if op == "L" {
			ts, err = sc.o.GetLowResolutionTimestamp(ctx, opt(f[2]))
		} else {
			ts, err = sc.o.GetLowResolutionTimestampAsync(ctx, opt(f[2])).Wait()
		}
		emit("seq", op, f[2], "=>", tsres(ts, err))
	case "X": // scope lock ttl
		if sc.o == nil {
			return
		}
		lock, ttl := pu(f[3]), pu(f[4])
		e := sc.o.IsExpired(lock, ttl, opt(f[2]))
		un := sc.o.UntilExpired(lock, ttl, opt(f[2]))
		emit("seq", "X", f[2], f[3], f[4], "=>", b01(e), i(un))
	case "V": // scope read stale pd1 pd2
		if sc.o == nil {
			return
		}
		sc.pdc.queue = []pdres{parsePD(f[5]), parsePD(f[6])}
		before := sc.pdc.calls
		err := sc.o.ValidateReadTS(ctx, pu(f[3]), f[4] == "1", opt(f[2]))
		emit("seq", "V", f[2], f[3], f[4], f[5], f[6], "=>", voutcome(err), strconv.Itoa(sc.pdc.calls-before))
	case "S": // scope prev pd
		if sc.o == nil {
			return
		}
		sc.pdc.queue = []pdres{parsePD(f[4])}
		before := sc.pdc.calls
		lrBefore, lrErr := sc.o.GetLowResolutionTimestamp(ctx, opt(f[2]))
		ts, err := sc.o.GetStaleTimestamp(ctx, scopes[pn(f[2])], pu(f[3]))
		slack := time.Since(sc.t0).Milliseconds() + 2
		r := "ok " + u(ts)
		if err != nil {
			switch {
			case strings.Contains(err.Error(), "invalid prevSecond"):
				r = "errprev"
			case strings.Contains(err.Error(), "get stale timestamp fail"):
				r = "errscope"
			default:
				r = "errpd"
			}
		}
		emit("seq", "S", f[2], f[3], f[4], "=>", r, strconv.Itoa(sc.pdc.calls-before), i(slack), tsres(lrBefore, lrErr))
	case "M": // pd — GetAllTSOKeyspaceGroupMinTS is a pass-through of PD's GetMinTS
		if sc.o == nil {
			return
		}
		sc.pdc.queue = []pdres{parsePD(f[2])}
		ts, err := sc.o.GetAllTSOKeyspaceGroupMinTS(ctx)
		emit("seq", "M", f[2], "=>", tsres(ts, err))
	case "E": // ts — SetExternalTimestamp / GetExternalTimestamp are pass-throughs
		if sc.o == nil {
			return
		}
		err := sc.o.SetExternalTimestamp(ctx, pu(f[2]))
		g, gerr := sc.o.GetExternalTimestamp(ctx)
		emit("seq", "E", f[2], "=>", b01(err == nil), tsres(g, gerr))
	case "I": // ns
		if sc.o == nil {
			return
		}
		err := sc.o.SetLowResolutionTimestampUpdateInterval(time.Duration(pi(f[2])))
		emit("seq", "I", f[2], "=>", b01(err == nil))
	}
}
