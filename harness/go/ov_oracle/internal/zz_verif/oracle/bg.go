//go:build verif

package main

import (
	"context"
	"fmt"
	"github.com/tikv/client-go/v2/oracle"
	"github.com/tikv/client-go/v2/oracle/oracles"
	"math/rand"
	"runtime"
	"sort"
	"strconv"
	"strings"
	"sync"
	"sync/atomic"
	"time"
)

// ---------------------------------------------------------------- class bg: concurrent runs, property oracles only
type rec struct {
	inv, ret int64
	ts       uint64
}

func pline(name string, pass bool, detail ...string) {
	v := "pass"
	if !pass {
		v = "fail"
	}
	emit(append(append([]string{"P", name}, detail...), v)...)
}

// execBg: seed getters readers validators durationMs intervalUs
func execBg(f []string) {
	emit(append(append([]string{}, f...), "=>")...) // echo of the input line: the replayable case of the P lines below
	seed := pi(f[1])
	nget, nread, nval := pn(f[2]), pn(f[3]), pn(f[4])
	dur := time.Duration(pn(f[5])) * time.Millisecond
	interval := time.Duration(pn(f[6])) * time.Microsecond
	oracles.EnableTSValidation.Store(true)
	var clk atomic.Int64 // event counter = real-time order witness
	var issuedMu sync.Mutex
	issuedSet := map[uint64]bool{}
	var maxIssued atomic.Uint64
	var lastPhys, lastLog int64
	pdc := &scriptPD{}
	pdc.counter = func() pdres { // called under pdc.mu: strictly increasing, physical follows the wall clock
		ph := time.Now().UnixMilli()
		if ph <= lastPhys {
			ph = lastPhys
			lastLog++
		} else {
			lastPhys, lastLog = ph, 0
		}
		ts := oracle.ComposeTS(ph, lastLog)
		issuedMu.Lock()
		issuedSet[ts] = true
		issuedMu.Unlock()
		maxIssued.Store(ts)
		return pdres{p: ph, l: lastLog}
	}
	o, err := oracles.NewPdOracle(pdc, &oracles.PDOracleOptions{UpdateInterval: interval})
	if err != nil {
		panic(err)
	}
	opt := &oracle.Option{TxnScope: "global"}
	ctx := context.Background()
	stop := make(chan struct{})
	var wg sync.WaitGroup
	var mu sync.Mutex
	var recs []rec
	fails := map[string]string{}
	fail := func(name, detail string) {
		mu.Lock()
		if _, ok := fails[name]; !ok {
			fails[name] = detail
		}
		mu.Unlock()
	}
	counts := map[string]*atomic.Int64{"get": {}, "read": {}, "val_acc": {}, "val_rej": {}, "val_issued": {}}
	for g := 0; g < nget; g++ {
		wg.Add(1)
		go func(g int) {
			defer wg.Done()
			r := rand.New(rand.NewSource(seed*1000 + int64(g)))
			var mine []rec
			for {
				select {
				case <-stop:
					mu.Lock()
					recs = append(recs, mine...)
					mu.Unlock()
					return
				default:
				}
				inv := clk.Add(1)
				var ts uint64
				var err error
				if r.Intn(2) == 0 {
					ts, err = o.GetTimestamp(ctx, opt)
				} else {
					fu := o.GetTimestampAsync(ctx, opt)
					if r.Intn(3) == 0 {
						runtime.Gosched()
					}
					ts, err = fu.Wait()
				}
				ret := clk.Add(1)
				if err == nil {
					mine = append(mine, rec{inv, ret, ts})
					counts["get"].Add(1)
					// the cached value has caught up with what this call returned
					lr, _ := o.GetLowResolutionTimestamp(ctx, opt)
					if lr < ts {
						fail("lowres_catches_up", fmt.Sprintf("lowres %x after GetTimestamp returned %x", lr, ts))
					}
				}
				if r.Intn(50) == 0 {
					_ = o.SetLowResolutionTimestampUpdateInterval(time.Duration(200+r.Intn(3000)) * time.Microsecond * time.Duration(1+999*r.Intn(2)))
				}
				if r.Intn(4) == 0 {
					time.Sleep(time.Duration(r.Intn(200)) * time.Microsecond)
				}
			}
		}(g)
	}
	for g := 0; g < nread; g++ {
		wg.Add(1)
		go func(g int) {
			defer wg.Done()
			var prev uint64
			for {
				select {
				case <-stop:
					return
				default:
				}
				lr, err := o.GetLowResolutionTimestamp(ctx, opt)
				mx := maxIssued.Load()
				if err != nil {
					fail("lowres_available", err.Error())
					continue
				}
				counts["read"].Add(1)
				if lr < prev {
					fail("lowres_monotone", fmt.Sprintf("%x after %x", lr, prev))
				}
				if lr > mx {
					fail("lowres_le_max_issued", fmt.Sprintf("%x > %x", lr, mx))
				}
				issuedMu.Lock()
				okIn := issuedSet[lr]
				issuedMu.Unlock()
				if !okIn {
					fail("lowres_in_issued", fmt.Sprintf("%x", lr))
				}
				prev = lr
				if g%2 == 0 {
					runtime.Gosched()
				}
			}
		}(g)
	}
	for g := 0; g < nval; g++ {
		wg.Add(1)
		go func(g int) {
			defer wg.Done()
			r := rand.New(rand.NewSource(seed*7777 + int64(g)))
			for {
				select {
				case <-stop:
					return
				default:
				}
				before := maxIssued.Load() // issued before the call begins
				var read uint64
				kind := r.Intn(4)
				switch kind {
				case 0:
					read = before
				case 1:
					read = before + uint64(1+r.Intn(3)) // may or may not have been issued by the time the call ends
				case 2:
					read = before + 1<<40 // far future: never issued
				case 3:
					read = before - uint64(r.Intn(1<<20))
				}
				err := o.ValidateReadTS(ctx, read, r.Intn(2) == 0, opt)
				after := maxIssued.Load()
				oc := voutcome(err)
				if read <= before {
					counts["val_issued"].Add(1)
					if oc != "accept" {
						fail("validate_accept_complete", fmt.Sprintf("read %x <= issued-before %x: %s", read, before, oc))
					}
				}
				if oc == "accept" {
					counts["val_acc"].Add(1)
					if read > after {
						fail("validate_reject_sound", fmt.Sprintf("accepted %x > max issued at return %x", read, after))
					}
				} else if strings.HasPrefix(oc, "reject") {
					counts["val_rej"].Add(1)
				} else {
					fail("validate_no_error", oc)
				}
				time.Sleep(time.Duration(r.Intn(300)) * time.Microsecond)
			}
		}(g)
	}
	time.Sleep(dur)
	close(stop)
	wg.Wait()
	o.Close()
	// real-time order: a returned before b was invoked  =>  ts(a) < ts(b)
	sort.Slice(recs, func(a, b int) bool { return recs[a].inv < recs[b].inv })
	byRet := append([]rec(nil), recs...)
	sort.Slice(byRet, func(a, b int) bool { return byRet[a].ret < byRet[b].ret })
	var maxRet uint64
	j := 0
	rtOK, pairs := true, 0
	detail := ""
	for _, b := range recs {
		for j < len(byRet) && byRet[j].ret < b.inv {
			if byRet[j].ts > maxRet {
				maxRet = byRet[j].ts
			}
			j++
		}
		if j > 0 {
			pairs++
			if maxRet >= b.ts && rtOK {
				rtOK = false
				detail = fmt.Sprintf("a call returning %x completed before the invocation of a call returning %x", maxRet, b.ts)
			}
		}
	}
	issuedMu.Lock()
	inIssued := true
	for _, r := range recs {
		if !issuedSet[r.ts] {
			inIssued = false
			detail += fmt.Sprintf(" returned %x never issued", r.ts)
		}
	}
	issuedMu.Unlock()
	pline("bg_realtime_strict", rtOK, f[1], strconv.Itoa(pairs), detail)
	pline("bg_returned_is_pd_value", inIssued, f[1], strconv.Itoa(len(recs)))
	for _, name := range []string{"lowres_catches_up", "lowres_available", "lowres_monotone", "lowres_le_max_issued", "lowres_in_issued", "validate_accept_complete", "validate_reject_sound", "validate_no_error"} {
		d, bad := fails[name]
		pline("bg_"+name, !bad, f[1], d)
	}
	emit("bg", "counts", f[1], "=>", fmt.Sprintf("get=%d read=%d val_acc=%d val_rej=%d val_issued=%d pairs=%d",
		counts["get"].Load(), counts["read"].Load(), counts["val_acc"].Load(), counts["val_rej"].Load(), counts["val_issued"].Load(), pairs))
}

// execSt: CAS stress on setLastTS: seed goroutines perG — monitor = the invariant of C13_lastts_monotone
func execSt(f []string) {
	emit(append(append([]string{}, f...), "=>")...) // echo of the input line: the replayable case of the P lines below
	seed, ng, per := pi(f[1]), pn(f[2]), pn(f[3])
	pdc := &scriptPD{}
	base := uint64(1) << 40
	pdc.queue = []pdres{{p: oracle.ExtractPhysical(base), l: 0}}
	o, err := oracles.NewPdOracle(pdc, &oracles.PDOracleOptions{UpdateInterval: time.Hour, NoUpdateTS: true})
	if err != nil {
		panic(err)
	}
	opt := &oracle.Option{TxnScope: "global"}
	// directed: a published record whose arrival is later than the next caller's clock reading (the caller was
	// descheduled between time.Now() and the CAS): the newer timestamp must keep the later arrival
	{
		late := time.Now().Add(time.Hour)
		oracles.VerifStoreLast(o, base, late)
		oracles.VerifSetLastTS(o, base+1, "global")
		a1, _ := oracles.VerifLastArrival(o, "global")
		oracles.VerifSetLastTS(o, base, "global") // older ts: record untouched
		a2, _ := oracles.VerifLastArrival(o, "global")
		lr, _ := o.GetLowResolutionTimestamp(context.Background(), opt)
		pline("arrival_never_goes_back", !a1.Before(late) && a2.Equal(a1) && lr == base+1, f[1], fmt.Sprint(a1.Sub(late)))
		oracles.VerifStoreLast(o, base, time.Now())
	}
	vals := make([][]uint64, ng)
	set := map[uint64]bool{base: true}
	var mx uint64 = base
	r := rand.New(rand.NewSource(seed))
	for g := range vals {
		for k := 0; k < per; k++ {
			v := base + uint64(r.Intn(ng*per*2))
			vals[g] = append(vals[g], v)
			set[v] = true
			if v > mx {
				mx = v
			}
		}
	}
	var wg sync.WaitGroup
	stop := make(chan struct{})
	var bad atomic.Value
	var reads atomic.Int64
	var mwg sync.WaitGroup
	for m := 0; m < 2; m++ {
		mwg.Add(1)
		go func() {
			defer mwg.Done()
			var prev uint64
			var prevArr time.Time
			for {
				if a, ok := oracles.VerifLastArrival(o, "global"); ok {
					if a.Before(prevArr) || a.After(time.Now()) {
						bad.Store(fmt.Sprintf("arrival went back or lies in the future: %v after %v", a, prevArr))
					}
					prevArr = a
				}
				lr, err := o.GetLowResolutionTimestamp(context.Background(), opt)
				if err != nil || lr < prev || !set[lr] {
					bad.Store(fmt.Sprintf("lowres %x after %x (err %v, member %v)", lr, prev, err, set[lr]))
				}
				prev = lr
				reads.Add(1)
				select {
				case <-stop:
					return
				default:
				}
			}
		}()
	}
	for g := 0; g < ng; g++ {
		wg.Add(1)
		go func(g int) {
			defer wg.Done()
			for _, v := range vals[g] {
				oracles.VerifSetLastTS(o, v, []string{"", "global"}[g%2])
				lr, _ := o.GetLowResolutionTimestamp(context.Background(), opt)
				if lr < v {
					bad.Store(fmt.Sprintf("lowres %x right after setLastTS(%x)", lr, v))
				}
			}
		}(g)
	}
	wg.Wait()
	close(stop)
	mwg.Wait()
	final, _ := o.GetLowResolutionTimestamp(context.Background(), opt)
	b, _ := bad.Load().(string)
	pline("st_invariant", b == "", f[1], b)
	pline("st_final_is_max", final == mx, f[1], u(final), u(mx))
	emit("st", "counts", f[1], "=>", fmt.Sprintf("sets=%d reads=%d", ng*per, reads.Load()))
	o.Close()
}

// execMo: MockOracle — strictly increasing, expiry answers far from the boundary
func execMo(f []string) {
	emit(append(append([]string{}, f...), "=>")...) // echo of the input line: the replayable case of the P lines below
	n := pn(f[1])
	mo := &oracles.MockOracle{}
	var prev uint64
	ok := true
	for k := 0; k < n; k++ {
		ts, err := mo.GetTimestamp(context.Background(), &oracle.Option{})
		if err != nil || ts <= prev {
			ok = false
		}
		prev = ts
		if k%7 == 0 {
			mo.AddOffset(time.Millisecond)
		}
	}
	pline("mock_strictly_increasing", ok, f[1])
	now := oracle.GoTimeToTS(time.Now())
	hour := uint64(3600*1000) << 18
	cons := true
	for _, c := range []struct {
		lock, ttl uint64
		exp       bool
	}{{now - hour, 1000, true}, {now - hour, 0, true}, {now + hour, 1000, false}, {now, 3600 * 1000, false}, {now - 2*hour, 3600 * 1000, true}} {
		e := mo.IsExpired(c.lock, c.ttl, &oracle.Option{})
		un := mo.UntilExpired(c.lock, c.ttl, &oracle.Option{})
		if e != c.exp || (un <= 0) != c.exp {
			cons = false
		}
	}
	pline("mock_expiry_consistent", cons, f[1])
	// local / mock oracle under concurrency: real-time order of returns (a call that returned before another was
	// invoked returned a smaller ts), all values distinct; external timestamp never decreases, never beyond the oracle
	for name, mk := range map[string]func() oracle.Oracle{"local": oracles.NewLocalOracle, "mock": func() oracle.Oracle { return &oracles.MockOracle{} }} {
		oc := mk()
		var clk atomic.Int64
		var mu sync.Mutex
		var recs []rec
		var wg sync.WaitGroup
		var extBad atomic.Value
		stop := make(chan struct{})
		var rwg sync.WaitGroup
		rwg.Add(1)
		go func() {
			defer rwg.Done()
			var prev uint64
			for {
				e, _ := oc.GetExternalTimestamp(context.Background())
				if e < prev {
					extBad.Store(fmt.Sprintf("external ts %x after %x", e, prev))
				}
				prev = e
				select {
				case <-stop:
					return
				default:
					runtime.Gosched()
				}
			}
		}()
		for g := 0; g < 6; g++ {
			wg.Add(1)
			go func(g int) {
				defer wg.Done()
				var mine []rec
				for k := 0; k < n; k++ {
					inv := clk.Add(1)
					var ts uint64
					var err error
					switch k % 3 {
					case 0:
						ts, err = oc.GetTimestamp(context.Background(), &oracle.Option{})
					case 1:
						ts, err = oc.GetTimestampAsync(context.Background(), &oracle.Option{}).Wait()
					default:
						ts, err = oc.GetLowResolutionTimestamp(context.Background(), &oracle.Option{})
					}
					ret := clk.Add(1)
					if err == nil {
						mine = append(mine, rec{inv, ret, ts})
					}
					if k%11 == 0 {
						// an external ts taken from an earlier result is accepted or refused as "cannot decrease"; a future one is refused
						if e := oc.SetExternalTimestamp(context.Background(), ts+uint64(1)<<40); e == nil {
							extBad.Store(fmt.Sprintf("external ts beyond the oracle accepted: %x", ts+uint64(1)<<40))
						}
						_ = oc.SetExternalTimestamp(context.Background(), ts)
					}
				}
				mu.Lock()
				recs = append(recs, mine...)
				mu.Unlock()
			}(g)
		}
		wg.Wait()
		close(stop)
		rwg.Wait()
		sort.Slice(recs, func(a, b int) bool { return recs[a].inv < recs[b].inv })
		byRet := append([]rec(nil), recs...)
		sort.Slice(byRet, func(a, b int) bool { return byRet[a].ret < byRet[b].ret })
		var maxRet uint64
		j, okRT, detail := 0, true, ""
		seen := map[uint64]bool{}
		for _, b := range recs {
			for j < len(byRet) && byRet[j].ret < b.inv {
				if byRet[j].ts > maxRet {
					maxRet = byRet[j].ts
				}
				j++
			}
			if j > 0 && maxRet >= b.ts && okRT {
				okRT, detail = false, fmt.Sprintf("a call returning %x completed before the invocation of a call returning %x", maxRet, b.ts)
			}
			if seen[b.ts] && okRT {
				okRT, detail = false, fmt.Sprintf("timestamp %x returned twice", b.ts)
			}
			seen[b.ts] = true
		}
		pline(name+"_realtime_strict_concurrent", okRT, f[1], strconv.Itoa(len(recs)), detail)
		eb, _ := extBad.Load().(string)
		pline(name+"_external_ts_monotone", eb == "", f[1], eb)
	}
}
