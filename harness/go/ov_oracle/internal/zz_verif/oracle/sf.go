//go:build verif

package main

import (
	"context"
	"github.com/tikv/client-go/v2/oracle"
	"github.com/tikv/client-go/v2/oracle/oracles"
	"runtime"
	"strconv"
	"strings"
	"sync"
	"time"
)

// ---------------------------------------------------------------- class sf: concurrent validators, gated PD
type sfCase struct {
	pdc       *scriptPD
	o         oracle.Oracle
	k         int64
	base      uint64
	stride    uint64
	mu        sync.Mutex
	res       map[int]string
	spawned   int
	cancels   map[int]context.CancelFunc
	blockedOn map[int]bool // threads known blocked on the current flight
	cancelled int          // cancelled while blocked on the current flight
	scope     string       // "global" (seeded by the constructor) or a never-used txn scope (mode suffix f)
}

var sf *sfCase
var sfBroken bool // a quiescence wait timed out: the remaining sf steps are not executed

func (c *sfCase) pdAt(k int64) uint64 { return c.base + uint64(k)*c.stride }
func (c *sfCase) finished() int       { c.mu.Lock(); defer c.mu.Unlock(); return len(c.res) }
func (c *sfCase) quiesce() bool {
	deadline := time.Now().Add(5 * time.Second)
	for n := 0; ; n++ {
		fin := c.finished()
		np := c.pdc.npending()
		present, dups := oracles.VerifFlightDups(c.o, c.scope)
		blocked := 0
		if present && np > 0 {
			blocked = 1 + dups - c.cancelled
		}
		if !present && np == 0 && fin == c.spawned {
			return true
		}
		if present && np > 0 && fin+blocked == c.spawned {
			return true
		}
		if time.Now().After(deadline) {
			return false
		}
		if n < 200 {
			runtime.Gosched()
		} else {
			time.Sleep(50 * time.Microsecond)
		}
	}
}
func (c *sfCase) state() []string {
	c.mu.Lock()
	defer c.mu.Unlock()
	var r []string
	for t := 0; t < c.spawned; t++ {
		if s, ok := c.res[t]; ok {
			r = append(r, s)
		} else {
			r = append(r, "blocked")
		}
	}
	lr, err := c.o.GetLowResolutionTimestamp(context.Background(), &oracle.Option{TxnScope: c.scope})
	c.pdc.mu.Lock()
	k, aborts := c.k, c.pdc.ctxAborts
	c.pdc.mu.Unlock()
	// 4th field: PD requests abandoned because the context they were issued under was cancelled
	return []string{strings.Join(r, ";"), tsres(lr, err), strconv.FormatInt(k, 10), strconv.Itoa(aborts)}
}
func execSf(f []string) {
	op := f[1]
	if sfBroken && op != "begin" {
		emit("sf", op, "=>", "timeout", "-", "0", "0")
		return
	}
	fin := func(in ...string) {
		ok := sf.quiesce()
		st := sf.state()
		if !ok {
			st = []string{"timeout", "-", "0", "0"}
			sfBroken = true
		}
		emit(append(append(append([]string{"sf"}, in...), "=>"), st...)...)
	}
	switch op {
	case "begin": // id mode base stride
		if sfBroken {
			emit(append([]string{"sf"}, append(f[1:], "=>")...)...)
			return
		}
		if sf != nil && sf.o != nil {
			sf.o.Close()
		}
		oracles.EnableTSValidation.Store(true)
		sf = &sfCase{pdc: &scriptPD{}, base: pu(f[4]), stride: pu(f[5]), res: map[int]string{}, cancels: map[int]context.CancelFunc{}, scope: "global"}
		c := sf
		if strings.HasSuffix(f[3], "f") {
			c.scope = "sfz" // a txn scope nobody has used: no cached timestamp yet
		}
		c.pdc.assignAtEntry = strings.HasPrefix(f[3], "E")
		c.pdc.counter = func() pdres {
			ts := c.pdAt(c.k)
			c.k++
			return pdres{p: oracle.ExtractPhysical(ts), l: oracle.ExtractLogical(ts)}
		}
		o, err := oracles.NewPdOracle(c.pdc, &oracles.PDOracleOptions{UpdateInterval: time.Hour, NoUpdateTS: true})
		if err != nil {
			panic(err)
		}
		c.o = o
		c.pdc.mu.Lock()
		c.pdc.gated = true
		c.pdc.mu.Unlock()
		emit(append([]string{"sf"}, append(f[1:], "=>")...)...)
	case "issue":
		sf.pdc.mu.Lock()
		sf.pdc.nextLocked()
		sf.pdc.mu.Unlock()
		fin("issue")
	case "publish":
		_, err := sf.o.GetTimestampAsync(context.Background(), &oracle.Option{TxnScope: sf.scope}).Wait()
		if err != nil {
			panic(err)
		}
		fin("publish")
	case "spawn": // t read stale
		t := sf.spawned
		sf.spawned++
		ctx, cancel := context.WithCancel(context.Background())
		sf.cancels[t] = cancel
		read, stale := pu(f[3]), f[4] == "1"
		c := sf
		go func() {
			err := c.o.ValidateReadTS(ctx, read, stale, &oracle.Option{TxnScope: c.scope})
			c.mu.Lock()
			c.res[t] = voutcome(err)
			c.mu.Unlock()
		}()
		fin("spawn", strconv.Itoa(t), f[3], f[4])
	case "release": // ok|err
		if !sf.pdc.release(f[2] == "err") {
			return
		}
		sf.cancelled = 0
		fin("release", f[2])
	case "cancel": // t
		t := pn(f[2])
		sf.mu.Lock()
		_, done := sf.res[t]
		sf.mu.Unlock()
		if done || t >= sf.spawned {
			return
		}
		sf.cancels[t]()
		// the thread is blocked on the current flight (quiescent state): wait for it to return
		for d := time.Now().Add(10 * time.Second); time.Now().Before(d); {
			sf.mu.Lock()
			_, done = sf.res[t]
			sf.mu.Unlock()
			if done {
				break
			}
			runtime.Gosched()
		}
		sf.cancelled++
		fin("cancel", f[2])
	case "end":
		// let every blocked validator finish so that no goroutine outlives the case
		for sf.pdc.npending() > 0 {
			sf.pdc.release(false)
			sf.cancelled = 0
			sf.quiesce()
		}
		fin("end")
	}
}
