//go:build verif

// Driver for property C13 (timestamps). Generates cases (seeded), executes them against
// oracle, oracle/oracles and KVTxn.GetTimestampForCommit of the current tree with a scripted
// pd.Client, and prints one tab separated line per step:   <class> \t <op> \t args... \t => \t results...
// Lines starting with P are property-oracle verdicts evaluated here on the implementation.
// `oracle replay FILE` re-executes the input parts of the lines in FILE.
package main

import (
	"bufio"
	"context"
	"errors"
	"fmt"
	"math"
	"math/rand"
	"os"
	"runtime"
	"sort"
	"strconv"
	"strings"
	"sync"
	"sync/atomic"
	"time"

	"github.com/pingcap/log"
	tikverr "github.com/tikv/client-go/v2/error"
	"github.com/tikv/client-go/v2/oracle"
	"github.com/tikv/client-go/v2/oracle/oracles"
	"github.com/tikv/client-go/v2/txnkv/transaction"
	pd "github.com/tikv/pd/client"
	"github.com/tikv/pd/client/clients/tso"
	"github.com/tikv/pd/client/pkg/caller"
	"go.uber.org/zap"
)

var out *bufio.Writer

func emit(f ...string) { out.WriteString(strings.Join(f, "\t")); out.WriteByte('\n') }
func u(v uint64) string { return strconv.FormatUint(v, 16) }
func i(v int64) string {
	if v < 0 {
		return "-" + strconv.FormatUint(uint64(-v), 16)
	}
	return strconv.FormatUint(uint64(v), 16)
}
func pu(s string) uint64 {
	v, err := strconv.ParseUint(s, 16, 64)
	if err != nil {
		panic(err)
	}
	return v
}
func pi(s string) int64 {
	if strings.HasPrefix(s, "-") {
		return int64(-pu(s[1:]))
	}
	return int64(pu(s))
}
func pn(s string) int { v, _ := strconv.Atoi(s); return v }

// ---------------------------------------------------------------- scripted PD
type pdres struct {
	p, l int64
	err  bool
}

func (r pdres) String() string {
	if r.err {
		return "err"
	}
	return i(r.p) + "," + i(r.l)
}
func parsePD(s string) pdres {
	if s == "err" {
		return pdres{err: true}
	}
	f := strings.Split(s, ",")
	return pdres{p: pi(f[0]), l: pi(f[1])}
}

type pending struct {
	r        pdres
	assigned bool
	ch       chan struct{}
}

var errPD = errors.New("scripted pd failure")

type scriptPD struct {
	pd.Client
	mu            sync.Mutex
	queue         []pdres         // answers for the next calls (seq class)
	counter       func() pdres    // or a generator (sf/bg classes)
	gated         bool            // GetTS blocks until release()
	assignAtEntry bool            // gated calls receive their value when they arrive (else at release)
	pend          []*pending
	calls         int
	ext           uint64 // external timestamp cell (pass-through)
	ctxAborts     int // gated requests abandoned because the caller's context was done
	exhausted     int
}

func (c *scriptPD) nextLocked() pdres {
	if c.counter != nil {
		return c.counter()
	}
	if len(c.queue) == 0 {
		c.exhausted++
		return pdres{err: true}
	}
	r := c.queue[0]
	c.queue = c.queue[1:]
	return r
}
func (c *scriptPD) WithCallerComponent(caller.Component) pd.Client { return c }
func (c *scriptPD) GetTS(ctx context.Context) (int64, int64, error) {
	if err := ctx.Err(); err != nil {
		return 0, 0, err
	}
	c.mu.Lock()
	c.calls++
	if !c.gated {
		r := c.nextLocked()
		c.mu.Unlock()
		if r.err {
			return 0, 0, errPD
		}
		return r.p, r.l, nil
	}
	pc := &pending{ch: make(chan struct{})}
	if c.assignAtEntry {
		pc.r, pc.assigned = c.nextLocked(), true
	}
	c.pend = append(c.pend, pc)
	c.mu.Unlock()
	// like the real client, a gated request is abandoned when the caller's context is done
	select {
	case <-pc.ch:
	case <-ctx.Done():
		c.mu.Lock()
		abandoned := false
		for k, x := range c.pend {
			if x == pc {
				c.pend = append(c.pend[:k], c.pend[k+1:]...)
				abandoned = true
				break
			}
		}
		c.ctxAborts++
		c.mu.Unlock()
		if abandoned {
			return 0, 0, ctx.Err()
		}
		<-pc.ch // released concurrently: the answer is there
	}
	if pc.r.err {
		return 0, 0, errPD
	}
	return pc.r.p, pc.r.l, nil
}
// pass-throughs: GetMinTS answers from the queue like GetTS; the external timestamp is a plain cell
func (c *scriptPD) GetMinTS(ctx context.Context) (int64, int64, error) {
	c.mu.Lock()
	defer c.mu.Unlock()
	r := c.nextLocked()
	if r.err {
		return 0, 0, errPD
	}
	return r.p, r.l, nil
}
func (c *scriptPD) SetExternalTimestamp(ctx context.Context, ts uint64) error {
	c.mu.Lock()
	defer c.mu.Unlock()
	if ts == 0 {
		return errPD
	}
	c.ext = ts
	return nil
}
func (c *scriptPD) GetExternalTimestamp(ctx context.Context) (uint64, error) {
	c.mu.Lock()
	defer c.mu.Unlock()
	return c.ext, nil
}
func (c *scriptPD) npending() int { c.mu.Lock(); defer c.mu.Unlock(); return len(c.pend) }
func (c *scriptPD) release(fail bool) bool {
	c.mu.Lock()
	if len(c.pend) == 0 {
		c.mu.Unlock()
		return false
	}
	pc := c.pend[0]
	c.pend = c.pend[1:]
	if !pc.assigned {
		pc.r = c.nextLocked()
	}
	if fail {
		pc.r.err = true
	}
	c.mu.Unlock()
	close(pc.ch)
	return true
}

// releaseAll answers every gated request at the same instant; the answers of requests that have none yet are
// assigned in the permuted order perm (responses reach the callers in an order unrelated to PD's order).
func (c *scriptPD) releaseAll(r *rand.Rand) int {
	c.mu.Lock()
	ps := c.pend
	c.pend = nil
	r.Shuffle(len(ps), func(a, b int) { ps[a], ps[b] = ps[b], ps[a] })
	for _, pc := range ps {
		if !pc.assigned {
			pc.r, pc.assigned = c.nextLocked(), true
		}
	}
	c.mu.Unlock()
	r.Shuffle(len(ps), func(a, b int) { ps[a], ps[b] = ps[b], ps[a] })
	for _, pc := range ps {
		close(pc.ch)
	}
	return len(ps)
}

type scriptFut struct {
	r   pdres
	ctx context.Context
}

func (f *scriptFut) Wait() (int64, int64, error) {
	if err := f.ctx.Err(); err != nil {
		return 0, 0, err
	}
	if f.r.err {
		return 0, 0, errPD
	}
	return f.r.p, f.r.l, nil
}
func (c *scriptPD) GetTSAsync(ctx context.Context) tso.TSFuture {
	c.mu.Lock()
	defer c.mu.Unlock()
	c.calls++
	return &scriptFut{c.nextLocked(), ctx}
}

// ---------------------------------------------------------------- helpers
var scopes = []string{"", "global", "dc1", "dc2"}

func tsres(ts uint64, err error) string {
	if err != nil {
		return "err"
	}
	return "ok " + u(ts)
}
func voutcome(err error) string {
	if err == nil {
		return "accept"
	}
	var f oracle.ErrFutureTSRead
	if errors.As(err, &f) {
		return "reject " + u(f.CurrentTS)
	}
	var l oracle.ErrLatestStaleRead
	if errors.As(err, &l) {
		return "errlatest"
	}
	m := err.Error()
	switch {
	case strings.Contains(m, "MaxInt64 <= readTS"):
		return "errrange"
	case strings.Contains(m, "fail to validate"):
		return "errpd"
	case strings.Contains(m, "context canceled"):
		return "errctx"
	}
	return "errother " + strings.ReplaceAll(m, "\t", " ")
}
func b01(b bool) string {
	if b {
		return "1"
	}
	return "0"
}

// ---------------------------------------------------------------- class ar: arithmetic
func execAr(f []string) {
	switch f[1] {
	case "compose":
		p, l := pi(f[2]), pi(f[3])
		ts := oracle.ComposeTS(p, l)
		emit("ar", "compose", f[2], f[3], "=>", u(ts), i(oracle.ExtractPhysical(ts)), i(oracle.ExtractLogical(ts)))
	case "ext":
		ts := pu(f[2])
		emit("ar", "ext", f[2], "=>", i(oracle.ExtractPhysical(ts)), i(oracle.ExtractLogical(ts)))
	case "tsub":
		a, b := pu(f[2]), pu(f[3])
		emit("ar", "tsub", f[2], f[3], "=>", i(int64(oracle.GetTimeFromTS(a).Sub(oracle.GetTimeFromTS(b)))))
	case "gotime":
		ns := pi(f[2])
		emit("ar", "gotime", f[2], "=>", u(oracle.GoTimeToTS(time.Unix(0, ns))))
	}
}

// ---------------------------------------------------------------- class seq: one caller at a time
type seqCase struct {
	pdc  *scriptPD
	o    oracle.Oracle
	futs map[string]oracle.Future
	t0   time.Time
}

var sc *seqCase

func execSeq(f []string) {
	op := f[1]
	opt := func(s string) *oracle.Option { return &oracle.Option{TxnScope: scopes[pn(s)]} }
	ctx := context.Background()
	switch op {
	case "begin": // id enabled initpd
		if sc != nil && sc.o != nil {
			sc.o.Close()
		}
		sc = &seqCase{pdc: &scriptPD{}, futs: map[string]oracle.Future{}, t0: time.Now()}
		oracles.EnableTSValidation.Store(f[3] == "1")
		sc.pdc.queue = []pdres{parsePD(f[4])}
		o, err := oracles.NewPdOracle(sc.pdc, &oracles.PDOracleOptions{UpdateInterval: time.Hour, NoUpdateTS: true})
		sc.o = o
		emit("seq", "begin", f[2], f[3], f[4], "=>", b01(err == nil))
	case "G": // scope pd
		if sc.o == nil {
			return
		}
		sc.pdc.queue = []pdres{parsePD(f[3])}
		ts, err := sc.o.GetTimestamp(ctx, opt(f[2]))
		emit("seq", "G", f[2], f[3], "=>", tsres(ts, err))
	case "A": // fid scope pd
		if sc.o == nil {
			return
		}
		sc.pdc.queue = []pdres{parsePD(f[4])}
		sc.futs[f[2]] = sc.o.GetTimestampAsync(ctx, opt(f[3]))
		emit("seq", "A", f[2], f[3], f[4], "=>")
	case "W": // fid
		if sc.o == nil || sc.futs[f[2]] == nil {
			return
		}
		ts, err := sc.futs[f[2]].Wait()
		delete(sc.futs, f[2])
		emit("seq", "W", f[2], "=>", tsres(ts, err))
	case "L", "LA": // scope
		if sc.o == nil {
			return
		}
		var ts uint64
		var err error
		if op == "L" {
			ts, err = sc.o.GetLowResolutionTimestamp(ctx, opt(f[2]))
		} else {
			ts, err = sc.o.GetLowResolutionTimestampAsync(ctx, opt(f[2])).Wait()
		}
		emit("seq", op, f[2], "=>", tsres(ts, err))
	case "X": // scope lock ttl
		if sc.o == nil {
			return
		}
		lock, ttl := pu(f[3]), pu(f[4])
		e := sc.o.IsExpired(lock, ttl, opt(f[2]))
		un := sc.o.UntilExpired(lock, ttl, opt(f[2]))
		emit("seq", "X", f[2], f[3], f[4], "=>", b01(e), i(un))
	case "V": // scope read stale pd1 pd2
		if sc.o == nil {
			return
		}
		sc.pdc.queue = []pdres{parsePD(f[5]), parsePD(f[6])}
		before := sc.pdc.calls
		err := sc.o.ValidateReadTS(ctx, pu(f[3]), f[4] == "1", opt(f[2]))
		emit("seq", "V", f[2], f[3], f[4], f[5], f[6], "=>", voutcome(err), strconv.Itoa(sc.pdc.calls-before))
	case "S": // scope prev pd
		if sc.o == nil {
			return
		}
		sc.pdc.queue = []pdres{parsePD(f[4])}
		before := sc.pdc.calls
		lrBefore, lrErr := sc.o.GetLowResolutionTimestamp(ctx, opt(f[2]))
		ts, err := sc.o.GetStaleTimestamp(ctx, scopes[pn(f[2])], pu(f[3]))
		slack := time.Since(sc.t0).Milliseconds() + 2
		r := "ok " + u(ts)
		if err != nil {
			switch {
			case strings.Contains(err.Error(), "invalid prevSecond"):
				r = "errprev"
			case strings.Contains(err.Error(), "get stale timestamp fail"):
				r = "errscope"
			default:
				r = "errpd"
			}
		}
		emit("seq", "S", f[2], f[3], f[4], "=>", r, strconv.Itoa(sc.pdc.calls-before), i(slack), tsres(lrBefore, lrErr))
	case "M": // pd — GetAllTSOKeyspaceGroupMinTS is a pass-through of PD's GetMinTS
		if sc.o == nil {
			return
		}
		sc.pdc.queue = []pdres{parsePD(f[2])}
		ts, err := sc.o.GetAllTSOKeyspaceGroupMinTS(ctx)
		emit("seq", "M", f[2], "=>", tsres(ts, err))
	case "E": // ts — SetExternalTimestamp / GetExternalTimestamp are pass-throughs
		if sc.o == nil {
			return
		}
		err := sc.o.SetExternalTimestamp(ctx, pu(f[2]))
		g, gerr := sc.o.GetExternalTimestamp(ctx)
		emit("seq", "E", f[2], "=>", b01(err == nil), tsres(g, gerr))
	case "I": // ns
		if sc.o == nil {
			return
		}
		err := sc.o.SetLowResolutionTimestampUpdateInterval(time.Duration(pi(f[2])))
		emit("seq", "I", f[2], "=>", b01(err == nil))
	}
}

// ---------------------------------------------------------------- class sf: concurrent validators, gated PD
type sfCase struct {
	pdc       *scriptPD
	o         oracle.Oracle
	k         int64
	base      uint64
	stride    uint64
	mu        sync.Mutex
	res       map[int]string
	spawned   int
	cancels   map[int]context.CancelFunc
	blockedOn map[int]bool // threads known blocked on the current flight
	cancelled int          // cancelled while blocked on the current flight
}

var sf *sfCase
var sfBroken bool // a quiescence wait timed out: the remaining sf steps are not executed

func (c *sfCase) pdAt(k int64) uint64 { return c.base + uint64(k)*c.stride }
func (c *sfCase) finished() int      { c.mu.Lock(); defer c.mu.Unlock(); return len(c.res) }
func (c *sfCase) quiesce() bool {
	deadline := time.Now().Add(5 * time.Second)
	for n := 0; ; n++ {
		fin := c.finished()
		np := c.pdc.npending()
		present, dups := oracles.VerifFlightDups(c.o, "global")
		blocked := 0
		if present && np > 0 {
			blocked = 1 + dups - c.cancelled
		}
		if !present && np == 0 && fin == c.spawned {
			return true
		}
		if present && np > 0 && fin+blocked == c.spawned {
			return true
		}
		if time.Now().After(deadline) {
			return false
		}
		if n < 200 {
			runtime.Gosched()
		} else {
			time.Sleep(50 * time.Microsecond)
		}
	}
}
func (c *sfCase) state() []string {
	c.mu.Lock()
	defer c.mu.Unlock()
	var r []string
	for t := 0; t < c.spawned; t++ {
		if s, ok := c.res[t]; ok {
			r = append(r, s)
		} else {
			r = append(r, "blocked")
		}
	}
	lr, err := c.o.GetLowResolutionTimestamp(context.Background(), &oracle.Option{TxnScope: "global"})
	c.pdc.mu.Lock()
	k, aborts := c.k, c.pdc.ctxAborts
	c.pdc.mu.Unlock()
	// 4th field: PD requests abandoned because the context they were issued under was cancelled
	return []string{strings.Join(r, ";"), tsres(lr, err), strconv.FormatInt(k, 10), strconv.Itoa(aborts)}
}
func execSf(f []string) {
	op := f[1]
	if sfBroken && op != "begin" {
		emit("sf", op, "=>", "timeout", "-", "0", "0")
		return
	}
	fin := func(in ...string) {
		ok := sf.quiesce()
		st := sf.state()
		if !ok {
			st = []string{"timeout", "-", "0", "0"}
			sfBroken = true
		}
		emit(append(append(append([]string{"sf"}, in...), "=>"), st...)...)
	}
	switch op {
	case "begin": // id mode base stride
		if sfBroken {
			emit(append([]string{"sf"}, append(f[1:], "=>")...)...)
			return
		}
		if sf != nil && sf.o != nil {
			sf.o.Close()
		}
		oracles.EnableTSValidation.Store(true)
		sf = &sfCase{pdc: &scriptPD{}, base: pu(f[4]), stride: pu(f[5]), res: map[int]string{}, cancels: map[int]context.CancelFunc{}}
		c := sf
		c.pdc.assignAtEntry = f[3] == "E"
		c.pdc.counter = func() pdres {
			ts := c.pdAt(c.k)
			c.k++
			return pdres{p: oracle.ExtractPhysical(ts), l: oracle.ExtractLogical(ts)}
		}
		o, err := oracles.NewPdOracle(c.pdc, &oracles.PDOracleOptions{UpdateInterval: time.Hour, NoUpdateTS: true})
		if err != nil {
			panic(err)
		}
		c.o = o
		c.pdc.mu.Lock()
		c.pdc.gated = true
		c.pdc.mu.Unlock()
		emit(append([]string{"sf"}, append(f[1:], "=>")...)...)
	case "issue":
		sf.pdc.mu.Lock()
		sf.pdc.nextLocked()
		sf.pdc.mu.Unlock()
		fin("issue")
	case "publish":
		_, err := sf.o.GetTimestampAsync(context.Background(), &oracle.Option{TxnScope: "global"}).Wait()
		if err != nil {
			panic(err)
		}
		fin("publish")
	case "spawn": // t read stale
		t := sf.spawned
		sf.spawned++
		ctx, cancel := context.WithCancel(context.Background())
		sf.cancels[t] = cancel
		read, stale := pu(f[3]), f[4] == "1"
		c := sf
		go func() {
			err := c.o.ValidateReadTS(ctx, read, stale, &oracle.Option{TxnScope: "global"})
			c.mu.Lock()
			c.res[t] = voutcome(err)
			c.mu.Unlock()
		}()
		fin("spawn", strconv.Itoa(t), f[3], f[4])
	case "release": // ok|err
		if !sf.pdc.release(f[2] == "err") {
			return
		}
		sf.cancelled = 0
		fin("release", f[2])
	case "cancel": // t
		t := pn(f[2])
		sf.mu.Lock()
		_, done := sf.res[t]
		sf.mu.Unlock()
		if done || t >= sf.spawned {
			return
		}
		sf.cancels[t]()
		// the thread is blocked on the current flight (quiescent state): wait for it to return
		for d := time.Now().Add(10 * time.Second); time.Now().Before(d); {
			sf.mu.Lock()
			_, done = sf.res[t]
			sf.mu.Unlock()
			if done {
				break
			}
			runtime.Gosched()
		}
		sf.cancelled++
		fin("cancel", f[2])
	case "end":
		// let every blocked validator finish so that no goroutine outlives the case
		for sf.pdc.npending() > 0 {
			sf.pdc.release(false)
			sf.cancelled = 0
			sf.quiesce()
		}
		fin("end")
	}
}

// ---------------------------------------------------------------- class cw: commit wait
func execCw(f []string) { // registrations(comma list) timeout_ns script
	var regs []uint64
	for _, x := range strings.Split(f[1], ",") {
		regs = append(regs, pu(x))
	}
	to := pi(f[2])
	var script []string
	if f[3] != "-" {
		script = strings.Split(f[3], ",")
	}
	idx := 0
	fn := func() (uint64, error) {
		if idx >= len(script) {
			idx++
			return 0, errors.New("script exhausted")
		}
		s := script[idx]
		idx++
		if s == "err" {
			return 0, errors.New("pd error")
		}
		return pu(s), nil
	}
	ts, err, lag, calls, eff := transaction.VerifCommitWait(fn, regs, time.Duration(to))
	r := "ok " + u(ts)
	if err != nil {
		r = "errother"
		if lag {
			r = "errlag"
		}
	}
	emit("cw", f[1], f[2], f[3], "=>", r, strconv.Itoa(calls), u(eff))
	_ = tikverr.ErrCommitTSLag
}

// ---------------------------------------------------------------- class lo: local oracle with a fixed clock
var lo oracle.Oracle

func execLo(f []string) {
	switch f[1] {
	case "begin":
		lo = oracles.NewLocalOracle()
		emit("lo", "begin", "=>")
	case "G": // now_ns
		oracles.VerifSetLocalHook(lo, time.Unix(0, pi(f[2])))
		ts, err := lo.GetTimestamp(context.Background(), &oracle.Option{})
		emit("lo", "G", f[2], "=>", tsres(ts, err))
	case "X": // now_ns lock ttl
		oracles.VerifSetLocalHook(lo, time.Unix(0, pi(f[2])))
		lock, ttl := pu(f[3]), pu(f[4])
		emit("lo", "X", f[2], f[3], f[4], "=>", b01(lo.IsExpired(lock, ttl, &oracle.Option{})), i(lo.UntilExpired(lock, ttl, &oracle.Option{})))
	}
}

// ---------------------------------------------------------------- class bg: concurrent runs, property oracles only
type rec struct {
	inv, ret int64
	ts       uint64
}

func pline(name string, pass bool, detail ...string) {
	v := "pass"
	if !pass {
		v = "fail"
	}
	emit(append(append([]string{"P", name}, detail...), v)...)
}

// execBg: seed getters readers validators durationMs intervalUs
func execBg(f []string) {
	emit(append(append([]string{}, f...), "=>")...) // echo of the input line: the replayable case of the P lines below
	seed := pi(f[1])
	nget, nread, nval := pn(f[2]), pn(f[3]), pn(f[4])
	dur := time.Duration(pn(f[5])) * time.Millisecond
	interval := time.Duration(pn(f[6])) * time.Microsecond
	oracles.EnableTSValidation.Store(true)
	var clk atomic.Int64 // event counter = real-time order witness
	var issuedMu sync.Mutex
	issuedSet := map[uint64]bool{}
	var maxIssued atomic.Uint64
	var lastPhys, lastLog int64
	pdc := &scriptPD{}
	pdc.counter = func() pdres { // called under pdc.mu: strictly increasing, physical follows the wall clock
		ph := time.Now().UnixMilli()
		if ph <= lastPhys {
			ph = lastPhys
			lastLog++
		} else {
			lastPhys, lastLog = ph, 0
		}
		ts := oracle.ComposeTS(ph, lastLog)
		issuedMu.Lock()
		issuedSet[ts] = true
		issuedMu.Unlock()
		maxIssued.Store(ts)
		return pdres{p: ph, l: lastLog}
	}
	o, err := oracles.NewPdOracle(pdc, &oracles.PDOracleOptions{UpdateInterval: interval})
	if err != nil {
		panic(err)
	}
	opt := &oracle.Option{TxnScope: "global"}
	ctx := context.Background()
	stop := make(chan struct{})
	var wg sync.WaitGroup
	var mu sync.Mutex
	var recs []rec
	fails := map[string]string{}
	fail := func(name, detail string) {
		mu.Lock()
		if _, ok := fails[name]; !ok {
			fails[name] = detail
		}
		mu.Unlock()
	}
	counts := map[string]*atomic.Int64{"get": {}, "read": {}, "val_acc": {}, "val_rej": {}, "val_issued": {}}
	for g := 0; g < nget; g++ {
		wg.Add(1)
		go func(g int) {
			defer wg.Done()
			r := rand.New(rand.NewSource(seed*1000 + int64(g)))
			var mine []rec
			for {
				select {
				case <-stop:
					mu.Lock()
					recs = append(recs, mine...)
					mu.Unlock()
					return
				default:
				}
				inv := clk.Add(1)
				var ts uint64
				var err error
				if r.Intn(2) == 0 {
					ts, err = o.GetTimestamp(ctx, opt)
				} else {
					fu := o.GetTimestampAsync(ctx, opt)
					if r.Intn(3) == 0 {
						runtime.Gosched()
					}
					ts, err = fu.Wait()
				}
				ret := clk.Add(1)
				if err == nil {
					mine = append(mine, rec{inv, ret, ts})
					counts["get"].Add(1)
					// the cached value has caught up with what this call returned
					lr, _ := o.GetLowResolutionTimestamp(ctx, opt)
					if lr < ts {
						fail("lowres_catches_up", fmt.Sprintf("lowres %x after GetTimestamp returned %x", lr, ts))
					}
				}
				if r.Intn(50) == 0 {
					_ = o.SetLowResolutionTimestampUpdateInterval(time.Duration(200+r.Intn(3000)) * time.Microsecond * time.Duration(1+999*r.Intn(2)))
				}
				if r.Intn(4) == 0 {
					time.Sleep(time.Duration(r.Intn(200)) * time.Microsecond)
				}
			}
		}(g)
	}
	for g := 0; g < nread; g++ {
		wg.Add(1)
		go func(g int) {
			defer wg.Done()
			var prev uint64
			for {
				select {
				case <-stop:
					return
				default:
				}
				lr, err := o.GetLowResolutionTimestamp(ctx, opt)
				mx := maxIssued.Load()
				if err != nil {
					fail("lowres_available", err.Error())
					continue
				}
				counts["read"].Add(1)
				if lr < prev {
					fail("lowres_monotone", fmt.Sprintf("%x after %x", lr, prev))
				}
				if lr > mx {
					fail("lowres_le_max_issued", fmt.Sprintf("%x > %x", lr, mx))
				}
				issuedMu.Lock()
				okIn := issuedSet[lr]
				issuedMu.Unlock()
				if !okIn {
					fail("lowres_in_issued", fmt.Sprintf("%x", lr))
				}
				prev = lr
				if g%2 == 0 {
					runtime.Gosched()
				}
			}
		}(g)
	}
	for g := 0; g < nval; g++ {
		wg.Add(1)
		go func(g int) {
			defer wg.Done()
			r := rand.New(rand.NewSource(seed*7777 + int64(g)))
			for {
				select {
				case <-stop:
					return
				default:
				}
				before := maxIssued.Load() // issued before the call begins
				var read uint64
				kind := r.Intn(4)
				switch kind {
				case 0:
					read = before
				case 1:
					read = before + uint64(1+r.Intn(3)) // may or may not have been issued by the time the call ends
				case 2:
					read = before + 1<<40 // far future: never issued
				case 3:
					read = before - uint64(r.Intn(1<<20))
				}
				err := o.ValidateReadTS(ctx, read, r.Intn(2) == 0, opt)
				after := maxIssued.Load()
				oc := voutcome(err)
				if read <= before {
					counts["val_issued"].Add(1)
					if oc != "accept" {
						fail("validate_accept_complete", fmt.Sprintf("read %x <= issued-before %x: %s", read, before, oc))
					}
				}
				if oc == "accept" {
					counts["val_acc"].Add(1)
					if read > after {
						fail("validate_reject_sound", fmt.Sprintf("accepted %x > max issued at return %x", read, after))
					}
				} else if strings.HasPrefix(oc, "reject") {
					counts["val_rej"].Add(1)
				} else {
					fail("validate_no_error", oc)
				}
				time.Sleep(time.Duration(r.Intn(300)) * time.Microsecond)
			}
		}(g)
	}
	time.Sleep(dur)
	close(stop)
	wg.Wait()
	o.Close()
	// real-time order: a returned before b was invoked  =>  ts(a) < ts(b)
	sort.Slice(recs, func(a, b int) bool { return recs[a].inv < recs[b].inv })
	byRet := append([]rec(nil), recs...)
	sort.Slice(byRet, func(a, b int) bool { return byRet[a].ret < byRet[b].ret })
	var maxRet uint64
	j := 0
	rtOK, pairs := true, 0
	detail := ""
	for _, b := range recs {
		for j < len(byRet) && byRet[j].ret < b.inv {
			if byRet[j].ts > maxRet {
				maxRet = byRet[j].ts
			}
			j++
		}
		if j > 0 {
			pairs++
			if maxRet >= b.ts && rtOK {
				rtOK = false
				detail = fmt.Sprintf("a call returning %x completed before the invocation of a call returning %x", maxRet, b.ts)
			}
		}
	}
	issuedMu.Lock()
	inIssued := true
	for _, r := range recs {
		if !issuedSet[r.ts] {
			inIssued = false
			detail += fmt.Sprintf(" returned %x never issued", r.ts)
		}
	}
	issuedMu.Unlock()
	pline("bg_realtime_strict", rtOK, f[1], strconv.Itoa(pairs), detail)
	pline("bg_returned_is_pd_value", inIssued, f[1], strconv.Itoa(len(recs)))
	for _, name := range []string{"lowres_catches_up", "lowres_available", "lowres_monotone", "lowres_le_max_issued", "lowres_in_issued", "validate_accept_complete", "validate_reject_sound", "validate_no_error"} {
		d, bad := fails[name]
		pline("bg_"+name, !bad, f[1], d)
	}
	emit("bg", "counts", f[1], "=>", fmt.Sprintf("get=%d read=%d val_acc=%d val_rej=%d val_issued=%d pairs=%d",
		counts["get"].Load(), counts["read"].Load(), counts["val_acc"].Load(), counts["val_rej"].Load(), counts["val_issued"].Load(), pairs))
}

// execSt: CAS stress on setLastTS: seed goroutines perG — monitor = the invariant of C13_lastts_monotone
func execSt(f []string) {
	emit(append(append([]string{}, f...), "=>")...) // echo of the input line: the replayable case of the P lines below
	seed, ng, per := pi(f[1]), pn(f[2]), pn(f[3])
	pdc := &scriptPD{}
	base := uint64(1) << 40
	pdc.queue = []pdres{{p: oracle.ExtractPhysical(base), l: 0}}
	o, err := oracles.NewPdOracle(pdc, &oracles.PDOracleOptions{UpdateInterval: time.Hour, NoUpdateTS: true})
	if err != nil {
		panic(err)
	}
	opt := &oracle.Option{TxnScope: "global"}
	// directed: a published record whose arrival is later than the next caller's clock reading (the caller was
	// descheduled between time.Now() and the CAS): the newer timestamp must keep the later arrival
	{
		late := time.Now().Add(time.Hour)
		oracles.VerifStoreLast(o, base, late)
		oracles.VerifSetLastTS(o, base+1, "global")
		a1, _ := oracles.VerifLastArrival(o, "global")
		oracles.VerifSetLastTS(o, base, "global") // older ts: record untouched
		a2, _ := oracles.VerifLastArrival(o, "global")
		lr, _ := o.GetLowResolutionTimestamp(context.Background(), opt)
		pline("arrival_never_goes_back", !a1.Before(late) && a2.Equal(a1) && lr == base+1, f[1], fmt.Sprint(a1.Sub(late)))
		oracles.VerifStoreLast(o, base, time.Now())
	}
	vals := make([][]uint64, ng)
	set := map[uint64]bool{base: true}
	var mx uint64 = base
	r := rand.New(rand.NewSource(seed))
	for g := range vals {
		for k := 0; k < per; k++ {
			v := base + uint64(r.Intn(ng*per*2))
			vals[g] = append(vals[g], v)
			set[v] = true
			if v > mx {
				mx = v
			}
		}
	}
	var wg sync.WaitGroup
	stop := make(chan struct{})
	var bad atomic.Value
	var reads atomic.Int64
	var mwg sync.WaitGroup
	for m := 0; m < 2; m++ {
		mwg.Add(1)
		go func() {
			defer mwg.Done()
			var prev uint64
			var prevArr time.Time
			for {
				if a, ok := oracles.VerifLastArrival(o, "global"); ok {
					if a.Before(prevArr) || a.After(time.Now()) {
						bad.Store(fmt.Sprintf("arrival went back or lies in the future: %v after %v", a, prevArr))
					}
					prevArr = a
				}
				lr, err := o.GetLowResolutionTimestamp(context.Background(), opt)
				if err != nil || lr < prev || !set[lr] {
					bad.Store(fmt.Sprintf("lowres %x after %x (err %v, member %v)", lr, prev, err, set[lr]))
				}
				prev = lr
				reads.Add(1)
				select {
				case <-stop:
					return
				default:
				}
			}
		}()
	}
	for g := 0; g < ng; g++ {
		wg.Add(1)
		go func(g int) {
			defer wg.Done()
			for _, v := range vals[g] {
				oracles.VerifSetLastTS(o, v, []string{"", "global"}[g%2])
				lr, _ := o.GetLowResolutionTimestamp(context.Background(), opt)
				if lr < v {
					bad.Store(fmt.Sprintf("lowres %x right after setLastTS(%x)", lr, v))
				}
			}
		}(g)
	}
	wg.Wait()
	close(stop)
	mwg.Wait()
	final, _ := o.GetLowResolutionTimestamp(context.Background(), opt)
	b, _ := bad.Load().(string)
	pline("st_invariant", b == "", f[1], b)
	pline("st_final_is_max", final == mx, f[1], u(final), u(mx))
	emit("st", "counts", f[1], "=>", fmt.Sprintf("sets=%d reads=%d", ng*per, reads.Load()))
	o.Close()
}

// execMo: MockOracle — strictly increasing, expiry answers far from the boundary
func execMo(f []string) {
	emit(append(append([]string{}, f...), "=>")...) // echo of the input line: the replayable case of the P lines below
	n := pn(f[1])
	mo := &oracles.MockOracle{}
	var prev uint64
	ok := true
	for k := 0; k < n; k++ {
		ts, err := mo.GetTimestamp(context.Background(), &oracle.Option{})
		if err != nil || ts <= prev {
			ok = false
		}
		prev = ts
		if k%7 == 0 {
			mo.AddOffset(time.Millisecond)
		}
	}
	pline("mock_strictly_increasing", ok, f[1])
	now := oracle.GoTimeToTS(time.Now())
	hour := uint64(3600*1000) << 18
	cons := true
	for _, c := range []struct {
		lock, ttl uint64
		exp       bool
	}{{now - hour, 1000, true}, {now - hour, 0, true}, {now + hour, 1000, false}, {now, 3600 * 1000, false}, {now - 2*hour, 3600 * 1000, true}} {
		e := mo.IsExpired(c.lock, c.ttl, &oracle.Option{})
		un := mo.UntilExpired(c.lock, c.ttl, &oracle.Option{})
		if e != c.exp || (un <= 0) != c.exp {
			cons = false
		}
	}
	pline("mock_expiry_consistent", cons, f[1])
	// local / mock oracle under concurrency: real-time order of returns (a call that returned before another was
	// invoked returned a smaller ts), all values distinct; external timestamp never decreases, never beyond the oracle
	for name, mk := range map[string]func() oracle.Oracle{"local": oracles.NewLocalOracle, "mock": func() oracle.Oracle { return &oracles.MockOracle{} }} {
		oc := mk()
		var clk atomic.Int64
		var mu sync.Mutex
		var recs []rec
		var wg sync.WaitGroup
		var extBad atomic.Value
		stop := make(chan struct{})
		var rwg sync.WaitGroup
		rwg.Add(1)
		go func() {
			defer rwg.Done()
			var prev uint64
			for {
				e, _ := oc.GetExternalTimestamp(context.Background())
				if e < prev {
					extBad.Store(fmt.Sprintf("external ts %x after %x", e, prev))
				}
				prev = e
				select {
				case <-stop:
					return
				default:
					runtime.Gosched()
				}
			}
		}()
		for g := 0; g < 6; g++ {
			wg.Add(1)
			go func(g int) {
				defer wg.Done()
				var mine []rec
				for k := 0; k < n; k++ {
					inv := clk.Add(1)
					var ts uint64
					var err error
					switch k % 3 {
					case 0:
						ts, err = oc.GetTimestamp(context.Background(), &oracle.Option{})
					case 1:
						ts, err = oc.GetTimestampAsync(context.Background(), &oracle.Option{}).Wait()
					default:
						ts, err = oc.GetLowResolutionTimestamp(context.Background(), &oracle.Option{})
					}
					ret := clk.Add(1)
					if err == nil {
						mine = append(mine, rec{inv, ret, ts})
					}
					if k%11 == 0 {
						// an external ts taken from an earlier result is accepted or refused as "cannot decrease"; a future one is refused
						if e := oc.SetExternalTimestamp(context.Background(), ts+uint64(1)<<40); e == nil {
							extBad.Store(fmt.Sprintf("external ts beyond the oracle accepted: %x", ts+uint64(1)<<40))
						}
						_ = oc.SetExternalTimestamp(context.Background(), ts)
					}
				}
				mu.Lock()
				recs = append(recs, mine...)
				mu.Unlock()
			}(g)
		}
		wg.Wait()
		close(stop)
		rwg.Wait()
		sort.Slice(recs, func(a, b int) bool { return recs[a].inv < recs[b].inv })
		byRet := append([]rec(nil), recs...)
		sort.Slice(byRet, func(a, b int) bool { return byRet[a].ret < byRet[b].ret })
		var maxRet uint64
		j, okRT, detail := 0, true, ""
		seen := map[uint64]bool{}
		for _, b := range recs {
			for j < len(byRet) && byRet[j].ret < b.inv {
				if byRet[j].ts > maxRet {
					maxRet = byRet[j].ts
				}
				j++
			}
			if j > 0 && maxRet >= b.ts && okRT {
				okRT, detail = false, fmt.Sprintf("a call returning %x completed before the invocation of a call returning %x", maxRet, b.ts)
			}
			if seen[b.ts] && okRT {
				okRT, detail = false, fmt.Sprintf("timestamp %x returned twice", b.ts)
			}
			seen[b.ts] = true
		}
		pline(name+"_realtime_strict_concurrent", okRT, f[1], strconv.Itoa(len(recs)), detail)
		eb, _ := extBad.Load().(string)
		pline(name+"_external_ts_monotone", eb == "", f[1], eb)
	}
}

// ---------------------------------------------------------------- class iv: interval record; class sl: stale ts
func execIv(f []string) {
	switch f[1] {
	case "next": // cfg ada lastShortMs lastTick state now req
		r, a, st := oracles.VerifNextInterval(pi(f[2]), pi(f[3]), pi(f[4]), pi(f[5]), pn(f[6]), pi(f[7]), pi(f[8]))
		emit(append(append([]string{}, f...), "=>", i(r), i(a), strconv.Itoa(st))...)
	case "set": // cfg ada new
		ok, c, a := oracles.VerifSetInterval(pi(f[2]), pi(f[3]), pi(f[4]))
		emit(append(append([]string{}, f...), "=>", b01(ok), i(c), i(a))...)
	case "adj": // cfg ada lastShortMs read cur now
		ls, sent := oracles.VerifAdjust(pi(f[2]), pi(f[3]), pi(f[4]), pu(f[5]), pu(f[6]), pi(f[7]))
		emit(append(append([]string{}, f...), "=>", i(ls), i(sent))...)
	}
}
func execSl(f []string) { // physOffsetMs(before now, signed) logical arrivalOffsetNs prev
	tso := oracle.ComposeTS(time.Now().UnixMilli()-pi(f[1]), pi(f[2]))
	var prev uint64
	if strings.HasPrefix(f[4], "s") { // relative to the record's physical second (the guard's boundary)
		d, _ := strconv.Atoi(f[4][1:])
		prev = uint64(oracle.ExtractPhysical(tso)/1000 + int64(d))
	} else {
		prev = pu(f[4])
	}
	ts, err, before, arr, after := oracles.VerifStale(tso, pi(f[3]), prev)
	r := "ok " + u(ts)
	if err != nil {
		r = "errprev"
	}
	emit("sl", f[1], f[2], f[3], f[4], "=>", r, u(tso), u(prev), i(before), i(arr), i(after))
}

// ---------------------------------------------------------------- class fs: concurrent FIRST users of fresh txn scopes
// execFs: seed maxRounds budgetMs — every round uses a txn scope never seen before ("dc-<seed>-<round>"); 2..8 callers
// obtain their first timestamps of that scope (GetTimestamp through the gated PD, or a future waited at the release
// instant), all answers are released at once in permuted order; readers poll GetLowResolutionTimestamp meanwhile.
// Monitors (the invariant of C13_fresh_scope / C13_lastts_monotone): every reader's sequence is non-decreasing and
// <= max issued; after a caller returned ts the cached value is >= ts; the final value is the maximum.
func execFs(f []string) {
	emit(append(append([]string{}, f...), "=>")...) // echo of the input line: the replayable case of the P lines below
	seed, maxRounds, budget := pi(f[1]), pn(f[2]), time.Duration(pn(f[3]))*time.Millisecond
	if runtime.GOMAXPROCS(0) < 8 {
		defer runtime.GOMAXPROCS(runtime.GOMAXPROCS(8))
	}
	oracles.EnableTSValidation.Store(true)
	r := rand.New(rand.NewSource(seed))
	base := uint64(1700000000000) << 18
	var k int64
	var maxIssued atomic.Uint64
	pdc := &scriptPD{}
	pdc.counter = func() pdres {
		ts := base + uint64(k)
		k++
		maxIssued.Store(ts)
		return pdres{p: oracle.ExtractPhysical(ts), l: oracle.ExtractLogical(ts)}
	}
	o, err := oracles.NewPdOracle(pdc, &oracles.PDOracleOptions{UpdateInterval: time.Hour, NoUpdateTS: true})
	if err != nil {
		panic(err)
	}
	defer o.Close()
	ctx := context.Background()
	deadline := time.Now().Add(budget)
	rounds, callers, reads := 0, 0, 0
	failName, failDetail := "", ""
	for rounds < maxRounds && time.Now().Before(deadline) && failName == "" {
		scope := fmt.Sprintf("dc-%d-%d", seed, rounds)
		opt := &oracle.Option{TxnScope: scope}
		n := 2 + r.Intn(7)
		nfut := r.Intn(n) // this many callers use GetTimestampAsync + Wait
		pdc.mu.Lock()
		pdc.gated, pdc.assignAtEntry = true, r.Intn(2) == 0
		pdc.mu.Unlock()
		got := make([]uint64, n)
		seen := make([]uint64, n)
		start := make(chan struct{})
		var wg sync.WaitGroup
		for w := 0; w < n; w++ {
			wg.Add(1)
			var fut oracle.Future
			if w < nfut {
				fut = o.GetTimestampAsync(ctx, opt) // PD's answer is fixed now, it reaches the caller at the release
			}
			go func(w int, fut oracle.Future) {
				defer wg.Done()
				var ts uint64
				var err error
				if fut != nil {
					<-start
					ts, err = fut.Wait()
				} else {
					ts, err = o.GetTimestamp(ctx, opt)
				}
				if err == nil {
					got[w] = ts
					seen[w], _ = o.GetLowResolutionTimestamp(ctx, opt)
				}
			}(w, fut)
		}
		stop := make(chan struct{})
		var rwg sync.WaitGroup
		nread := 1 + r.Intn(2)
		seqs := make([][]uint64, nread)
		bad := make([]string, nread)
		for q := 0; q < nread; q++ {
			rwg.Add(1)
			go func(q int) {
				defer rwg.Done()
				var prev uint64
				for {
					lr, err := o.GetLowResolutionTimestamp(ctx, opt)
					mx := maxIssued.Load()
					if err == nil {
						if len(seqs[q]) == 0 || seqs[q][len(seqs[q])-1] != lr {
							seqs[q] = append(seqs[q], lr)
						}
						if lr < prev && bad[q] == "" {
							bad[q] = fmt.Sprintf("reader %d observed %x after %x", q, lr, prev)
						}
						if lr > mx && bad[q] == "" {
							bad[q] = fmt.Sprintf("reader %d observed %x > max issued %x", q, lr, mx)
						}
						prev = lr
					}
					select {
					case <-stop:
						return
					default:
					}
				}
			}(q)
		}
		for pdc.npending() < n-nfut { // barrier: every GetTimestamp caller is waiting for PD
			runtime.Gosched()
		}
		close(start)
		pdc.releaseAll(r)
		wg.Wait()
		final, ferr := o.GetLowResolutionTimestamp(ctx, opt)
		close(stop)
		rwg.Wait()
		pdc.mu.Lock()
		pdc.gated = false
		pdc.mu.Unlock()
		rounds++
		callers += n
		var mx uint64
		for w := 0; w < n; w++ {
			if got[w] > mx {
				mx = got[w]
			}
		}
		desc := fmt.Sprintf("round %d scope %s callers %d (futures %d) returned %x observed-after-return %x final %x reader sequences %x", rounds-1, scope, n, nfut, got, seen, final, seqs)
		for q := range bad {
			reads += len(seqs[q])
			if bad[q] != "" && failName == "" {
				failName, failDetail = "fs_lowres_monotone_and_bounded", bad[q]+" | "+desc
			}
		}
		for w := 0; w < n && failName == ""; w++ {
			switch {
			case got[w] == 0:
				failName, failDetail = "fs_call_succeeds", desc
			case seen[w] < got[w]:
				failName, failDetail = "fs_lowres_catches_up", fmt.Sprintf("caller %d returned %x, cached value right after is %x | %s", w, got[w], seen[w], desc)
			case final < seen[w]:
				failName, failDetail = "fs_lowres_monotone_and_bounded", fmt.Sprintf("a reader observed %x, a later reader observes %x | %s", seen[w], final, desc)
			}
		}
		if failName == "" && (ferr != nil || final != mx) {
			failName, failDetail = "fs_final_is_max", desc
		}
		if failName == "" && rounds%16 == 0 {
			// validation / expiry / stale ts on the fresh scope use the cached value: a returned ts needs no PD round trip
			before := pdc.calls
			verr := o.ValidateReadTS(ctx, mx, r.Intn(2) == 0, opt)
			if verr != nil || pdc.calls != before {
				failName, failDetail = "fs_validate_from_cache", fmt.Sprintf("ValidateReadTS(%x): %v, PD calls %d | %s", mx, verr, pdc.calls-before, desc)
			}
			if e, un := o.IsExpired(mx, 0, opt), o.UntilExpired(mx, 0, opt); !e || un > 0 {
				failName, failDetail = "fs_expiry_from_cache", fmt.Sprintf("IsExpired(%x,0)=%v UntilExpired=%d | %s", mx, e, un, desc)
			}
			if st, serr := o.GetStaleTimestamp(ctx, scope, 0); serr != nil || oracle.ExtractPhysical(st) < oracle.ExtractPhysical(mx) {
				failName, failDetail = "fs_stale_from_cache", fmt.Sprintf("GetStaleTimestamp(0)=%x,%v | %s", st, serr, desc)
			}
		}
	}
	for _, name := range []string{"fs_lowres_monotone_and_bounded", "fs_lowres_catches_up", "fs_final_is_max", "fs_call_succeeds", "fs_validate_from_cache", "fs_expiry_from_cache", "fs_stale_from_cache"} {
		d := ""
		if name == failName {
			d = failDetail
		}
		pline(name, name != failName, f[1], d)
	}
	emit("fs", "counts", f[1], "=>", fmt.Sprintf("rounds=%d callers=%d distinct_reader_observations=%d", rounds, callers, reads))
}

// ---------------------------------------------------------------- class rf: the background refresher as a further writer
// execRf: seed rounds nscopes — the oracle runs its real updateTS goroutine (1ms interval) against the gated PD
// (answer assigned when the request arrives). Each round: wait until a refresher request is held back, let
// foreground callers obtain and cache LATER timestamps on every scope (futures, not gated), then answer the
// refresher; when its next request arrives the previous doUpdate step is finished: no scope's cached value may
// have moved back. Readers poll GetLowResolutionTimestamp on every scope throughout (monotone, <= max issued).
func execRf(f []string) {
	emit(append(append([]string{}, f...), "=>")...)
	seed, rounds, nsc := pi(f[1]), pn(f[2]), pn(f[3])
	r := rand.New(rand.NewSource(seed))
	base := uint64(1700000000000) << 18
	var k int64
	var maxIssued atomic.Uint64
	pdc := &scriptPD{assignAtEntry: true}
	pdc.counter = func() pdres {
		ts := base + uint64(k)
		k++
		maxIssued.Store(ts)
		return pdres{p: oracle.ExtractPhysical(ts), l: oracle.ExtractLogical(ts)}
	}
	o, err := oracles.NewPdOracle(pdc, &oracles.PDOracleOptions{UpdateInterval: time.Millisecond})
	if err != nil {
		panic(err)
	}
	ctx := context.Background()
	scs := []string{"global", "dc-rf-1", "dc-rf-2"}[:nsc]
	pdc.mu.Lock()
	pdc.gated = true
	pdc.mu.Unlock()
	waitPending := func() bool {
		for d := time.Now().Add(5 * time.Second); time.Now().Before(d); {
			if pdc.npending() > 0 {
				return true
			}
			time.Sleep(20 * time.Microsecond)
		}
		return false
	}
	stop := make(chan struct{})
	var rwg sync.WaitGroup
	var bad atomic.Value
	var nreads atomic.Int64
	for _, sc := range scs {
		rwg.Add(1)
		go func(sc string) {
			defer rwg.Done()
			var prev uint64
			for {
				lr, err := o.GetLowResolutionTimestamp(ctx, &oracle.Option{TxnScope: sc})
				mx := maxIssued.Load()
				if err == nil {
					if lr < prev {
						bad.CompareAndSwap(nil, fmt.Sprintf("a reader of scope %s observed %x after %x", sc, lr, prev))
					}
					if lr > mx {
						bad.CompareAndSwap(nil, fmt.Sprintf("a reader of scope %s observed %x > max issued %x", sc, lr, mx))
					}
					prev = lr
					nreads.Add(1)
				}
				select {
				case <-stop:
					return
				default:
				}
				runtime.Gosched()
			}
		}(sc)
	}
	failName, failDetail := "", ""
	staysDetail := "" // an entry that disappeared (reported, the run goes on to look for a decrease)
	cached := map[string]uint64{}
	done := 0
	for ; done < rounds && failName == ""; done++ {
		if !waitPending() {
			failName, failDetail = "rf_refresher_runs", "no refresher request within 5s"
			break
		}
		pdc.mu.Lock()
		held := pdc.pend[0].r
		pdc.mu.Unlock()
		heldTS := oracle.ComposeTS(held.p, held.l)
		// requests whose answers PD issues now but which reach their callers only after the refresher's outcome
		type earlyFut struct {
			sc  string
			fut oracle.Future
		}
		var early []earlyFut
		var earlyDesc []string
		for _, sc := range scs {
			if r.Intn(2) == 0 {
				early = append(early, earlyFut{sc, o.GetTimestampAsync(ctx, &oracle.Option{TxnScope: sc})})
				earlyDesc = append(earlyDesc, sc)
			}
		}
		// foreground callers cache later timestamps (a random subset of scopes, at least one)
		var fg []string
		for i, sc := range scs {
			if i == done%len(scs) || r.Intn(2) == 0 {
				ts, err := o.GetTimestampAsync(ctx, &oracle.Option{TxnScope: sc}).Wait()
				if err != nil {
					panic(err)
				}
				cached[sc] = ts
				fg = append(fg, fmt.Sprintf("%s:=%x", sc, ts))
			}
		}
		before := map[string]uint64{}
		for _, sc := range scs {
			if lr, err := o.GetLowResolutionTimestamp(ctx, &oracle.Option{TxnScope: sc}); err == nil {
				before[sc] = lr
			}
		}
		fault := done%3 == 2 || r.Intn(4) == 0 // PD fails this refresher request
		pdc.release(fault)                     // PD's (older) answer, or a failure, reaches the refresher now
		if !waitPending() {                    // its next request: the previous publish step is over
			failName, failDetail = "rf_refresher_runs", "refresher did not continue within 5s"
			break
		}
		// answers that PD issued earlier (before the foreground's) arrive only now
		for _, e := range early {
			if _, err := e.fut.Wait(); err != nil {
				panic(err)
			}
		}
		for _, sc := range scs {
			lr, err := o.GetLowResolutionTimestamp(ctx, &oracle.Option{TxnScope: sc})
			if _, had := before[sc]; had && err != nil && staysDetail == "" {
				staysDetail = fmt.Sprintf("round %d: refresher request allocated %x answered with fault=%v; scope %s had cached %x, now: %v", done, heldTS, fault, sc, before[sc], err)
			}
			if err == nil && lr < before[sc] {
				failName = "rf_lowres_monotone"
				failDetail = fmt.Sprintf("round %d: refresher request allocated %x was held back; answers issued next are held for scopes %v; foreground cached %v; refresher answered with fault=%v, then the held answers arrived; cached value of scope %s before %x, after %x", done, heldTS, earlyDesc, fg, fault, sc, before[sc], lr)
			}
		}
		if b, _ := bad.Load().(string); b != "" && failName == "" {
			failName, failDetail = "rf_lowres_monotone", b
		}
	}
	close(stop)
	rwg.Wait()
	pdc.mu.Lock()
	pdc.gated = false
	pdc.mu.Unlock()
	o.Close()
	for pdc.release(false) {
	}
	for _, name := range []string{"rf_lowres_monotone", "rf_lowres_stays", "rf_refresher_runs"} {
		d := ""
		if name == failName {
			d = failDetail
		}
		if name == "rf_lowres_stays" {
			d = staysDetail
		}
		pline(name, name != failName && d == "", f[1], d)
	}
	emit("rf", "counts", f[1], "=>", fmt.Sprintf("rounds=%d scopes=%d reads=%d", done, nsc, nreads.Load()))
}

// ---------------------------------------------------------------- dispatch
func execLine(line string) {
	f := strings.Split(line, "\t")
	for k, x := range f {
		if x == "=>" {
			f = f[:k]
			break
		}
	}
	if len(f) == 0 || f[0] == "" {
		return
	}
	switch f[0] {
	case "ar":
		execAr(f)
	case "seq":
		execSeq(f)
	case "sf":
		execSf(f)
	case "cw":
		execCw(f)
	case "lo":
		execLo(f)
	case "bg":
		execBg(f)
	case "st":
		execSt(f)
	case "mo":
		execMo(f)
	case "fs":
		execFs(f)
	case "rf":
		execRf(f)
	case "tx":
		execTx(f)
	case "iv":
		execIv(f)
	case "sl":
		execSl(f)
	}
}

func main() {
	out = bufio.NewWriterSize(os.Stdout, 1<<20)
	defer out.Flush()
	log.ReplaceGlobals(zap.NewNop(), nil)
	if len(os.Args) >= 3 && os.Args[1] == "replay" {
		data, err := os.ReadFile(os.Args[2])
		if err != nil {
			panic(err)
		}
		for _, l := range strings.Split(string(data), "\n") {
			execLine(l)
		}
		return
	}
	seed, _ := strconv.ParseInt(os.Getenv("VERIF_SEED"), 10, 64)
	tier := os.Getenv("VERIF_TIER")
	for _, l := range generate(seed, tier == "thorough") {
		execLine(l)
	}
	_ = math.MaxInt64
}

func getenv(k, d string) string {
	if v := os.Getenv(k); v != "" {
		return v
	}
	return d
}
