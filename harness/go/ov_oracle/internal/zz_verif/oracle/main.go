//go:build verif

// Driver for property C13 (timestamps). Generates cases (seeded), executes them against
// oracle, oracle/oracles and KVTxn.GetTimestampForCommit of the current tree with a scripted
// pd.Client, and prints one tab separated line per step:   <class> \t <op> \t args... \t => \t results...
// Lines starting with P are property-oracle verdicts evaluated here on the implementation.
// `oracle replay FILE` re-executes the input parts of the lines in FILE.
package main

import (
	"bufio"
	"errors"
	"github.com/pingcap/log"
	"github.com/tikv/client-go/v2/oracle"
	"go.uber.org/zap"
	"math"
	"os"
	"strconv"
	"strings"
)

var out *bufio.Writer

func emit(f ...string)  { out.WriteString(strings.Join(f, "\t")); out.WriteByte('\n') }
func u(v uint64) string { return strconv.FormatUint(v, 16) }
func i(v int64) string {
	if v < 0 {
		return "-" + strconv.FormatUint(uint64(-v), 16)
	}
	return strconv.FormatUint(uint64(v), 16)
}
func pu(s string) uint64 {
	v, err := strconv.ParseUint(s, 16, 64)
	if err != nil {
		panic(err)
	}
	return v
}
func pi(s string) int64 {
	if strings.HasPrefix(s, "-") {
		return int64(-pu(s[1:]))
	}
	return int64(pu(s))
}
func pn(s string) int { v, _ := strconv.Atoi(s); return v }

// ---------------------------------------------------------------- helpers
var scopes = []string{"", "global", "dc1", "dc2"}

func tsres(ts uint64, err error) string {
	if err != nil {
		return "err"
	}
	return "ok " + u(ts)
}
func voutcome(err error) string {
	if err == nil {
		return "accept"
	}
	var f oracle.ErrFutureTSRead
	if errors.As(err, &f) {
		return "reject " + u(f.CurrentTS)
	}
	var l oracle.ErrLatestStaleRead
	if errors.As(err, &l) {
		return "errlatest"
	}
	m := err.Error()
	switch {
	case strings.Contains(m, "MaxInt64 <= readTS"):
		return "errrange"
	case strings.Contains(m, "fail to validate"):
		return "errpd"
	case strings.Contains(m, "context canceled"):
		return "errctx"
	}
	return "errother " + strings.ReplaceAll(m, "\t", " ")
}
func b01(b bool) string {
	if b {
		return "1"
	}
	return "0"
}

// ---------------------------------------------------------------- dispatch
func execLine(line string) {
	f := strings.Split(line, "\t")
	for k, x := range f {
		if x == "=>" {
			f = f[:k]
			break
		}
	}
	if len(f) == 0 || f[0] == "" {
		return
	}
	switch f[0] {
	case "ar":
		execAr(f)
	case "seq":
		execSeq(f)
	case "sf":
		execSf(f)
	case "cw":
		execCw(f)
	case "lo":
		execLo(f)
	case "bg":
		execBg(f)
	case "st":
		execSt(f)
	case "mo":
		execMo(f)
	case "fs":
		execFs(f)
	case "rf":
		execRf(f)
	case "tx":
		execTx(f)
	case "tc":
		execTc(f)
	case "lp":
		execLp(f)
	case "kv":
		execKv(f)
	case "iv":
		execIv(f)
	case "sl":
		execSl(f)
	}
}

func main() {
	out = bufio.NewWriterSize(os.Stdout, 1<<20)
	defer out.Flush()
	log.ReplaceGlobals(zap.NewNop(), nil)
	if len(os.Args) >= 3 && os.Args[1] == "replay" {
		data, err := os.ReadFile(os.Args[2])
		if err != nil {
			panic(err)
		}
		for _, l := range strings.Split(string(data), "\n") {
			execLine(l)
		}
		return
	}
	seed, _ := strconv.ParseInt(os.Getenv("VERIF_SEED"), 10, 64)
	tier := os.Getenv("VERIF_TIER")
	for _, l := range generate(seed, tier == "thorough") {
		execLine(l)
	}
	_ = math.MaxInt64
}

func getenv(k, d string) string {
	if v := os.Getenv(k); v != "" {
		return v
	}
	return d
}
