//go:build verif

package main

import (
	"context"
	"strconv"
	"time"

	"github.com/tikv/client-go/v2/oracle"
	"github.com/tikv/client-go/v2/oracle/oracles"
)

// class lp: the updateTS loop end to end. A real pdOracle WITH its updater goroutine (configured interval given per
// case); stale-read validations go through ValidateReadTS -> adjustUpdateLowResolutionTSIntervalWithRequestedStaleness
// -> shrinkIntervalCh -> the loop's receive case -> nextUpdateInterval; configuration changes go through
// SetLowResolutionTimestampUpdateInterval. After every step the driver waits (event, not time) until the loop has
// consumed the request, and prints (configured, adaptive). The model (ModelInt.lstep: LAdjust, LRecv, LSet) predicts
// both. PD's physical time is set by the driver (F), so the staleness a validation requests is exact when the read ts
// lies beyond the cached one (PD is asked); when a tick of the updater has refreshed the cache in between, the
// estimate path adds the few ms since the arrival: the step's wall time is printed as slack for that case.
func execLp(f []string) { // cfgMs steps(comma list: v<stalenessMs> | n<stalenessMs> | s<newMs>)
	if f[1] == "state" || f[1] == "step" { // result lines of an earlier run inside a replayed case
		return
	}
	emit(append(append([]string{}, f...), "=>")...)
	cfg := time.Duration(pi(f[1])) * time.Millisecond
	oracles.EnableTSValidation.Store(true)
	F := int64(1900000000000)
	var lg int64
	pdc := &scriptPD{}
	pdc.counter = func() pdres { lg++; return pdres{p: F, l: lg % (1 << 18)} }
	o, err := oracles.NewPdOracle(pdc, &oracles.PDOracleOptions{UpdateInterval: cfg})
	if err != nil {
		panic(err)
	}
	defer o.Close()
	ctx := context.Background()
	opt := &oracle.Option{TxnScope: "global"}
	c0, a0 := oracles.VerifAdaptiveInterval(o)
	emit("lp", "state", "init", "=>", i(int64(c0)), i(int64(a0)), "0")
	for _, st := range splitComma(f[2]) {
		t0 := time.Now()
		_, before := oracles.VerifAdaptiveInterval(o)
		v, _ := strconv.ParseInt(st[1:], 10, 64)
		res := "-"
		switch st[0] {
		case 'v', 'n':
			// PD moves 10s ahead of everything cached; the read ts lies v ms before PD's present
			pdc.mu.Lock()
			F += 10000
			read := oracle.ComposeTS(F-v, 0)
			pdc.mu.Unlock()
			err := o.ValidateReadTS(ctx, read, st[0] == 'v', opt)
			res = voutcome(err)
			if st[0] == 'v' && v*int64(time.Millisecond) <= int64(before) && before > 500*time.Millisecond {
				// a request goes to the loop (the code's own sending condition): the receive case always stores a
				// strictly smaller interval; wait for that event of the loop goroutine (not for a duration)
				for d := time.Now().Add(5 * time.Second); time.Now().Before(d); {
					if _, a := oracles.VerifAdaptiveInterval(o); a != before {
						break
					}
					time.Sleep(20 * time.Microsecond)
				}
			}
		case 's':
			if err := o.SetLowResolutionTimestampUpdateInterval(time.Duration(v) * time.Millisecond); err != nil {
				res = "err"
			} else {
				res = "ok"
			}
		}
		c1, a1 := oracles.VerifAdaptiveInterval(o)
		emit("lp", "step", st, "=>", i(int64(c1)), i(int64(a1)), i(int64(time.Since(t0))), res)
	}
}

func splitComma(s string) []string {
	var out []string
	cur := ""
	for _, c := range s {
		if c == ',' {
			out = append(out, cur)
			cur = ""
		} else {
			cur += string(c)
		}
	}
	if cur != "" {
		out = append(out, cur)
	}
	return out
}
