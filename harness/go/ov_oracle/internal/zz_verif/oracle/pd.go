//go:build verif

package main

import (
	"context"
	"errors"
	pd "github.com/tikv/pd/client"
	"github.com/tikv/pd/client/clients/tso"
	"github.com/tikv/pd/client/pkg/caller"
	"math/rand"
	"strings"
	"sync"
)

// ---------------------------------------------------------------- scripted PD
type pdres struct {
	p, l int64
	err  bool
}

func (r pdres) String() string {
	if r.err {
		return "err"
	}
	return i(r.p) + "," + i(r.l)
}
func parsePD(s string) pdres {
	if s == "err" {
		return pdres{err: true}
	}
	f := strings.Split(s, ",")
	return pdres{p: pi(f[0]), l: pi(f[1])}
}

type pending struct {
	r        pdres
	assigned bool
	ch       chan struct{}
}

var errPD = errors.New("scripted pd failure")

type scriptPD struct {
	pd.Client
	mu            sync.Mutex
	queue         []pdres      // answers for the next calls (seq class)
	counter       func() pdres // or a generator (sf/bg classes)
	gated         bool         // GetTS blocks until release()
	assignAtEntry bool         // gated calls receive their value when they arrive (else at release)
	pend          []*pending
	calls         int
	ext           uint64 // external timestamp cell (pass-through)
	ctxAborts     int    // gated requests abandoned because the caller's context was done
	exhausted     int
}

func (c *scriptPD) nextLocked() pdres {
	if c.counter != nil {
		return c.counter()
	}
	if len(c.queue) == 0 {
		c.exhausted++
		return pdres{err: true}
	}
	r := c.queue[0]
	c.queue = c.queue[1:]
	return r
}
func (c *scriptPD) WithCallerComponent(caller.Component) pd.Client { return c }
func (c *scriptPD) GetTS(ctx context.Context) (int64, int64, error) {
	if err := ctx.Err(); err != nil {
		return 0, 0, err
	}
	c.mu.Lock()
	c.calls++
	if !c.gated {
		r := c.nextLocked()
		c.mu.Unlock()
		if r.err {
			return 0, 0, errPD
		}
		return r.p, r.l, nil
	}
	pc := &pending{ch: make(chan struct{})}
	if c.assignAtEntry {
		pc.r, pc.assigned = c.nextLocked(), true
	}
	c.pend = append(c.pend, pc)
	c.mu.Unlock()
	// like the real client, a gated request is abandoned when the caller's context is done
	select {
	case <-pc.ch:
	case <-ctx.Done():
		c.mu.Lock()
		abandoned := false
		for k, x := range c.pend {
			if x == pc {
				c.pend = append(c.pend[:k], c.pend[k+1:]...)
				abandoned = true
				break
			}
		}
		c.ctxAborts++
		c.mu.Unlock()
		if abandoned {
			return 0, 0, ctx.Err()
		}
		<-pc.ch // released concurrently: the answer is there
	}
	if pc.r.err {
		return 0, 0, errPD
	}
	return pc.r.p, pc.r.l, nil
}

// pass-throughs: GetMinTS answers from the queue like GetTS; the external timestamp is a plain cell
func (c *scriptPD) GetMinTS(ctx context.Context) (int64, int64, error) {
	c.mu.Lock()
	defer c.mu.Unlock()
	r := c.nextLocked()
	if r.err {
		return 0, 0, errPD
	}
	return r.p, r.l, nil
}
func (c *scriptPD) SetExternalTimestamp(ctx context.Context, ts uint64) error {
	c.mu.Lock()
	defer c.mu.Unlock()
	if ts == 0 {
		return errPD
	}
	c.ext = ts
	return nil
}
func (c *scriptPD) GetExternalTimestamp(ctx context.Context) (uint64, error) {
	c.mu.Lock()
	defer c.mu.Unlock()
	return c.ext, nil
}
func (c *scriptPD) npending() int { c.mu.Lock(); defer c.mu.Unlock(); return len(c.pend) }
func (c *scriptPD) release(fail bool) bool {
	c.mu.Lock()
	if len(c.pend) == 0 {
		c.mu.Unlock()
		return false
	}
	pc := c.pend[0]
	c.pend = c.pend[1:]
	if !pc.assigned {
		pc.r = c.nextLocked()
	}
	if fail {
		pc.r.err = true
	}
	c.mu.Unlock()
	close(pc.ch)
	return true
}

// releaseAll answers every gated request at the same instant; the answers of requests that have none yet are
// assigned in the permuted order perm (responses reach the callers in an order unrelated to PD's order).
func (c *scriptPD) releaseAll(r *rand.Rand) int {
	c.mu.Lock()
	ps := c.pend
	c.pend = nil
	r.Shuffle(len(ps), func(a, b int) { ps[a], ps[b] = ps[b], ps[a] })
	for _, pc := range ps {
		if !pc.assigned {
			pc.r, pc.assigned = c.nextLocked(), true
		}
	}
	c.mu.Unlock()
	r.Shuffle(len(ps), func(a, b int) { ps[a], ps[b] = ps[b], ps[a] })
	for _, pc := range ps {
		close(pc.ch)
	}
	return len(ps)
}

type scriptFut struct {
	r   pdres
	ctx context.Context
}

func (f *scriptFut) Wait() (int64, int64, error) {
	if err := f.ctx.Err(); err != nil {
		return 0, 0, err
	}
	if f.r.err {
		return 0, 0, errPD
	}
	return f.r.p, f.r.l, nil
}
func (c *scriptPD) GetTSAsync(ctx context.Context) tso.TSFuture {
	c.mu.Lock()
	defer c.mu.Unlock()
	c.calls++
	return &scriptFut{c.nextLocked(), ctx}
}
