//go:build verif

package main

import (
	"context"
	"fmt"
	"github.com/tikv/client-go/v2/oracle"
	"github.com/tikv/client-go/v2/oracle/oracles"
	"math/rand"
	"runtime"
	"sync"
	"sync/atomic"
	"time"
)

// ---------------------------------------------------------------- class fs: concurrent FIRST users of fresh txn scopes
// execFs: seed maxRounds budgetMs — every round uses a txn scope never seen before ("dc-<seed>-<round>"); 2..8 callers
// obtain their first timestamps of that scope (GetTimestamp through the gated PD, or a future waited at the release
// instant), all answers are released at once in permuted order; readers poll GetLowResolutionTimestamp meanwhile.
// Monitors (the invariant of C13_fresh_scope / C13_lastts_monotone): every reader's sequence is non-decreasing and
// <= max issued; after a caller returned ts the cached value is >= ts; the final value is the maximum.
func execFs(f []string) {
	emit(append(append([]string{}, f...), "=>")...) // echo of the input line: the replayable case of the P lines below
	seed, maxRounds, budget := pi(f[1]), pn(f[2]), time.Duration(pn(f[3]))*time.Millisecond
	if runtime.GOMAXPROCS(0) < 8 {
		defer runtime.GOMAXPROCS(runtime.GOMAXPROCS(8))
	}
	oracles.EnableTSValidation.Store(true)
	r := rand.New(rand.NewSource(seed))
	base := uint64(1700000000000) << 18
	var k int64
	var maxIssued atomic.Uint64
	pdc := &scriptPD{}
	pdc.counter = func() pdres {
		ts := base + uint64(k)
		k++
		maxIssued.Store(ts)
		return pdres{p: oracle.ExtractPhysical(ts), l: oracle.ExtractLogical(ts)}
	}
	o, err := oracles.NewPdOracle(pdc, &oracles.PDOracleOptions{UpdateInterval: time.Hour, NoUpdateTS: true})
	if err != nil {
		panic(err)
	}
	defer o.Close()
	ctx := context.Background()
	deadline := time.Now().Add(budget)
	rounds, callers, reads := 0, 0, 0
	failName, failDetail := "", ""
	for rounds < maxRounds && time.Now().Before(deadline) && failName == "" {
		scope := fmt.Sprintf("dc-%d-%d", seed, rounds)
		opt := &oracle.Option{TxnScope: scope}
		n := 2 + r.Intn(7)
		nfut := r.Intn(n) // this many callers use GetTimestampAsync + Wait
		pdc.mu.Lock()
		pdc.gated, pdc.assignAtEntry = true, r.Intn(2) == 0
		pdc.mu.Unlock()
		got := make([]uint64, n)
		seen := make([]uint64, n)
		start := make(chan struct{})
		var wg sync.WaitGroup
		for w := 0; w < n; w++ {
			wg.Add(1)
			var fut oracle.Future
			if w < nfut {
				fut = o.GetTimestampAsync(ctx, opt) // PD's answer is fixed now, it reaches the caller at the release
			}
			go func(w int, fut oracle.Future) {
				defer wg.Done()
				var ts uint64
				var err error
				if fut != nil {
					<-start
					ts, err = fut.Wait()
				} else {
					ts, err = o.GetTimestamp(ctx, opt)
				}
				if err == nil {
					got[w] = ts
					seen[w], _ = o.GetLowResolutionTimestamp(ctx, opt)
				}
			}(w, fut)
		}
		stop := make(chan struct{})
		var rwg sync.WaitGroup
		nread := 1 + r.Intn(2)
		seqs := make([][]uint64, nread)
		bad := make([]string, nread)
		for q := 0; q < nread; q++ {
			rwg.Add(1)
			go func(q int) {
				defer rwg.Done()
				var prev uint64
				for {
					lr, err := o.GetLowResolutionTimestamp(ctx, opt)
					mx := maxIssued.Load()
					if err == nil {
						if len(seqs[q]) == 0 || seqs[q][len(seqs[q])-1] != lr {
							seqs[q] = append(seqs[q], lr)
						}
						if lr < prev && bad[q] == "" {
							bad[q] = fmt.Sprintf("reader %d observed %x after %x", q, lr, prev)
						}
						if lr > mx && bad[q] == "" {
							bad[q] = fmt.Sprintf("reader %d observed %x > max issued %x", q, lr, mx)
						}
						prev = lr
					}
					select {
					case <-stop:
						return
					default:
					}
				}
			}(q)
		}
		for pdc.npending() < n-nfut { // barrier: every GetTimestamp caller is waiting for PD
			runtime.Gosched()
		}
		close(start)
		pdc.releaseAll(r)
		wg.Wait()
		final, ferr := o.GetLowResolutionTimestamp(ctx, opt)
		close(stop)
		rwg.Wait()
		pdc.mu.Lock()
		pdc.gated = false
		pdc.mu.Unlock()
		rounds++
		callers += n
		var mx uint64
		for w := 0; w < n; w++ {
			if got[w] > mx {
				mx = got[w]
			}
		}
		desc := fmt.Sprintf("round %d scope %s callers %d (futures %d) returned %x observed-after-return %x final %x reader sequences %x", rounds-1, scope, n, nfut, got, seen, final, seqs)
		for q := range bad {
			reads += len(seqs[q])
			if bad[q] != "" && failName == "" {
				failName, failDetail = "fs_lowres_monotone_and_bounded", bad[q]+" | "+desc
			}
		}
		for w := 0; w < n && failName == ""; w++ {
			switch {
			case got[w] == 0:
				failName, failDetail = "fs_call_succeeds", desc
			case seen[w] < got[w]:
				failName, failDetail = "fs_lowres_catches_up", fmt.Sprintf("caller %d returned %x, cached value right after is %x | %s", w, got[w], seen[w], desc)
			case final < seen[w]:
				failName, failDetail = "fs_lowres_monotone_and_bounded", fmt.Sprintf("a reader observed %x, a later reader observes %x | %s", seen[w], final, desc)
			}
		}
		if failName == "" && (ferr != nil || final != mx) {
			failName, failDetail = "fs_final_is_max", desc
		}
		if failName == "" && rounds%16 == 0 {
			// validation / expiry / stale ts on the fresh scope use the cached value: a returned ts needs no PD round trip
			before := pdc.calls
			verr := o.ValidateReadTS(ctx, mx, r.Intn(2) == 0, opt)
			if verr != nil || pdc.calls != before {
				failName, failDetail = "fs_validate_from_cache", fmt.Sprintf("ValidateReadTS(%x): %v, PD calls %d | %s", mx, verr, pdc.calls-before, desc)
			}
			if e, un := o.IsExpired(mx, 0, opt), o.UntilExpired(mx, 0, opt); !e || un > 0 {
				failName, failDetail = "fs_expiry_from_cache", fmt.Sprintf("IsExpired(%x,0)=%v UntilExpired=%d | %s", mx, e, un, desc)
			}
			if st, serr := o.GetStaleTimestamp(ctx, scope, 0); serr != nil || oracle.ExtractPhysical(st) < oracle.ExtractPhysical(mx) {
				failName, failDetail = "fs_stale_from_cache", fmt.Sprintf("GetStaleTimestamp(0)=%x,%v | %s", st, serr, desc)
			}
		}
	}
	for _, name := range []string{"fs_lowres_monotone_and_bounded", "fs_lowres_catches_up", "fs_final_is_max", "fs_call_succeeds", "fs_validate_from_cache", "fs_expiry_from_cache", "fs_stale_from_cache"} {
		d := ""
		if name == failName {
			d = failDetail
		}
		pline(name, name != failName, f[1], d)
	}
	emit("fs", "counts", f[1], "=>", fmt.Sprintf("rounds=%d callers=%d distinct_reader_observations=%d", rounds, callers, reads))
}
