//go:build verif

package main

import (
	"context"
	"errors"
	tikverr "github.com/tikv/client-go/v2/error"
	"github.com/tikv/client-go/v2/oracle"
	"github.com/tikv/client-go/v2/oracle/oracles"
	"github.com/tikv/client-go/v2/txnkv/transaction"
	"strconv"
	"strings"
	"time"
)

// ---------------------------------------------------------------- class cw: commit wait
func execCw(f []string) { // registrations(comma list) timeout_ns script
	var regs []uint64
	for _, x := range strings.Split(f[1], ",") {
		regs = append(regs, pu(x))
	}
	to := pi(f[2])
	var script []string
	if f[3] != "-" {
		script = strings.Split(f[3], ",")
	}
	idx := 0
	fn := func() (uint64, error) {
		if idx >= len(script) {
			idx++
			return 0, errors.New("script exhausted")
		}
		s := script[idx]
		idx++
		if s == "err" {
			return 0, errors.New("pd error")
		}
		return pu(s), nil
	}
	ts, err, lag, calls, eff := transaction.VerifCommitWait(fn, regs, time.Duration(to))
	r := "ok " + u(ts)
	if err != nil {
		r = "errother"
		if lag {
			r = "errlag"
		}
	}
	emit("cw", f[1], f[2], f[3], "=>", r, strconv.Itoa(calls), u(eff))
	_ = tikverr.ErrCommitTSLag
}

// ---------------------------------------------------------------- class lo: local oracle with a fixed clock
var lo oracle.Oracle

func execLo(f []string) {
	switch f[1] {
	case "begin":
		lo = oracles.NewLocalOracle()
		emit("lo", "begin", "=>")
	case "G": // now_ns
		oracles.VerifSetLocalHook(lo, time.Unix(0, pi(f[2])))
		ts, err := lo.GetTimestamp(context.Background(), &oracle.Option{})
		emit("lo", "G", f[2], "=>", tsres(ts, err))
	case "X": // now_ns lock ttl
		oracles.VerifSetLocalHook(lo, time.Unix(0, pi(f[2])))
		lock, ttl := pu(f[3]), pu(f[4])
		emit("lo", "X", f[2], f[3], f[4], "=>", b01(lo.IsExpired(lock, ttl, &oracle.Option{})), i(lo.UntilExpired(lock, ttl, &oracle.Option{})))
	}
}

// ---------------------------------------------------------------- class iv: interval record; class sl: stale ts
func execIv(f []string) {
	switch f[1] {
	case "next": // cfg ada lastShortMs lastTick state now req
		r, a, st := oracles.VerifNextInterval(pi(f[2]), pi(f[3]), pi(f[4]), pi(f[5]), pn(f[6]), pi(f[7]), pi(f[8]))
		emit(append(append([]string{}, f...), "=>", i(r), i(a), strconv.Itoa(st))...)
	case "set": // cfg ada new
		ok, c, a := oracles.VerifSetInterval(pi(f[2]), pi(f[3]), pi(f[4]))
		emit(append(append([]string{}, f...), "=>", b01(ok), i(c), i(a))...)
	case "adj": // cfg ada lastShortMs read cur now
		ls, sent := oracles.VerifAdjust(pi(f[2]), pi(f[3]), pi(f[4]), pu(f[5]), pu(f[6]), pi(f[7]))
		emit(append(append([]string{}, f...), "=>", i(ls), i(sent))...)
	}
}
func execSl(f []string) { // physOffsetMs(before now, signed) logical arrivalOffsetNs prev
	tso := oracle.ComposeTS(time.Now().UnixMilli()-pi(f[1]), pi(f[2]))
	var prev uint64
	if strings.HasPrefix(f[4], "s") { // relative to the record's physical second (the guard's boundary)
		d, _ := strconv.Atoi(f[4][1:])
		prev = uint64(oracle.ExtractPhysical(tso)/1000 + int64(d))
	} else {
		prev = pu(f[4])
	}
	ts, err, before, arr, after := oracles.VerifStale(tso, pi(f[3]), prev)
	r := "ok " + u(ts)
	if err != nil {
		r = "errprev"
	}
	emit("sl", f[1], f[2], f[3], f[4], "=>", r, u(tso), u(prev), i(before), i(arr), i(after))
}
