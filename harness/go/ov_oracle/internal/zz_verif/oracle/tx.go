//go:build verif

package main

import (
	"context"
	"fmt"
	"strconv"
	"strings"
	"sync"
	"time"

	"github.com/pingcap/kvproto/pkg/kvrpcpb"
	"github.com/tikv/client-go/v2/oracle"
	"github.com/tikv/client-go/v2/testutils"
	"github.com/tikv/client-go/v2/tikv"
	"github.com/tikv/client-go/v2/tikvrpc"
	"github.com/tikv/client-go/v2/util/async"
)

// class tx: the consumer side of the commit-wait clause. Real KVTxn.Commit over mocktikv with
// SetCommitWaitUntilTSO ahead of (or behind) PD, commit modes 2PC / async commit / 1PC x causal consistency on/off.
// mocktikv leaves min_commit_ts / one_pc_commit_ts zero (the client would fall back to 2PC), so the wrapper answers
// successful async-commit / 1PC prewrites the way a TiKV with a small max_ts does: with the request's own min_commit_ts.
type txTiKV struct {
	tikv.Client
	mu      sync.Mutex
	async   int
	onepc   int
	reqMin  uint64
	lastMin uint64 // min_commit_ts of the last prewrite request of any kind
}

func (c *txTiKV) SendRequest(ctx context.Context, addr string, req *tikvrpc.Request, timeout time.Duration) (*tikvrpc.Response, error) {
	var useAsync, onePC bool
	var reqMin uint64
	if req.Type == tikvrpc.CmdPrewrite {
		useAsync, onePC, reqMin = req.Prewrite().GetUseAsyncCommit(), req.Prewrite().GetTryOnePc(), req.Prewrite().GetMinCommitTs()
	}
	if req.Type == tikvrpc.CmdPrewrite {
		c.mu.Lock()
		c.lastMin = reqMin
		c.mu.Unlock()
	}
	resp, err := c.Client.SendRequest(ctx, addr, req, timeout)
	if err != nil || resp == nil || !(useAsync || onePC) {
		return resp, err
	}
	if r, ok := resp.Resp.(*kvrpcpb.PrewriteResponse); ok && r.GetRegionError() == nil && len(r.GetErrors()) == 0 {
		c.mu.Lock()
		if onePC {
			r.OnePcCommitTs = reqMin
			c.onepc++
		} else {
			r.MinCommitTs = reqMin
			c.async++
		}
		c.reqMin = reqMin
		c.mu.Unlock()
	}
	return resp, err
}

func (c *txTiKV) SendRequestAsync(ctx context.Context, addr string, req *tikvrpc.Request, cb async.Callback[*tikvrpc.Response]) {
	go func() { cb.Schedule(c.SendRequest(ctx, addr, req, 0)) }()
}

var txStore *tikv.KVStore
var txWrap *txTiKV
var txN int

// execTx: mode(0 2pc,1 async,2 1pc) causal registrations(comma list of ms offsets / z) timeoutMs nkeys
func execTx(f []string) {
	if txStore == nil {
		client, cluster, pdClient, err := testutils.NewMockTiKV("", nil)
		if err != nil {
			panic(err)
		}
		testutils.BootstrapWithSingleStore(cluster)
		txWrap = &txTiKV{}
		txStore, err = tikv.NewTestTiKVStore(client, pdClient, func(c tikv.Client) tikv.Client { txWrap.Client = c; return txWrap }, nil, 0)
		if err != nil {
			panic(err)
		}
	}
	mode, causal, to, nk := pn(f[1]), f[2] == "1", pi(f[4]), pn(f[5])
	txn, err := txStore.Begin()
	if err != nil {
		panic(err)
	}
	txn.SetEnableAsyncCommit(mode == 1)
	txn.SetEnable1PC(mode == 2)
	txn.SetCausalConsistency(causal)
	txN++
	for k := 0; k < nk; k++ {
		if err := txn.Set([]byte(fmt.Sprintf("c13-tx-%d-%d", txN, k)), []byte("v")); err != nil {
			panic(err)
		}
	}
	// f[3]: the sequence of registrations on this transaction: offsets (ms, relative to the start ts) or z = literal 0;
	// the constraint the commit has to respect is the maximum of everything registered (computed here, not read back)
	var bound uint64
	for _, tok := range strings.Split(f[3], ",") {
		var v uint64
		if tok != "z" {
			v = oracle.ComposeTS(oracle.ExtractPhysical(txn.StartTS())+pi(tok), 0)
		}
		txn.SetCommitWaitUntilTSO(v)
		if v > bound {
			bound = v
		}
	}
	txn.SetCommitWaitUntilTSOTimeout(time.Duration(to) * time.Millisecond)
	txWrap.mu.Lock()
	a0, p0 := txWrap.async, txWrap.onepc
	txWrap.mu.Unlock()
	err = txn.Commit(context.Background())
	txWrap.mu.Lock()
	da, dp := txWrap.async-a0, txWrap.onepc-p0
	txWrap.mu.Unlock()
	r := "err"
	if err == nil {
		r = "ok " + u(txn.CommitTS())
	}
	emit("tx", f[1], f[2], f[3], f[4], f[5], "=>", r, u(bound), u(txn.StartTS()), strconv.Itoa(da), strconv.Itoa(dp))
}
