//go:build verif

package main

import (
	"fmt"
	"math"
	"math/rand"
	"strconv"
	"strings"
	"time"
)

func ln(f ...string) string { return strings.Join(f, "\t") }

var i64Edges = []int64{0, 1, 2, -1, -2, 1<<18 - 1, 1 << 18, 1<<18 + 1, 1<<45 - 1, 1 << 45, 1<<45 + 1, 1<<46 - 1, 1 << 46,
	math.MaxInt64, math.MinInt64, math.MaxInt64 >> 18, math.MaxInt64>>18 + 1, 1700000000000, 1900000000000}
var u64Edges = []uint64{0, 1, 1<<18 - 1, 1 << 18, 1<<18 + 1, 1<<63 - 1, 1 << 63, 1<<63 + 1, math.MaxUint64, math.MaxUint64 - 1,
	1700000000000 << 18, 1700000000000<<18 + 5, 1<<62 - 1, 1 << 62, 1<<64 - 1<<18, 1<<46 - 1, 1 << 46}

func genAr(r *rand.Rand, n int) []string {
	var o []string
	for _, p := range i64Edges {
		for _, l := range []int64{0, 1, 1<<18 - 1, 1 << 18, -1, 5} {
			o = append(o, ln("ar", "compose", i(p), i(l)))
		}
	}
	for _, a := range u64Edges {
		o = append(o, ln("ar", "ext", u(a)))
		for _, b := range u64Edges {
			o = append(o, ln("ar", "tsub", u(a), u(b)))
		}
	}
	for k := 0; k < n; k++ {
		p := r.Int63n(1 << 45)
		if r.Intn(4) == 0 {
			p = 1700000000000 + r.Int63n(1<<32)
		}
		l := r.Int63n(1 << 18)
		if r.Intn(10) == 0 {
			l = r.Int63n(1 << 20)
		}
		o = append(o, ln("ar", "compose", i(p), i(l)))
		// a neighbour, to exercise monotonicity on pairs of consecutive lines
		switch r.Intn(3) {
		case 0:
			o = append(o, ln("ar", "compose", i(p), i((l+1)%(1<<18))))
		case 1:
			o = append(o, ln("ar", "compose", i(p+1), i(r.Int63n(1<<18))))
		default:
			o = append(o, ln("ar", "compose", i(p+1), "0"))
		}
		o = append(o, ln("ar", "ext", u(r.Uint64()>>uint(r.Intn(64)))))
		a, b := r.Uint64()>>uint(r.Intn(30)), r.Uint64()>>uint(r.Intn(30))
		o = append(o, ln("ar", "tsub", u(a), u(b)))
		o = append(o, ln("ar", "gotime", i(r.Int63n(1<<62))))
	}
	return o
}

type pdClock struct{ p, l int64 }

func (c *pdClock) next(r *rand.Rand) pdres {
	switch r.Intn(4) {
	case 0:
		c.p += 1 + r.Int63n(3)
		c.l = r.Int63n(4)
	case 1:
		c.p += r.Int63n(2000)
		c.l = r.Int63n(1 << 18)
		if c.l == 0 {
			c.l = 1
		}
		if r.Intn(2) == 0 {
			c.p++
		} else {
			c.p += 1
		}
	default:
		if c.l+1 < 1<<18 {
			c.l++
		} else {
			c.p++
			c.l = 0
		}
	}
	return pdres{p: c.p, l: c.l}
}
func (c *pdClock) ts() uint64 { return uint64(c.p<<18 + c.l) }

func genSeq(r *rand.Rand, id int, long, wideTTL bool) []string {
	var o []string
	clk := &pdClock{p: []int64{5, 1000, 1700000000000, 1<<45 - 5000}[r.Intn(4)]}
	enabled := r.Intn(8) != 0
	init := clk.next(r)
	if r.Intn(40) == 0 {
		init = pdres{err: true}
	}
	o = append(o, ln("seq", "begin", strconv.Itoa(id), b01(enabled), init.String()))
	nops := 12 + r.Intn(25)
	if long {
		nops = 40 + r.Intn(80)
	}
	var futs []string
	var seen []uint64 // timestamps PD has issued so far
	seen = append(seen, clk.ts())
	nf := 0
	scope := func() string {
		x := r.Intn(10)
		switch {
		case x < 4:
			return "1"
		case x < 7:
			return "0"
		case x < 9:
			return "2"
		}
		return "3"
	}
	pdv := func() pdres {
		if r.Intn(15) == 0 {
			return pdres{err: true}
		}
		v := clk.next(r)
		seen = append(seen, clk.ts())
		return v
	}
	pick := func() uint64 { return seen[r.Intn(len(seen))] }
	for k := 0; k < nops; k++ {
		switch x := r.Intn(20); {
		case x < 3:
			o = append(o, ln("seq", "G", scope(), pdv().String()))
		case x < 6:
			fid := "f" + strconv.Itoa(nf)
			nf++
			futs = append(futs, fid)
			o = append(o, ln("seq", "A", fid, scope(), pdv().String()))
		case x < 9:
			if len(futs) > 0 {
				j := r.Intn(len(futs))
				o = append(o, ln("seq", "W", futs[j]))
				futs = append(futs[:j], futs[j+1:]...)
			}
		case x < 11:
			o = append(o, ln("seq", []string{"L", "LA"}[r.Intn(2)], scope()))
		case x < 14:
			// expiry: lock/ttl chosen around the boundary  phys(last) = phys(lock)+ttl
			last := pick()
			lock := last
			if r.Intn(2) == 0 {
				lock = pick()
			}
			if r.Intn(3) == 0 {
				lock -= uint64(r.Intn(5000)) << 18
			}
			diff := int64(last>>18) - int64(lock>>18)
			var ttl uint64
			switch r.Intn(8) {
			case 0:
				ttl = 0
			case 1:
				ttl = uint64(diff)
			case 2:
				ttl = uint64(diff + 1)
			case 3:
				ttl = uint64(diff - 1)
			case 4:
				ttl = uint64(r.Intn(6000))
			case 5:
				ttl = uint64(diff) + uint64(r.Intn(3))
			case 6:
				ttl = 1<<62 - 1 - uint64(r.Intn(2))
			case 7:
				ttl = uint64(r.Int63n(1 << 40))
			}
			if int64(ttl) < 0 && !wideTTL {
				ttl = 0
			}
			if wideTTL && r.Intn(3) == 0 {
				ttl = []uint64{1 << 62, 1<<63 - 1, 1 << 63, 1<<63 + 1, math.MaxUint64, 1<<63 - 1 - lock>>18, 1<<63 - lock>>18, uint64(1<<63) - uint64(r.Int63n(1<<47))}[r.Intn(8)]
			}
			o = append(o, ln("seq", "X", scope(), u(lock), u(ttl)))
		case x < 18:
			// validation: read around what PD issued / is about to issue
			p1 := pdv()
			c1 := clk.ts()
			p2 := pdv()
			c2 := clk.ts()
			var read uint64
			switch r.Intn(12) {
			case 0:
				read = pick()
			case 1:
				read = pick() + 1
			case 2:
				read = c1
			case 3:
				read = c1 + 1
			case 4:
				read = c1 - 1
			case 5:
				read = c2
			case 6:
				read = c2 + 1
			case 7:
				read = c2 + uint64(r.Intn(1<<20))
			case 8:
				read = []uint64{math.MaxUint64, math.MaxInt64, math.MaxInt64 - 1, math.MaxInt64 + 1, math.MaxUint64 - 1, 0, 1}[r.Intn(7)]
			case 9:
				read = seen[len(seen)-1] - uint64(r.Intn(3))
			default:
				read = pick() + uint64(r.Intn(4)) - 1
			}
			o = append(o, ln("seq", "V", scope(), u(read), b01(r.Intn(2) == 0), p1.String(), p2.String()))
		case x < 19:
			last := pick()
			sec := last >> 18 / 1000
			prev := []uint64{0, 1, sec, sec - 1, sec + 1, uint64(r.Intn(100)), math.MaxUint64}[r.Intn(7)]
			if sec == 0 && prev == math.MaxUint64-0 {
				prev = 0
			}
			o = append(o, ln("seq", "S", scope(), u(prev), pdv().String()))
		default:
			switch r.Intn(3) {
			case 0:
				o = append(o, ln("seq", "I", i([]int64{0, -1, 1, 1000000, 2000000000, 600000000}[r.Intn(6)])))
			case 1: // pass-through: PD's min ts (any value, also below the cached one; not an issued ts)
				m := pdres{p: clk.p - r.Int63n(5), l: r.Int63n(1 << 18)}
				if r.Intn(8) == 0 {
					m = pdres{err: true}
				}
				o = append(o, ln("seq", "M", m.String()))
			default:
				o = append(o, ln("seq", "E", u([]uint64{0, 1, pick(), pick() + 5, math.MaxUint64}[r.Intn(5)])))
			}
		}
	}
	for _, f := range futs {
		if r.Intn(2) == 0 {
			o = append(o, ln("seq", "W", f))
		}
	}
	o = append(o, ln("seq", "L", "1"))
	return o
}

func genSf(r *rand.Rand, id int, scripted int) []string {
	var o []string
	mode := []string{"E", "R"}[r.Intn(2)]
	base := uint64([]int64{5, 1700000000000}[r.Intn(2)])<<18 + uint64(r.Intn(100))
	stride := uint64([]int{1, 2, 3, 1 << 18, 5<<18 + 7}[r.Intn(5)])
	k := int64(1) // NewPdOracle consumed pd(0)
	at := func(j int64) uint64 { return base + uint64(j)*stride }
	if scripted == 1 || scripted == -1 {
		// (scripted -1: the same schedule on a txn scope that has no cached timestamp yet)
		// the stale single-flight schedule: A's flight receives pd(1) and is held; PD issues pd(2),pd(3)
		// to others; B validates pd(3): joins A's flight, gets the older pd(1), must retry and pass
		m := "E"
		if scripted == -1 {
			m = "Ef"
		}
		o = append(o, ln("sf", "begin", strconv.Itoa(id), m, u(base), u(stride)))
		o = append(o, ln("sf", "spawn", "0", u(at(1)), "0"), ln("sf", "issue"), ln("sf", "issue"),
			ln("sf", "spawn", "1", u(at(3)), "1"), ln("sf", "spawn", "2", u(at(3)+1), "0"), ln("sf", "spawn", "3", u(at(2)), "0"),
			ln("sf", "release", "ok"), ln("sf", "release", "ok"), ln("sf", "end"))
		return o
	}
	if scripted >= 2 {
		// cancellation of one caller of a shared flight must only fail that caller:
		// A starts a flight (PD gated), others whose read ts was issued before their call join,
		// then one of them is cancelled, then PD answers.
		m := []string{"E", "R"}[scripted%2]
		o = append(o, ln("sf", "begin", strconv.Itoa(id), m, u(base), u(stride)))
		o = append(o, ln("sf", "spawn", "0", u(at(1)), "0"), ln("sf", "issue"))
		// issued so far: pd0 (init), [pd1 to A's flight in mode E], one env issue
		hi := at(2)
		if m == "R" {
			hi = at(1)
		}
		switch scripted / 2 {
		case 1: // B joins, A (the caller that started the flight) is cancelled
			o = append(o, ln("sf", "spawn", "1", u(hi), "1"), ln("sf", "cancel", "0"))
		case 2: // B joins, B is cancelled: A must still be served
			o = append(o, ln("sf", "spawn", "1", u(hi), "0"), ln("sf", "cancel", "1"))
		case 3: // three joiners, the starter is cancelled
			o = append(o, ln("sf", "spawn", "1", u(hi), "0"), ln("sf", "spawn", "2", u(at(1)), "1"), ln("sf", "spawn", "3", u(hi), "0"), ln("sf", "cancel", "0"))
		default: // three joiners, a joiner and then the starter are cancelled
			o = append(o, ln("sf", "spawn", "1", u(hi), "0"), ln("sf", "spawn", "2", u(hi), "1"), ln("sf", "spawn", "3", u(at(0)+1), "0"), ln("sf", "cancel", "2"), ln("sf", "cancel", "0"))
		}
		o = append(o, ln("sf", "release", "ok"), ln("sf", "release", "ok"), ln("sf", "end"))
		return o
	}
	if r.Intn(3) == 0 {
		mode += "f" // a never-used txn scope: nothing cached until somebody publishes
	}
	o = append(o, ln("sf", "begin", strconv.Itoa(id), mode, u(base), u(stride)))
	spawned, pend := 0, false
	leader := 0 // first validator spawned since the last release: the likely starter of the current flight
	blocked := map[int]bool{}
	nsteps := 6 + r.Intn(14)
	for s := 0; s < nsteps; s++ {
		switch x := r.Intn(12); {
		case x < 5 && spawned < 6:
			var read uint64
			switch r.Intn(8) {
			case 0:
				read = at(k - 1)
			case 1:
				read = at(k)
			case 2:
				read = at(k + 1)
			case 3:
				read = at(k-1) + 1
			case 4:
				read = at(r.Int63n(k + 1))
			case 5:
				read = at(k + r.Int63n(4))
			case 6:
				read = []uint64{math.MaxUint64, math.MaxInt64, 0}[r.Intn(3)]
			default:
				read = at(k) - 1
			}
			o = append(o, ln("sf", "spawn", strconv.Itoa(spawned), u(read), b01(r.Intn(2) == 0)))
			blocked[spawned] = true
			spawned++
			pend = true // possibly
			if strings.HasPrefix(mode, "E") {
				k++ // possibly consumed by a new flight; the generator's k is only a hint for choosing reads
			}
		case x < 7:
			o = append(o, ln("sf", "issue"))
			k++
		case x < 8:
			o = append(o, ln("sf", "publish"))
			k++
		case x < 10 && pend:
			o = append(o, ln("sf", "release", []string{"ok", "ok", "ok", "ok", "err"}[r.Intn(5)]))
			k++
			leader = spawned
		default:
			if spawned > 0 {
				t := r.Intn(spawned)
				if r.Intn(2) == 0 && leader < spawned {
					t = leader
				}
				o = append(o, ln("sf", "cancel", strconv.Itoa(t)))
			}
		}
	}
	o = append(o, ln("sf", "end"))
	return o
}

func genCw(r *rand.Rand) string {
	phys := []int64{5, 1700000000000}[r.Intn(2)]
	bound := uint64(phys<<18) + uint64(r.Intn(1<<18))
	if r.Intn(10) == 0 {
		bound = 0
	}
	to := []int64{0, 500000, 1000000, 3000000, 7000000, 20000000, 1000000000}[r.Intn(7)]
	n := r.Intn(6)
	var sc []string
	lagMs := int64(r.Intn(4))
	if r.Intn(6) == 0 {
		lagMs = int64(r.Intn(3000))
	}
	cur := int64(bound) - lagMs<<18 - int64(r.Intn(3))
	if cur < 0 {
		cur = 0
	}
	for k := 0; k <= n; k++ {
		x := r.Intn(12)
		if k == 0 && x >= 3 && x <= 5 && r.Intn(3) > 0 {
			x = 6 // the first attempt mostly lags behind the bound
		}
		switch x {
		case 0:
			sc = append(sc, "err")
			continue
		case 1, 2:
			cur = int64(bound) // exactly the bound: must not be accepted
		case 3, 4:
			cur = int64(bound) + 1 + int64(r.Intn(3))
		case 5:
			cur += 1 << 18
		default:
			cur += int64(r.Intn(1 << 17))
		}
		sc = append(sc, u(uint64(cur)))
	}
	s := "-"
	if len(sc) > 0 && r.Intn(30) != 0 {
		s = strings.Join(sc, ",")
	}
	// the constraint is registered through a sequence of SetCommitWaitUntilTSO calls whose maximum is `bound`
	regs := []string{u(bound)}
	switch r.Intn(6) {
	case 0:
		regs = []string{u(bound), "0"}
	case 1:
		regs = []string{"0", u(bound), u(bound / 2), "0"}
	case 2:
		regs = []string{u(bound - bound/3), u(bound), u(bound - 1 + 1 - bound/4)}
	case 3:
		regs = []string{u(bound), u(bound), "0", "1"}
	}
	return ln("cw", strings.Join(regs, ","), i(to), s)
}

func genLo(r *rand.Rand) []string {
	o := []string{ln("lo", "begin")}
	now := int64(1700000000000)*1000000 + r.Int63n(1000000)
	for k := 0; k < 30; k++ {
		switch r.Intn(5) {
		case 0:
			now += r.Int63n(3000000)
		case 1:
			now += 1000000
		case 2:
			now += r.Int63n(999)
		}
		if r.Intn(3) > 0 {
			o = append(o, ln("lo", "G", i(now)))
		} else {
			ms := now / 1000000
			lock := uint64(ms-int64(r.Intn(5)))<<18 + uint64(r.Intn(10))
			diff := ms - int64(lock>>18)
			ttl := uint64(diff + int64(r.Intn(3)) - 1)
			if int64(ttl) < 0 {
				ttl = 0
			}
			o = append(o, ln("lo", "X", i(now), u(lock), u(ttl)))
		}
	}
	return o
}

func genIv(r *rand.Rand) []string {
	var o []string
	const ms = int64(1000000)
	now := int64(1700000000)*1000000000 + r.Int63n(1000)*ms
	cfgs := []int64{1 * ms, 400 * ms, 500 * ms, 500*ms + 1, 600 * ms, 2000 * ms, 10000 * ms, 3600000 * ms}
	cfg := cfgs[r.Intn(len(cfgs))]
	lo := int64(500 * ms)
	if cfg < lo {
		lo = cfg
	}
	ada := cfg
	switch r.Intn(5) {
	case 0:
		ada = lo
	case 1:
		ada = lo + r.Int63n(cfg-lo+1)
	case 2:
		ada = cfg - r.Int63n(3)
		if ada < lo {
			ada = lo
		}
	}
	if r.Intn(25) == 0 {
		ada = cfg + r.Int63n(1000*ms) // outside the invariant: differential only
	}
	lastShort := now/ms - []int64{0, 1000, 299999, 300000, 300001, 3600000, 100000000}[r.Intn(7)]
	dt := r.Int63n(4000) * 125 * ms // multiples of 1/8 s: the float computation is exact
	if r.Intn(5) == 0 {
		dt = r.Int63n(400000) * 125 * ms
	}
	req := []int64{0, 0, 1 * ms, ada - 1, ada, ada + 1, 600 * ms, 550 * ms, 100 * ms, ada - 100*ms, ada / 2, r.Int63n(cfg + 1)}[r.Intn(12)]
	if req < 0 {
		req = 0
	}
	o = append(o, ln("iv", "next", i(cfg), i(ada), i(lastShort), i(now-dt), strconv.Itoa(r.Intn(5)), i(now), i(req)))
	nw := []int64{cfg, 0, -1, 1, ada, ada - 1, ada + 1, 400 * ms, 500 * ms, 700 * ms, cfgs[r.Intn(len(cfgs))]}[r.Intn(11)]
	o = append(o, ln("iv", "set", i(cfg), i(ada), i(nw)))
	cur := uint64(now/ms) << 18
	stal := []int64{0, 1, ada / ms, ada/ms + 1, ada/ms - 1, ada/ms + 200, ada/ms + 201, -5, r.Int63n(20000)}[r.Intn(9)]
	read := uint64(now/ms-stal)<<18 + uint64(r.Intn(100))
	o = append(o, ln("iv", "adj", i(cfg), i(ada), i(lastShort+[]int64{0, 5000, -5}[r.Intn(3)]), u(read), u(cur), i(now)))
	return o
}

func genSl(r *rand.Rand) string {
	physOff := []int64{0, 1, 999, 1000, 5000, 3600000, -1000}[r.Intn(7)] + r.Int63n(3)
	arrOff := []int64{0, 1000, 999999, 1000000, 5000000, 1000000000, 10000000000, 3600000000000}[r.Intn(8)] + r.Int63n(1000)
	prev := []uint64{0, 0, 1, 2, 10, 3600, 1700000000 - 1, 1700000000, 1800000000, uint64(r.Intn(100000))}[r.Intn(10)]
	ps := u(prev)
	if r.Intn(4) == 0 {
		ps = []string{"s-1", "s0", "s1", "s-2"}[r.Intn(4)]
	}
	return ln("sl", i(physOff), strconv.FormatInt(r.Int63n(1<<18), 16), i(arrOff), ps)
}

func generate(seed int64, thorough bool) []string {
	r := rand.New(rand.NewSource(seed*7919 + 13))
	mul := 1
	if thorough {
		mul = 8
	}
	wide := strings.Contains(getenv("VERIF_C13_WIDE_TTL", "1"), "1")
	var o []string
	conc := getenv("VERIF_C13_ONLY", "") == "conc" // only the concurrent classes (run under the race detector)
	if !conc {
		o = append(o, genAr(r, 400*mul)...)
		for c := 0; c < 250*mul; c++ {
			o = append(o, genSeq(r, c, thorough && c%10 == 0, wide)...)
		}
	}
	for c := 0; c < 250*mul; c++ {
		sc := 0
		if c < 10 {
			sc = c + 1 // 1: stale single flight; 2..9: cancellation of one caller of a shared flight (E/R x 4 shapes)
		}
		if c == 10 {
			sc = -1 // the stale single-flight schedule on a never-used txn scope
		}
		o = append(o, genSf(r, c, sc)...)
	}
	for c := 0; c < 120*mul && !conc; c++ {
		o = append(o, genCw(r))
	}
	for c := 0; c < 20*mul && !conc; c++ {
		o = append(o, genLo(r)...)
	}
	for c := 0; c < 300*mul && !conc; c++ {
		o = append(o, genIv(r)...)
		o = append(o, genSl(r))
	}
	// consumer side of the commit-wait clause: real Commit, modes x causal x constraint ahead of / behind PD
	for rep := 0; rep < mul && !conc; rep++ {
		for mode := 0; mode < 3; mode++ {
			for causal := 0; causal < 2; causal++ {
				for _, ahead := range []int64{-100, 0, 25 + r.Int63n(30), 70 + r.Int63n(30)} {
					// registration sequences on one transaction: single, then zero, raise/lower, zero first, repeated
					a := i(ahead)
					regs := [][]string{{a}, {a, "z"}, {i(ahead - 20), a, i(ahead - 40)}, {"z", a, "z", i(ahead - 10)}, {a, a, "z"}}[r.Intn(5)]
					o = append(o, ln("tx", strconv.Itoa(mode), strconv.Itoa(causal), strings.Join(regs, ","), "1388", strconv.Itoa(1+r.Intn(3))))
				}
				o = append(o, ln("tx", strconv.Itoa(mode), strconv.Itoa(causal), i(40+r.Int63n(20))+",z", "1388", "1"))
				o = append(o, ln("tx", strconv.Itoa(mode), strconv.Itoa(causal), "c8", "a", "2")) // 200ms ahead, 10ms allowed: must fail
			}
		}
	}
	// the consumers with a fully scripted PD: commit modes x causal x registration sequences x PD step, tikv/kv.go retries
	for rep := 0; rep < 10*mul && !conc; rep++ {
		for mode := 0; mode < 3; mode++ {
			for causal := 0; causal < 2; causal++ {
				ahead := []int64{-50, 0, 3, 25, 60}[r.Intn(5)]
				a := i(ahead)
				regs := [][]string{{a}, {a, "z"}, {i(ahead - 20), a, i(ahead - 40)}, {"z", a, "z", i(ahead - 10)}, {"z"}, {a, a, "z"}}[r.Intn(6)]
				step := []string{"0", "1", "5", "14"}[r.Intn(4)]
				to := []string{"1388", "1e", "a", "0"}[r.Intn(4)] // 5000, 30, 10, 0 ms
				o = append(o, ln("tc", strconv.Itoa(mode), strconv.Itoa(causal), strings.Join(regs, ","), to, strconv.Itoa(1+r.Intn(3)), step))
			}
		}
		for _, op := range []string{"cur", "retry", "min"} {
			o = append(o, ln("kv", op, strconv.Itoa(r.Intn(4))))
		}
	}
	if !conc {
		o = append(o, ln("kv", "cur", "40"), ln("kv", "retry", "40")) // PD down for the whole budget
	}
	// the updateTS loop end to end: stale-read validations and configuration changes against the running updater
	for c := 0; c < 6*mul && !conc; c++ {
		cfg := []string{"7d0", "2710", "36ee80", "2bc", "190", "1f4", "1f5"}[r.Intn(7)] // ms, hex: 2000, 10000, 3600000, 700, 400, 500, 501
		var steps []string
		for k := 0; k < 3+r.Intn(5); k++ {
			switch r.Intn(6) {
			case 0:
				steps = append(steps, "s"+[]string{"2000", "400", "10000", "600", "650", "3000"}[r.Intn(6)])
			case 1:
				steps = append(steps, "n"+[]string{"800", "50"}[r.Intn(2)])
			default:
				steps = append(steps, "v"+[]string{"800", "600", "1500", "450", "100", "5000", "0", "601", "1999"}[r.Intn(9)])
			}
		}
		o = append(o, ln("lp", cfg, strings.Join(steps, ",")))
	}
	o = append(o, ln("mo", "200"))
	nb := 2
	if thorough {
		nb = 12
	}
	for c := 0; c < nb; c++ {
		o = append(o, ln("bg", fmt.Sprint(seed*100+int64(c)), strconv.Itoa(2+r.Intn(6)), strconv.Itoa(1+r.Intn(3)), strconv.Itoa(1+r.Intn(4)),
			strconv.Itoa(250+250*(mul/8)), strconv.Itoa([]int{300, 1000, 5000, 600000, 2000000}[r.Intn(5)])))
		o = append(o, ln("st", fmt.Sprint(seed*100+int64(c)), strconv.Itoa(2+r.Intn(14)), strconv.Itoa(200*mul)))
		// concurrent first users of fresh txn scopes: rounds, wall-clock effort budget (ms)
		o = append(o, ln("rf", fmt.Sprint(seed*100+int64(c)), strconv.Itoa(60*mul), strconv.Itoa(2+c%2)))
		o = append(o, ln("fs", fmt.Sprint(seed*100+int64(c)), strconv.Itoa(4000*mul), strconv.Itoa(1500+500*(mul/8))))
	}
	_ = time.Now
	return o
}
