//go:build verif

package main

import (
	"context"
	"fmt"
	"github.com/tikv/client-go/v2/oracle"
	"github.com/tikv/client-go/v2/oracle/oracles"
	"math/rand"
	"runtime"
	"sync"
	"sync/atomic"
	"time"
)

// ---------------------------------------------------------------- class rf: the background refresher as a further writer
// execRf: seed rounds nscopes — the oracle runs its real updateTS goroutine (1ms interval) against the gated PD
// (answer assigned when the request arrives). Each round: wait until a refresher request is held back, let
// foreground callers obtain and cache LATER timestamps on every scope (futures, not gated), then answer the
// refresher; when its next request arrives the previous doUpdate step is finished: no scope's cached value may
// have moved back. Readers poll GetLowResolutionTimestamp on every scope throughout (monotone, <= max issued).
func execRf(f []string) {
	emit(append(append([]string{}, f...), "=>")...)
	seed, rounds, nsc := pi(f[1]), pn(f[2]), pn(f[3])
	r := rand.New(rand.NewSource(seed))
	base := uint64(1700000000000) << 18
	var k int64
	var maxIssued atomic.Uint64
	pdc := &scriptPD{assignAtEntry: true}
	pdc.counter = func() pdres {
		ts := base + uint64(k)
		k++
		maxIssued.Store(ts)
		return pdres{p: oracle.ExtractPhysical(ts), l: oracle.ExtractLogical(ts)}
	}
	o, err := oracles.NewPdOracle(pdc, &oracles.PDOracleOptions{UpdateInterval: time.Millisecond})
	if err != nil {
		panic(err)
	}
	ctx := context.Background()
	scs := []string{"global", "dc-rf-1", "dc-rf-2"}[:nsc]
	pdc.mu.Lock()
	pdc.gated = true
	pdc.mu.Unlock()
	waitPending := func() bool {
		for d := time.Now().Add(5 * time.Second); time.Now().Before(d); {
			if pdc.npending() > 0 {
				return true
			}
			time.Sleep(20 * time.Microsecond)
		}
		return false
	}
	stop := make(chan struct{})
	var rwg sync.WaitGroup
	var bad atomic.Value
	var nreads atomic.Int64
	for _, sc := range scs {
		rwg.Add(1)
		go func(sc string) {
			defer rwg.Done()
			var prev uint64
			for {
				lr, err := o.GetLowResolutionTimestamp(ctx, &oracle.Option{TxnScope: sc})
				mx := maxIssued.Load()
				if err == nil {
					if lr < prev {
						bad.CompareAndSwap(nil, fmt.Sprintf("a reader of scope %s observed %x after %x", sc, lr, prev))
					}
					if lr > mx {
						bad.CompareAndSwap(nil, fmt.Sprintf("a reader of scope %s observed %x > max issued %x", sc, lr, mx))
					}
					prev = lr
					nreads.Add(1)
				}
				select {
				case <-stop:
					return
				default:
				}
				runtime.Gosched()
			}
		}(sc)
	}
	failName, failDetail := "", ""
	staysDetail := "" // an entry that disappeared (reported, the run goes on to look for a decrease)
	cached := map[string]uint64{}
	done := 0
	for ; done < rounds && failName == ""; done++ {
		if !waitPending() {
			failName, failDetail = "rf_refresher_runs", "no refresher request within 5s"
			break
		}
		pdc.mu.Lock()
		held := pdc.pend[0].r
		pdc.mu.Unlock()
		heldTS := oracle.ComposeTS(held.p, held.l)
		// requests whose answers PD issues now but which reach their callers only after the refresher's outcome
		type earlyFut struct {
			sc  string
			fut oracle.Future
		}
		var early []earlyFut
		var earlyDesc []string
		for _, sc := range scs {
			if r.Intn(2) == 0 {
				early = append(early, earlyFut{sc, o.GetTimestampAsync(ctx, &oracle.Option{TxnScope: sc})})
				earlyDesc = append(earlyDesc, sc)
			}
		}
		// foreground callers cache later timestamps (a random subset of scopes, at least one)
		var fg []string
		for i, sc := range scs {
			if i == done%len(scs) || r.Intn(2) == 0 {
				ts, err := o.GetTimestampAsync(ctx, &oracle.Option{TxnScope: sc}).Wait()
				if err != nil {
					panic(err)
				}
				cached[sc] = ts
				fg = append(fg, fmt.Sprintf("%s:=%x", sc, ts))
			}
		}
		before := map[string]uint64{}
		for _, sc := range scs {
			if lr, err := o.GetLowResolutionTimestamp(ctx, &oracle.Option{TxnScope: sc}); err == nil {
				before[sc] = lr
			}
		}
		fault := done%3 == 2 || r.Intn(4) == 0 // PD fails this refresher request
		pdc.release(fault)                     // PD's (older) answer, or a failure, reaches the refresher now
		if !waitPending() {                    // its next request: the previous publish step is over
			failName, failDetail = "rf_refresher_runs", "refresher did not continue within 5s"
			break
		}
		// answers that PD issued earlier (before the foreground's) arrive only now
		for _, e := range early {
			if _, err := e.fut.Wait(); err != nil {
				panic(err)
			}
		}
		for _, sc := range scs {
			lr, err := o.GetLowResolutionTimestamp(ctx, &oracle.Option{TxnScope: sc})
			if _, had := before[sc]; had && err != nil && staysDetail == "" {
				staysDetail = fmt.Sprintf("round %d: refresher request allocated %x answered with fault=%v; scope %s had cached %x, now: %v", done, heldTS, fault, sc, before[sc], err)
			}
			if err == nil && lr < before[sc] {
				failName = "rf_lowres_monotone"
				failDetail = fmt.Sprintf("round %d: refresher request allocated %x was held back; answers issued next are held for scopes %v; foreground cached %v; refresher answered with fault=%v, then the held answers arrived; cached value of scope %s before %x, after %x", done, heldTS, earlyDesc, fg, fault, sc, before[sc], lr)
			}
		}
		if b, _ := bad.Load().(string); b != "" && failName == "" {
			failName, failDetail = "rf_lowres_monotone", b
		}
	}
	close(stop)
	rwg.Wait()
	pdc.mu.Lock()
	pdc.gated = false
	pdc.mu.Unlock()
	o.Close()
	for pdc.release(false) {
	}
	for _, name := range []string{"rf_lowres_monotone", "rf_lowres_stays", "rf_refresher_runs"} {
		d := ""
		if name == failName {
			d = failDetail
		}
		if name == "rf_lowres_stays" {
			d = staysDetail
		}
		pline(name, name != failName && d == "", f[1], d)
	}
	emit("rf", "counts", f[1], "=>", fmt.Sprintf("rounds=%d scopes=%d reads=%d", done, nsc, nreads.Load()))
}
