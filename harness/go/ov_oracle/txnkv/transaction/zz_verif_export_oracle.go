//go:build verif

// Add-only access file for the C13 driver: runs KVTxn.GetTimestampForCommit against a scripted
// GetTimestampWithRetry.
package transaction

import (
	"context"
	"time"

	"github.com/tikv/client-go/v2/config/retry"
	tikverr "github.com/tikv/client-go/v2/error"
)

type verifTSStore struct {
	kvstore
	script func() (uint64, error)
	calls  int
}

func (s *verifTSStore) GetTimestampWithRetry(bo *retry.Backoffer, scope string) (uint64, error) {
	s.calls++
	return s.script()
}

// VerifCommitWait registers regs one after the other with SetCommitWaitUntilTSO and runs GetTimestampForCommit.
// It returns (ts, error, isCommitTSLagError, number of GetTimestampWithRetry calls, constraint in effect).
func VerifCommitWait(script func() (uint64, error), regs []uint64, timeout time.Duration) (uint64, error, bool, int, uint64) {
	st := &verifTSStore{script: script}
	txn := &KVTxn{store: st}
	txn.commitWaitUntilTSOTimeout = time.Second
	for _, r := range regs {
		txn.SetCommitWaitUntilTSO(r)
	}
	txn.SetCommitWaitUntilTSOTimeout(timeout)
	eff := txn.GetCommitWaitUntilTSO()
	bo := retry.NewBackofferWithVars(context.Background(), 1000, nil)
	ts, err := txn.GetTimestampForCommit(bo, "global")
	return ts, err, err != nil && tikverr.IsErrorCommitTSLag(err), st.calls, eff
}
