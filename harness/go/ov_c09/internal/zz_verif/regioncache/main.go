//go:build verif

// Driver for property C09 (region cache lookups). All logic lives inside package locate
// (overlay file zz_verif_c09_region_driver.go) because it needs unexported identifiers.
package main

import (
	"os"

	"github.com/tikv/client-go/v2/internal/locate"
)

func main() {
	os.Exit(locate.VerifC09Main(os.Args[1:]))
}
