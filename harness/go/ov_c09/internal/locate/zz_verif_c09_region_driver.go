//go:build verif

// Harness for property C09 (region cache lookups), mapped into package locate by `go build -overlay`.
// Generates seeded sequences of topology changes on a mocktikv.Cluster interleaved with every lookup
// API of RegionCache, with a PD client that may answer from stale snapshots, and prints a trace:
//
//	SEQ class seed
//	T   truth (regions of the cluster, ascending)         X  free-form event (topology change, store reply)
//	O   idx op args...   Q pd-call and answer (0..n)   R result   D cache dump (index | by-version map | latest)
//	E
//
// The model driver (ocaml/region/driver.ml) replays the O/Q lines and compares R/D; checks/C09.py evaluates
// the property oracles on the R/T/X lines.
package locate

import (
	"bufio"
	"bytes"
	"context"
	"encoding/hex"
	"fmt"
	"math/rand"
	"os"
	"runtime"
	"sort"
	"strconv"
	"strings"
	"sync/atomic"
	"time"

	"github.com/golang/protobuf/proto" //nolint:staticcheck
	"github.com/pingcap/failpoint"
	"github.com/pingcap/kvproto/pkg/errorpb"
	"github.com/pingcap/log"
	"go.uber.org/zap/zapcore"
	"github.com/pingcap/kvproto/pkg/kvrpcpb"
	"github.com/pingcap/kvproto/pkg/metapb"
	"github.com/tikv/client-go/v2/config/retry"
	"github.com/tikv/client-go/v2/internal/apicodec"
	"github.com/tikv/client-go/v2/internal/mockstore/mocktikv"
	"github.com/tikv/client-go/v2/kv"
	"github.com/tikv/client-go/v2/oracle"
	"github.com/tikv/client-go/v2/tikvrpc"
	"github.com/tikv/client-go/v2/util"
	"github.com/tikv/client-go/v2/util/codec"
	pd "github.com/tikv/pd/client"
	"github.com/tikv/pd/client/clients/router"
	"github.com/tikv/pd/client/opt"
	"github.com/tikv/pd/client/pkg/caller"
)

// ---------------------------------------------------------------- formatting
func c09hx(b []byte) string {
	if len(b) == 0 {
		return "-"
	}
	return hex.EncodeToString(b)
}
func c09Peers(ps []*metapb.Peer) string {
	if len(ps) == 0 {
		return "_"
	}
	s := make([]string, len(ps))
	for i, p := range ps {
		s[i] = fmt.Sprintf("%d:%d", p.GetId(), p.GetStoreId())
	}
	return strings.Join(s, "/")
}
func c09Bk(b *metapb.Buckets) string {
	if b == nil {
		return "-"
	}
	ks := make([]string, len(b.Keys))
	for i, k := range b.Keys {
		ks[i] = c09hx(k)
	}
	return fmt.Sprintf("%d#%s", b.Version, strings.Join(ks, "/"))
}
func c09Desc(meta *metapb.Region, leader *metapb.Peer) string { return c09DescB(meta, leader, nil) }
func c09DescB(meta *metapb.Region, leader *metapb.Peer, bk *metapb.Buckets) string {
	if meta == nil {
		return "none"
	}
	return fmt.Sprintf("%d,%s,%s,%d,%d,%s,%d:%d,%s", meta.GetId(), c09hx(meta.GetStartKey()), c09hx(meta.GetEndKey()),
		meta.GetRegionEpoch().GetVersion(), meta.GetRegionEpoch().GetConfVer(), c09Peers(meta.GetPeers()), leader.GetId(), leader.GetStoreId(), c09Bk(bk))
}
func c09Descs(rs []*router.Region) string {
	if len(rs) == 0 {
		return "_"
	}
	s := make([]string, len(rs))
	for i, r := range rs {
		s[i] = c09DescB(r.Meta, r.Leader, r.Buckets)
	}
	return strings.Join(s, ";")
}
func c09Ver(v RegionVerID) string { return fmt.Sprintf("%d,%d,%d", v.id, v.ver, v.confVer) }
func c09Loc(l *KeyLocation) string {
	return fmt.Sprintf("%s,%s,%s", c09Ver(l.Region), c09hx(l.StartKey), c09hx(l.EndKey))
}
func c09Locs(ls []*KeyLocation) string {
	if len(ls) == 0 {
		return "_"
	}
	s := make([]string, len(ls))
	for i, l := range ls {
		s[i] = c09Loc(l)
	}
	return strings.Join(s, ";")
}
func c09RegionLocs(rs []*Region) string {
	if len(rs) == 0 {
		return "_"
	}
	s := make([]string, len(rs))
	for i, r := range rs {
		s[i] = fmt.Sprintf("%s,%s,%s", c09Ver(r.VerID()), c09hx(r.StartKey()), c09hx(r.EndKey()))
	}
	return strings.Join(s, ";")
}
func c09Ranges(rs []router.KeyRange) string {
	if len(rs) == 0 {
		return "_"
	}
	s := make([]string, len(rs))
	for i, r := range rs {
		s[i] = c09hx(r.StartKey) + ":" + c09hx(r.EndKey)
	}
	return strings.Join(s, ";")
}

// c09Dump prints the B-tree content, the by-version map and latestVersions (white box).
func c09Dump(c *RegionCache) string {
	c.mu.RLock()
	defer c.mu.RUnlock()
	now := time.Now().Unix()
	var ents []string
	c.mu.sorted.b.Ascend(func(item *btreeItem) bool {
		r := item.cachedRegion
		fl := r.getSyncFlags() & (needReloadOnAccess | needDelayedReloadPending | needDelayedReloadReady)
		exp := 0
		if r.isCacheTTLExpired(now) {
			exp = 1
		}
		eps := make([]string, len(r.getStore().storeEpochs))
		for i, x := range r.getStore().storeEpochs {
			eps[i] = fmt.Sprint(x)
		}
		ents = append(ents, fmt.Sprintf("%s,%s,%s,%d,%d,%d,%d,%s,%s,%s", c09Ver(r.VerID()), c09hx(r.StartKey()), c09hx(r.EndKey()),
			int(r.getStore().workTiKVIdx), exp, atomic.LoadInt32((*int32)(&r.invalidReason)), fl, c09Peers(r.meta.Peers), strings.Join(eps, "/"), c09Bk(r.getStore().buckets)))
		return true
	})
	var regs []string
	for v, r := range c.mu.regions {
		regs = append(regs, c09Ver(v)+">"+c09hx(r.StartKey()))
	}
	sort.Strings(regs)
	var lat []string
	for id, v := range c.mu.latestVersions {
		lat = append(lat, fmt.Sprintf("%d>%d,%d", id, v.ver, v.confVer))
	}
	sort.Strings(lat)
	j := func(l []string) string {
		if len(l) == 0 {
			return "_"
		}
		return strings.Join(l, ";")
	}
	// store fail-epochs (only the non-zero ones)
	var se []string
	for id := uint64(1); id < 64; id++ {
		if st, ok := c.stores.get(id); ok {
			if ep := atomic.LoadUint32(&st.epoch); ep != 0 {
				se = append(se, fmt.Sprintf("%d>%d", id, ep))
			}
		}
	}
	var tomb []string
	for id := uint64(1); id < 64; id++ {
		if st, ok := c.stores.get(id); ok && st.getResolveState() == tombstone {
			tomb = append(tomb, fmt.Sprint(id))
		}
	}
	return j(ents) + "\t" + j(regs) + "\t" + j(lat) + "\t" + j(se) + "\t" + j(tomb)
}

// ---------------------------------------------------------------- PD wrapper (stale / reordered answers)
type c09PD struct {
	pd.Client
	e        *c09Env
	snaps    [][]*router.Region // snapshot after every topology change; the last one is the current state
	staleP   float64
	rng      *rand.Rand
	lastSnap int
	// scripted faults on the STORE path: the next GetStore for that store id fails once with this error, then PD answers again
	storeFault map[uint64]error
	storeFaults int
}

// the family of transient GetStore failures: none of them says that the store was removed
var c09StoreErrs = []error{
	fmt.Errorf("rpc error: code = Unavailable desc = connection error: connection refused"),
	fmt.Errorf("[PD:member:ErrEtcdLeaderNotFound]etcd leader not found"),
	fmt.Errorf("rpc error: code = NotFound desc = keyspace not found"),
	fmt.Errorf("rpc error: code = Unknown desc = invalid store ID in request header"),
	context.DeadlineExceeded,
}

func (p *c09PD) GetStore(ctx context.Context, id uint64, opts ...opt.GetStoreOption) (*metapb.Store, error) {
	if err, ok := p.storeFault[id]; ok {
		delete(p.storeFault, id)
		p.storeFaults++
		return nil, err
	}
	return p.Client.GetStore(ctx, id, opts...)
}
func (p *c09PD) failNextGetStore(id uint64) error {
	if p.storeFault == nil {
		p.storeFault = map[uint64]error{}
	}
	err := c09StoreErrs[p.rng.Intn(len(c09StoreErrs))]
	p.storeFault[id] = err
	return err
}

func (p *c09PD) WithCallerComponent(caller.Component) pd.Client { return p }
func (p *c09PD) snapshot() {
	rs := p.e.cluster.ScanRegions(nil, nil, 0)
	p.snaps = append(p.snaps, rs)
}
func (p *c09PD) pick() int {
	cur := len(p.snaps) - 1
	if cur > 0 && p.rng.Float64() < p.staleP {
		back := 1 + p.rng.Intn(3)
		if p.rng.Intn(4) == 0 {
			back = 1 + p.rng.Intn(cur)
		}
		if back > cur {
			back = cur
		}
		return cur - back
	}
	return cur
}
func c09Clone(r *router.Region) *router.Region {
	if r == nil {
		return &router.Region{}
	}
	var l *metapb.Peer
	if r.Leader != nil {
		l = proto.Clone(r.Leader).(*metapb.Peer)
	}
	var b *metapb.Buckets
	if r.Buckets != nil {
		b = proto.Clone(r.Buckets).(*metapb.Buckets)
	}
	return &router.Region{Meta: proto.Clone(r.Meta).(*metapb.Region), Leader: l, Buckets: b}
}
func c09SnapGet(snap []*router.Region, key []byte) *router.Region {
	for _, r := range snap {
		if contains(r.Meta.StartKey, r.Meta.EndKey, key) {
			return r
		}
	}
	return nil
}
func c09SnapScan(snap []*router.Region, s, e []byte, limit int) []*router.Region {
	var out []*router.Region
	for _, r := range snap {
		if len(r.Meta.EndKey) > 0 && bytes.Compare(r.Meta.EndKey, s) <= 0 {
			continue
		}
		if len(e) > 0 && bytes.Compare(r.Meta.StartKey, e) >= 0 {
			break
		}
		out = append(out, r)
		if limit > 0 && len(out) >= limit {
			break
		}
	}
	return out
}
func (p *c09PD) q(format string, a ...interface{}) { fmt.Fprintf(p.e.w, "Q\t"+format+"\n", a...) }

func (p *c09PD) GetRegion(ctx context.Context, key []byte, opts ...opt.GetRegionOption) (*router.Region, error) {
	i := p.pick()
	p.lastSnap = i
	var r *router.Region
	if i == len(p.snaps)-1 {
		r, _ = p.Client.GetRegion(ctx, key, opts...)
		r = &router.Region{Meta: r.Meta, Leader: r.Leader, Buckets: r.Buckets}
	} else {
		r = c09Clone(c09SnapGet(p.snaps[i], key))
	}
	p.q("get\t%s\t%s", c09hx(key), c09DescB(r.Meta, r.Leader, r.Buckets))
	return r, nil
}
func (p *c09PD) GetPrevRegion(ctx context.Context, key []byte, opts ...opt.GetRegionOption) (*router.Region, error) {
	// answered from the same snapshot as the GetRegion call it follows
	i := p.lastSnap
	var r *router.Region
	if i == len(p.snaps)-1 {
		r, _ = p.Client.GetPrevRegion(ctx, key, opts...)
		r = &router.Region{Meta: r.Meta, Leader: r.Leader, Buckets: r.Buckets}
	} else {
		r = &router.Region{}
		if cur := c09SnapGet(p.snaps[i], key); cur != nil && len(cur.Meta.StartKey) > 0 {
			for _, x := range p.snaps[i] {
				if bytes.Equal(x.Meta.EndKey, cur.Meta.StartKey) {
					r = c09Clone(x)
				}
			}
		}
	}
	p.q("prev\t%s\t%s", c09hx(key), c09DescB(r.Meta, r.Leader, r.Buckets))
	return r, nil
}
func (p *c09PD) GetRegionByID(ctx context.Context, id uint64, opts ...opt.GetRegionOption) (*router.Region, error) {
	i := p.pick()
	var r *router.Region
	if i == len(p.snaps)-1 {
		r, _ = p.Client.GetRegionByID(ctx, id, opts...)
		r = &router.Region{Meta: r.Meta, Leader: r.Leader, Buckets: r.Buckets}
	} else {
		r = &router.Region{}
		for _, x := range p.snaps[i] {
			if x.Meta.Id == id {
				r = c09Clone(x)
			}
		}
	}
	p.q("byid\t%d\t%s", id, c09DescB(r.Meta, r.Leader, r.Buckets))
	return r, nil
}
func (p *c09PD) ScanRegions(ctx context.Context, s, e []byte, limit int, opts ...opt.GetRegionOption) ([]*router.Region, error) {
	i := p.pick()
	var rs []*router.Region
	if i == len(p.snaps)-1 {
		in, _ := p.Client.ScanRegions(ctx, s, e, limit, opts...) //nolint:staticcheck
		for _, r := range in {
			rs = append(rs, &router.Region{Meta: r.Meta, Leader: r.Leader, Buckets: r.Buckets})
		}
	} else {
		for _, x := range c09SnapScan(p.snaps[i], s, e, limit) {
			rs = append(rs, c09Clone(x))
		}
	}
	p.q("scan\t%s\t%s\t%d\t%s", c09hx(s), c09hx(e), limit, c09Descs(rs))
	return rs, nil
}
func (p *c09PD) BatchScanRegions(ctx context.Context, ranges []router.KeyRange, limit int, opts ...opt.GetRegionOption) ([]*router.Region, error) {
	i := p.pick()
	var rs []*router.Region
	var last *router.Region
	if i == len(p.snaps)-1 {
		// current state: mocktikv's own PD client answers
		in, _ := p.Client.BatchScanRegions(ctx, ranges, limit, opts...)
		for _, r := range in {
			rs = append(rs, &router.Region{Meta: r.Meta, Leader: r.Leader, Buckets: r.Buckets})
		}
		p.q("batch\t%s\t%d\t%s", c09Ranges(ranges), limit, c09Descs(rs))
		return rs, nil
	}
	for _, kr := range ranges {
		s := kr.StartKey
		if last != nil {
			if len(last.Meta.EndKey) == 0 {
				break
			}
			if len(kr.EndKey) > 0 && bytes.Compare(last.Meta.EndKey, kr.EndKey) >= 0 {
				continue
			}
			if bytes.Compare(last.Meta.EndKey, s) > 0 {
				s = last.Meta.EndKey
			}
		}
		rem := 0
		if limit > 0 {
			rem = limit - len(rs)
			if rem <= 0 {
				break
			}
		}
		for _, x := range c09SnapScan(p.snaps[i], s, kr.EndKey, rem) {
			rs = append(rs, c09Clone(x))
			last = x
		}
	}
	p.q("batch\t%s\t%d\t%s", c09Ranges(ranges), limit, c09Descs(rs))
	return rs, nil
}

// ---------------------------------------------------------------- environment
type c09Env struct {
	w         *bufio.Writer
	rng       *rand.Rand
	cluster   *mocktikv.Cluster
	pdw       *c09PD
	cache     *RegionCache
	rpc       *mocktikv.RPCClient
	stores    []uint64
	stopped   map[uint64]bool
	pool      [][]byte
	realistic bool // no leaderless regions outside the quiescent phase
	seed      int64
	opIdx     int
	nops      int
	bver      uint64
	bktHeavy  bool
	sender    *RegionRequestSender
	txn       bool // the cache runs behind CodecPDClient in txn mode: region keys are memcomparable-encoded at PD
}

func (e *c09Env) enc(k []byte) []byte {
	if e.txn {
		return codec.EncodeBytes(nil, k)
	}
	return k
}
func (e *c09Env) decMeta(m *metapb.Region) *metapb.Region {
	m = proto.Clone(m).(*metapb.Region)
	if e.txn {
		s, t, err := e.cache.codec.DecodeRegionRange(m.StartKey, m.EndKey)
		if err != nil {
			panic(err)
		}
		m.StartKey, m.EndKey = s, t
	}
	return m
}

func c09NewCache(pdc pd.Client) *RegionCache {
	c := &RegionCache{pdClient: pdc}
	c.codec = apicodec.NewCodecV1(apicodec.ModeRaw)
	c.stores = newStoreCache(pdc)
	c.bg = newBackgroundRunner(context.Background())
	c.mu.regions = make(map[RegionVerID]*Region)
	c.mu.latestVersions = make(map[uint64]RegionVerID)
	c.mu.sorted = NewSortedRegions(btreeDegree)
	c.clusterID = 1
	return c
}

var c09Mvcc mocktikv.MVCCStore

func c09NewEnv(w *bufio.Writer, seed int64, nops int, txn bool) *c09Env {
	e := &c09Env{w: w, rng: rand.New(rand.NewSource(seed)), seed: seed, nops: nops, stopped: map[uint64]bool{}, txn: txn}
	if c09Mvcc == nil {
		c09Mvcc = mocktikv.MustNewMVCCStore()
	}
	e.cluster = mocktikv.NewCluster(c09Mvcc)
	nstores := 3 + e.rng.Intn(2)
	storeIDs, _, _, _ := mocktikv.BootstrapWithMultiStores(e.cluster, nstores)
	e.stores = storeIDs
	e.pdw = &c09PD{Client: mocktikv.NewPDClient(e.cluster), e: e, rng: rand.New(rand.NewSource(seed ^ 0x5eed))}
	e.pdw.snapshot()
	if txn {
		cpd := &CodecPDClient{e.pdw, apicodec.NewCodecV1(apicodec.ModeTxn)}
		e.cache = c09NewCache(cpd)
		e.cache.codec = cpd.GetCodec()
	} else {
		e.cache = c09NewCache(e.pdw)
	}
	e.rpc = mocktikv.NewRPCClient(e.cluster, c09Mvcc, nil)
	for _, sid := range e.stores { // every store is resolved from the start: later state changes come from reResolve only
		st := e.cache.stores.getOrInsertDefault(sid)
		// the first GetStore of a store may fail transiently (any error of the family): initResolve backs off and asks again
		if e.rng.Intn(4) == 0 {
			e.x("fault getstore(first resolve) %d: %v", sid, e.pdw.failNextGetStore(sid))
		}
		_, _ = st.initResolve(e.bo(), e.cache.stores)
	}
	return e
}
func (e *c09Env) halted() bool { return e.nops >= 0 && e.opIdx >= e.nops }
func (e *c09Env) bo() *retry.Backoffer {
	return retry.NewBackofferWithVars(context.Background(), 1200, nil)
}
func (e *c09Env) x(format string, a ...interface{}) { fmt.Fprintf(e.w, "X\t"+format+"\n", a...) }
func (e *c09Env) truth() {
	rs := e.cluster.ScanRegions(nil, nil, 0)
	for _, r := range rs {
		r.Meta = e.decMeta(r.Meta)
	}
	fmt.Fprintf(e.w, "T\t%s\n", c09Descs(rs))
}
func (e *c09Env) op(name string, args []string, f func() string) string {
	if e.halted() {
		return "halt"
	}
	fmt.Fprintf(e.w, "O\t%d\t%s", e.opIdx, name)
	for _, a := range args {
		fmt.Fprintf(e.w, "\t%s", a)
	}
	fmt.Fprintln(e.w)
	e.w.Flush() // the last O line of a truncated trace names the operation that hung or crashed
	atomic.StoreInt64(&c09OpStart, time.Now().UnixNano())
	defer atomic.StoreInt64(&c09OpStart, 0)
	e.pdw.rng = rand.New(rand.NewSource(e.seed*1000003 + int64(e.opIdx)))
	res := func() (s string) {
		defer func() {
			if r := recover(); r != nil {
				s = fmt.Sprintf("panic %v", r)
			}
		}()
		return f()
	}()
	fmt.Fprintf(e.w, "R\t%s\n", res)
	fmt.Fprintf(e.w, "D\t%s\n", c09Dump(e.cache))
	e.opIdx++
	return res
}

// ---------------------------------------------------------------- key material
const c09Alpha = "abcdefghijkl"

func (e *c09Env) rawKey() []byte {
	n := 1
	if e.rng.Intn(4) == 0 {
		n = 2
	}
	b := make([]byte, n)
	for i := range b {
		b[i] = c09Alpha[e.rng.Intn(len(c09Alpha))]
	}
	return b
}
func (e *c09Env) key() []byte {
	x := e.rng.Intn(100)
	switch {
	case x < 5:
		return nil
	case x < 40 && len(e.pool) > 0:
		return e.pool[e.rng.Intn(len(e.pool))]
	case x < 55 && len(e.pool) > 0:
		k := e.pool[e.rng.Intn(len(e.pool))]
		if e.rng.Intn(2) == 0 {
			return append(append([]byte{}, k...), 0)
		}
		p := append([]byte{}, k...)
		p[len(p)-1]--
		return append(p, 0xff)
	default:
		return e.rawKey()
	}
}
func (e *c09Env) sortedKeys(n int) [][]byte {
	m := map[string]bool{}
	var ks [][]byte
	for tries := 0; len(ks) < n && tries < 50*n; tries++ {
		k := e.key()
		if len(k) == 0 || m[string(k)] {
			continue
		}
		m[string(k)] = true
		ks = append(ks, k)
	}
	sort.Slice(ks, func(i, j int) bool { return bytes.Compare(ks[i], ks[j]) < 0 })
	return ks
}
func (e *c09Env) keyRange() (s, t []byte) {
	ks := e.sortedKeys(2)
	if len(ks) < 2 {
		return nil, nil
	}
	s, t = ks[0], ks[1]
	if e.rng.Intn(7) == 0 {
		s = nil
	}
	if e.rng.Intn(6) == 0 {
		t = nil
	}
	return
}
func (e *c09Env) keyRanges(n int) []router.KeyRange {
	ks := e.sortedKeys(2 * n)
	var rs []router.KeyRange
	for i := 0; i+1 < len(ks); i += 2 {
		rs = append(rs, router.KeyRange{StartKey: ks[i], EndKey: ks[i+1]})
	}
	if len(rs) > 0 && e.rng.Intn(5) == 0 {
		rs[0].StartKey = nil
	}
	if len(rs) > 0 && e.rng.Intn(4) == 0 {
		rs[len(rs)-1].EndKey = nil
	}
	// sometimes adjacent ranges
	for i := 0; i+1 < len(rs); i++ {
		if e.rng.Intn(5) == 0 {
			rs[i].EndKey = rs[i+1].StartKey
		}
	}
	return rs
}

// ---------------------------------------------------------------- topology changes
type c09R struct {
	meta   *metapb.Region
	leader *metapb.Peer
}

func (e *c09Env) regions() []c09R {
	var out []c09R
	for _, r := range e.cluster.ScanRegions(nil, nil, 0) {
		out = append(out, c09R{e.decMeta(r.Meta), r.Leader})
	}
	return out
}
func (e *c09Env) topoDone(format string, a ...interface{}) {
	e.pdw.snapshot()
	e.x("topo "+format, a...)
	e.truth()
}
func (e *c09Env) split(r c09R, key []byte) {
	if len(key) == 0 || !contains(r.meta.StartKey, r.meta.EndKey, key) || bytes.Equal(key, r.meta.StartKey) {
		return
	}
	newID := e.cluster.AllocID()
	peerIDs := e.cluster.AllocIDs(len(r.meta.Peers))
	lead := peerIDs[e.rng.Intn(len(peerIDs))]
	kind := "split"
	if e.rng.Intn(5) < 2 {
		// TiKV's default: the original region keeps the right half, the new region gets the left half
		e.cluster.VerifC09SplitRightDerive(r.meta.Id, newID, e.enc(key), peerIDs, lead)
		kind = "split-right-derive"
	} else {
		e.cluster.SplitRaw(r.meta.Id, newID, e.enc(key), peerIDs, lead)
	}
	e.pool = append(e.pool, key)
	e.topoDone("%s %d new %d at %s", kind, r.meta.Id, newID, c09hx(key))
}
func (e *c09Env) topo() {
	if e.halted() {
		return
	}
	rs := e.regions()
	r := rs[e.rng.Intn(len(rs))]
	x := e.rng.Intn(100)
	if e.bktHeavy && e.rng.Intn(2) == 0 {
		x = 90
	}
	switch {
	case x < 38 || len(rs) == 1 && x < 60:
		// split inside r
		for tries := 0; tries < 8; tries++ {
			k := e.rawKey()
			if contains(r.meta.StartKey, r.meta.EndKey, k) && !bytes.Equal(k, r.meta.StartKey) {
				e.split(r, k)
				return
			}
		}
	case x < 58:
		if len(rs) < 2 {
			return
		}
		i := e.rng.Intn(len(rs) - 1)
		a, b := rs[i], rs[i+1]
		e.cluster.Merge(a.meta.Id, b.meta.Id)
		e.topoDone("merge %d <- %d", a.meta.Id, b.meta.Id)
	case x < 74:
		p := r.meta.Peers[e.rng.Intn(len(r.meta.Peers))]
		e.cluster.ChangeLeader(r.meta.Id, p.Id)
		e.topoDone("leader %d -> %d", r.meta.Id, p.Id)
	case x < 81:
		// add a peer on a store that has none
		for _, s := range e.stores {
			has := false
			for _, p := range r.meta.Peers {
				if p.StoreId == s {
					has = true
				}
			}
			if !has {
				pid := e.cluster.AllocID()
				e.cluster.AddPeer(r.meta.Id, s, pid)
				e.topoDone("addpeer %d store %d peer %d", r.meta.Id, s, pid)
				return
			}
		}
	case x < 88:
		if len(r.meta.Peers) < 2 {
			return
		}
		p := r.meta.Peers[e.rng.Intn(len(r.meta.Peers))]
		e.cluster.RemovePeer(r.meta.Id, p.Id)
		if p.Id == r.leader.GetId() && (e.realistic || e.rng.Intn(3) > 0) {
			for _, q := range r.meta.Peers {
				if q.Id != p.Id {
					e.cluster.ChangeLeader(r.meta.Id, q.Id)
					break
				}
			}
		}
		e.topoDone("rmpeer %d peer %d", r.meta.Id, p.Id)
	case x < 92:
		// the store reports buckets for the region: usually a sorted chain inside it, sometimes stale / unsorted / outside
		var ks [][]byte
		if e.rng.Intn(3) > 0 {
			ks = append(ks, r.meta.StartKey)
		}
		mid := e.sortedKeys(1 + e.rng.Intn(4))
		if e.rng.Intn(6) == 0 && len(mid) > 1 {
			mid[0], mid[len(mid)-1] = mid[len(mid)-1], mid[0]
		}
		ks = append(ks, mid...)
		if e.rng.Intn(3) > 0 {
			ks = append(ks, r.meta.EndKey)
		}
		e.bver++
		e.cluster.SplitRegionBuckets(r.meta.Id, ks, e.bver)
		e.topoDone("buckets %d v%d", r.meta.Id, e.bver)
	case x < 94 && !e.realistic:
		e.cluster.GiveUpLeader(r.meta.Id)
		e.topoDone("noleader %d", r.meta.Id)
	default:
		s := e.stores[e.rng.Intn(len(e.stores))]
		if e.stopped[s] {
			e.cluster.StartStore(s)
			delete(e.stopped, s)
			e.x("topo start store %d", s)
		} else if len(e.stopped) == 0 {
			e.cluster.StopStore(s)
			e.stopped[s] = true
			e.x("topo stop store %d", s)
		}
	}
}

// ---------------------------------------------------------------- cache operations (each is one O/R/D record)
func c09Err(err error) string { return "err" }

func (e *c09Env) opLocate(k []byte) *KeyLocation {
	var loc *KeyLocation
	e.op("locate", []string{c09hx(k)}, func() string {
		l, err := e.cache.LocateKey(e.bo(), k)
		if err != nil {
			return c09Err(err)
		}
		loc = l
		return "ok " + c09Loc(l)
	})
	return loc
}
func (e *c09Env) opLocateEnd(k []byte) {
	e.op("locate_end", []string{c09hx(k)}, func() string {
		l, err := e.cache.LocateEndKey(e.bo(), k)
		if err != nil {
			return c09Err(err)
		}
		return "ok " + c09Loc(l)
	})
}
func (e *c09Env) opTry(k []byte) {
	e.op("try", []string{c09hx(k)}, func() string {
		l := e.cache.TryLocateKey(k)
		if l == nil {
			return "none"
		}
		return "ok " + c09Loc(l)
	})
}
func (e *c09Env) opByID(id uint64) {
	e.op("byid", []string{fmt.Sprint(id)}, func() string {
		l, err := e.cache.LocateRegionByID(e.bo(), id)
		if err != nil {
			return c09Err(err)
		}
		return "ok " + c09Loc(l)
	})
}
func (e *c09Env) opByIDFromPD(id uint64) {
	e.op("byidpd", []string{fmt.Sprint(id)}, func() string {
		l, err := e.cache.LocateRegionByIDFromPD(e.bo(), id)
		if err != nil {
			return c09Err(err)
		}
		return "ok " + c09Loc(l)
	})
}
func (e *c09Env) opBLoadFrom(s []byte, count int) {
	e.op("bloadfrom", []string{c09hx(s), fmt.Sprint(count)}, func() string {
		end, err := e.cache.BatchLoadRegionsFromKey(e.bo(), s, count)
		if err != nil {
			return c09Err(err)
		}
		return "ok " + c09hx(end)
	})
}
func (e *c09Env) opRange(s, t []byte) {
	e.op("range", []string{c09hx(s), c09hx(t)}, func() string {
		ls, err := e.cache.LocateKeyRange(e.bo(), s, t)
		if err != nil {
			return c09Err(err)
		}
		return "ok " + c09Locs(ls)
	})
}
func (e *c09Env) opBatch(rs []router.KeyRange, needLeader bool) {
	krs := make([]kv.KeyRange, len(rs))
	for i, r := range rs {
		krs[i] = kv.KeyRange{StartKey: r.StartKey, EndKey: r.EndKey}
	}
	nl := "0"
	var opts []BatchLocateKeyRangesOpt
	if needLeader {
		nl = "1"
		opts = append(opts, WithNeedRegionHasLeaderPeer())
	}
	e.op("batch", []string{nl, c09Ranges(rs)}, func() string {
		ls, err := e.cache.BatchLocateKeyRanges(e.bo(), krs, opts...)
		if err != nil {
			return c09Err(err)
		}
		return "ok " + c09Locs(ls)
	})
}
// c09EqualRegionStartKey is tikv.equalRegionStartKey, the only filter GroupKeysByRegion is called with (split keys that
// are already region boundaries are skipped)
func c09EqualRegionStartKey(key, regionStartKey []byte) bool { return bytes.Equal(key, regionStartKey) }
func (e *c09Env) opGroup(keys [][]byte) { e.opGroupF(keys, false) }
func (e *c09Env) opGroupF(keys [][]byte, filtered bool) {
	ks := make([]string, len(keys))
	for i, k := range keys {
		ks[i] = c09hx(k)
	}
	name := "group"
	var filter func(key, regionStartKey []byte) bool
	if filtered {
		name, filter = "groupf", c09EqualRegionStartKey
	}
	e.op(name, []string{strings.Join(ks, ";")}, func() string {
		g, first, err := e.cache.GroupKeysByRegion(e.bo(), keys, filter)
		if err != nil {
			return c09Err(err)
		}
		var gs []string
		for v, kk := range g {
			s := make([]string, len(kk))
			for i, k := range kk {
				s[i] = c09hx(k)
			}
			gs = append(gs, c09Ver(v)+"="+strings.Join(s, "/"))
		}
		sort.Strings(gs)
		return "ok " + c09Ver(first) + " " + strings.Join(gs, ";")
	})
}
func (e *c09Env) opListIDs(s, t []byte) {
	e.op("listids", []string{c09hx(s), c09hx(t)}, func() string {
		ids, err := e.cache.ListRegionIDsInKeyRange(e.bo(), s, t)
		if err != nil {
			return c09Err(err)
		}
		ss := make([]string, len(ids))
		for i, id := range ids {
			ss[i] = fmt.Sprint(id)
		}
		return "ok " + strings.Join(ss, ";")
	})
}
func (e *c09Env) opLoadRange(s, t []byte) {
	e.op("loadrange", []string{c09hx(s), c09hx(t)}, func() string {
		rs, err := e.cache.LoadRegionsInKeyRange(e.bo(), s, t)
		if err != nil {
			return c09Err(err)
		}
		return "ok " + c09RegionLocs(rs)
	})
}
func (e *c09Env) opBLoad(s, t []byte, count int) {
	e.op("bload", []string{c09hx(s), c09hx(t), fmt.Sprint(count)}, func() string {
		rs, err := e.cache.BatchLoadRegionsWithKeyRange(e.bo(), s, t, count)
		if err != nil {
			return c09Err(err)
		}
		return "ok " + c09RegionLocs(rs)
	})
}
func (e *c09Env) opBLoads(rs []router.KeyRange, count int, needLeader bool) {
	nl := "0"
	var opts []BatchLocateKeyRangesOpt
	if needLeader {
		nl = "1"
		opts = append(opts, WithNeedRegionHasLeaderPeer())
	}
	e.op("bloads", []string{nl, fmt.Sprint(count), c09Ranges(rs)}, func() string {
		cp := append([]router.KeyRange{}, rs...)
		out, err := e.cache.BatchLoadRegionsWithKeyRanges(e.bo(), cp, count, opts...)
		if err != nil {
			return c09Err(err)
		}
		return "ok " + c09RegionLocs(out)
	})
}

type c09Ent struct {
	r *Region
}

func (e *c09Env) entries() []*Region {
	var out []*Region
	e.cache.mu.RLock()
	e.cache.mu.sorted.b.Ascend(func(item *btreeItem) bool { out = append(out, item.cachedRegion); return true })
	e.cache.mu.RUnlock()
	return out
}
func (e *c09Env) opInval(v RegionVerID, reason InvalidReason) {
	e.op("inval", []string{c09Ver(v), fmt.Sprint(int(reason))}, func() string {
		e.cache.InvalidateCachedRegionWithReason(v, reason)
		return "ok"
	})
}
func (e *c09Env) opExpire(r *Region) {
	e.op("expire", []string{c09hx(r.StartKey()), c09Ver(r.VerID())}, func() string {
		atomic.StoreInt64(&r.ttl, 0)
		return "ok"
	})
}
func (e *c09Env) opFlag(r *Region, bits int32) {
	e.op("flag", []string{c09hx(r.StartKey()), c09Ver(r.VerID()), fmt.Sprint(bits)}, func() string {
		r.setSyncFlags(bits)
		return "ok"
	})
}
func (e *c09Env) opClear() {
	e.op("clear", nil, func() string { e.cache.mu.refresh(nil); return "ok" })
}
func (e *c09Env) opGC() {
	e.op("gc", nil, func() string {
		e.cache.gcRoundFunc(1 << 20)(context.Background(), time.Now())
		return "ok"
	})
}
func (e *c09Env) opUpLead(v RegionVerID, leader *metapb.Peer, cur AccessIndex) {
	ls := "none"
	if leader != nil {
		ls = fmt.Sprintf("%d:%d", leader.Id, leader.StoreId)
	}
	e.op("uplead", []string{c09Ver(v), ls, fmt.Sprint(int(cur))}, func() string {
		e.cache.UpdateLeader(v, leader, cur)
		return "ok"
	})
}
func (e *c09Env) opEpoch(v RegionVerID, storeID uint64, cur []*metapb.Region) bool {
	ds := make([]string, len(cur))
	for i, m := range cur {
		ds[i] = c09Desc(m, nil)
	}
	dj := "_"
	if len(ds) > 0 {
		dj = strings.Join(ds, ";")
	}
	retryFlag := false
	e.op("epoch", []string{c09Ver(v), fmt.Sprint(storeID), dj}, func() string {
		st, _ := e.cache.stores.get(storeID)
		if st == nil {
			st = e.cache.stores.getOrInsertDefault(storeID)
		}
		bo := e.bo()
		rt, err := e.cache.OnRegionEpochNotMatch(bo, &RPCContext{Region: v, Store: st}, cur)
		if err != nil {
			return c09Err(err)
		}
		retryFlag = rt
		if rt {
			return "ok retry"
		}
		return "ok"
	})
	return retryFlag
}
func (e *c09Env) opSendFail(ctx *RPCContext, reload bool) {
	rl := "0"
	if reload {
		rl = "1"
	}
	e.op("sendfail", []string{c09Ver(ctx.Region), fmt.Sprint(int(ctx.AccessIdx)), rl}, func() string {
		e.cache.OnSendFail(e.bo(), ctx, reload, fmt.Errorf("send failed"))
		return "ok"
	})
}
// LocateKey(k) then KeyLocation.LocateBucket(probe) / GetBucketVersion
func (e *c09Env) opLBucket(k, probe []byte) {
	e.op("lbucket", []string{c09hx(k), c09hx(probe)}, func() string {
		l, err := e.cache.LocateKey(e.bo(), k)
		if err != nil {
			return c09Err(err)
		}
		if l.Buckets == nil {
			return fmt.Sprintf("ok %s v%d nobuckets", c09Loc(l), l.GetBucketVersion())
		}
		b := l.LocateBucket(probe)
		if b == nil {
			return fmt.Sprintf("ok %s v%d nil", c09Loc(l), l.GetBucketVersion())
		}
		return fmt.Sprintf("ok %s v%d %s:%s", c09Loc(l), l.GetBucketVersion(), c09hx(b.StartKey), c09hx(b.EndKey))
	})
}
func (e *c09Env) opBVNM(v RegionVerID, ver uint64, keys [][]byte) {
	e.op("bvnm", []string{c09Ver(v), c09Bk(&metapb.Buckets{Version: ver, Keys: keys})}, func() string {
		e.cache.OnBucketVersionNotMatch(&RPCContext{Region: v}, ver, keys)
		return "ok"
	})
}
func (e *c09Env) opUBuckets(v RegionVerID, req, latest uint64) {
	e.op("ubuckets", []string{c09Ver(v), fmt.Sprint(req), fmt.Sprint(latest)}, func() string {
		e.cache.UpdateBucketsIfNeeded(v, req, latest)
		for i := 0; i < 2000; i++ { // the reload runs in the background: wait for it
			if _, busy := e.cache.inflightUpdateBuckets.Load(v.id); !busy {
				break
			}
			time.Sleep(time.Millisecond)
		}
		return "ok"
	})
}
// the periodic store check (checkAndResolve over every resolved store): Store.reResolve notices stores PD reports removed
func (e *c09Env) opReResolve() {
	var ss, faults []string
	for _, sid := range e.stores {
		st, ok := e.cache.stores.get(sid)
		if !ok || st.getResolveState() == tombstone || st.getResolveState() == unresolved {
			continue
		}
		// outcome of this store's check: 0 = PD confirms the store, 1 = PD reports it removed / tombstone, 2 = GetStore fails
		// transiently (the store check leaves the store as it is and comes back at the next tick)
		removed := 0
		if m := e.cluster.GetStore(sid); m == nil || m.GetState() == metapb.StoreState_Tombstone {
			removed = 1
		}
		if e.rng.Intn(5) == 0 {
			removed = 2
			faults = append(faults, fmt.Sprintf("%d: %v", sid, e.pdw.failNextGetStore(sid)))
		}
		ss = append(ss, fmt.Sprintf("%d:%d", sid, removed))
	}
	for _, f := range faults {
		e.x("fault getstore %s", f)
	}
	arg := "_"
	if len(ss) > 0 {
		arg = strings.Join(ss, "/")
	}
	e.op("reresolve", []string{arg}, func() string {
		e.cache.checkAndResolve(nil, func(s *Store) bool {
			st := s.getResolveState()
			return st != unresolved && st != tombstone
		})
		return "ok"
	})
}
// one real request through RegionRequestSender.SendReqCtx on a location obtained by LocateKey. What the sender does to the
// cache (invalidate, switch of the work peer, store fail-epoch bumps, reload flags, OnRegionEpochNotMatch) is not visible
// call by call; the model side has to explain the dump afterwards as a composition of its cache operations.
func (e *c09Env) opSend(k []byte, loc *KeyLocation) (served bool, store uint64) {
	e.op("send", []string{c09hx(k), c09Ver(loc.Region)}, func() string {
		if e.sender == nil {
			e.sender = NewRegionRequestSender(e.cache, &c09CodecClient{e.rpc, e.cache.codec}, oracle.NoopReadTSValidator{})
		}
		bo := retry.NewBackofferWithVars(context.Background(), 1500, nil)
		req := tikvrpc.NewRequest(tikvrpc.CmdRawGet, &kvrpcpb.RawGetRequest{Key: k}, kvrpcpb.Context{})
		resp, rpcCtx, _, err := e.sender.SendReqCtx(bo, req, loc.Region, time.Second, tikvrpc.TiKV)
		if err != nil || resp == nil {
			return "ok senderr"
		}
		rerr, _ := resp.GetRegionError()
		ctxs := "-"
		if rpcCtx != nil && rpcCtx.Store != nil {
			ctxs = fmt.Sprintf("%s@%d", c09Ver(rpcCtx.Region), rpcCtx.Store.StoreID())
		}
		if rerr == nil {
			served, store = true, rpcCtx.Store.StoreID()
			return fmt.Sprintf("ok served %d", store)
		}
		switch {
		case rerr.GetEpochNotMatch() != nil:
			var ds []string
			for _, m := range rerr.GetEpochNotMatch().CurrentRegions {
				ds = append(ds, c09Desc(m, nil))
			}
			dj := "_"
			if len(ds) > 0 {
				dj = strings.Join(ds, ";")
			}
			return fmt.Sprintf("ok regionerr epochnotmatch %s %s", ctxs, dj)
		case rerr.GetNotLeader() != nil:
			return "ok regionerr notleader " + ctxs
		case rerr.GetRegionNotFound() != nil:
			return "ok regionerr regionnotfound " + ctxs
		default:
			return "ok regionerr other " + ctxs
		}
	})
	return
}

// what tikv.CodecClient does around the RPC client: region errors come back with decoded region boundaries
type c09CodecClient struct {
	*mocktikv.RPCClient
	codec apicodec.Codec
}

func (c *c09CodecClient) SendRequest(ctx context.Context, addr string, req *tikvrpc.Request, timeout time.Duration) (*tikvrpc.Response, error) {
	req, err := c.codec.EncodeRequest(req)
	if err != nil {
		return nil, err
	}
	resp, err := c.RPCClient.SendRequest(ctx, addr, req, timeout)
	if err != nil {
		return nil, err
	}
	return c.codec.DecodeResponse(req, resp)
}

// request rounds through the real sender: LocateKey (a modelled lookup) + SendReqCtx (explained afterwards)
func (e *c09Env) senderRounds(k []byte, max int) (rounds int, served bool, store uint64) {
	for rounds < max && !served && !e.halted() {
		rounds++
		loc := e.opLocate(k)
		if loc == nil {
			continue
		}
		served, store = e.opSend(k, loc)
	}
	return
}
// UpdateBucketsIfNeeded's background reload racing with OnBucketVersionNotMatch on the same region: the reload goroutine is
// started first, the version-not-match arrives while it may still be in flight; either order is admissible
func (e *c09Env) opBucketRace(v RegionVerID, latest, ver uint64, keys [][]byte) {
	e.op("ubrace", []string{c09Ver(v), fmt.Sprint(latest), c09Bk(&metapb.Buckets{Version: ver, Keys: keys})}, func() string {
		e.cache.UpdateBucketsIfNeeded(v, 0, latest)
		if e.rng.Intn(2) == 0 {
			time.Sleep(200 * time.Microsecond)
		}
		e.cache.OnBucketVersionNotMatch(&RPCContext{Region: v}, ver, keys)
		for i := 0; i < 2000; i++ {
			if _, busy := e.cache.inflightUpdateBuckets.Load(v.id); !busy {
				break
			}
			time.Sleep(time.Millisecond)
		}
		return "ok"
	})
}
func (e *c09Env) opCtx(v RegionVerID) *RPCContext {
	var out *RPCContext
	e.op("ctx", []string{c09Ver(v)}, func() string {
		ctx, err := e.cache.GetTiKVRPCContext(e.bo(), v, kv.ReplicaReadLeader, 0)
		if err != nil {
			return c09Err(err)
		}
		if ctx == nil {
			return "none"
		}
		out = ctx
		return fmt.Sprintf("ok %d:%d %d", ctx.Peer.GetId(), ctx.Peer.GetStoreId(), int(ctx.AccessIdx))
	})
	return out
}

// GetTiKVRPCContext for replica reads (follower / mixed / prefer-leader / learner = leader path), option leaderOnly
func (e *c09Env) opCtxRead(v RegionVerID, kind kv.ReplicaReadType, seed uint32, leaderOnly bool) {
	names := map[kv.ReplicaReadType]string{kv.ReplicaReadLeader: "leader", kv.ReplicaReadFollower: "follower", kv.ReplicaReadMixed: "mixed",
		kv.ReplicaReadPreferLeader: "preferleader", kv.ReplicaReadLearner: "learner"}
	lo := "0"
	if leaderOnly {
		lo = "1"
	}
	e.op("ctxread", []string{c09Ver(v), names[kind], fmt.Sprint(seed), lo}, func() string {
		var opts []StoreSelectorOption
		if leaderOnly {
			opts = append(opts, WithLeaderOnly())
		}
		ctx, err := e.cache.GetTiKVRPCContext(e.bo(), v, kind, seed, opts...)
		if err != nil {
			return c09Err(err)
		}
		if ctx == nil {
			return "none"
		}
		return fmt.Sprintf("ok %d:%d %d", ctx.Peer.GetId(), ctx.Peer.GetStoreId(), int(ctx.AccessIdx))
	})
}

// one request round at the level of the cache API: locate, pick the work peer, ask the store, react to the region
// error the way RegionRequestSender.onRegionError does without a replica selector. Returns true on success.
func (e *c09Env) round(k []byte) bool {
	loc := e.opLocate(k)
	if loc == nil {
		e.x("reply nolocation")
		return false
	}
	ctx := e.opCtx(loc.Region)
	if ctx == nil {
		e.x("reply regionmiss")
		return false
	}
	req := tikvrpc.NewRequest(tikvrpc.CmdRawGet, &kvrpcpb.RawGetRequest{Key: k})
	_ = tikvrpc.SetContext(req, ctx.Meta, ctx.Peer)
	resp, err := e.rpc.SendRequest(context.Background(), ctx.Addr, req, time.Second)
	if err != nil {
		e.x("reply sendfail store %d", ctx.Store.StoreID())
		e.opSendFail(ctx, e.rng.Intn(4) == 0)
		return false
	}
	var rerr *errorpb.Error
	if resp != nil {
		rerr, _ = resp.GetRegionError()
	}
	switch {
	case rerr == nil:
		e.x("reply ok\t%s\t%s\t%d:%d", c09hx(k), c09Loc(loc), ctx.Peer.GetId(), ctx.Peer.GetStoreId())
		return true
	case rerr.GetNotLeader() != nil:
		nl := rerr.GetNotLeader()
		if nl.GetLeader() == nil {
			e.x("reply notleader none")
			e.opInval(ctx.Region, NoLeader)
		} else {
			e.x("reply notleader %d:%d", nl.GetLeader().GetId(), nl.GetLeader().GetStoreId())
			e.opUpLead(ctx.Region, nl.GetLeader(), ctx.AccessIdx)
		}
	case rerr.GetRegionNotFound() != nil:
		e.x("reply regionnotfound")
		e.opInval(ctx.Region, Other)
	case rerr.GetEpochNotMatch() != nil:
		e.x("reply epochnotmatch")
		var cur []*metapb.Region
		for _, m := range rerr.GetEpochNotMatch().CurrentRegions {
			cur = append(cur, e.decMeta(m)) // what codec.DecodeResponse does with the region error
		}
		e.opEpoch(ctx.Region, ctx.Store.StoreID(), cur)
	default:
		e.x("reply other %s", rerr.GetMessage())
		e.opInval(ctx.Region, Other)
	}
	return false
}

// ---------------------------------------------------------------- generators
func (e *c09Env) lookup() {
	x := e.rng.Intn(100)
	if e.bktHeavy && e.rng.Intn(2) == 0 {
		x = 0
	}
	switch {
	case x < 6:
		e.opLBucket(e.key(), e.key())
	case x < 16:
		e.opLocate(e.key())
	case x < 28:
		e.opLocateEnd(e.key())
	case x < 32:
		e.opTry(e.key())
	case x < 40:
		rs := e.regions()
		id := rs[e.rng.Intn(len(rs))].meta.Id
		if e.rng.Intn(5) == 0 {
			if ents := e.entries(); len(ents) > 0 {
				id = ents[e.rng.Intn(len(ents))].GetID() // possibly a region that no longer exists
			}
		}
		e.opByID(id)
	case x < 52:
		e.opRange(e.keyRange())
	case x < 72:
		e.opBatch(e.keyRanges(1+e.rng.Intn(4)), e.rng.Intn(4) == 0)
	case x < 80:
		n := 1 + e.rng.Intn(6)
		var ks [][]byte
		if e.rng.Intn(2) == 0 {
			ks = e.sortedKeys(n)
		} else {
			for i := 0; i < n; i++ {
				ks = append(ks, e.key())
			}
		}
		e.opGroupF(ks, e.rng.Intn(5) < 2)
	case x < 85:
		s, t := e.keyRange()
		if len(t) == 0 {
			t = []byte("l")
			if bytes.Compare(s, t) > 0 {
				s = nil
			}
		}
		e.opListIDs(s, t)
	case x < 89:
		e.opLoadRange(e.keyRange())
	case x < 91:
		rs := e.regions()
		e.opByIDFromPD(rs[e.rng.Intn(len(rs))].meta.Id)
	case x < 92:
		e.opBLoadFrom(e.key(), 1+e.rng.Intn(4))
	case x < 94:
		s, t := e.keyRange()
		e.opBLoad(s, t, 1+e.rng.Intn(4))
	default:
		e.opBLoads(e.keyRanges(1+e.rng.Intn(3)), 1+e.rng.Intn(4), e.rng.Intn(3) == 0)
	}
}
func (e *c09Env) cacheOp() {
	ents := e.entries()
	x := e.rng.Intn(100)
	if len(ents) == 0 {
		if x < 20 {
			e.opGC()
		}
		return
	}
	r := ents[e.rng.Intn(len(ents))]
	switch {
	case x < 25:
		reasons := []InvalidReason{NoLeader, RegionNotFound, EpochNotMatch, StoreNotFound, Other}
		e.opInval(r.VerID(), reasons[e.rng.Intn(len(reasons))])
	case x < 37:
		e.opExpire(r)
	case x < 45:
		// replica reads: three contexts with random kind, seed (also around the uint32 wrap) and leaderOnly
		kinds := []kv.ReplicaReadType{kv.ReplicaReadFollower, kv.ReplicaReadFollower, kv.ReplicaReadMixed, kv.ReplicaReadMixed, kv.ReplicaReadPreferLeader, kv.ReplicaReadLearner, kv.ReplicaReadLeader}
		for i := 0; i < 3; i++ {
			seed := uint32(e.rng.Intn(64))
			if e.rng.Intn(4) == 0 {
				seed = ^uint32(0) - uint32(e.rng.Intn(4))
			}
			e.opCtxRead(r.VerID(), kinds[e.rng.Intn(len(kinds))], seed, e.rng.Intn(5) == 0)
		}
	case x < 65:
		bits := []int32{needReloadOnAccess, needDelayedReloadPending, needDelayedReloadReady}
		e.opFlag(r, bits[e.rng.Intn(3)])
	case x < 70:
		e.opGC()
	case x < 72:
		e.opReResolve()
	case x < 74:
		e.opClear()
	case x < 77:
		e.opBVNM(r.VerID(), uint64(e.rng.Intn(int(e.bver)+3)), e.sortedKeys(1+e.rng.Intn(3)))
	case x < 78:
		e.opBucketRace(r.VerID(), uint64(e.rng.Intn(int(e.bver)+3)), uint64(e.rng.Intn(int(e.bver)+3)), e.sortedKeys(1+e.rng.Intn(3)))
	case x < 80:
		e.opUBuckets(r.VerID(), uint64(e.rng.Intn(int(e.bver)+2)), uint64(e.rng.Intn(int(e.bver)+3)))
	case x < 84:
		// a send failure reported for an arbitrary peer of the entry
		e.opSendFail(&RPCContext{Region: r.VerID(), Meta: r.meta, AccessIdx: AccessIndex(e.rng.Intn(len(r.meta.Peers))), AccessMode: tiKVOnly}, e.rng.Intn(3) == 0)
	case x < 92:
		// UpdateLeader with an arbitrary (possibly unknown) peer
		var leader *metapb.Peer
		y := e.rng.Intn(4)
		if y == 0 {
			leader = nil
		} else if y == 1 {
			leader = &metapb.Peer{Id: 9999, StoreId: e.stores[0]}
		} else {
			leader = r.meta.Peers[e.rng.Intn(len(r.meta.Peers))]
		}
		e.opUpLead(r.VerID(), leader, AccessIndex(e.rng.Intn(len(r.meta.Peers))))
	default:
		// OnRegionEpochNotMatch with what some store believes: current regions, or a stale view
		snap := e.pdw.snaps[e.rng.Intn(len(e.pdw.snaps))]
		var cur []*metapb.Region
		for _, s := range snap {
			if e.rng.Intn(3) == 0 || s.Meta.Id == r.GetID() {
				cur = append(cur, e.decMeta(s.Meta))
			}
		}
		if e.rng.Intn(8) == 0 {
			cur = nil
		}
		e.opEpoch(r.VerID(), r.meta.Peers[e.rng.Intn(len(r.meta.Peers))].StoreId, cur)
	}
}

// quiesce: topology and PD answers stop changing; every region has a leader, every store runs.
func (e *c09Env) quiesce() {
	for s := range e.stopped {
		e.cluster.StartStore(s)
	}
	e.stopped = map[uint64]bool{}
	for _, r := range e.regions() {
		if r.leader.GetId() == 0 {
			e.cluster.ChangeLeader(r.meta.Id, r.meta.Peers[0].Id)
		}
	}
	e.pdw.staleP = 0
	// the store health-check loop (one tick per second in the background) has noticed that every store answers again
	for _, sid := range e.stores {
		if st, ok := e.cache.stores.get(sid); ok && st.getResolveState() != tombstone {
			atomic.StoreUint32(&st.livenessState, uint32(reachable))
		}
	}
	e.topoDone("quiesce")
}
// stuck: situations in which a request cannot be served yet — the leader's store is down, the region has no leader,
// PD keeps answering from an old snapshot. The cache has no back-off of its own (the sender has); what it must not do is
// spin silently: every failing round has to change the cache, consult PD, or return an error.
func (e *c09Env) stuck() {
	if e.halted() {
		return
	}
	k := e.key()
	var target c09R
	for _, r := range e.regions() {
		if contains(r.meta.StartKey, r.meta.EndKey, k) {
			target = r
		}
	}
	kind := e.rng.Intn(3)
	switch kind {
	case 0:
		if target.leader.GetId() == 0 || len(e.stopped) > 0 {
			return
		}
		e.cluster.StopStore(target.leader.GetStoreId())
		e.stopped[target.leader.GetStoreId()] = true
		e.x("topo stop store %d", target.leader.GetStoreId())
	case 1:
		e.cluster.GiveUpLeader(target.meta.Id)
		e.topoDone("noleader %d", target.meta.Id)
	default:
		if len(e.pdw.snaps) < 2 {
			return
		}
		e.pdw.staleP = 1
	}
	e.x("stuck begin\t%d\t%s", kind, c09hx(k))
	fmt.Fprintf(e.w, "D\t%s\n", c09Dump(e.cache))
	for i := 0; i < 8 && !e.halted(); i++ {
		e.x("stuck round\t%d", i)
		if e.round(k) {
			break
		}
	}
	e.x("stuck end")
	for i := 0; i < 2 && !e.halted(); i++ {
		if loc := e.opLocate(k); loc != nil {
			e.opSend(k, loc)
		}
	}
}
// decommission: a store that leads a warm cached region is drained (leaders moved, peers removed) and becomes a tombstone
// in PD while the region is idle; the periodic store check notices it. Then real requests (LocateKey + RegionRequestSender)
// must be served by the current leader within a few rounds.
func (e *c09Env) decommission() {
	if e.halted() || len(e.stopped) > 0 {
		return
	}
	var victim uint64
	var key []byte
	for _, r := range e.entries() {
		if !r.isValid() {
			continue
		}
		_, p, _, _ := r.WorkStorePeer(r.getStore())
		// the cached description must still be the current one (an idle warm region)
		for _, t := range e.regions() {
			if t.meta.Id == r.GetID() && t.meta.RegionEpoch.Version == r.VerID().ver && t.meta.RegionEpoch.ConfVer == r.VerID().confVer && len(t.meta.Peers) >= 2 {
				victim, key = p.StoreId, append(append([]byte{}, r.StartKey()...), 1)
			}
		}
		if victim != 0 {
			break
		}
	}
	if victim == 0 {
		return
	}
	for _, t := range e.regions() {
		for _, p := range t.meta.Peers {
			if p.StoreId != victim {
				continue
			}
			if len(t.meta.Peers) < 2 {
				return // cannot drain this store
			}
		}
	}
	for _, t := range e.regions() {
		for _, p := range t.meta.Peers {
			if p.StoreId != victim {
				continue
			}
			if t.leader.GetId() == p.Id {
				for _, q := range t.meta.Peers {
					if q.StoreId != victim {
						e.cluster.ChangeLeader(t.meta.Id, q.Id)
						break
					}
				}
			}
			e.cluster.RemovePeer(t.meta.Id, p.Id)
		}
	}
	e.cluster.MarkTombstone(victim)
	e.pdw.snaps = nil // PD no longer knows descriptions with peers on the removed store
	e.topoDone("decommission store %d", victim)
	e.opReResolve()
	e.x("sender begin\t%s", c09hx(key))
	rounds, served, store := e.senderRounds(key, 10)
	if e.halted() {
		return
	}
	e.x("sender end\t%s\t%d\t%v\t%d", c09hx(key), rounds, served, store)
}
func (e *c09Env) converge(nkeys int) {
	if e.halted() {
		return
	}
	e.quiesce()
	for i := 0; i < nkeys && !e.halted(); i++ {
		k := e.key()
		e.x("conv begin\t%s", c09hx(k))
		fmt.Fprintf(e.w, "D\t%s\n", c09Dump(e.cache))
		rounds, ok := 0, false
		for rounds < 12 && !ok && !e.halted() {
			rounds++
			ok = e.round(k)
		}
		if e.halted() {
			return
		}
		e.x("conv end\t%s\t%d\t%v", c09hx(k), rounds, ok)
	}
	if !e.halted() {
		k := e.key()
		e.x("sender begin\t%s", c09hx(k))
		rounds, served, store := e.senderRounds(k, 10)
		if !e.halted() {
			e.x("sender end\t%s\t%d\t%v\t%d", c09hx(k), rounds, served, store)
		}
	}
	// regression of F08 (fixed by 0dbaf7e): the end of the key space belongs to the last region, cached or not
	e.opLocateEnd(nil)
	if e.rng.Intn(2) == 0 {
		e.opClear()
		e.opLocateEnd(nil)
	}
}

func (e *c09Env) seqRandom(nsteps int, staleP float64, realistic bool) {
	e.realistic = realistic
	e.pdw.staleP = staleP
	e.truth()
	// a few initial splits
	for i := e.rng.Intn(4); i > 0; i-- {
		e.topo()
	}
	for i := 0; i < nsteps && !e.halted(); i++ {
		x := e.rng.Intn(100)
		switch {
		case x < 30:
			e.topo()
		case x < 78:
			e.lookup()
		case x < 90:
			e.cacheOp()
		default:
			e.round(e.key())
		}
	}
	if e.rng.Intn(3) == 0 {
		e.stuck()
	}
	e.converge(2)
	if e.rng.Intn(3) == 0 {
		e.decommission()
	}
}

// directed: cache miss in the middle + cached last region whose end key is unbounded
func (e *c09Env) seqF07() {
	e.realistic = true
	e.pdw.staleP = 0
	e.truth()
	nreg := 3 + e.rng.Intn(4)
	ks := [][]byte{}
	m := map[string]bool{}
	for len(ks) < nreg-1 {
		k := e.rawKey()
		if !m[string(k)] {
			m[string(k)] = true
			ks = append(ks, k)
		}
	}
	sort.Slice(ks, func(i, j int) bool { return bytes.Compare(ks[i], ks[j]) < 0 })
	for _, k := range ks {
		rs := e.regions()
		e.split(rs[len(rs)-1], k)
	}
	rs := e.regions()
	// warm the last region and a random subset of the others, never all of them
	miss := e.rng.Intn(len(rs) - 1)
	for i, r := range rs {
		if i == miss || (i != len(rs)-1 && e.rng.Intn(3) == 0) {
			continue
		}
		e.opLocate(append(append([]byte{}, r.meta.StartKey...), 1))
	}
	// ranges: one inside each of several regions, in order; always one in the missing and one in the last
	var krs []router.KeyRange
	for i, r := range rs {
		if i != miss && i != len(rs)-1 && e.rng.Intn(3) == 0 {
			continue
		}
		s := append(append([]byte{}, r.meta.StartKey...), 2)
		t := append(append([]byte{}, r.meta.StartKey...), 3)
		if i == len(rs)-1 && e.rng.Intn(3) == 0 {
			t = nil
		}
		krs = append(krs, router.KeyRange{StartKey: s, EndKey: t})
	}
	e.opBatch(krs, false)
	e.opBatch(e.keyRanges(2+e.rng.Intn(3)), false)
	for i := 0; i < 6 && !e.halted(); i++ {
		if e.rng.Intn(3) == 0 {
			e.cacheOp()
		} else {
			e.opBatch(e.keyRanges(1+e.rng.Intn(4)), false)
		}
	}
}

// many regions: the per-batch limit (128) of cache scans and PD scans is reached
func (e *c09Env) seqMany() {
	e.realistic = true
	e.pdw.staleP = 0.1
	e.truth()
	n := 140 + e.rng.Intn(140)
	var ks [][]byte
	for a := 0; a < len(c09Alpha) && len(ks) < n; a++ {
		for b := 0; b < 26 && len(ks) < n; b++ {
			ks = append(ks, []byte{c09Alpha[a], byte('a' + b)})
		}
	}
	for _, k := range ks {
		rs := e.cluster.ScanRegions(e.enc(k), nil, 1)
		e.cluster.SplitRaw(rs[0].Meta.Id, e.cluster.AllocID(), e.enc(k), e.cluster.AllocIDs(len(rs[0].Meta.Peers)), 0)
	}
	for _, r := range e.regions() {
		e.cluster.ChangeLeader(r.meta.Id, r.meta.Peers[0].Id)
	}
	e.pool = append(e.pool, ks[e.rng.Intn(len(ks))], ks[e.rng.Intn(len(ks))], ks[e.rng.Intn(len(ks))])
	e.topoDone("many %d", n)
	for i := 0; i < 14 && !e.halted(); i++ {
		x := e.rng.Intn(10)
		switch {
		case x < 3:
			e.opRange(nil, nil)
		case x < 5:
			e.opBatch([]router.KeyRange{{StartKey: []byte("a"), EndKey: nil}}, false)
		case x < 7:
			e.opBatch(e.keyRanges(1+e.rng.Intn(3)), false)
		case x < 8:
			e.opLoadRange(e.keyRange())
		case x < 9:
			e.cacheOp()
		default:
			e.topo()
		}
	}
}

// more cache-missing ranges than fit into one PD request (16*128 = 2048): 2100-2300 tiny ranges over three regions,
// the ranges beyond the 2048th reach into a region that the first answer does not return
func (e *c09Env) seqWide() {
	e.realistic = true
	e.pdw.staleP = 0
	e.truth()
	n := 2200 + e.rng.Intn(100)
	keyOf := func(i int) []byte { return []byte{byte('a' + i/200), byte(1 + i%200)} }
	b2 := 2110 + e.rng.Intn(30) // the third region starts after the 2048th range of every chunk sent below
	rs := e.regions()
	e.split(rs[len(rs)-1], keyOf(300+e.rng.Intn(1000)))
	rs = e.regions()
	e.split(rs[len(rs)-1], keyOf(b2))
	var krs []router.KeyRange
	for i := 0; i < n; i++ {
		k := keyOf(i)
		krs = append(krs, router.KeyRange{StartKey: k, EndKey: append(append([]byte{}, k...), 0)})
	}
	e.opBatch(krs, false)
	e.opBatch(krs[len(krs)-300:], false)
	e.opClear()
	e.opBatch(krs[50:], e.rng.Intn(2) == 0)
	e.opClear()
	e.opLocate(keyOf(0)) // the first region cached: fewer than 2048 ranges are left for PD
	e.opBatch(krs, false)
}

// ---------------------------------------------------------------- unit-level differential (merger, rangesAfterKey, gap check)
func (e *c09Env) fakeRegion(id uint64, s, t []byte) *Region {
	r := &Region{meta: &metapb.Region{Id: id, StartKey: s, EndKey: t, RegionEpoch: &metapb.RegionEpoch{Version: 1, ConfVer: 1},
		Peers: []*metapb.Peer{{Id: 1, StoreId: 1}}}}
	r.setStore(&regionStore{})
	return r
}
func (e *c09Env) chain(n int, sorted bool) []*Region {
	var out []*Region
	ks := e.sortedKeys(n + 1)
	if len(ks) < 2 {
		return nil
	}
	for i := 0; i+1 < len(ks); i++ {
		s, t := ks[i], ks[i+1]
		if i == 0 && e.rng.Intn(3) == 0 {
			s = nil
		}
		if i+2 == len(ks) && e.rng.Intn(3) == 0 {
			t = nil
		}
		if e.rng.Intn(4) == 0 {
			continue // hole
		}
		if e.rng.Intn(6) == 0 && i+2 < len(ks) {
			t = ks[i+2] // overlap
		}
		out = append(out, e.fakeRegion(uint64(100+i), s, t))
	}
	if !sorted && len(out) > 1 && e.rng.Intn(3) == 0 {
		i, j := e.rng.Intn(len(out)), e.rng.Intn(len(out))
		out[i], out[j] = out[j], out[i]
	}
	return out
}
func c09FakeDescs(rs []*Region) string {
	if len(rs) == 0 {
		return "_"
	}
	s := make([]string, len(rs))
	for i, r := range rs {
		s[i] = c09Desc(r.meta, nil)
	}
	return strings.Join(s, ";")
}
// newRegion on an arbitrary PD answer: peers on TiKV / TiFlash / tiflash_compute / tombstone stores, witnesses,
// learners, down peers, any (or no, or an unknown) leader
func (e *c09Env) unitNewRegion() {
	type st struct {
		id   uint64
		kind int
		tomb bool
	}
	pool := []st{}
	for _, s := range e.stores {
		pool = append(pool, st{s, 0, false})
	}
	pool = append(pool, st{90, 1, false}, st{91, 2, false}, st{92, 0, true}, st{93, 1, false})
	e.rng.Shuffle(len(pool), func(i, j int) { pool[i], pool[j] = pool[j], pool[i] })
	n := 1 + e.rng.Intn(5)
	meta := &metapb.Region{Id: 500, RegionEpoch: &metapb.RegionEpoch{Version: 1, ConfVer: 1}}
	var ps, kinds []string
	for i := 0; i < n && i < len(pool); i++ {
		p := &metapb.Peer{Id: uint64(600 + i), StoreId: pool[i].id}
		if pool[i].kind != 0 || e.rng.Intn(5) == 0 {
			p.Role = metapb.PeerRole_Learner
		}
		if e.rng.Intn(6) == 0 {
			p.IsWitness = true
		}
		meta.Peers = append(meta.Peers, p)
		b := func(x bool) int {
			if x {
				return 1
			}
			return 0
		}
		ps = append(ps, fmt.Sprintf("%d:%d:%d:%d", p.Id, p.StoreId, b(p.IsWitness), b(p.Role == metapb.PeerRole_Learner)))
		kinds = append(kinds, fmt.Sprintf("%d:%d:%d", pool[i].id, pool[i].kind, b(pool[i].tomb)))
	}
	var leader *metapb.Peer
	switch e.rng.Intn(6) {
	case 0:
		leader = &metapb.Peer{}
	case 1:
		leader = &metapb.Peer{Id: 999, StoreId: pool[0].id}
	default:
		q := meta.Peers[e.rng.Intn(len(meta.Peers))]
		leader = &metapb.Peer{Id: q.Id, StoreId: q.StoreId}
	}
	var down []*metapb.Peer
	var ds []string
	for _, p := range meta.Peers {
		if e.rng.Intn(5) == 0 {
			down = append(down, &metapb.Peer{Id: p.Id, StoreId: p.StoreId})
			ds = append(ds, fmt.Sprintf("%d:%d", p.Id, p.StoreId))
		}
	}
	dj := "_"
	if len(ds) > 0 {
		dj = strings.Join(ds, "/")
	}
	e.op("u_newregion", []string{strings.Join(ps, "/"), fmt.Sprintf("%d:%d", leader.Id, leader.StoreId), dj, strings.Join(kinds, "/")}, func() string {
		r, err := newRegion(e.bo(), e.cache, &router.Region{Meta: meta, Leader: leader, DownPeers: down})
		if err != nil {
			return c09Err(err)
		}
		rs := r.getStore()
		ix := func(l []int) string {
			if len(l) == 0 {
				return "_"
			}
			x := make([]string, len(l))
			for i, v := range l {
				x[i] = fmt.Sprint(v)
			}
			return strings.Join(x, "/")
		}
		return fmt.Sprintf("ok avail=%s tikv=%s tiflash=%s work=%d", c09Peers(r.meta.Peers), ix(rs.accessIndex[tiKVOnly]), ix(rs.accessIndex[tiFlashOnly]), int(rs.workTiKVIdx))
	})
}
func (e *c09Env) seqUnit(n int) {
	e.cluster.AddStore(90, "store90", &metapb.StoreLabel{Key: "engine", Value: "tiflash"})
	e.cluster.AddStore(93, "store93", &metapb.StoreLabel{Key: "engine", Value: "tiflash"})
	e.cluster.AddStore(91, "store91", &metapb.StoreLabel{Key: "engine", Value: "tiflash_compute"})
	e.cluster.AddStore(92, "store92")
	e.cluster.MarkTombstone(92)
	e.truth()
	for i := 0; i < n && !e.halted(); i++ {
		if e.rng.Intn(4) == 0 {
			e.unitNewRegion()
			continue
		}
		switch e.rng.Intn(3) {
		case 0:
			cs, us := e.chain(1+e.rng.Intn(5), true), e.chain(1+e.rng.Intn(5), false)
			e.op("u_merge", []string{c09FakeDescs(cs), c09FakeDescs(us)}, func() string {
				m := newBatchLocateRegionMerger(cs, len(cs)+len(us))
				for _, u := range us {
					m.appendRegion(u)
				}
				return "ok " + c09Locs(m.build())
			})
		case 1:
			rs := e.keyRanges(1 + e.rng.Intn(4))
			k := e.key()
			e.op("u_after", []string{c09Ranges(rs), c09hx(k)}, func() string {
				cp := append([]router.KeyRange{}, rs...)
				return "ok " + c09Ranges(rangesAfterKey(cp, k))
			})
		default:
			rs := e.keyRanges(1 + e.rng.Intn(4))
			us := e.chain(1+e.rng.Intn(6), false)
			var infos []*router.Region
			for _, u := range us {
				infos = append(infos, &router.Region{Meta: u.meta})
			}
			limit := e.rng.Intn(5)
			if e.rng.Intn(2) == 0 {
				limit = len(infos)
			}
			e.op("u_gap", []string{c09Ranges(rs), c09FakeDescs(us), fmt.Sprint(limit)}, func() string {
				return fmt.Sprintf("ok %v", regionsHaveGapInRanges(rs, infos, limit))
			})
		}
	}
}

// ---------------------------------------------------------------- entry point
func c09RunSeq(w *bufio.Writer, class string, seed int64, nops int) {
	txn := seed%2 == 1 && class != "unit"
	mode := "raw"
	if txn {
		mode = "txn"
	}
	fmt.Fprintf(w, "SEQ\t%s\t%d\t%s\n", class, seed, mode)
	e := c09NewEnv(w, seed, nops, txn)
	switch class {
	case "rand":
		e.seqRandom(30, []float64{0, 0.25, 0.5}[e.rng.Intn(3)], false)
	case "real":
		e.seqRandom(30, []float64{0, 0.25, 0.5}[e.rng.Intn(3)], true)
	case "bkt":
		e.bktHeavy = true
		e.seqRandom(30, []float64{0, 0.25}[e.rng.Intn(2)], true)
	case "f07":
		e.seqF07()
	case "many":
		e.seqMany()
	case "wide":
		e.seqWide()
	case "unit":
		e.seqUnit(40)
	}
	fmt.Fprintln(w, "E")
	e.cache.bg.shutdown(false)
}

// watchdog: an operation that runs for more than 10 s or blows up the heap is a hang (e.g. an endless lookup loop)
var c09OpStart int64

func c09Watchdog() {
	for {
		time.Sleep(200 * time.Millisecond)
		st := atomic.LoadInt64(&c09OpStart)
		var ms runtime.MemStats
		runtime.ReadMemStats(&ms)
		if (st != 0 && time.Now().UnixNano()-st > int64(10*time.Second)) || ms.HeapAlloc > 3<<30 {
			fmt.Fprintln(os.Stderr, "HANG: operation did not finish (see the last O line of the trace)")
			os.Exit(3)
		}
	}
}

// VerifC09Main: `gen` (uses VERIF_SEED / VERIF_TIER) or `run <class> <seed> <nops>`.
func VerifC09Main(args []string) int {
	util.EnableFailpoints()
	log.SetLevel(zapcore.FatalLevel)
	if err := failpoint.Enable("tikvclient/fastBackoffBySkipSleep", "return"); err != nil {
		fmt.Fprintln(os.Stderr, "failpoint:", err)
		return 2
	}
	w := bufio.NewWriterSize(os.Stdout, 1<<20)
	defer w.Flush()
	go c09Watchdog()
	if len(args) >= 1 && args[0] == "probe-notikv" {
		// PD reports the region's only TiKV peer as down, its TiFlash learner is up
		e := c09NewEnv(w, 1, -1, false)
		e.cluster.AddStore(90, "store90", &metapb.StoreLabel{Key: "engine", Value: "tiflash"})
		meta := &metapb.Region{Id: 500, RegionEpoch: &metapb.RegionEpoch{Version: 1, ConfVer: 1},
			Peers: []*metapb.Peer{{Id: 600, StoreId: e.stores[0]}, {Id: 601, StoreId: 90, Role: metapb.PeerRole_Learner}}}
		r, err := newRegion(e.bo(), e.cache, &router.Region{Meta: meta, Leader: &metapb.Peer{Id: 600, StoreId: e.stores[0]}, DownPeers: []*metapb.Peer{{Id: 600, StoreId: e.stores[0]}}})
		fmt.Fprintf(w, "newRegion err=%v tikv=%v tiflash=%v work=%d\n", err, r.getStore().accessIndex[tiKVOnly], r.getStore().accessIndex[tiFlashOnly], r.getStore().workTiKVIdx)
		e.cache.mu.Lock()
		e.cache.insertRegionToCache(r, true, true)
		e.cache.mu.Unlock()
		func() {
			defer func() { fmt.Fprintf(w, "GetTiKVRPCContext recovered: %v\n", recover()) }()
			ctx, err := e.cache.GetTiKVRPCContext(e.bo(), r.VerID(), kv.ReplicaReadLeader, 0)
			fmt.Fprintf(w, "GetTiKVRPCContext = %v err=%v\n", ctx, err)
		}()
		return 0
	}
	if len(args) >= 1 && args[0] == "probe-follower-wrap" {
		// observation: a region with four peers, leader first; somebody failed on the stores of followers 1 and 2; follower 3 is fine.
		// regionStore.follower tries seed, seed+1, seed+2 modulo 3 — with seed 2^32-1 the uint32 wraps: 1, 1, 2.
		var e *c09Env
		for sd := int64(1); ; sd++ {
			if e = c09NewEnv(w, sd, -1, false); len(e.stores) >= 4 {
				break
			}
		}
		meta := &metapb.Region{Id: 500, RegionEpoch: &metapb.RegionEpoch{Version: 1, ConfVer: 1},
			Peers: []*metapb.Peer{{Id: 600, StoreId: e.stores[0]}, {Id: 601, StoreId: e.stores[1]}, {Id: 602, StoreId: e.stores[2]}, {Id: 603, StoreId: e.stores[3]}}}
		r, err := newRegion(e.bo(), e.cache, &router.Region{Meta: meta, Leader: meta.Peers[0]})
		if err != nil {
			fmt.Fprintf(w, "newRegion err=%v\n", err)
			return 0
		}
		e.cache.mu.Lock()
		e.cache.insertRegionToCache(r, true, true)
		e.cache.mu.Unlock()
		for _, ai := range []AccessIndex{1, 2} {
			e.cache.OnSendFail(e.bo(), &RPCContext{Region: r.VerID(), Meta: r.meta, AccessIdx: ai, AccessMode: tiKVOnly}, false, fmt.Errorf("send failed"))
		}
		for _, seed := range []uint32{^uint32(0), ^uint32(0) - 1, 0, 1, 2} {
			ctx, err := e.cache.GetTiKVRPCContext(e.bo(), r.VerID(), kv.ReplicaReadFollower, seed)
			if ctx == nil {
				fmt.Fprintf(w, "PROBE\tseed=%d\tnone err=%v\n", seed, err)
			} else {
				fmt.Fprintf(w, "PROBE\tseed=%d\tpeer=%d accessIdx=%d\n", seed, ctx.Peer.GetId(), int(ctx.AccessIdx))
			}
		}
		return 0
	}
	if len(args) >= 1 && args[0] == "probe-groupfilter" {
		// two regions [-inf,m) and [m,+inf); GroupKeysByRegion with tikv.equalRegionStartKey as filter
		e := c09NewEnv(w, 1, -1, false)
		rs := e.regions()
		e.cluster.SplitRaw(rs[0].meta.Id, e.cluster.AllocID(), []byte("m"), e.cluster.AllocIDs(len(rs[0].meta.Peers)), 0)
		for _, r := range e.regions() {
			if r.leader.GetId() == 0 {
				e.cluster.ChangeLeader(r.meta.Id, r.meta.Peers[0].Id)
			}
		}
		e.pdw.snapshot()
		for _, keys := range [][]string{{"m", "x"}, {"x", "m"}, {"m", "m"}, {"a", "m"}} {
			var ks [][]byte
			for _, k := range keys {
				ks = append(ks, []byte(k))
			}
			e.cache.mu.Lock()
			e.cache.mu.regions = make(map[RegionVerID]*Region)
			e.cache.mu.latestVersions = make(map[uint64]RegionVerID)
			e.cache.mu.sorted = NewSortedRegions(btreeDegree)
			e.cache.mu.Unlock()
			g, first, err := e.cache.GroupKeysByRegion(e.bo(), ks, c09EqualRegionStartKey)
			var out []string
			for v, kk := range g {
				loc, _ := e.cache.LocateRegionByID(e.bo(), v.GetID())
				for _, k := range kk {
					out = append(out, fmt.Sprintf("%s->region %d [%s,%s)", k, v.GetID(), loc.StartKey, loc.EndKey))
				}
			}
			sort.Strings(out)
			fmt.Fprintf(w, "PROBE\tkeys=%v\tfirst=%d\tgroups=%v\terr=%v\n", keys, first.GetID(), out, err)
		}
		return 0
	}
	if len(args) >= 1 && args[0] == "probe-bucket" {
		for _, tc := range [][]string{{"t", "z", "a,h,m", "u"}, {"a", "m", "p,q,z", "b"}, {"f", "m", "a,h,p,z", "g"}} {
			loc := &KeyLocation{StartKey: []byte(tc[0]), EndKey: []byte(tc[1]), Buckets: &metapb.Buckets{Version: 1}}
			for _, k := range strings.Split(tc[2], ",") {
				loc.Buckets.Keys = append(loc.Buckets.Keys, []byte(k))
			}
			b := loc.LocateBucket([]byte(tc[3]))
			fmt.Fprintf(w, "region [%s,%s) bucket keys [%s] LocateBucket(%s) = [%s,%s)\n", tc[0], tc[1], tc[2], tc[3], b.StartKey, b.EndKey)
		}
		return 0
	}
	if len(args) >= 1 && args[0] == "probe-mockpd" {
		return c09ProbeMockPD(w)
	}
	if len(args) >= 4 && args[0] == "run" {
		seed, _ := strconv.ParseInt(args[2], 10, 64)
		nops, _ := strconv.Atoi(args[3])
		c09RunSeq(w, args[1], seed, nops)
		return 0
	}
	seed, _ := strconv.ParseInt(os.Getenv("VERIF_SEED"), 10, 64)
	if seed == 0 {
		seed = 1
	}
	scale := 1
	if os.Getenv("VERIF_TIER") == "thorough" {
		scale = 8
	}
	plan := []struct {
		class string
		n     int
	}{{"rand", 600 * scale}, {"real", 600 * scale}, {"f07", 250 * scale}, {"bkt", 150 * scale}, {"unit", 120 * scale}, {"many", 6 * scale}, {"wide", 3 * scale}}
	for ci, p := range plan {
		for i := 0; i < p.n; i++ {
			c09RunSeq(w, p.class, seed*1000000+int64(ci)*100000+int64(i), -1)
		}
	}
	return 0
}

// c09ProbeMockPD: the public cache API over mocktikv's own PD client (no harness replacement): three regions
// [-inf,b) [b,d) [d,+inf), cold cache, BatchLocateKeyRanges([a,a1), [e,+inf)).
func c09ProbeMockPD(w *bufio.Writer) int {
	cluster := mocktikv.NewCluster(mocktikv.MustNewMVCCStore())
	storeIDs, _, regionID, _ := mocktikv.BootstrapWithMultiStores(cluster, 1)
	_ = storeIDs
	r2, r3 := cluster.AllocID(), cluster.AllocID()
	cluster.SplitRaw(regionID, r2, []byte("b"), []uint64{cluster.AllocID()}, 0)
	cluster.SplitRaw(r2, r3, []byte("d"), []uint64{cluster.AllocID()}, 0)
	for _, r := range cluster.ScanRegions(nil, nil, 0) {
		cluster.ChangeLeader(r.Meta.Id, r.Meta.Peers[0].Id)
	}
	pdc := mocktikv.NewPDClient(cluster)
	cache := NewRegionCache(pdc)
	defer cache.Close()
	fmt.Fprintf(w, "truth %s\n", c09Descs(cluster.ScanRegions(nil, nil, 0)))
	raw, _ := pdc.BatchScanRegions(withPDCircuitBreaker(context.Background()), []router.KeyRange{{StartKey: []byte("a"), EndKey: []byte("a1")}, {StartKey: []byte("e")}}, 128)
	fmt.Fprintf(w, "mock pd BatchScanRegions([a,a1),[e,+inf)) = %s\n", c09Descs(raw))
	bo := retry.NewBackofferWithVars(context.Background(), 600, nil)
	locs, err := cache.BatchLocateKeyRanges(bo, []kv.KeyRange{{StartKey: []byte("a"), EndKey: []byte("a1")}, {StartKey: []byte("e")}})
	fmt.Fprintf(w, "PROBE\tBatchLocateKeyRanges([a,a1),[e,+inf))\t%s\terr=%v\n", c09Locs(locs), err)
	// the same ranges one by one work
	l1, e1 := cache.BatchLocateKeyRanges(retry.NewBackofferWithVars(context.Background(), 2000, nil), []kv.KeyRange{{StartKey: []byte("e")}})
	fmt.Fprintf(w, "BatchLocateKeyRanges([e,+inf)) = %s err=%v\n", c09Locs(l1), e1)
	return 0
}
