//go:build verif

// Add-only helper for the C09 (region cache) harness: TiKV's default right-derive split — the original region
// keeps the RIGHT half and the new region gets the left half (mocktikv's own Split is left-derive only).
package mocktikv

// VerifC09SplitRightDerive splits regionID at rawKey: the new region newRegionID gets [start, rawKey), the original
// region keeps [rawKey, end); both carry the parent's bumped version.
func (c *Cluster) VerifC09SplitRightDerive(regionID, newRegionID uint64, rawKey []byte, peerIDs []uint64, leaderPeerID uint64) {
	c.Lock()
	defer c.Unlock()
	r := c.regions[regionID]
	storeIDs := make([]uint64, 0, len(r.Meta.Peers))
	for _, p := range r.Meta.Peers {
		storeIDs = append(storeIDs, p.GetStoreId())
	}
	left := newRegion(newRegionID, storeIDs, peerIDs, leaderPeerID)
	left.updateKeyRange(r.Meta.StartKey, rawKey)
	r.updateKeyRange(rawKey, r.Meta.EndKey)
	left.Meta.RegionEpoch.Version = r.Meta.RegionEpoch.Version
	c.regions[newRegionID] = left
}
