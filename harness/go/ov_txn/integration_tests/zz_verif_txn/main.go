//go:build verif

// Driver `txn`: executes transaction scenarios (JSON lines on stdin) against client-go over
// unistore (or the in-repo mock store) behind an RPC gate, and prints one JSON result per scenario:
// the full request/response/timestamp trace, what Commit returned, and the MVCC audit of every key.
package main

import (
	"bufio"
	"context"
	"encoding/json"
	"fmt"
	"os"
	"sort"
	"strings"
	"sync"
	"sync/atomic"
	"time"

	"github.com/pingcap/failpoint"
	"github.com/pingcap/kvproto/pkg/kvrpcpb"
	"github.com/pingcap/tidb/pkg/store/mockstore/unistore"
	"github.com/pkg/errors"
	"github.com/tikv/client-go/v2/config"
	"github.com/tikv/client-go/v2/config/retry"
	tikverr "github.com/tikv/client-go/v2/error"
	"github.com/tikv/client-go/v2/kv"
	"github.com/tikv/client-go/v2/oracle"
	"github.com/tikv/client-go/v2/testutils"
	"github.com/tikv/client-go/v2/tikv"
	"github.com/tikv/client-go/v2/tikvrpc"
	"github.com/tikv/client-go/v2/txnkv/transaction"
	"github.com/tikv/client-go/v2/util"
	"github.com/tikv/client-go/v2/util/async"
	"github.com/tikv/client-go/v2/util/codec"
	pd "github.com/tikv/pd/client"
	"github.com/tikv/pd/client/constants"
)

type KV struct {
	K string `json:"k"`
	V string `json:"v"`
}
type Op struct {
	Op string `json:"op"`
	K  string `json:"k"`
	V  string `json:"v"`
}
type TxnSpec struct {
	Mode        string `json:"mode"` // 2pc | async | 1pc
	Pessimistic bool   `json:"pessimistic"`
	Causal      bool   `json:"causal"`
	Ops         []Op   `json:"ops"`
	Finish      string `json:"finish"` // commit (default) | rollback
	Client      string   `json:"client"`      // C06 (program mode): client store the transaction runs on (default "c"+digits of its name)
	FilterKeys  []string `json:"filter_keys"` // C06: txn.SetKVFilter declaring the buffer entries of these keys unnecessary
}

// keyFilter is a transaction.KVFilter that declares every buffer entry of the listed keys unnecessary (C06)
type keyFilter struct{ keys map[string]bool }

func (f keyFilter) IsUnnecessaryKeyValue(k, v []byte, flags kv.KeyFlags) (bool, error) {
	return f.keys[string(k)], nil
}
type Fault struct {
	At   int    `json:"at"`
	Kind string `json:"kind"`
}
type Extra struct {
	At   int    `json:"at"`
	What string `json:"what"`
	K    string `json:"k"`
	Cmd  string   `json:"cmd"` // C06 (program mode, what=split): At counts the requests of this command type only (Commit, Prewrite, PessimisticLock, PessimisticRollback, BatchRollback, ResolveLock)
	Ks   []string `json:"ks"`  // C06 (what=split): several split keys at once
	Until string  `json:"until"`  // C06 (what=hold): hold the first request of Cmd naming key K until a request of command Until naming K was answered
	MaxMs int     `json:"max_ms"` // C06 (what=hold): give up holding after this many ms (default 300)
}
type Scenario struct {
	ID        string   `json:"id"`
	Backend   string   `json:"backend"`
	Splits    []string `json:"splits"`
	Preload   []KV     `json:"preload"`
	BatchSize int      `json:"batch_size"`
	Txn       TxnSpec  `json:"txn"`
	Faults    []Fault  `json:"faults"`
	BlackFrom int      `json:"black_from"` // -1 = none
	BlackKind string   `json:"black_kind"` // req | resp
	Extras    []Extra  `json:"extras"`
	Recover   bool     `json:"recover"`
	Keys      []string `json:"keys"` // all keys to audit
	Others    []OtherTxn `json:"others"` // unused
	ResolveBeforeAudit bool `json:"resolve_before_audit"` // program mode: a fresh client reads every key (resolving locks of finished transactions) before the MVCC dump; normalises U3
	SafeWindowMs *int  `json:"safe_window_ms"` // config AsyncCommit.SafeWindow in ms (nil = default 2 s): 0 makes the store decline async commit / 1PC (max commit ts exceeded) so that the client falls back
	ManagedTTL uint64  `json:"managed_ttl"` // transaction.ManagedLockTTL in ms (0 = default 20000): small values make heart-beats observable
	Program   []Step   `json:"program"` // multi-transaction step program (C06 / C01); when set, Txn is ignored
	Txns      map[string]TxnSpec `json:"txns"` // specs of the transactions named in Program (ops unused)
}

// Step of a program: executed sequentially unless Async (then it runs in a goroutine and is joined by a later "join" step)
type Step struct {
	T     string   `json:"t"`  // transaction name (t1, t2, ...) ; client = "c"+digit
	Op    string   `json:"op"` // begin set del insert get bget scan rscan lock agg_start agg_retry agg_cancel agg_done commit rollback split join clock
	K     string   `json:"k"`
	Ks    []string `json:"ks"`
	V     string   `json:"v"`
	RV    bool     `json:"rv"`    // lock: return values
	CE    bool     `json:"ce"`    // lock: check existence
	LOIE  bool     `json:"loie"`  // lock: only if exists
	Wait  int64    `json:"wait"`  // lock wait: -1 no wait, 0 default(always), >0 ms
	Async bool     `json:"async"`
	CancelAfter bool `json:"cancel_after"` // C06: agg_done / agg_cancel / commit run under a cancellable context that the caller cancels as soon as the call returned
}
type OtherTxn struct {
	Txn TxnSpec `json:"txn"`
}

type unistoreClientWrapper struct {
	*unistore.RPCClient
}

func (c *unistoreClientWrapper) SendRequestAsync(ctx context.Context, addr string, req *tikvrpc.Request, cb async.Callback[*tikvrpc.Response]) {
	go func() {
		cb.Schedule(c.RPCClient.SendRequest(ctx, addr, req, tikv.ReadTimeoutShort))
	}()
}
func (c *unistoreClientWrapper) SetEventListener(listener tikv.ClientEventListener) {}

type env struct {
	sc      *Scenario
	inner   tikv.Client
	pdc     pd.Client
	cluster testutils.Cluster
	trace   *Trace
	clk     *clock
	pdsh    *pdShared
	guard   *rbGuard
	reqSeq  atomic.Int64
	stores  map[string]*tikv.KVStore
	gates   map[string]*gate
	errs    []string
	mu      sync.Mutex
}

func (e *env) note(format string, a ...interface{}) {
	e.mu.Lock()
	e.errs = append(e.errs, fmt.Sprintf(format, a...))
	e.mu.Unlock()
}

func key(name string) []byte { return []byte(name) }

func newEnv(sc *Scenario) (*env, error) {
	e := &env{sc: sc, trace: &Trace{}, clk: &clock{}, stores: map[string]*tikv.KVStore{}, gates: map[string]*gate{}}
	if sc.Backend == "mock" {
		client, cluster, pdClient, err := testutils.NewMockTiKV("", nil)
		if err != nil {
			return nil, err
		}
		testutils.BootstrapWithSingleStore(cluster)
		e.inner, e.pdc, e.cluster = client, pdClient, cluster
	} else {
		client, pdClient, cluster, err := unistore.New("", nil, constants.NullKeyspaceID, nil)
		if err != nil {
			return nil, err
		}
		unistore.BootstrapWithSingleStore(cluster)
		e.inner, e.pdc, e.cluster = &unistoreClientWrapper{client}, pdClient, cluster
		e.guard = newGuard()
	}
	for _, s := range sc.Splits {
		e.split(key(s))
	}
	return e, nil
}

func (e *env) split(k []byte) {
	// unistore's GetRegionByKey compares with the (memcomparable) region bounds; mocktikv's encodes the key itself
	lookup := codec.EncodeBytes(nil, k)
	if e.sc.Backend == "mock" {
		lookup = k
	}
	r, _, _, _ := e.cluster.GetRegionByKey(lookup)
	if r == nil {
		return
	}
	if string(r.StartKey) == string(codec.EncodeBytes(nil, k)) {
		return
	}
	newID, newPeer := e.cluster.AllocID(), e.cluster.AllocID()
	e.cluster.Split(r.Id, newID, k, []uint64{newPeer}, newPeer)
}

func (e *env) store(id string) *tikv.KVStore {
	if s, ok := e.stores[id]; ok {
		return s
	}
	var g *gate
	if e.pdsh == nil {
		e.pdsh = &pdShared{clk: e.clk, trace: e.trace}
	}
	s, err := tikv.NewTestTiKVStore(e.inner, &gatePD{Client: e.pdc, sh: e.pdsh},
		func(c tikv.Client) tikv.Client { g = newGate(c, id, e.trace, &e.reqSeq); g.guard = e.guard; return g }, nil, 0)
	if err != nil {
		panic(err)
	}
	e.stores[id] = s
	e.gates[id] = g
	return s
}

func classify(err error) string {
	if err == nil {
		return "ok"
	}
	if tikverr.IsErrorUndetermined(err) {
		return "undetermined"
	}
	c := errors.Cause(err)
	switch c.(type) {
	case *tikverr.ErrKeyExist:
		return "err:exists"
	case *tikverr.ErrWriteConflict:
		return "err:conflict"
	case *tikverr.ErrDeadlock:
		return "err:deadlock"
	case *tikverr.ErrRetryable:
		return "err:retryable"
	}
	m := err.Error()
	switch {
	case tikverr.IsErrWriteConflict(err):
		return "err:conflict"
	case strings.Contains(m, "already exist"):
		return "err:exists"
	case strings.Contains(m, "write conflict") || strings.Contains(m, "WriteConflict"):
		return "err:conflict"
	case strings.Contains(m, "lock wait timeout") || strings.Contains(m, "LockWaitTimeout"):
		return "err:lockwait"
	case strings.Contains(m, "LockAcquireFailAndNoWaitSet") || strings.Contains(m, "no wait"):
		return "err:nowait"
	}
	return "err:other:" + strings.SplitN(m, "\n", 2)[0]
}

// applyOps buffers the writes of a transaction; returns the first error (class)
func (e *env) applyOps(ctx context.Context, st *tikv.KVStore, txn *transaction.KVTxn, spec *TxnSpec, reads *[]map[string]interface{}) error {
	for _, op := range spec.Ops {
		k := key(op.K)
		var err error
		if spec.Pessimistic && (op.Op == "set" || op.Op == "del" || op.Op == "insert" || op.Op == "insdel" || op.Op == "plock") {
			fu, e2 := st.CurrentTimestamp(oracle.GlobalTxnScope)
			if e2 != nil {
				return e2
			}
			lctx := kv.NewLockCtx(fu, kv.LockNoWait, time.Now())
			if op.Op == "insert" || op.Op == "insdel" {
				// TiDB sets the presume flag first and locks with the existence check
				err = txn.GetMemBuffer().SetWithFlags(k, []byte(op.V), kv.SetPresumeKeyNotExists, kv.SetNewlyInserted)
				if err != nil {
					return err
				}
			}
			err = txn.LockKeys(ctx, lctx, k)
			if err != nil {
				return err
			}
		}
		switch op.Op {
		case "set":
			err = txn.Set(k, []byte(op.V))
		case "del":
			err = txn.Delete(k)
		case "insert":
			err = txn.GetMemBuffer().SetWithFlags(k, []byte(op.V), kv.SetPresumeKeyNotExists, kv.SetNewlyInserted)
		case "insdel":
			err = txn.GetMemBuffer().SetWithFlags(k, []byte(op.V), kv.SetPresumeKeyNotExists, kv.SetNewlyInserted)
			if err == nil {
				err = txn.Delete(k)
			}
		case "lockonly":
			if !spec.Pessimistic {
				err = txn.LockKeys(ctx, kv.NewLockCtx(0, kv.LockNoWait, time.Now()), k)
			} else {
				fu, _ := st.CurrentTimestamp(oracle.GlobalTxnScope)
				err = txn.LockKeys(ctx, kv.NewLockCtx(fu, kv.LockNoWait, time.Now()), k)
			}
		case "plock":
		case "get":
			v, e2 := txn.Get(ctx, k)
			r := map[string]interface{}{"op": "get", "k": op.K, "txn": txn.StartTS()}
			if e2 != nil {
				if tikverr.IsErrNotFound(e2) {
					r["v"] = nil
				} else {
					r["err"] = classify(e2)
				}
			} else {
				r["v"] = string(v.Value)
			}
			if reads != nil {
				*reads = append(*reads, r)
			}
		}
		if err != nil {
			return err
		}
	}
	return nil
}

func (e *env) begin(st *tikv.KVStore, cid string, spec *TxnSpec) (*transaction.KVTxn, error) {
	e.trace.add(Event{Kind: "begin_call", Client: cid})
	callSeq := e.trace.lastSeq()
	txn, err := st.Begin()
	if err != nil {
		return nil, err
	}
	txn.SetPessimistic(spec.Pessimistic)
	switch spec.Mode {
	case "async":
		txn.SetEnableAsyncCommit(true)
	case "1pc":
		txn.SetEnable1PC(true)
	case "async1pc":
		txn.SetEnableAsyncCommit(true)
		txn.SetEnable1PC(true)
	}
	txn.SetCausalConsistency(spec.Causal)
	if len(spec.FilterKeys) > 0 {
		fk := keyFilter{keys: map[string]bool{}}
		for _, k := range spec.FilterKeys {
			fk.keys[k] = true
		}
		txn.SetKVFilter(fk)
	}
	e.trace.add(Event{Kind: "begin", Client: cid, F: map[string]interface{}{"start": txn.StartTS(), "mode": spec.Mode, "pessimistic": spec.Pessimistic, "causal": spec.Causal, "call_seq": callSeq}})
	return txn, nil
}

// helper actions run by other clients at a fault instant
func (e *env) helper(what string, k string, victimStart uint64) {
	c2 := e.store("c2")
	ctx, cancel := context.WithTimeout(context.Background(), 3*time.Second)
	defer cancel()
	e.trace.add(Event{Kind: "note", Client: "c2", F: map[string]interface{}{"helper": what, "k": k}})
	switch what {
	case "reader", "push_min_commit", "reader_clockjump":
		if what == "reader_clockjump" {
			// the resolver's clock jumps by an hour while its first status check is on its way back: the store said
			// "alive" for the instant it was asked; the lock must still be treated as alive
			if g := e.gates["c2"]; g != nil {
				g.osMu.Lock()
				if g.oneShotAfter == nil {
					g.oneShotAfter = map[string]func(){}
				}
				g.oneShotAfter["CheckTxnStatus"] = func() {
					e.clk.offsetMs.Add(3600 * 1000)
					// the resolver judges expiry by the last timestamp its oracle has seen: let it see the new time
					_, _ = c2.CurrentTimestamp(oracle.GlobalTxnScope)
				}
				g.osMu.Unlock()
			}
		}
		ts, err := c2.CurrentTimestamp(oracle.GlobalTxnScope)
		if err != nil {
			e.note("helper ts: %v", err)
			return
		}
		snap := c2.GetSnapshot(ts)
		keys := e.sc.Keys
		if k != "" {
			keys = []string{k}
		}
		c, cancel2 := context.WithTimeout(ctx, 400*time.Millisecond)
		for _, kk := range keys {
			v, err := snap.Get(c, key(kk))
			r := map[string]interface{}{"k": kk, "ts": ts}
			if err != nil {
				if tikverr.IsErrNotFound(err) {
					r["v"] = nil
				} else {
					r["err"] = classify(err)
				}
			} else {
				r["v"] = string(v.Value)
			}
			e.trace.add(Event{Kind: "read", Client: "c2", F: r})
		}
		cancel2()
	case "expire_resolve":
		e.clk.offsetMs.Add(3600 * 1000)
		ts, _ := c2.CurrentTimestamp(oracle.GlobalTxnScope)
		snap := c2.GetSnapshot(ts)
		for _, kk := range e.sc.Keys {
			v, err := snap.Get(ctx, key(kk))
			r := map[string]interface{}{"k": kk, "ts": ts}
			if err != nil {
				if tikverr.IsErrNotFound(err) {
					r["v"] = nil
				} else {
					r["err"] = classify(err)
				}
			} else {
				r["v"] = string(v.Value)
			}
			e.trace.add(Event{Kind: "read", Client: "c2", F: r})
		}
	case "gc":
		e.clk.offsetMs.Add(3600 * 1000)
		sp, _ := c2.CurrentTimestamp(oracle.GlobalTxnScope)
		e.trace.add(Event{Kind: "gc_begin", Client: "c2", F: map[string]interface{}{"safepoint": sp}})
		err := tikv.StoreProbe{KVStore: c2}.GCResolveLockPhase(ctx, sp, 1)
		e.trace.add(Event{Kind: "gc_end", Client: "c2", F: map[string]interface{}{"err": fmt.Sprint(err)}})
	case "split":
		if k == "" && len(e.sc.Keys) > 1 {
			k = e.sc.Keys[len(e.sc.Keys)/2]
		}
		e.split(key(k))
	case "writer":
		txn, err := c2.Begin()
		if err != nil {
			return
		}
		if k == "" {
			k = e.sc.Keys[0]
		}
		_ = txn.Set(key(k), []byte("w"))
		c, cancel2 := context.WithTimeout(ctx, 400*time.Millisecond)
		err = txn.Commit(c)
		cancel2()
		e.trace.add(Event{Kind: "note", Client: "c2", F: map[string]interface{}{"writer": classify(err), "start": txn.StartTS(), "commit": txn.CommitTS()}})
	}
}

func (e *env) mvcc(st *tikv.KVStore, k []byte) map[string]interface{} {
	bo := retry.NewBackofferWithVars(context.Background(), 5000, nil)
	for i := 0; i < 5; i++ {
		loc, err := st.GetRegionCache().LocateKey(bo, k)
		if err != nil {
			return map[string]interface{}{"err": err.Error()}
		}
		req := tikvrpc.NewRequest(tikvrpc.CmdMvccGetByKey, &kvrpcpb.MvccGetByKeyRequest{Key: k})
		resp, err := st.SendReq(bo, req, loc.Region, 5*time.Second)
		if err != nil {
			return map[string]interface{}{"err": err.Error()}
		}
		if re, _ := resp.GetRegionError(); re != nil {
			st.GetRegionCache().InvalidateCachedRegion(loc.Region)
			continue
		}
		r := resp.Resp.(*kvrpcpb.MvccGetByKeyResponse)
		out := map[string]interface{}{}
		if r.Info == nil {
			return out
		}
		if r.Info.Lock != nil {
			l := r.Info.Lock
			out["lock"] = map[string]interface{}{"start": l.StartTs, "primary": hk(l.Primary), "type": l.Type.String(), "async": l.UseAsyncCommit, "ttl": l.Ttl, "for_update": l.ForUpdateTs}
		}
		ws := []map[string]interface{}{}
		for _, w := range r.Info.Writes {
			ws = append(ws, map[string]interface{}{"type": w.Type.String(), "start": w.StartTs, "commit": w.CommitTs, "short": string(w.ShortValue)})
		}
		out["writes"] = ws
		return out
	}
	return map[string]interface{}{"err": "region errors"}
}

func (e *env) readAll(st *tikv.KVStore, cid string, ts uint64, tmo time.Duration, freshSnapPerKey bool) map[string]interface{} {
	res := map[string]interface{}{}
	snap := st.GetSnapshot(ts)
	for _, kk := range e.sc.Keys {
		if freshSnapPerKey {
			snap = st.GetSnapshot(ts) // its own resolved-lock list: every key meets its own lock
		}
		ctx, cancel := context.WithTimeout(context.Background(), tmo)
		v, err := snap.Get(ctx, key(kk))
		cancel()
		if err != nil {
			if tikverr.IsErrNotFound(err) {
				res[kk] = nil
			} else {
				res[kk] = "ERR:" + classify(err)
			}
		} else {
			res[kk] = string(v.Value)
		}
	}
	return res
}

func waitWG(wg *sync.WaitGroup, d time.Duration) bool {
	ch := make(chan struct{})
	go func() { wg.Wait(); close(ch) }()
	select {
	case <-ch:
		return true
	case <-time.After(d):
		return false
	}
}

// callCtx: the context of one API call; with cancelAfter the caller cancels it as soon as the call returned (defer cancel())
func callCtx(ctx context.Context, cancelAfter bool) (context.Context, context.CancelFunc) {
	if cancelAfter {
		return context.WithCancel(ctx)
	}
	return ctx, func() {}
}

type progTxn struct {
	txn    *transaction.KVTxn
	cid    string
	spec   TxnSpec
	done   bool
	result string
	savedFU uint64
	lastFU  uint64
	killed  *uint32 // C06: the session's kill flag (kv.Variables.Killed), installed by the first `kill` step
}

func runProgram(sc *Scenario, e *env, out map[string]interface{}) {
	ctx := context.Background()
	txns := map[string]*progTxn{}
	steps := []map[string]interface{}{}
	var smu sync.Mutex
	pending := map[string]chan struct{}{}
	clientOf := func(t string) string {
		// C06: several transactions may share one client store (its store-wide lock-resolver cache): TxnSpec.client
		if sp, ok := sc.Txns[t]; ok && sp.Client != "" {
			return sp.Client
		}
		return "c" + strings.TrimLeft(t, "t")
	}
	if len(sc.Preload) > 0 {
		c9 := e.store("c9")
		txn, _ := c9.Begin()
		for _, p := range sc.Preload {
			_ = txn.Set(key(p.K), []byte(p.V))
		}
		if err := txn.Commit(ctx); err != nil {
			out["fatal"] = "preload: " + err.Error()
			return
		}
		e.gates["c9"].waitQuiet(30*time.Millisecond, 5*time.Second)
	}
	if len(sc.Faults) > 0 {
		// C06: fabricated region errors (never a loss) on the n-th request of client c1, counted from its first request
		_ = e.store("c1")
		if g := e.gates["c1"]; g != nil {
			for _, f := range sc.Faults {
				if strings.HasPrefix(f.Kind, "regionerr:") {
					g.plan.faults[f.At] = f.Kind
				}
			}
			g.plan.active.Store(true)
		}
	}
	relFaults := false
	for _, f := range sc.Faults {
		if strings.HasPrefix(f.Kind, "release:") {
			relFaults = true
		}
	}
	if relFaults {
		// C06: the n-th RELEASE request of client c1 (counted among release requests only) or its response is lost once
		_ = e.store("c1")
		if g := e.gates["c1"]; g != nil {
			g.plan.filter = func(req *tikvrpc.Request) bool {
				return req.Type == tikvrpc.CmdPessimisticRollback || req.Type == tikvrpc.CmdBatchRollback || req.Type == tikvrpc.CmdResolveLock
			}
			for _, f := range sc.Faults {
				if k := strings.TrimPrefix(f.Kind, "release:"); k != f.Kind && (k == "dropreq" || k == "dropresp") {
					g.plan.faults[f.At] = k
				}
			}
			g.plan.active.Store(true)
		}
	}
	if sc.BlackFrom >= 0 && strings.HasPrefix(sc.BlackKind, "release_") {
		// C06: from the n-th RELEASE request (PessimisticRollback / BatchRollback / ResolveLock) of client c1 on, every such
		// request (release_req) or its response (release_resp) is lost for good; other requests are not counted
		_ = e.store("c1")
		if g := e.gates["c1"]; g != nil {
			g.plan.filter = func(req *tikvrpc.Request) bool {
				return req.Type == tikvrpc.CmdPessimisticRollback || req.Type == tikvrpc.CmdBatchRollback || req.Type == tikvrpc.CmdResolveLock
			}
			g.plan.from["blackhole_"+strings.TrimPrefix(sc.BlackKind, "release_")] = sc.BlackFrom
			g.plan.active.Store(true)
		}
	}
	if len(sc.Extras) > 0 {
		// C01: at the n-th request of client c1 another client reads every key at a fresh timestamp (meets the locks
		// written so far, pushes min-commit timestamps) before the request is delivered
		_ = e.store("c1")
		if g := e.gates["c1"]; g != nil {
			for _, x := range sc.Extras {
				x := x
				if x.What == "reader" || x.What == "push_min_commit" {
					g.plan.hooks[x.At] = func() { e.helper(x.What, x.K, 0) }
				}
				if x.What == "hold" {
					mx := x.MaxMs
					if mx <= 0 {
						mx = 300
					}
					g.holdMu.Lock()
					g.holds = append(g.holds, &holdRule{cmd: x.Cmd, key: hk(key(x.K)), until: x.Until, maxMs: mx})
					g.holdMu.Unlock()
				}
				if x.What == "split" {
					// C06: the region layout changes right before the request is delivered (the request was built for the old layout)
					h := func() {
						ks := x.Ks
						if len(ks) == 0 {
							ks = []string{x.K}
						}
						for _, k := range ks {
							e.trace.add(Event{Kind: "note", Client: "c1", F: map[string]interface{}{"helper": "split", "k": k, "cmd": x.Cmd, "at": x.At}})
							e.split(key(k))
						}
					}
					if x.Cmd != "" {
						if g.plan.cmdHooks == nil {
							g.plan.cmdHooks = map[string]map[int]func(){}
						}
						if g.plan.cmdHooks[x.Cmd] == nil {
							g.plan.cmdHooks[x.Cmd] = map[int]func(){}
						}
						g.plan.cmdHooks[x.Cmd][x.At] = h
					} else {
						g.plan.hooks[x.At] = h
					}
				}
			}
			g.plan.active.Store(true)
		}
	}
	record := func(i int, st Step, res map[string]interface{}) {
		res["i"] = i
		res["t"] = st.T
		res["op"] = st.Op
		smu.Lock()
		steps = append(steps, res)
		smu.Unlock()
		e.trace.add(Event{Kind: "api", Client: clientOf(st.T), F: res})
	}
	progStart := time.Now()
	exec := func(i int, st Step) {
		res := map[string]interface{}{}
		// wall-clock window of the call in ms since the program started (C06: admissibility of lock-expiry decisions)
		res["t0_ms"] = float64(time.Since(progStart).Microseconds()) / 1000.0
		defer func() { res["t1_ms"] = float64(time.Since(progStart).Microseconds()) / 1000.0 }()
		pt := txns[st.T]
		cid := clientOf(st.T)
		store := e.store(cid)
		if st.Op != "begin" && st.Op != "split" && st.Op != "clock" && st.Op != "sleep" && st.Op != "failpoint" && st.Op != "audit" && (pt == nil || pt.done) {
			res["skipped"] = true
			record(i, st, res)
			return
		}
		var err error
		switch st.Op {
		case "begin":
			spec := sc.Txns[st.T]
			txn, e2 := e.begin(store, cid, &spec)
			if e2 != nil {
				res["err"] = classify(e2)
				break
			}
			txns[st.T] = &progTxn{txn: txn, cid: cid, spec: spec}
			res["start"] = txn.StartTS()
		case "set", "del":
			if pt.spec.Pessimistic && st.RV {
				// rv on a write = "only if this transaction holds the pessimistic lock of the key" (a caller of a
				// pessimistic transaction writes a key only after its lock-keys call succeeded)
				fl, e2 := pt.txn.GetMemBuffer().GetFlags(key(st.K))
				if e2 != nil || !fl.HasLocked() {
					res["skipped"] = true
					break
				}
			}
			if st.Op == "set" {
				err = pt.txn.Set(key(st.K), []byte(st.V))
			} else {
				err = pt.txn.Delete(key(st.K))
			}
		case "insert":
			if pt.spec.Pessimistic {
				// statement-like: buffer the insert in a staging level, lock with the existence check, discard on failure
				mb := pt.txn.GetMemBuffer()
				h := mb.Staging()
				err = mb.SetWithFlags(key(st.K), []byte(st.V), kv.SetPresumeKeyNotExists, kv.SetNewlyInserted)
				if err == nil {
					fu, _ := store.CurrentTimestamp(oracle.GlobalTxnScope)
					pt.lastFU = fu
					res["for_update"] = fu
					err = pt.txn.LockKeys(ctx, kv.NewLockCtx(fu, 40, time.Now()), key(st.K))
				}
				if err != nil {
					mb.Cleanup(h)
				} else {
					mb.Release(h)
				}
				break
			}
			err = pt.txn.GetMemBuffer().SetWithFlags(key(st.K), []byte(st.V), kv.SetPresumeKeyNotExists, kv.SetNewlyInserted)
		case "get":
			v, e2 := pt.txn.Get(ctx, key(st.K))
			if e2 != nil {
				if tikverr.IsErrNotFound(e2) {
					res["v"] = nil
				} else {
					err = e2
				}
			} else {
				res["v"] = string(v.Value)
			}
			res["k"] = st.K
		case "bget":
			ks := [][]byte{}
			for _, k := range st.Ks {
				ks = append(ks, key(k))
			}
			m, e2 := pt.txn.BatchGet(ctx, ks)
			if e2 != nil {
				err = e2
			} else {
				vals := map[string]interface{}{}
				for _, k := range st.Ks {
					if v, ok := m[k]; ok {
						vals[k] = string(v.Value)
					} else {
						vals[k] = nil
					}
				}
				res["vals"] = vals
			}
		case "scan", "rscan":
			var it interface {
				Valid() bool
				Key() []byte
				Value() []byte
				Next() error
				Close()
			}
			var e2 error
			lo, hi := []byte(nil), []byte(nil)
			if st.K != "" {
				lo = key(st.K)
			}
			if st.V != "" {
				hi = key(st.V)
			}
			if st.Op == "scan" {
				it, e2 = pt.txn.Iter(lo, hi)
			} else {
				it, e2 = pt.txn.IterReverse(hi, lo)
			}
			if e2 != nil {
				err = e2
				break
			}
			pairs := [][]string{}
			for it.Valid() {
				pairs = append(pairs, []string{string(it.Key()), string(it.Value())})
				if e3 := it.Next(); e3 != nil {
					err = e3
					break
				}
			}
			it.Close()
			res["pairs"] = pairs
		case "lock":
			fu := uint64(0)
			if pt.spec.Pessimistic {
				fu, _ = store.CurrentTimestamp(oracle.GlobalTxnScope)
				if st.V == "fu_saved" && pt.savedFU >= pt.lastFU && pt.savedFU > 0 {
					// a for-update ts taken earlier (never below the one used before): a commit in between is a write conflict
					fu = pt.savedFU
				}
				pt.lastFU = fu
			}
			w := st.Wait
			if w == 0 {
				w = kv.LockAlwaysWait
			}
			lctx := kv.NewLockCtx(fu, w, time.Now())
			ks := [][]byte{}
			for _, k := range st.Ks {
				ks = append(ks, key(k))
			}
			if st.RV {
				lctx.InitReturnValues(len(ks))
			}
			if st.CE {
				lctx.InitCheckExistence(len(ks))
			}
			lctx.LockOnlyIfExists = st.LOIE
			// the context is never cancelled: cancelling it after LockKeys returned would cancel the
			// asynchronous pessimistic rollback of a failed call (a caller-side loss, not a client defect)
			err = pt.txn.LockKeys(ctx, lctx, ks...)
			res["for_update"] = fu
			if err == nil && st.RV {
				vals := map[string]interface{}{}
				for _, k := range st.Ks {
					if rv, ok := lctx.Values[k]; ok && rv.AlreadyLocked {
						vals[k] = "<already-locked>"
					} else if ok && rv.Exists {
						vals[k] = string(rv.Value)
					} else {
						vals[k] = nil
					}
				}
				res["vals"] = vals
			}
		case "fu_take":
			pt.savedFU, _ = store.CurrentTimestamp(oracle.GlobalTxnScope)
		case "agg_start":
			func() {
				defer func() {
					if p := recover(); p != nil {
						res["panic"] = fmt.Sprint(p)
					}
				}()
				pt.txn.StartAggressiveLocking()
			}()
		case "agg_retry":
			func() {
				defer func() {
					if p := recover(); p != nil {
						res["panic"] = fmt.Sprint(p)
					}
				}()
				pt.txn.RetryAggressiveLocking(ctx)
			}()
		case "agg_cancel":
			func() {
				defer func() {
					if p := recover(); p != nil {
						res["panic"] = fmt.Sprint(p)
					}
				}()
				cctx, ccancel := callCtx(ctx, st.CancelAfter)
				defer ccancel()
				pt.txn.CancelAggressiveLocking(cctx)
			}()
		case "agg_done":
			func() {
				defer func() {
					if p := recover(); p != nil {
						res["panic"] = fmt.Sprint(p)
					}
				}()
				cctx, ccancel := callCtx(ctx, st.CancelAfter)
				defer ccancel()
				pt.txn.DoneAggressiveLocking(cctx)
			}()
		case "commit":
			e.trace.add(Event{Kind: "commit_call", Client: cid, F: map[string]interface{}{"start": pt.txn.StartTS(), "finish": "commit", "causal": pt.spec.Causal}})
			func() {
				cctx, ccancel := callCtx(ctx, st.CancelAfter)
				defer ccancel()
				err = pt.txn.Commit(cctx)
			}()
			pt.done = true
			pt.result = classify(err)
			res["commit_ts"] = pt.txn.CommitTS()
			e.trace.add(Event{Kind: "told", Client: cid, F: map[string]interface{}{"start": pt.txn.StartTS(), "res": pt.result, "finish": "commit", "commit_ts": pt.txn.CommitTS()}})
		case "rollback":
			err = pt.txn.Rollback()
			pt.done = true
			pt.result = "rolledback"
			e.trace.add(Event{Kind: "told", Client: cid, F: map[string]interface{}{"start": pt.txn.StartTS(), "res": "ok", "finish": "rollback"}})
		case "kill":
			// C06: the session's kill flag (KILL QUERY / max execution time): V = "1" sets it, "0" clears it; interruptible
			// requests of the transaction then fail in the sender without being sent, release requests must still go out
			if pt.killed == nil {
				pt.killed = new(uint32)
				vars := *kv.DefaultVars
				vars.Killed = pt.killed
				pt.txn.SetVars(&vars)
			}
			if st.V == "0" {
				atomic.StoreUint32(pt.killed, 0)
			} else {
				atomic.StoreUint32(pt.killed, 1)
			}
		case "failpoint":
			// C06: schedule control through a product failpoint (K = name, V = expression, empty V disables)
			if st.V == "" {
				_ = failpoint.Disable(st.K)
			} else if e2 := failpoint.Enable(st.K, st.V); e2 != nil {
				res["err"] = "err:other:" + e2.Error()
			}
		case "audit":
			// C06: which transaction holds the lock of each key right now (after this client's background work went quiet)
			if g := e.gates[cid]; g != nil {
				// the quiet window counts from now: a goroutine spawned by the previous step may not have sent its request yet
				g.lastAct.Store(time.Now().UnixNano())
				g.waitQuiet(40*time.Millisecond, 3*time.Second)
			}
			ca := e.store("c8")
			locks := map[string]interface{}{}
			for _, kk := range sc.Keys {
				m := e.mvcc(ca, key(kk))
				if lk, ok := m["lock"].(map[string]interface{}); ok {
					locks[kk] = lk["start"]
				} else {
					locks[kk] = nil
				}
			}
			res["locks"] = locks
		case "split":
			e.split(key(st.K))
		case "sleep":
			time.Sleep(time.Duration(st.Wait) * time.Millisecond)
		case "clock":
			e.clk.offsetMs.Add(3600 * 1000)
		}
		if err != nil {
			res["err"] = classify(err)
			if st.Op == "commit" {
				res["err"] = pt.result
			}
		}
		// client-side lock bookkeeping after the call (C06 correspondence)
		if pt2 := txns[st.T]; pt2 != nil && st.Op != "split" && st.Op != "clock" {
			func() {
				defer func() { _ = recover() }()
				pr := transaction.TxnProbe{KVTxn: pt2.txn}
				locked := []string{}
				for _, k := range pr.CollectLockedKeys() {
					locked = append(locked, string(k))
				}
				sort.Strings(locked)
				cur, prev := []string{}, []string{}
				if pt2.txn.IsInAggressiveLockingMode() {
					cur, prev = pr.GetAggressiveLockingKeys(), pr.GetAggressiveLockingPreviousKeys()
				}
				sort.Strings(cur)
				sort.Strings(prev)
				bk := map[string]interface{}{"locked": locked, "locked_cnt": pr.GetLockedCount(), "agg_cur": cur, "agg_prev": prev, "agg": pt2.txn.IsInAggressiveLockingMode()}
				if cm := pr.GetCommitter(); !cm.IsNil() {
					bk["primary"] = string(cm.GetPrimaryKey())
					bk["ttl_running"] = cm.IsTTLRunning()
				}
				res["bk"] = bk
			}()
		}
		record(i, st, res)
	}
	for i, st := range sc.Program {
		if st.Op == "join" {
			if ch, ok := pending[st.T]; ok {
				select {
				case <-ch:
				case <-time.After(8 * time.Second):
					e.note("join %s timed out", st.T)
				}
				delete(pending, st.T)
			}
			continue
		}
		if ch, ok := pending[st.T]; ok {
			// a transaction executes its own steps in order
			select {
			case <-ch:
			case <-time.After(8 * time.Second):
				e.note("implicit join %s timed out", st.T)
			}
			delete(pending, st.T)
		}
		if st.Async {
			ch := make(chan struct{})
			pending[st.T] = ch
			i, st := i, st
			go func() { exec(i, st); close(ch) }()
			time.Sleep(15 * time.Millisecond) // let it reach its blocking point
			continue
		}
		exec(i, st)
	}
	for t, ch := range pending {
		select {
		case <-ch:
		case <-time.After(8 * time.Second):
			e.note("final join %s timed out", t)
		}
	}
	// unfinished transactions are rolled back (the program generator normally finishes them itself)
	names := []string{}
	for t := range txns {
		names = append(names, t)
	}
	sort.Strings(names)
	tinfo := map[string]interface{}{}
	for _, t := range names {
		pt := txns[t]
		if !pt.done {
			_ = pt.txn.Rollback()
			pt.done, pt.result = true, "rolledback(final)"
		}
		tinfo[t] = map[string]interface{}{"start": pt.txn.StartTS(), "commit_ts": pt.txn.CommitTS(), "result": pt.result, "pessimistic": pt.spec.Pessimistic, "mode": pt.spec.Mode}
	}
	for id, g := range e.gates {
		if !g.waitQuiet(40*time.Millisecond, 10*time.Second) {
			e.note("%s background work did not drain", id)
		}
	}
	out["txns"] = tinfo
	out["steps"] = steps
	cA := e.store("c8")
	finished := map[uint64]bool{}
	for _, t := range names {
		finished[txns[t].txn.StartTS()] = true
	}
	if sc.ResolveBeforeAudit {
		// unistore fails a whole secondary Commit request with "lock not found" when another client already resolved
		// one of its keys, and commits none of the others (U3); TiKV commits them. Any reader resolves such locks of a
		// committed transaction, so let one do it before the dump.
		if ts, err := cA.CurrentTimestamp(oracle.GlobalTxnScope); err == nil {
			out["resolve_reads"] = e.readAll(cA, "c8", ts, 2*time.Second, true)
			e.gates["c8"].waitQuiet(40*time.Millisecond, 5*time.Second)
		}
	}
	// Background work (secondary commits, asynchronous rollbacks) has no observable end: a transient lock
	// disappears within moments, a leftover lock stays for ever. Poll up to 3 s before declaring a lock left over.
	var pre map[string]interface{}
	for attempt := 0; attempt < 100; attempt++ {
		pre = map[string]interface{}{}
		left := false
		for _, kk := range sc.Keys {
			m := e.mvcc(cA, key(kk))
			pre[kk] = m
			if lk, ok := m["lock"].(map[string]interface{}); ok {
				if st, ok2 := lk["start"].(uint64); ok2 && finished[st] {
					left = true
				}
			}
		}
		if !left {
			break
		}
		time.Sleep(30 * time.Millisecond)
	}
	out["audit_pre"] = pre
	tsEnd, _ := cA.CurrentTimestamp(oracle.GlobalTxnScope)
	out["ts_end"] = tsEnd
	out["trace"] = e.trace.snapshot()
	out["notes"] = e.errs
	if e.guard != nil {
		out["guard_rejected"] = e.guard.rejected
		out["cne_mincommit_normalised"] = e.guard.cneNormalised
	}
	for _, s := range e.stores {
		st := s
		go st.Close()
	}
}

func runScenario(sc *Scenario) map[string]interface{} {
	out := map[string]interface{}{"id": sc.ID}
	_ = failpoint.Disable("tikvclient/beforeAsyncPessimisticRollback") // C06: never inherit a schedule failpoint from an earlier scenario
	_ = failpoint.Disable("tikvclient/injectLiveness")
	if sc.ManagedTTL > 0 {
		atomic.StoreUint64(&transaction.ManagedLockTTL, sc.ManagedTTL)
	} else {
		atomic.StoreUint64(&transaction.ManagedLockTTL, 20000)
	}
	sw := 2 * time.Second
	if sc.SafeWindowMs != nil {
		sw = time.Duration(*sc.SafeWindowMs) * time.Millisecond
	}
	config.UpdateGlobal(func(c *config.Config) { c.TiKVClient.AsyncCommit.SafeWindow = sw })
	e, err := newEnv(sc)
	if err != nil {
		out["fatal"] = err.Error()
		return out
	}
	if len(sc.Program) > 0 {
		if sc.BatchSize > 0 {
			kv.TxnCommitBatchSize.Store(uint64(sc.BatchSize))
		} else {
			kv.TxnCommitBatchSize.Store(16 * 1024)
		}
		runProgram(sc, e, out)
		return out
	}
	if sc.BatchSize > 0 {
		kv.TxnCommitBatchSize.Store(uint64(sc.BatchSize))
	} else {
		kv.TxnCommitBatchSize.Store(16 * 1024)
	}
	c1, c2 := e.store("c1"), e.store("c2")
	ctx := context.Background()
	// preload
	if len(sc.Preload) > 0 {
		txn, _ := c2.Begin()
		for _, p := range sc.Preload {
			_ = txn.Set(key(p.K), []byte(p.V))
		}
		if err := txn.Commit(ctx); err != nil {
			out["fatal"] = "preload: " + err.Error()
			return out
		}
		e.gates["c2"].waitQuiet(30*time.Millisecond, 5*time.Second)
	}
	tsBefore, _ := c2.CurrentTimestamp(oracle.GlobalTxnScope)
	out["ts_before"] = tsBefore
	// victim
	txn, err := e.begin(c1, "c1", &sc.Txn)
	if err != nil {
		out["fatal"] = err.Error()
		return out
	}
	S := txn.StartTS()
	out["start_ts"] = S
	g := e.gates["c1"]
	opErr := e.applyOps(ctx, c1, txn, &sc.Txn, nil)
	if opErr != nil {
		out["op_err"] = classify(opErr)
	}
	// arm the plan: count every request of the victim client from now on
	for _, f := range sc.Faults {
		g.plan.faults[f.At] = f.Kind
	}
	if sc.BlackFrom >= 0 && sc.BlackKind != "" {
		g.plan.from["blackhole_"+sc.BlackKind] = sc.BlackFrom
	}
	for _, x := range sc.Extras {
		x := x
		if strings.HasPrefix(x.What, "after:") {
			// runs once the request was applied by the store, before its answer is seen (or dropped)
			g.plan.after[x.At] = func() { e.helper(strings.TrimPrefix(x.What, "after:"), x.K, S) }
		} else {
			g.plan.hooks[x.At] = func() { e.helper(x.What, x.K, S) }
		}
	}
	g.plan.active.Store(true)
	told := "none"
	done := make(chan struct{})
	var commitErr error
	finish := sc.Txn.Finish
	if opErr != nil && finish == "" {
		finish = "rollback"
	}
	e.trace.add(Event{Kind: "commit_call", Client: "c1", F: map[string]interface{}{"start": S, "finish": finish, "causal": sc.Txn.Causal}})
	// Commit runs under its own cancellable context: the fault "cancelresp" lets the store apply request i and then
	// cancels this context, so the in-flight request ends as cancelled by the caller (its answer never seen)
	commitCtx, cancelCommit := context.WithCancel(ctx)
	defer cancelCommit()
	g.cancelCaller = cancelCommit
	go func() {
		if finish == "rollback" {
			commitErr = txn.Rollback()
		} else {
			commitErr = txn.Commit(commitCtx)
		}
		close(done)
	}()
	crashed := false
	deadline := time.After(20 * time.Second)
loop:
	for {
		select {
		case <-done:
			told = classify(commitErr)
			// returning and dying are atomic with respect to each other in the trace (as sends are)
			g.mu.Lock()
			if !g.frozen.Load() {
				e.trace.add(Event{Kind: "told", Client: "c1", F: map[string]interface{}{"start": S, "res": told, "finish": finish, "commit_ts": txn.CommitTS(), "err": fmt.Sprint(commitErr)}})
			}
			g.mu.Unlock()
			break loop
		case <-time.After(2 * time.Millisecond):
			if g.frozen.Load() && g.inflight.Load() == 0 {
				// give in-flight deliveries a moment to be recorded, then treat the client as dead
				time.Sleep(5 * time.Millisecond)
				if g.inflight.Load() == 0 {
					select {
					case <-done:
						told = classify(commitErr)
					default:
					}
					crashed = true
					break loop
				}
			}
		case <-deadline:
			e.note("commit did not return within 20s")
			out["hang"] = true
			break loop
		}
	}
	if g.frozen.Load() {
		crashed = true
	}
	if !crashed {
		// background work (secondary commits, cleanup) of a live client
		if !g.waitQuiet(40*time.Millisecond, 10*time.Second) {
			e.note("c1 background work did not drain")
			out["undrained"] = true
		}
		// a client that is alive may still be crashed by a fault index hit in the background
		if g.frozen.Load() {
			crashed = true
		}
	}
	g.plan.active.Store(false)
	out["told"] = told
	out["crashed"] = crashed
	out["counted"] = g.plan.counted
	out["commit_ts"] = txn.CommitTS()
	// state right after the commit phase, before any recovery (used by C06: no lock left on failure-free paths)
	pre := map[string]interface{}{}
	for _, kk := range sc.Keys {
		pre[kk] = e.mvcc(c2, key(kk))
	}
	out["audit_pre"] = pre
	if sc.Recover {
		e.clk.offsetMs.Add(2 * 3600 * 1000)
		c3 := e.store("c3")
		e.trace.add(Event{Kind: "note", Client: "c3", F: map[string]interface{}{"recover": true}})
		ts1, _ := c3.CurrentTimestamp(oracle.GlobalTxnScope)
		out["reads_after_1"] = e.readAll(c3, "c3", ts1, 5*time.Second, true)
		e.gates["c3"].waitQuiet(30*time.Millisecond, 5*time.Second)
		ts2, _ := c3.CurrentTimestamp(oracle.GlobalTxnScope)
		out["reads_after_2"] = e.readAll(c3, "c3", ts2, 5*time.Second, false)
		out["reads_before"] = e.readAll(c3, "c3", tsBefore, 5*time.Second, false)
		out["ts_after"] = ts2
		e.gates["c3"].waitQuiet(30*time.Millisecond, 5*time.Second)
		// lock-only keys and keys masked by a snapshot's resolved list: GC lock resolution by a fourth client
		c4 := e.store("c4")
		sp, _ := c4.CurrentTimestamp(oracle.GlobalTxnScope)
		e.trace.add(Event{Kind: "gc_begin", Client: "c4", F: map[string]interface{}{"safepoint": sp}})
		gctx, gcancel := context.WithTimeout(context.Background(), 10*time.Second)
		gerr := tikv.StoreProbe{KVStore: c4}.GCResolveLockPhase(gctx, sp, 1)
		gcancel()
		e.trace.add(Event{Kind: "gc_end", Client: "c4", F: map[string]interface{}{"err": fmt.Sprint(gerr)}})
		if gerr != nil {
			e.note("gc resolve: %v", gerr)
		}
		e.gates["c4"].waitQuiet(30*time.Millisecond, 5*time.Second)
		post := map[string]interface{}{}
		for _, kk := range sc.Keys {
			post[kk] = e.mvcc(c3, key(kk))
		}
		out["audit"] = post
	}
	out["trace"] = e.trace.snapshot()
	out["notes"] = e.errs
	if e.guard != nil {
		out["guard_rejected"] = e.guard.rejected
		out["cne_mincommit_normalised"] = e.guard.cneNormalised
	}
	// close what can be closed
	for id, s := range e.stores {
		if id == "c1" && crashed {
			continue
		}
		st := s
		go st.Close()
	}
	return out
}

// the kill table of the client, read from the code on every run: tikvrpc.Request.IsInterruptible for every command
// type the client names (CmdType.String() != "Unknown"); the check compares it with the table of the model (Locks/Kill.v)
func killTable() map[string]interface{} {
	off, n := []string{}, 0
	for t := 0; t < 1<<16; t++ {
		name := tikvrpc.CmdType(t).String()
		if name == "Unknown" {
			continue
		}
		n++
		if !(&tikvrpc.Request{Type: tikvrpc.CmdType(t)}).IsInterruptible() {
			off = append(off, name)
		}
	}
	sort.Strings(off)
	return map[string]interface{}{"not_interruptible": off, "types": n}
}

func main() {
	util.EnableFailpoints()
	_ = failpoint.Enable("tikvclient/fastBackoffBySkipSleep", "return")
	tmp, _ := os.MkdirTemp("", "verif-txn-")
	os.Setenv("TMPDIR", tmp)
	defer os.RemoveAll(tmp)
	in := bufio.NewScanner(os.Stdin)
	in.Buffer(make([]byte, 1<<20), 1<<26)
	outF := os.Stdout
	if len(os.Args) > 1 {
		f, err := os.Create(os.Args[1])
		if err != nil {
			panic(err)
		}
		outF = f
	}
	w := bufio.NewWriterSize(outF, 1<<20)
	enc := json.NewEncoder(w)
	n := 0
	oldDirs := []string{}
	ktab := killTable()
	for in.Scan() {
		line := strings.TrimSpace(in.Text())
		if line == "" {
			continue
		}
		var sc Scenario
		sc.BlackFrom = -1
		if err := json.Unmarshal([]byte(line), &sc); err != nil {
			fmt.Fprintln(os.Stderr, "bad scenario:", err)
			continue
		}
		sort.Strings(sc.Keys)
		// every scenario gets its own temp dir (unistore creates its data dir under TMPDIR); dirs of scenarios
		// finished a while ago are removed so that a long run does not fill the disk
		scDir, _ := os.MkdirTemp(tmp, "sc")
		os.Setenv("TMPDIR", scDir)
		oldDirs = append(oldDirs, scDir)
		if len(oldDirs) > 4 {
			os.RemoveAll(oldDirs[0])
			oldDirs = oldDirs[1:]
		}
		res := func() (r map[string]interface{}) {
			defer func() {
				if p := recover(); p != nil {
					r = map[string]interface{}{"id": sc.ID, "fatal": fmt.Sprint("panic: ", p)}
				}
			}()
			return runScenario(&sc)
		}()
		if res != nil {
			res["kill_table"] = ktab
		}
		_ = enc.Encode(res)
		w.Flush()
		n++
	}
	w.Flush()
	os.RemoveAll(tmp)
	os.Exit(0)
}
