//go:build verif

// Driver `txn`: executes transaction scenarios (JSON lines on stdin) against client-go over
// unistore (or the in-repo mock store) behind an RPC gate, and prints one JSON result per scenario:
// the full request/response/timestamp trace, what Commit returned, and the MVCC audit of every key.
package main

import (
	"bufio"
	"context"
	"encoding/json"
	"fmt"
	"os"
	"sort"
	"strings"
	"sync"
	"sync/atomic"
	"time"

	"github.com/pingcap/failpoint"
	"github.com/pingcap/kvproto/pkg/kvrpcpb"
	"github.com/pingcap/tidb/pkg/store/mockstore/unistore"
	"github.com/pkg/errors"
	"github.com/tikv/client-go/v2/config/retry"
	tikverr "github.com/tikv/client-go/v2/error"
	"github.com/tikv/client-go/v2/kv"
	"github.com/tikv/client-go/v2/oracle"
	"github.com/tikv/client-go/v2/testutils"
	"github.com/tikv/client-go/v2/tikv"
	"github.com/tikv/client-go/v2/tikvrpc"
	"github.com/tikv/client-go/v2/txnkv/transaction"
	"github.com/tikv/client-go/v2/util"
	"github.com/tikv/client-go/v2/util/async"
	"github.com/tikv/client-go/v2/util/codec"
	pd "github.com/tikv/pd/client"
	"github.com/tikv/pd/client/constants"
)

type KV struct {
	K string `json:"k"`
	V string `json:"v"`
}
type Op struct {
	Op string `json:"op"`
	K  string `json:"k"`
	V  string `json:"v"`
}
type TxnSpec struct {
	Mode        string `json:"mode"` // 2pc | async | 1pc
	Pessimistic bool   `json:"pessimistic"`
	Causal      bool   `json:"causal"`
	Ops         []Op   `json:"ops"`
	Finish      string `json:"finish"` // commit (default) | rollback
}
type Fault struct {
	At   int    `json:"at"`
	Kind string `json:"kind"`
}
type Extra struct {
	At   int    `json:"at"`
	What string `json:"what"`
	K    string `json:"k"`
}
type Scenario struct {
	ID        string   `json:"id"`
	Backend   string   `json:"backend"`
	Splits    []string `json:"splits"`
	Preload   []KV     `json:"preload"`
	BatchSize int      `json:"batch_size"`
	Txn       TxnSpec  `json:"txn"`
	Faults    []Fault  `json:"faults"`
	BlackFrom int      `json:"black_from"` // -1 = none
	BlackKind string   `json:"black_kind"` // req | resp
	Extras    []Extra  `json:"extras"`
	Recover   bool     `json:"recover"`
	Keys      []string `json:"keys"` // all keys to audit
	Others    []OtherTxn `json:"others"` // concurrent transactions for history scenarios (run sequentially between steps)
}
type OtherTxn struct {
	Txn TxnSpec `json:"txn"`
}

type unistoreClientWrapper struct {
	*unistore.RPCClient
}

func (c *unistoreClientWrapper) SendRequestAsync(ctx context.Context, addr string, req *tikvrpc.Request, cb async.Callback[*tikvrpc.Response]) {
	go func() {
		cb.Schedule(c.RPCClient.SendRequest(ctx, addr, req, tikv.ReadTimeoutShort))
	}()
}
func (c *unistoreClientWrapper) SetEventListener(listener tikv.ClientEventListener) {}

type env struct {
	sc      *Scenario
	inner   tikv.Client
	pdc     pd.Client
	cluster testutils.Cluster
	trace   *Trace
	clk     *clock
	pdsh    *pdShared
	reqSeq  atomic.Int64
	stores  map[string]*tikv.KVStore
	gates   map[string]*gate
	errs    []string
	mu      sync.Mutex
}

func (e *env) note(format string, a ...interface{}) {
	e.mu.Lock()
	e.errs = append(e.errs, fmt.Sprintf(format, a...))
	e.mu.Unlock()
}

func key(name string) []byte { return []byte(name) }

func newEnv(sc *Scenario) (*env, error) {
	e := &env{sc: sc, trace: &Trace{}, clk: &clock{}, stores: map[string]*tikv.KVStore{}, gates: map[string]*gate{}}
	if sc.Backend == "mock" {
		client, cluster, pdClient, err := testutils.NewMockTiKV("", nil)
		if err != nil {
			return nil, err
		}
		testutils.BootstrapWithSingleStore(cluster)
		e.inner, e.pdc, e.cluster = client, pdClient, cluster
	} else {
		client, pdClient, cluster, err := unistore.New("", nil, constants.NullKeyspaceID, nil)
		if err != nil {
			return nil, err
		}
		unistore.BootstrapWithSingleStore(cluster)
		e.inner, e.pdc, e.cluster = &unistoreClientWrapper{client}, pdClient, cluster
	}
	for _, s := range sc.Splits {
		e.split(key(s))
	}
	return e, nil
}

func (e *env) split(k []byte) {
	r, peer, _, _ := e.cluster.GetRegionByKey(codec.EncodeBytes(nil, k))
	if r == nil {
		return
	}
	if string(r.StartKey) == string(codec.EncodeBytes(nil, k)) {
		return
	}
	newID, newPeer := e.cluster.AllocID(), e.cluster.AllocID()
	_ = peer
	e.cluster.SplitRaw(r.Id, newID, k, []uint64{newPeer}, newPeer)
}

func (e *env) store(id string) *tikv.KVStore {
	if s, ok := e.stores[id]; ok {
		return s
	}
	var g *gate
	if e.pdsh == nil {
		e.pdsh = &pdShared{clk: e.clk, trace: e.trace}
	}
	s, err := tikv.NewTestTiKVStore(e.inner, &gatePD{Client: e.pdc, sh: e.pdsh},
		func(c tikv.Client) tikv.Client { g = newGate(c, id, e.trace, &e.reqSeq); return g }, nil, 0)
	if err != nil {
		panic(err)
	}
	e.stores[id] = s
	e.gates[id] = g
	return s
}

func classify(err error) string {
	if err == nil {
		return "ok"
	}
	if tikverr.IsErrorUndetermined(err) {
		return "undetermined"
	}
	c := errors.Cause(err)
	switch c.(type) {
	case *tikverr.ErrKeyExist:
		return "err:exists"
	case *tikverr.ErrWriteConflict:
		return "err:conflict"
	case *tikverr.ErrDeadlock:
		return "err:deadlock"
	case *tikverr.ErrRetryable:
		return "err:retryable"
	}
	m := err.Error()
	switch {
	case tikverr.IsErrWriteConflict(err):
		return "err:conflict"
	case strings.Contains(m, "already exist"):
		return "err:exists"
	case strings.Contains(m, "write conflict") || strings.Contains(m, "WriteConflict"):
		return "err:conflict"
	case strings.Contains(m, "lock wait timeout") || strings.Contains(m, "LockWaitTimeout"):
		return "err:lockwait"
	case strings.Contains(m, "LockAcquireFailAndNoWaitSet") || strings.Contains(m, "no wait"):
		return "err:nowait"
	}
	return "err:other:" + strings.SplitN(m, "\n", 2)[0]
}

// applyOps buffers the writes of a transaction; returns the first error (class)
func (e *env) applyOps(ctx context.Context, st *tikv.KVStore, txn *transaction.KVTxn, spec *TxnSpec, reads *[]map[string]interface{}) error {
	for _, op := range spec.Ops {
		k := key(op.K)
		var err error
		if spec.Pessimistic && (op.Op == "set" || op.Op == "del" || op.Op == "insert" || op.Op == "insdel" || op.Op == "plock") {
			fu, e2 := st.CurrentTimestamp(oracle.GlobalTxnScope)
			if e2 != nil {
				return e2
			}
			lctx := kv.NewLockCtx(fu, kv.LockNoWait, time.Now())
			if op.Op == "insert" || op.Op == "insdel" {
				// TiDB sets the presume flag first and locks with the existence check
				err = txn.GetMemBuffer().SetWithFlags(k, []byte(op.V), kv.SetPresumeKeyNotExists)
				if err != nil {
					return err
				}
			}
			err = txn.LockKeys(ctx, lctx, k)
			if err != nil {
				return err
			}
		}
		switch op.Op {
		case "set":
			err = txn.Set(k, []byte(op.V))
		case "del":
			err = txn.Delete(k)
		case "insert":
			err = txn.GetMemBuffer().SetWithFlags(k, []byte(op.V), kv.SetPresumeKeyNotExists)
		case "insdel":
			err = txn.GetMemBuffer().SetWithFlags(k, []byte(op.V), kv.SetPresumeKeyNotExists)
			if err == nil {
				err = txn.Delete(k)
			}
		case "lockonly":
			if !spec.Pessimistic {
				err = txn.LockKeys(ctx, kv.NewLockCtx(0, kv.LockNoWait, time.Now()), k)
			} else {
				fu, _ := st.CurrentTimestamp(oracle.GlobalTxnScope)
				err = txn.LockKeys(ctx, kv.NewLockCtx(fu, kv.LockNoWait, time.Now()), k)
			}
		case "plock":
		case "get":
			v, e2 := txn.Get(ctx, k)
			r := map[string]interface{}{"op": "get", "k": op.K, "txn": txn.StartTS()}
			if e2 != nil {
				if tikverr.IsErrNotFound(e2) {
					r["v"] = nil
				} else {
					r["err"] = classify(e2)
				}
			} else {
				r["v"] = string(v.Value)
			}
			if reads != nil {
				*reads = append(*reads, r)
			}
		}
		if err != nil {
			return err
		}
	}
	return nil
}

func (e *env) begin(st *tikv.KVStore, cid string, spec *TxnSpec) (*transaction.KVTxn, error) {
	txn, err := st.Begin()
	if err != nil {
		return nil, err
	}
	txn.SetPessimistic(spec.Pessimistic)
	switch spec.Mode {
	case "async":
		txn.SetEnableAsyncCommit(true)
	case "1pc":
		txn.SetEnable1PC(true)
	case "async1pc":
		txn.SetEnableAsyncCommit(true)
		txn.SetEnable1PC(true)
	}
	txn.SetCausalConsistency(spec.Causal)
	e.trace.add(Event{Kind: "begin", Client: cid, F: map[string]interface{}{"start": txn.StartTS(), "mode": spec.Mode, "pessimistic": spec.Pessimistic, "causal": spec.Causal}})
	return txn, nil
}

// helper actions run by other clients at a fault instant
func (e *env) helper(what string, k string, victimStart uint64) {
	c2 := e.store("c2")
	ctx, cancel := context.WithTimeout(context.Background(), 3*time.Second)
	defer cancel()
	e.trace.add(Event{Kind: "note", Client: "c2", F: map[string]interface{}{"helper": what, "k": k}})
	switch what {
	case "reader", "push_min_commit":
		ts, err := c2.CurrentTimestamp(oracle.GlobalTxnScope)
		if err != nil {
			e.note("helper ts: %v", err)
			return
		}
		snap := c2.GetSnapshot(ts)
		keys := e.sc.Keys
		if k != "" {
			keys = []string{k}
		}
		c, cancel2 := context.WithTimeout(ctx, 400*time.Millisecond)
		for _, kk := range keys {
			v, err := snap.Get(c, key(kk))
			r := map[string]interface{}{"k": kk, "ts": ts}
			if err != nil {
				if tikverr.IsErrNotFound(err) {
					r["v"] = nil
				} else {
					r["err"] = classify(err)
				}
			} else {
				r["v"] = string(v.Value)
			}
			e.trace.add(Event{Kind: "read", Client: "c2", F: r})
		}
		cancel2()
	case "expire_resolve":
		e.clk.offsetMs.Add(3600 * 1000)
		ts, _ := c2.CurrentTimestamp(oracle.GlobalTxnScope)
		snap := c2.GetSnapshot(ts)
		for _, kk := range e.sc.Keys {
			v, err := snap.Get(ctx, key(kk))
			r := map[string]interface{}{"k": kk, "ts": ts}
			if err != nil {
				if tikverr.IsErrNotFound(err) {
					r["v"] = nil
				} else {
					r["err"] = classify(err)
				}
			} else {
				r["v"] = string(v.Value)
			}
			e.trace.add(Event{Kind: "read", Client: "c2", F: r})
		}
	case "gc":
		e.clk.offsetMs.Add(3600 * 1000)
		sp, _ := c2.CurrentTimestamp(oracle.GlobalTxnScope)
		e.trace.add(Event{Kind: "gc_begin", Client: "c2", F: map[string]interface{}{"safepoint": sp}})
		err := tikv.StoreProbe{KVStore: c2}.GCResolveLockPhase(ctx, sp, 1)
		e.trace.add(Event{Kind: "gc_end", Client: "c2", F: map[string]interface{}{"err": fmt.Sprint(err)}})
	case "split":
		if k == "" && len(e.sc.Keys) > 1 {
			k = e.sc.Keys[len(e.sc.Keys)/2]
		}
		e.split(key(k))
	case "writer":
		txn, err := c2.Begin()
		if err != nil {
			return
		}
		if k == "" {
			k = e.sc.Keys[0]
		}
		_ = txn.Set(key(k), []byte("w"))
		c, cancel2 := context.WithTimeout(ctx, 400*time.Millisecond)
		err = txn.Commit(c)
		cancel2()
		e.trace.add(Event{Kind: "note", Client: "c2", F: map[string]interface{}{"writer": classify(err), "start": txn.StartTS(), "commit": txn.CommitTS()}})
	}
}

func (e *env) mvcc(st *tikv.KVStore, k []byte) map[string]interface{} {
	bo := retry.NewBackofferWithVars(context.Background(), 5000, nil)
	for i := 0; i < 5; i++ {
		loc, err := st.GetRegionCache().LocateKey(bo, k)
		if err != nil {
			return map[string]interface{}{"err": err.Error()}
		}
		req := tikvrpc.NewRequest(tikvrpc.CmdMvccGetByKey, &kvrpcpb.MvccGetByKeyRequest{Key: k})
		resp, err := st.SendReq(bo, req, loc.Region, 5*time.Second)
		if err != nil {
			return map[string]interface{}{"err": err.Error()}
		}
		if re, _ := resp.GetRegionError(); re != nil {
			st.GetRegionCache().InvalidateCachedRegion(loc.Region)
			continue
		}
		r := resp.Resp.(*kvrpcpb.MvccGetByKeyResponse)
		out := map[string]interface{}{}
		if r.Info == nil {
			return out
		}
		if r.Info.Lock != nil {
			l := r.Info.Lock
			out["lock"] = map[string]interface{}{"start": l.StartTs, "primary": hk(l.Primary), "type": l.Type.String(), "async": l.UseAsyncCommit, "ttl": l.Ttl, "for_update": l.ForUpdateTs}
		}
		ws := []map[string]interface{}{}
		for _, w := range r.Info.Writes {
			ws = append(ws, map[string]interface{}{"type": w.Type.String(), "start": w.StartTs, "commit": w.CommitTs, "short": string(w.ShortValue)})
		}
		out["writes"] = ws
		return out
	}
	return map[string]interface{}{"err": "region errors"}
}

func (e *env) readAll(st *tikv.KVStore, cid string, ts uint64, tmo time.Duration) map[string]interface{} {
	res := map[string]interface{}{}
	snap := st.GetSnapshot(ts)
	for _, kk := range e.sc.Keys {
		ctx, cancel := context.WithTimeout(context.Background(), tmo)
		v, err := snap.Get(ctx, key(kk))
		cancel()
		if err != nil {
			if tikverr.IsErrNotFound(err) {
				res[kk] = nil
			} else {
				res[kk] = "ERR:" + classify(err)
			}
		} else {
			res[kk] = string(v.Value)
		}
	}
	return res
}

func waitWG(wg *sync.WaitGroup, d time.Duration) bool {
	ch := make(chan struct{})
	go func() { wg.Wait(); close(ch) }()
	select {
	case <-ch:
		return true
	case <-time.After(d):
		return false
	}
}

func runScenario(sc *Scenario) map[string]interface{} {
	out := map[string]interface{}{"id": sc.ID}
	e, err := newEnv(sc)
	if err != nil {
		out["fatal"] = err.Error()
		return out
	}
	if sc.BatchSize > 0 {
		kv.TxnCommitBatchSize.Store(uint64(sc.BatchSize))
	} else {
		kv.TxnCommitBatchSize.Store(16 * 1024)
	}
	c1, c2 := e.store("c1"), e.store("c2")
	ctx := context.Background()
	// preload
	if len(sc.Preload) > 0 {
		txn, _ := c2.Begin()
		for _, p := range sc.Preload {
			_ = txn.Set(key(p.K), []byte(p.V))
		}
		if err := txn.Commit(ctx); err != nil {
			out["fatal"] = "preload: " + err.Error()
			return out
		}
		e.gates["c2"].waitQuiet(30*time.Millisecond, 5*time.Second)
	}
	tsBefore, _ := c2.CurrentTimestamp(oracle.GlobalTxnScope)
	out["ts_before"] = tsBefore
	// victim
	txn, err := e.begin(c1, "c1", &sc.Txn)
	if err != nil {
		out["fatal"] = err.Error()
		return out
	}
	S := txn.StartTS()
	out["start_ts"] = S
	g := e.gates["c1"]
	opErr := e.applyOps(ctx, c1, txn, &sc.Txn, nil)
	if opErr != nil {
		out["op_err"] = classify(opErr)
	}
	// arm the plan: count every request of the victim client from now on
	for _, f := range sc.Faults {
		g.plan.faults[f.At] = f.Kind
	}
	if sc.BlackFrom >= 0 && sc.BlackKind != "" {
		g.plan.from["blackhole_"+sc.BlackKind] = sc.BlackFrom
	}
	for _, x := range sc.Extras {
		x := x
		g.plan.hooks[x.At] = func() { e.helper(x.What, x.K, S) }
	}
	g.plan.active.Store(true)
	told := "none"
	done := make(chan struct{})
	var commitErr error
	finish := sc.Txn.Finish
	if opErr != nil && finish == "" {
		finish = "rollback"
	}
	e.trace.add(Event{Kind: "commit_call", Client: "c1", F: map[string]interface{}{"start": S, "finish": finish, "causal": sc.Txn.Causal}})
	go func() {
		if finish == "rollback" {
			commitErr = txn.Rollback()
		} else {
			commitErr = txn.Commit(ctx)
		}
		close(done)
	}()
	crashed := false
	deadline := time.After(20 * time.Second)
loop:
	for {
		select {
		case <-done:
			told = classify(commitErr)
			if !g.frozen.Load() {
				e.trace.add(Event{Kind: "told", Client: "c1", F: map[string]interface{}{"start": S, "res": told, "finish": finish, "commit_ts": txn.CommitTS(), "err": fmt.Sprint(commitErr)}})
			}
			break loop
		case <-time.After(2 * time.Millisecond):
			if g.frozen.Load() && g.inflight.Load() == 0 {
				// give in-flight deliveries a moment to be recorded, then treat the client as dead
				time.Sleep(5 * time.Millisecond)
				if g.inflight.Load() == 0 {
					select {
					case <-done:
						told = classify(commitErr)
					default:
					}
					crashed = true
					break loop
				}
			}
		case <-deadline:
			e.note("commit did not return within 20s")
			out["hang"] = true
			break loop
		}
	}
	if g.frozen.Load() {
		crashed = true
	}
	if !crashed {
		// background work (secondary commits, cleanup) of a live client
		if !g.waitQuiet(40*time.Millisecond, 10*time.Second) {
			e.note("c1 background work did not drain")
			out["undrained"] = true
		}
		// a client that is alive may still be crashed by a fault index hit in the background
		if g.frozen.Load() {
			crashed = true
		}
	}
	g.plan.active.Store(false)
	out["told"] = told
	out["crashed"] = crashed
	out["counted"] = g.plan.counted
	out["commit_ts"] = txn.CommitTS()
	// state right after the commit phase, before any recovery (used by C06: no lock left on failure-free paths)
	pre := map[string]interface{}{}
	for _, kk := range sc.Keys {
		pre[kk] = e.mvcc(c2, key(kk))
	}
	out["audit_pre"] = pre
	if sc.Recover {
		e.clk.offsetMs.Add(2 * 3600 * 1000)
		c3 := e.store("c3")
		e.trace.add(Event{Kind: "note", Client: "c3", F: map[string]interface{}{"recover": true}})
		ts1, _ := c3.CurrentTimestamp(oracle.GlobalTxnScope)
		out["reads_after_1"] = e.readAll(c3, "c3", ts1, 5*time.Second)
		e.gates["c3"].waitQuiet(30*time.Millisecond, 5*time.Second)
		// resolve whatever is left (locks not met by reads: e.g. lock-only keys are met too since reads hit every key)
		ts2, _ := c3.CurrentTimestamp(oracle.GlobalTxnScope)
		out["reads_after_2"] = e.readAll(c3, "c3", ts2, 5*time.Second)
		out["reads_before"] = e.readAll(c3, "c3", tsBefore, 5*time.Second)
		out["ts_after"] = ts2
		e.gates["c3"].waitQuiet(30*time.Millisecond, 5*time.Second)
		post := map[string]interface{}{}
		for _, kk := range sc.Keys {
			post[kk] = e.mvcc(c3, key(kk))
		}
		out["audit"] = post
	}
	out["trace"] = e.trace.snapshot()
	out["notes"] = e.errs
	// close what can be closed
	for id, s := range e.stores {
		if id == "c1" && crashed {
			continue
		}
		st := s
		go st.Close()
	}
	return out
}

func main() {
	util.EnableFailpoints()
	_ = failpoint.Enable("tikvclient/fastBackoffBySkipSleep", "return")
	tmp, _ := os.MkdirTemp("", "verif-txn-")
	os.Setenv("TMPDIR", tmp)
	defer os.RemoveAll(tmp)
	in := bufio.NewScanner(os.Stdin)
	in.Buffer(make([]byte, 1<<20), 1<<26)
	outF := os.Stdout
	if len(os.Args) > 1 {
		f, err := os.Create(os.Args[1])
		if err != nil {
			panic(err)
		}
		outF = f
	}
	w := bufio.NewWriterSize(outF, 1<<20)
	enc := json.NewEncoder(w)
	n := 0
	for in.Scan() {
		line := strings.TrimSpace(in.Text())
		if line == "" {
			continue
		}
		var sc Scenario
		sc.BlackFrom = -1
		if err := json.Unmarshal([]byte(line), &sc); err != nil {
			fmt.Fprintln(os.Stderr, "bad scenario:", err)
			continue
		}
		sort.Strings(sc.Keys)
		res := func() (r map[string]interface{}) {
			defer func() {
				if p := recover(); p != nil {
					r = map[string]interface{}{"id": sc.ID, "fatal": fmt.Sprint("panic: ", p)}
				}
			}()
			return runScenario(&sc)
		}()
		_ = enc.Encode(res)
		w.Flush()
		n++
	}
	w.Flush()
	os.RemoveAll(tmp)
	os.Exit(0)
}
