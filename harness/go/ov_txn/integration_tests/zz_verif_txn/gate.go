//go:build verif

package main

import (
	"context"
	"encoding/hex"
	"fmt"
	"io"
	"os"
	"strings"
	"sync"
	"sync/atomic"
	"time"

	"github.com/pingcap/kvproto/pkg/errorpb"
	"github.com/pingcap/kvproto/pkg/kvrpcpb"
	"github.com/pkg/errors"
	"github.com/tikv/client-go/v2/tikv"
	"github.com/tikv/client-go/v2/tikvrpc"
	"github.com/tikv/client-go/v2/util/async"
	pd "github.com/tikv/pd/client"
	"github.com/tikv/pd/client/clients/tso"
	"github.com/tikv/pd/client/pkg/caller"
	"google.golang.org/grpc/codes"
	"google.golang.org/grpc/status"
)

// ---------------------------------------------------------------- trace

// Event is one line of the trace. Kind: tso, begin, commit_call, mutations, send, deliver, reply, told, crash, note...
type Event struct {
	Seq    int64                  `json:"seq"`
	Kind   string                 `json:"kind"`
	Client string                 `json:"client,omitempty"`
	ReqID  int64                  `json:"req,omitempty"`
	Cmd    string                 `json:"cmd,omitempty"`
	F      map[string]interface{} `json:"f,omitempty"`
}

type Trace struct {
	mu  sync.Mutex
	seq int64
	evs []Event
}

func (t *Trace) add(e Event) {
	t.mu.Lock()
	t.seq++
	e.Seq = t.seq
	t.evs = append(t.evs, e)
	t.mu.Unlock()
}

func (t *Trace) lastSeq() int64 {
	t.mu.Lock()
	defer t.mu.Unlock()
	return t.seq
}

func (t *Trace) snapshot() []Event {
	t.mu.Lock()
	defer t.mu.Unlock()
	return append([]Event{}, t.evs...)
}

func hk(b []byte) string { return hex.EncodeToString(b) }
func hks(bs [][]byte) []string {
	r := make([]string, len(bs))
	for i, b := range bs {
		r[i] = hk(b)
	}
	return r
}

// ---------------------------------------------------------------- PD wrapper (clock offset + tso log)

type clock struct {
	offsetMs atomic.Int64
}

type pdShared struct {
	clk   *clock
	trace *Trace
	mu    sync.Mutex
	lastP int64
	lastL int64
}

type gatePD struct {
	pd.Client
	sh *pdShared
}

func (p *gatePD) WithCallerComponent(c caller.Component) pd.Client {
	return &gatePD{Client: p.Client.WithCallerComponent(c), sh: p.sh}
}

func (p *gatePD) adjust(ph, lg int64) (int64, int64) {
	sh := p.sh
	ph += sh.clk.offsetMs.Load()
	// keep strictly increasing even if the offset was changed concurrently
	sh.mu.Lock()
	if ph < sh.lastP || (ph == sh.lastP && lg <= sh.lastL) {
		ph, lg = sh.lastP, sh.lastL+1
	}
	sh.lastP, sh.lastL = ph, lg
	sh.mu.Unlock()
	sh.trace.add(Event{Kind: "tso", F: map[string]interface{}{"ts": uint64(ph)<<18 | uint64(lg)}})
	return ph, lg
}

func (p *gatePD) GetTS(ctx context.Context) (int64, int64, error) {
	ph, lg, err := p.Client.GetTS(ctx)
	if err != nil {
		return ph, lg, err
	}
	ph, lg = p.adjust(ph, lg)
	return ph, lg, nil
}

type gateFuture struct {
	p   *gatePD
	ctx context.Context
}

func (f *gateFuture) Wait() (int64, int64, error) { return f.p.GetTS(f.ctx) }

func (p *gatePD) GetTSAsync(ctx context.Context) tso.TSFuture { return &gateFuture{p, ctx} }
func (p *gatePD) GetLocalTS(ctx context.Context, dc string) (int64, int64, error) {
	return p.GetTS(ctx)
}
func (p *gatePD) GetLocalTSAsync(ctx context.Context, dc string) tso.TSFuture {
	return &gateFuture{p, ctx}
}

// ---------------------------------------------------------------- late-prewrite guard (harness-side normalisation)
//
// TiKV rejects a prewrite of (key, start ts) that arrives after that transaction was rolled back on the key
// (rollback record; the in-repo mock does the same, property C12). unistore checks the rollback record only
// for the primary key of an optimistic prewrite, so the gate enforces the contract for the other keys: it
// remembers every rollback effect it saw delivered and answers a later prewrite of such a (key, start ts)
// with WriteConflict{SelfRolledBack} instead of delivering it. Recorded in the evidence as a normalisation.
type rbGuard struct {
	mu        sync.Mutex
	rolled    map[string]bool            // start|key
	prewrote  map[uint64]map[string]uint64 // start -> key -> region id of the successful prewrite
	rejected  int
	cneNormalised int // prewrite answers of CheckNotExists-only batches whose min-commit ts was normalised (U6)
	// apply: [guard check, store call, guard bookkeeping, U6 normalisation, `deliver` log line] of one request is one critical
	// section for all gates of the scenario, so the log order of deliveries IS the order in which the store applied them and
	// no rollback effect can slip in between the guard's check and the prewrite it let through. Off with VERIF_GATE_SERIAL=0.
	apply  sync.Mutex
	serial bool
}

func newGuard() *rbGuard {
	return &rbGuard{rolled: map[string]bool{}, prewrote: map[uint64]map[string]uint64{}, serial: os.Getenv("VERIF_GATE_SERIAL") != "0"}
}
func gk(start uint64, k []byte) string { return fmt.Sprintf("%d|%x", start, k) }

func (g *rbGuard) observe(req *tikvrpc.Request, resp *tikvrpc.Response, err error) {
	if err != nil || resp == nil || resp.Resp == nil {
		return
	}
	if re, e2 := resp.GetRegionError(); e2 != nil || re != nil {
		return
	}
	g.mu.Lock()
	defer g.mu.Unlock()
	switch req.Type {
	case tikvrpc.CmdPrewrite:
		r := req.Prewrite()
		if len(resp.Resp.(*kvrpcpb.PrewriteResponse).Errors) == 0 {
			m := g.prewrote[r.StartVersion]
			if m == nil {
				m = map[string]uint64{}
				g.prewrote[r.StartVersion] = m
			}
			for _, mu := range r.Mutations {
				m[string(mu.Key)] = req.Context.GetRegionId()
			}
		}
	case tikvrpc.CmdBatchRollback:
		r := req.BatchRollback()
		if resp.Resp.(*kvrpcpb.BatchRollbackResponse).Error == nil {
			for _, k := range r.Keys {
				g.rolled[gk(r.StartVersion, k)] = true
			}
		}
	case tikvrpc.CmdResolveLock:
		r := req.ResolveLock()
		if resp.Resp.(*kvrpcpb.ResolveLockResponse).Error != nil {
			return
		}
		mark := func(start uint64) {
			if len(r.Keys) > 0 {
				for _, k := range r.Keys {
					g.rolled[gk(start, k)] = true
				}
				return
			}
			for k, reg := range g.prewrote[start] {
				if reg == req.Context.GetRegionId() {
					g.rolled[gk(start, []byte(k))] = true
				}
			}
		}
		if len(r.TxnInfos) > 0 {
			for _, ti := range r.TxnInfos {
				if ti.Status == 0 {
					mark(ti.Txn)
				}
			}
		} else if r.CommitVersion == 0 {
			mark(r.StartVersion)
		}
	case tikvrpc.CmdCheckSecondaryLocks:
		r := req.CheckSecondaryLocks()
		rs := resp.Resp.(*kvrpcpb.CheckSecondaryLocksResponse)
		if rs.Error == nil && rs.CommitTs == 0 && len(rs.Locks) < len(r.Keys) {
			have := map[string]bool{}
			for _, l := range rs.Locks {
				have[string(l.Key)] = true
			}
			for _, k := range r.Keys {
				if !have[string(k)] {
					g.rolled[gk(r.StartVersion, k)] = true
				}
			}
		}
	}
}

// reject returns a fabricated WriteConflict{SelfRolledBack} response if the prewrite touches a rolled-back (key, start)
func (g *rbGuard) reject(req *tikvrpc.Request) *tikvrpc.Response {
	if req.Type != tikvrpc.CmdPrewrite {
		return nil
	}
	r := req.Prewrite()
	g.mu.Lock()
	defer g.mu.Unlock()
	for _, mu := range r.Mutations {
		if g.rolled[gk(r.StartVersion, mu.Key)] {
			g.rejected++
			return &tikvrpc.Response{Resp: &kvrpcpb.PrewriteResponse{Errors: []*kvrpcpb.KeyError{{Conflict: &kvrpcpb.WriteConflict{
				StartTs: r.StartVersion, ConflictTs: r.StartVersion, ConflictCommitTs: r.StartVersion, Key: mu.Key, Primary: r.PrimaryLock,
				Reason: kvrpcpb.WriteConflict_SelfRolledBack}}}}}
		}
	}
	return nil
}

// ---------------------------------------------------------------- gate (tikv.Client wrapper)

type action struct {
	Kind string // deliver | dropreq | dropresp | regionerr:<kind> | crash_undelivered | crash_delivered | hook:<name>
}

// plan decides what happens to the n-th counted request of a client
type plan struct {
	mu      sync.Mutex
	counted int                // number of counted requests so far
	faults  map[int]string     // index -> action kind
	from    map[string]int     // "blackhole_req"/"blackhole_resp" -> starting index (applies to every later counted request)
	hooks   map[int]func()     // run before delivering request index i
	cmdHooks map[string]map[int]func() // C06: run before delivering the n-th counted request of a command type (e.g. "Commit")
	cmdCount map[string]int
	after   map[int]func()     // run after request index i was delivered (and answered by the store), before its answer is seen or dropped
	filter  func(req *tikvrpc.Request) bool
	active  atomic.Bool        // counting enabled
	maxIdx  int
}

type gate struct {
	inner    tikv.Client
	id       string
	trace    *Trace
	plan     *plan
	frozen   atomic.Bool
	inflight atomic.Int64
	reqSeq   *atomic.Int64
	never    chan struct{}
	crashedAt atomic.Int64
	lastAct  atomic.Int64
	mu       sync.Mutex
	guard    *rbGuard
	cancelCaller func() // cancels the context the victim's Commit runs under (fault "cancelresp")
	osMu         sync.Mutex
	oneShotAfter map[string]func()
	// C06: schedule rules "hold a request of command cmd naming key until a request of command until naming the same key
	// was answered by the store (at most maxMs)" — reorders requests, never loses one
	holdMu  sync.Mutex
	holds   []*holdRule
	served  map[string]map[string]int // cmd -> key(hex) -> answered requests
}

type holdRule struct {
	cmd, key, until string
	maxMs           int
	used            bool
}

// holdIfAsked blocks the request while a matching hold rule says so
func (g *gate) holdIfAsked(req *tikvrpc.Request, f map[string]interface{}) {
	g.holdMu.Lock()
	var r *holdRule
	if len(g.holds) > 0 {
		ks, _ := f["keys"].([]string)
		for _, h := range g.holds {
			if h.used || h.cmd != req.Type.String() {
				continue
			}
			for _, k := range ks {
				if k == h.key {
					r = h
				}
			}
			if r != nil {
				break
			}
		}
	}
	if r == nil {
		g.holdMu.Unlock()
		return
	}
	r.used = true
	base := g.served[r.until][r.key]
	g.holdMu.Unlock()
	g.inflight.Add(1)
	deadline := time.Now().Add(time.Duration(r.maxMs) * time.Millisecond)
	released := false
	for time.Now().Before(deadline) {
		g.holdMu.Lock()
		n := g.served[r.until][r.key]
		g.holdMu.Unlock()
		if n > base {
			released = true
			break
		}
		time.Sleep(time.Millisecond)
	}
	g.trace.add(Event{Kind: "note", Client: g.id, F: map[string]interface{}{"helper": "hold", "cmd": r.cmd, "k": r.key, "until": r.until, "released_by_until": released}})
	g.lastAct.Store(time.Now().UnixNano())
	g.inflight.Add(-1)
}

func (g *gate) noteServed(req *tikvrpc.Request, f map[string]interface{}) {
	g.holdMu.Lock()
	defer g.holdMu.Unlock()
	if len(g.holds) == 0 {
		return
	}
	if g.served == nil {
		g.served = map[string]map[string]int{}
	}
	cmd := req.Type.String()
	if g.served[cmd] == nil {
		g.served[cmd] = map[string]int{}
	}
	ks, _ := f["keys"].([]string)
	for _, k := range ks {
		g.served[cmd][k]++
	}
}

func newGate(inner tikv.Client, id string, tr *Trace, reqSeq *atomic.Int64) *gate {
	return &gate{inner: inner, id: id, trace: tr, plan: &plan{faults: map[int]string{}, from: map[string]int{}, hooks: map[int]func(){}, after: map[int]func(){}}, reqSeq: reqSeq, never: make(chan struct{})}
}

func (g *gate) Close() error                 { return nil }
func (g *gate) CloseAddr(addr string) error  { return nil }
func (g *gate) SetEventListener(l tikv.ClientEventListener) {}

func (g *gate) SendRequestAsync(ctx context.Context, addr string, req *tikvrpc.Request, cb async.Callback[*tikvrpc.Response]) {
	go func() {
		cb.Schedule(g.SendRequest(ctx, addr, req, tikv.ReadTimeoutShort))
	}()
}

func (g *gate) block(ctx context.Context) (*tikvrpc.Response, error) {
	<-g.never
	return nil, errors.New("unreachable")
}

func (g *gate) decide(req *tikvrpc.Request) (string, int, func()) {
	p := g.plan
	if !p.active.Load() || (p.filter != nil && !p.filter(req)) {
		return "deliver", -1, nil
	}
	p.mu.Lock()
	defer p.mu.Unlock()
	i := p.counted
	p.counted++
	var cmdHook func()
	if p.cmdHooks != nil {
		cmd := req.Type.String()
		if p.cmdCount == nil {
			p.cmdCount = map[string]int{}
		}
		n := p.cmdCount[cmd]
		p.cmdCount[cmd] = n + 1
		cmdHook = p.cmdHooks[cmd][n]
	}
	act := "deliver"
	if a, ok := p.faults[i]; ok {
		act = a
	} else {
		if s, ok := p.from["blackhole_req"]; ok && i >= s {
			act = "dropreq"
		}
		if s, ok := p.from["blackhole_resp"]; ok && i >= s {
			act = "dropresp"
		}
	}
	if h := p.hooks[i]; h != nil && cmdHook != nil {
		return act, i, func() { h(); cmdHook() }
	} else if cmdHook != nil {
		return act, i, cmdHook
	}
	return act, i, p.hooks[i]
}

// quiet reports whether the client has had no transactional request in flight or issued for d
func (g *gate) quiet(d time.Duration) bool {
	return g.inflight.Load() == 0 && time.Since(time.Unix(0, g.lastAct.Load())) >= d
}

func (g *gate) waitQuiet(d, max time.Duration) bool {
	deadline := time.Now().Add(max)
	for time.Now().Before(deadline) {
		if g.quiet(d) {
			return true
		}
		time.Sleep(2 * time.Millisecond)
	}
	return false
}

func (g *gate) SendRequest(ctx context.Context, addr string, req *tikvrpc.Request, timeout time.Duration) (*tikvrpc.Response, error) {
	if g.frozen.Load() {
		return g.block(ctx)
	}
	if req.Type == tikvrpc.CmdStoreSafeTS || req.Type == tikvrpc.CmdMvccGetByKey || req.Type == tikvrpc.CmdMvccGetByStartTs {
		return g.inner.SendRequest(ctx, addr, req, timeout)
	}
	g.lastAct.Store(time.Now().UnixNano())
	defer func() { g.lastAct.Store(time.Now().UnixNano()) }()
	act, idx, hook := g.decide(req)
	id := g.reqSeq.Add(1)
	f := reqFields(req)
	f["idx"] = idx
	// "dropreq:<errkind>" / "dropresp:<errkind>": the lost request / answer surfaces as one of the errors a transport can return
	errKind := ""
	if strings.HasPrefix(act, "dropreq:") || strings.HasPrefix(act, "dropresp:") {
		i := strings.Index(act, ":")
		errKind, act = act[i+1:], act[:i]
		f["errkind"] = errKind
	}
	f["act"] = act
	// sending and dying are atomic with respect to each other: no send is recorded after the crash
	g.mu.Lock()
	if g.frozen.Load() {
		g.mu.Unlock()
		return g.block(ctx)
	}
	if act == "crash_undelivered" {
		g.frozen.Store(true)
		g.trace.add(Event{Kind: "crash", Client: g.id, ReqID: id, Cmd: req.Type.String(), F: f})
		g.mu.Unlock()
		return g.block(ctx)
	}
	g.trace.add(Event{Kind: "send", Client: g.id, ReqID: id, Cmd: req.Type.String(), F: f})
	g.mu.Unlock()
	if hook != nil {
		// the request is pending while the hook runs: quiescence detection must not mistake this for an idle client
		g.inflight.Add(1)
		hook()
		g.lastAct.Store(time.Now().UnixNano())
		g.inflight.Add(-1)
	}
	g.holdIfAsked(req, f)
	switch {
	case act == "dropreq":
		return nil, lostErr(errKind, "verif gate: request lost (connection reset)")
	case strings.HasPrefix(act, "regionerr:"):
		re := fabricateRegionErr(strings.TrimPrefix(act, "regionerr:"), req)
		resp, err := tikvrpc.GenRegionErrorResp(req, re)
		g.trace.add(Event{Kind: "deliver", Client: g.id, ReqID: id, Cmd: req.Type.String(), F: map[string]interface{}{"regionerr": re.String(), "fabricated": true}})
		if !g.frozen.Load() {
			g.trace.add(Event{Kind: "reply", Client: g.id, ReqID: id, Cmd: req.Type.String(), F: map[string]interface{}{"regionerr": re.String()}})
		}
		return resp, err
	}
	g.inflight.Add(1)
	var resp *tikvrpc.Response
	var err error
	var rf map[string]interface{}
	func() {
		// a pessimistic lock request may wait inside the store for another transaction's request: it stays outside the
		// critical section (a gate waiting for the section is counted in `inflight`, see above)
		if g.guard != nil && g.guard.serial && req.Type != tikvrpc.CmdPessimisticLock {
			g.guard.apply.Lock()
			defer g.guard.apply.Unlock()
		}
		if g.guard != nil {
			resp = g.guard.reject(req)
		}
		if resp == nil {
			// decided before delivery: unistore rewrites the request in place (min-commit ts, flags)
			cneOnly, wantMin := checkNotExistsOnly(req), uint64(0)
			if cneOnly {
				wantMin = req.Prewrite().MinCommitTs
				if s := req.Prewrite().StartVersion + 1; wantMin < s {
					wantMin = s
				}
			}
			resp, err = g.inner.SendRequest(ctx, addr, req, timeout)
			g.noteServed(req, f)
			if g.guard != nil {
				g.guard.observe(req, resp, err)
			}
			if cneOnly {
				normaliseCheckNotExistsMinCommit(req, resp, wantMin, g.guard)
			}
		}
		rf = respFields(req, resp, err)
		g.trace.add(Event{Kind: "deliver", Client: g.id, ReqID: id, Cmd: req.Type.String(), F: rf})
	}()
	// one-shot hook armed by a helper: runs once after the next request of that command type was answered by the store,
	// before this client sees the answer (e.g. "the clock jumps while the status check is on its way back")
	g.osMu.Lock()
	osh := g.oneShotAfter[req.Type.String()]
	if osh != nil {
		delete(g.oneShotAfter, req.Type.String())
	}
	g.osMu.Unlock()
	if osh != nil {
		osh()
	}
	if idx >= 0 {
		g.plan.mu.Lock()
		ah := g.plan.after[idx]
		g.plan.mu.Unlock()
		if ah != nil {
			ah()
			g.lastAct.Store(time.Now().UnixNano())
		}
	}
	g.inflight.Add(-1)
	if act == "crash_delivered" {
		g.mu.Lock()
		g.frozen.Store(true)
		g.trace.add(Event{Kind: "crash", Client: g.id, ReqID: id, Cmd: req.Type.String(), F: map[string]interface{}{"idx": idx, "delivered": true}})
		g.mu.Unlock()
		return g.block(ctx)
	}
	if g.frozen.Load() {
		// the client died while this request was in flight: its answer is never seen
		return g.block(ctx)
	}
	if act == "dropresp" {
		return nil, lostErr(errKind, "verif gate: response lost (deadline exceeded)")
	}
	if act == "cancelresp" {
		// the request was applied; the caller gives up (its context is cancelled) before the answer arrives
		if g.cancelCaller != nil {
			g.cancelCaller()
		}
		return nil, context.Canceled
	}
	g.mu.Lock()
	if g.frozen.Load() {
		g.mu.Unlock()
		return g.block(ctx)
	}
	g.trace.add(Event{Kind: "reply", Client: g.id, ReqID: id, Cmd: req.Type.String(), F: rf})
	g.mu.Unlock()
	return resp, err
}

// lostErr: what the caller of SendRequest sees when a request or its answer is lost. The transport can report that in
// several ways and the client's classification code (isRPCError, onSendFail, the undetermined marking) branches on them.
func lostErr(kind, msg string) error {
	switch kind {
	case "ctx_canceled":
		return errors.WithStack(context.Canceled)
	case "ctx_deadline":
		return errors.WithStack(context.DeadlineExceeded)
	case "grpc_canceled":
		return errors.WithStack(status.Error(codes.Canceled, "grpc: the client connection is closing"))
	case "grpc_unavailable":
		return errors.WithStack(status.Error(codes.Unavailable, "transport is closing"))
	case "grpc_deadline":
		return errors.WithStack(status.Error(codes.DeadlineExceeded, "context deadline exceeded"))
	case "grpc_unknown":
		return errors.WithStack(status.Error(codes.Unknown, "stream terminated by RST_STREAM"))
	case "eof":
		return errors.WithStack(io.EOF)
	}
	return errors.New(msg)
}

// normaliseCheckNotExistsMinCommit: environment normalisation U6 (docs/TXN.md). For an async-commit / 1PC prewrite whose
// mutations are all Op_CheckNotExists unistore answers with a min-commit ts taken from PD although it wrote no lock; TiKV
// answers max(requested min-commit ts, start ts + 1) for such mutations (they are not persisted). The owner would commit at
// a timestamp no lock carries, while a resolver derives the commit ts from the locks.
func normaliseCheckNotExistsMinCommit(req *tikvrpc.Request, resp *tikvrpc.Response, want uint64, g *rbGuard) {
	if req.Type != tikvrpc.CmdPrewrite || resp == nil || resp.Resp == nil {
		return
	}
	r := req.Prewrite()
	pr, ok := resp.Resp.(*kvrpcpb.PrewriteResponse)
	if !ok || !(r.UseAsyncCommit || r.TryOnePc) || pr.MinCommitTs == 0 || pr.RegionError != nil || len(pr.Errors) > 0 || len(r.Mutations) == 0 {
		return
	}
	if pr.MinCommitTs != want {
		pr.MinCommitTs = want
		if g != nil {
			g.mu.Lock()
			g.cneNormalised++
			g.mu.Unlock()
		}
	}
}

func checkNotExistsOnly(req *tikvrpc.Request) bool {
	if req.Type != tikvrpc.CmdPrewrite {
		return false
	}
	ms := req.Prewrite().Mutations
	for _, m := range ms {
		if m.Op != kvrpcpb.Op_CheckNotExists {
			return false
		}
	}
	return len(ms) > 0
}

func fabricateRegionErr(kind string, req *tikvrpc.Request) *errorpb.Error {
	switch kind {
	case "NotLeader":
		return &errorpb.Error{Message: "fabricated not leader", NotLeader: &errorpb.NotLeader{RegionId: req.Context.GetRegionId()}}
	case "EpochNotMatch":
		return &errorpb.Error{Message: "fabricated epoch not match", EpochNotMatch: &errorpb.EpochNotMatch{}}
	case "ServerIsBusy":
		return &errorpb.Error{Message: "fabricated busy", ServerIsBusy: &errorpb.ServerIsBusy{Reason: "verif"}}
	case "StaleCommand":
		return &errorpb.Error{Message: "fabricated stale", StaleCommand: &errorpb.StaleCommand{}}
	case "RegionNotFound":
		return &errorpb.Error{Message: "fabricated region not found", RegionNotFound: &errorpb.RegionNotFound{RegionId: req.Context.GetRegionId()}}
	}
	return &errorpb.Error{Message: "fabricated " + kind}
}

// ---------------------------------------------------------------- request / response projection

func mutOp(op kvrpcpb.Op) string {
	switch op {
	case kvrpcpb.Op_Put:
		return "put"
	case kvrpcpb.Op_Del:
		return "del"
	case kvrpcpb.Op_Lock:
		return "lock"
	case kvrpcpb.Op_Insert:
		return "ins"
	case kvrpcpb.Op_CheckNotExists:
		return "cne"
	case kvrpcpb.Op_PessimisticLock:
		return "plock"
	}
	return op.String()
}

func reqFields(req *tikvrpc.Request) map[string]interface{} {
	f := map[string]interface{}{"region": req.Context.GetRegionId()}
	switch req.Type {
	case tikvrpc.CmdPrewrite:
		r := req.Prewrite()
		keys, ops, vals, asserts := []string{}, []string{}, []string{}, []string{}
		for _, m := range r.Mutations {
			keys = append(keys, hk(m.Key))
			ops = append(ops, mutOp(m.Op))
			vals = append(vals, hk(m.Value))
			asserts = append(asserts, m.Assertion.String())
		}
		pa := []string{}
		for _, a := range r.PessimisticActions {
			pa = append(pa, a.String())
		}
		f["start"] = r.StartVersion
		f["primary"] = hk(r.PrimaryLock)
		f["keys"] = keys
		f["ops"] = ops
		f["vals"] = vals
		f["asserts"] = asserts
		f["pess_actions"] = pa
		f["async"] = r.UseAsyncCommit
		f["onepc"] = r.TryOnePc
		f["min_commit"] = r.MinCommitTs
		f["max_commit"] = r.MaxCommitTs
		f["for_update"] = r.ForUpdateTs
		f["secondaries"] = hks(r.Secondaries)
		f["ttl"] = r.LockTtl
		f["txn_size"] = r.TxnSize
	case tikvrpc.CmdCommit:
		r := req.Commit()
		f["start"] = r.StartVersion
		f["commit"] = r.CommitVersion
		f["keys"] = hks(r.Keys)
	case tikvrpc.CmdBatchRollback:
		r := req.BatchRollback()
		f["start"] = r.StartVersion
		f["keys"] = hks(r.Keys)
	case tikvrpc.CmdCleanup:
		r := req.Cleanup()
		f["start"] = r.StartVersion
		f["keys"] = []string{hk(r.Key)}
		f["current"] = r.CurrentTs
	case tikvrpc.CmdPessimisticLock:
		r := req.PessimisticLock()
		keys := []string{}
		for _, m := range r.Mutations {
			keys = append(keys, hk(m.Key))
		}
		f["start"] = r.StartVersion
		f["primary"] = hk(r.PrimaryLock)
		f["for_update"] = r.ForUpdateTs
		f["keys"] = keys
		f["ttl"] = r.LockTtl
		f["min_commit"] = r.MinCommitTs
		f["return_values"] = r.ReturnValues
		f["check_existence"] = r.CheckExistence
		f["lock_only_if_exists"] = r.LockOnlyIfExists
		f["wake_up_mode"] = r.WakeUpMode.String()
		f["wait_timeout"] = r.WaitTimeout
	case tikvrpc.CmdPessimisticRollback:
		r := req.PessimisticRollback()
		f["start"] = r.StartVersion
		f["for_update"] = r.ForUpdateTs
		f["keys"] = hks(r.Keys)
	case tikvrpc.CmdCheckTxnStatus:
		r := req.CheckTxnStatus()
		f["start"] = r.LockTs
		f["primary"] = hk(r.PrimaryKey)
		f["caller"] = r.CallerStartTs
		f["current"] = r.CurrentTs
		f["rbine"] = r.RollbackIfNotExist
		f["force_sync"] = r.ForceSyncCommit
		f["resolving_pess"] = r.ResolvingPessimisticLock
	case tikvrpc.CmdCheckSecondaryLocks:
		r := req.CheckSecondaryLocks()
		f["start"] = r.StartVersion
		f["keys"] = hks(r.Keys)
	case tikvrpc.CmdResolveLock:
		r := req.ResolveLock()
		f["start"] = r.StartVersion
		f["commit"] = r.CommitVersion
		f["keys"] = hks(r.Keys)
		infos := []map[string]uint64{}
		for _, ti := range r.TxnInfos {
			infos = append(infos, map[string]uint64{"start": ti.Txn, "commit": ti.Status})
		}
		f["txn_infos"] = infos
	case tikvrpc.CmdTxnHeartBeat:
		r := req.TxnHeartBeat()
		f["start"] = r.StartVersion
		f["primary"] = hk(r.PrimaryLock)
		f["advise_ttl"] = r.AdviseLockTtl
	case tikvrpc.CmdGet:
		r := req.Get()
		f["version"] = r.Version
		f["keys"] = []string{hk(r.Key)}
	case tikvrpc.CmdBatchGet:
		r := req.BatchGet()
		f["version"] = r.Version
		f["keys"] = hks(r.Keys)
	case tikvrpc.CmdScan:
		r := req.Scan()
		f["version"] = r.Version
		f["start_key"] = hk(r.StartKey)
		f["end_key"] = hk(r.EndKey)
		f["limit"] = r.Limit
		f["reverse"] = r.Reverse
	case tikvrpc.CmdScanLock:
		r := req.ScanLock()
		f["max_version"] = r.MaxVersion
		f["start_key"] = hk(r.StartKey)
		f["end_key"] = hk(r.EndKey)
		f["limit"] = r.Limit
	}
	f["resolved_locks"] = req.Context.ResolvedLocks
	f["committed_locks"] = req.Context.CommittedLocks
	return f
}

func lockInfo(l *kvrpcpb.LockInfo) map[string]interface{} {
	if l == nil {
		return nil
	}
	return map[string]interface{}{"key": hk(l.Key), "primary": hk(l.PrimaryLock), "start": l.LockVersion, "ttl": l.LockTtl,
		"type": mutOp(l.LockType), "for_update": l.LockForUpdateTs, "async": l.UseAsyncCommit, "min_commit": l.MinCommitTs,
		"secondaries": hks(l.Secondaries), "txn_size": l.TxnSize}
}

func keyErr(e *kvrpcpb.KeyError) map[string]interface{} {
	if e == nil {
		return nil
	}
	m := map[string]interface{}{}
	switch {
	case e.Locked != nil:
		m["kind"] = "locked"
		m["lock"] = lockInfo(e.Locked)
	case e.Conflict != nil:
		m["kind"] = "conflict"
		m["conflict_start"] = e.Conflict.ConflictTs
		m["conflict_commit"] = e.Conflict.ConflictCommitTs
	case e.AlreadyExist != nil:
		m["kind"] = "exists"
		m["key"] = hk(e.AlreadyExist.Key)
	case e.Deadlock != nil:
		m["kind"] = "deadlock"
	case e.CommitTsExpired != nil:
		m["kind"] = "expired"
		m["min_commit"] = e.CommitTsExpired.MinCommitTs
	case e.TxnNotFound != nil:
		m["kind"] = "notfound"
	case e.CommitTsTooLarge != nil:
		m["kind"] = "commit_ts_too_large"
	case e.AssertionFailed != nil:
		m["kind"] = "assertion"
	case e.PrimaryMismatch != nil:
		m["kind"] = "primary_mismatch"
	case e.TxnLockNotFound != nil:
		m["kind"] = "txn_lock_not_found"
	case e.Retryable != "":
		m["kind"] = "retryable"
		m["msg"] = e.Retryable
	case e.Abort != "":
		m["kind"] = "abort"
		m["msg"] = e.Abort
	default:
		m["kind"] = "other"
		m["msg"] = e.String()
	}
	if strings.Contains(strings.ToLower(fmt.Sprint(m["msg"])), "rollback") {
		m["rolledback"] = true
	}
	return m
}

func keyErrs(es []*kvrpcpb.KeyError) []map[string]interface{} {
	r := []map[string]interface{}{}
	for _, e := range es {
		r = append(r, keyErr(e))
	}
	return r
}

func respFields(req *tikvrpc.Request, resp *tikvrpc.Response, err error) map[string]interface{} {
	f := map[string]interface{}{}
	if err != nil {
		f["rpc_err"] = err.Error()
		return f
	}
	if resp == nil || resp.Resp == nil {
		f["rpc_err"] = "nil response"
		return f
	}
	if re, e2 := resp.GetRegionError(); e2 == nil && re != nil {
		f["regionerr"] = re.String()
		return f
	}
	switch r := resp.Resp.(type) {
	case *kvrpcpb.PrewriteResponse:
		f["errors"] = keyErrs(r.Errors)
		f["min_commit"] = r.MinCommitTs
		f["onepc_commit"] = r.OnePcCommitTs
	case *kvrpcpb.CommitResponse:
		if r.Error != nil {
			f["error"] = keyErr(r.Error)
		}
		f["commit_version"] = r.CommitVersion
	case *kvrpcpb.BatchRollbackResponse:
		if r.Error != nil {
			f["error"] = keyErr(r.Error)
		}
	case *kvrpcpb.CleanupResponse:
		if r.Error != nil {
			f["error"] = keyErr(r.Error)
		}
		f["commit_version"] = r.CommitVersion
	case *kvrpcpb.PessimisticLockResponse:
		f["errors"] = keyErrs(r.Errors)
		res := []string{}
		lwc := []uint64{}
		exi := []bool{}
		for _, x := range r.Results {
			res = append(res, x.Type.String())
			lwc = append(lwc, x.LockedWithConflictTs)
			exi = append(exi, x.Existence)
		}
		f["results"] = res
		f["lwc"] = lwc
		f["existence"] = exi
		f["not_founds"] = r.NotFounds
	case *kvrpcpb.PessimisticRollbackResponse:
		f["errors"] = keyErrs(r.Errors)
	case *kvrpcpb.CheckTxnStatusResponse:
		if r.Error != nil {
			f["error"] = keyErr(r.Error)
		}
		f["ttl"] = r.LockTtl
		f["commit_version"] = r.CommitVersion
		f["action"] = r.Action.String()
		f["lock"] = lockInfo(r.LockInfo)
	case *kvrpcpb.CheckSecondaryLocksResponse:
		if r.Error != nil {
			f["error"] = keyErr(r.Error)
		}
		ls := []map[string]interface{}{}
		for _, l := range r.Locks {
			ls = append(ls, lockInfo(l))
		}
		f["locks"] = ls
		f["commit_ts"] = r.CommitTs
	case *kvrpcpb.ResolveLockResponse:
		if r.Error != nil {
			f["error"] = keyErr(r.Error)
		}
	case *kvrpcpb.TxnHeartBeatResponse:
		if r.Error != nil {
			f["error"] = keyErr(r.Error)
		}
		f["ttl"] = r.LockTtl
	case *kvrpcpb.GetResponse:
		if r.Error != nil {
			f["error"] = keyErr(r.Error)
		}
		f["not_found"] = r.NotFound
		f["value"] = hk(r.Value)
	case *kvrpcpb.BatchGetResponse:
		if r.Error != nil {
			f["error"] = keyErr(r.Error)
		}
		ps := []map[string]interface{}{}
		for _, p := range r.Pairs {
			m := map[string]interface{}{"key": hk(p.Key), "value": hk(p.Value)}
			if p.Error != nil {
				m["error"] = keyErr(p.Error)
			}
			ps = append(ps, m)
		}
		f["pairs"] = ps
	case *kvrpcpb.ScanResponse:
		if r.Error != nil {
			f["error"] = keyErr(r.Error)
		}
		ps := []map[string]interface{}{}
		for _, p := range r.Pairs {
			m := map[string]interface{}{"key": hk(p.Key), "value": hk(p.Value)}
			if p.Error != nil {
				m["error"] = keyErr(p.Error)
			}
			ps = append(ps, m)
		}
		f["pairs"] = ps
	case *kvrpcpb.ScanLockResponse:
		ls := []map[string]interface{}{}
		for _, l := range r.Locks {
			ls = append(ls, lockInfo(l))
		}
		f["locks"] = ls
	}
	return f
}
