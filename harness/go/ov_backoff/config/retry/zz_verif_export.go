//go:build verif

// Add-only accessors for the C20 correspondence driver (mapped into config/retry by -overlay).
package retry

import "reflect"

// VerifExcluded returns a copy of isSleepExcluded.
func VerifExcluded() map[string]int {
	m := map[string]int{}
	for k, v := range isSleepExcluded {
		m[k] = v
	}
	return m
}

// VerifSetExcluded is setBackoffExcluded (test-only helper of the package).
func VerifSetExcluded(name string, maxVal int) { setBackoffExcluded(name, maxVal) }

func (b *Backoffer) VerifMaxSleep() int      { return b.maxSleep }
func (b *Backoffer) VerifExcludedSleep() int { return b.excludedSleep }
func (b *Backoffer) VerifConfigs() []*Config { return b.configs }
func (b *Backoffer) VerifLatestErrors() []string {
	var r []string
	for _, e := range b.latestErrors() {
		r = append(r, e.Reason)
	}
	return r
}

func (c *Config) VerifName() string { return c.name }
func (c *Config) VerifErr() error   { return c.err }
func (c *Config) VerifFn() (base, cap, jitter int) {
	return c.fnCfg.base, c.fnCfg.cap, c.fnCfg.jitter
}

// VerifExpo is expo (unexported).
func VerifExpo(base, cap, n int) int { return expo(base, cap, n) }

// VerifKeepGoing reads keepGoingWhenKilled (by name, so that the file also builds against trees without the field): 1 / 0, -1 = no such field.
func (b *Backoffer) VerifKeepGoing() int {
	f := reflect.ValueOf(b).Elem().FieldByName("keepGoingWhenKilled")
	if !f.IsValid() {
		return -1
	}
	if f.Bool() {
		return 1
	}
	return 0
}
