//go:build verif

// Add-only accessors for the C20 call-site driver.
package rawkv

import (
	"github.com/pingcap/kvproto/pkg/kvrpcpb"
	"github.com/tikv/client-go/v2/config/retry"
	"github.com/tikv/client-go/v2/internal/client"
	"github.com/tikv/client-go/v2/internal/locate"
	"github.com/tikv/client-go/v2/tikvrpc"
	pd "github.com/tikv/pd/client"
)

// VerifNewClient builds a raw client over the given PD and RPC clients (as rawkv's own tests do).
func VerifNewClient(pdCli pd.Client, rpc client.Client) *Client {
	return &Client{clusterID: 0, regionCache: locate.NewRegionCache(pdCli), pdClient: pdCli, rpcClient: rpc}
}

// VerifSendBatchGet runs sendBatchReq(CmdRawBatchGet) with the caller's back-offer; returns the number of pairs.
func (c *Client) VerifSendBatchGet(bo *retry.Backoffer, keys [][]byte) (int, error) {
	resp, err := c.sendBatchReq(bo, keys, &rawOptions{}, tikvrpc.CmdRawBatchGet)
	if err != nil || resp == nil || resp.Resp == nil {
		return 0, err
	}
	n := 0
	for _, p := range resp.Resp.(*kvrpcpb.RawBatchGetResponse).Pairs {
		if len(p.Value) > 0 {
			n++
		}
	}
	return n, nil
}

// VerifSendBatchPut runs sendBatchPut with the caller's back-offer.
func (c *Client) VerifSendBatchPut(bo *retry.Backoffer, keys, values [][]byte) error {
	return c.sendBatchPut(bo, keys, values, nil, &rawOptions{})
}
