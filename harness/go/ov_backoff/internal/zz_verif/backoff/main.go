//go:build verif

//go:debug randseednop=0

// Driver for property C20 (back-off budget and fork accounting).
// Generates op sequences over a heap of retry.Backoffer values, executes them on the real code with
// sleeping virtualised (failpoint tikvclient/fastBackoffBySkipSleep) and prints, tab separated:
//
//	CFG  id nameid base cap jitter errid name           (table of back-off kinds, once)
//	S    seq class excl(nameid:limit;...) lockfast-nameid
//	O    <op...> => <result> <state of the touched back-offers...>
//	E    seq
//
// ops:  V weight lockfast | N max vars mode | B i cfg maxms errid sleep | C i | F i | M i j | R i |
//
//	RM i max | X ctx | K vars sig
//
// The jitter is random: for B the driver reports the sleep the closure chose (taken from the
// package's own "backoff" debug log line) and the model checks it is admissible.
// `backoff replay FILE` re-executes the S/O lines of FILE (results after "=>" are ignored).
package main

import (
	"bufio"
	"context"
	"fmt"
	"math/rand"
	"os"
	"reflect"
	"sort"
	"strconv"
	"strings"

	"github.com/pingcap/failpoint"
	"github.com/pingcap/kvproto/pkg/errorpb"
	"github.com/pingcap/kvproto/pkg/metapb"
	"github.com/pingcap/log"
	"github.com/pkg/errors"
	"github.com/tikv/client-go/v2/config/retry"
	tikverr "github.com/tikv/client-go/v2/error"
	"github.com/tikv/client-go/v2/kv"
	"github.com/tikv/client-go/v2/util"
	"go.uber.org/zap"
	"go.uber.org/zap/zapcore"
)

var out *bufio.Writer

// ---- capture of the "backoff" debug line (base, sleep, attempts) ----
type capCore struct{}

var lastSleep = -1

func (capCore) Enabled(zapcore.Level) bool            { return true }
func (c capCore) With([]zapcore.Field) zapcore.Core   { return c }
func (c capCore) Sync() error                         { return nil }
func (c capCore) Check(e zapcore.Entry, ce *zapcore.CheckedEntry) *zapcore.CheckedEntry {
	if e.Message == "backoff" {
		return ce.AddCore(e, c)
	}
	return ce
}
func (capCore) Write(e zapcore.Entry, fs []zapcore.Field) error {
	for _, f := range fs {
		if f.Key == "sleep" {
			lastSleep = int(f.Integer)
		}
	}
	return nil
}

// ---- kinds ----
type cfgEnt struct {
	c                            *retry.Config
	id, nameID, base, cap, jit   int
	errID                        int
	govar                        string
	origErr                      error
	origFn                       [3]int
}

var cfgs []cfgEnt
var cfgByPtr = map[*retry.Config]int{}
var nameIDs = map[string]int{"": 0}
var errVals []error

func nameID(s string) int {
	if v, ok := nameIDs[s]; ok {
		return v
	}
	v := len(nameIDs)
	nameIDs[s] = v
	return v
}

func sameErr(a, b error) (eq bool) {
	defer func() {
		if recover() != nil {
			eq = false
		}
	}()
	return a == b
}

func errIDOf(e error) int {
	for i, x := range errVals {
		if sameErr(x, e) {
			return i + 1
		}
	}
	return -1
}

func addCfg(c *retry.Config, govar ...string) {
	b, cp, j := c.VerifFn()
	e := c.VerifErr()
	id := errIDOf(e)
	if id < 0 {
		errVals = append(errVals, e)
		id = len(errVals)
	}
	ent := cfgEnt{c: c, id: len(cfgs), nameID: nameID(c.VerifName()), base: b, cap: cp, jit: j, errID: id, govar: "-", origErr: e, origFn: [3]int{b, cp, j}}
	if len(govar) > 0 {
		ent.govar = govar[0]
	}
	if c.Base() != b || c.String() != c.VerifName() {
		panic("Config.Base/String disagree with the fields")
	}
	cfgByPtr[c] = ent.id
	cfgs = append(cfgs, ent)
}

func initCfgs() {
	real := []*retry.Config{retry.BoTiKVRPC, retry.BoTxnLock, retry.BoRegionMiss, retry.BoTiKVServerBusy,
		retry.BoPDRPC, retry.BoTxnLockFast, retry.BoTiFlashServerBusy, retry.BoTiKVDiskFull, retry.BoStaleCmd,
		retry.BoRegionScheduling, retry.BoTxnNotFound}
	names := []string{"BoTiKVRPC", "BoTxnLock", "BoRegionMiss", "BoTiKVServerBusy", "BoPDRPC", "BoTxnLockFast",
		"BoTiFlashServerBusy", "BoTiKVDiskFull", "BoStaleCmd", "BoRegionScheduling", "BoTxnNotFound"}
	for i, c := range real {
		addCfg(c, names[i])
	}
	addCfg(retry.NewConfig("vFull", nil, retry.NewBackoffFnCfg(10, 300, retry.FullJitter), errors.New("vFull timeout")))       // 11
	addCfg(retry.NewConfig("vDecorr", nil, retry.NewBackoffFnCfg(5, 400, retry.DecorrJitter), errors.New("vDecorr timeout")))  // 12
	addCfg(retry.NewConfig("vSmall", nil, retry.NewBackoffFnCfg(1, 7, retry.NoJitter), errors.New("vSmall timeout")))         // 13
	addCfg(retry.NewConfig("txnLock", nil, retry.NewBackoffFnCfg(30, 90, retry.NoJitter), errors.New("second txnLock")))      // 14: same name, other pointer
	addCfg(retry.NewConfig("tikvServerBusy", nil, retry.NewBackoffFnCfg(50, 700, retry.EqualJitter), errors.New("busy2")))    // 15: excluded by name
	addCfg(retry.NewConfig("", nil, retry.NewBackoffFnCfg(3, 40, retry.NoJitter), errors.New("anonymous")))                   // 16: empty name
	addCfg(retry.BoTiFlashRPC, "BoTiFlashRPC")                             // 17
	addCfg(retry.BoRegionRecoveryInProgress, "BoRegionRecoveryInProgress") // 18
	addCfg(retry.BoMaxTsNotSynced, "BoMaxTsNotSynced")                     // 19
	addCfg(retry.BoCommitTSLag, "BoCommitTSLag")                           // 20
	addCfg(retry.BoMaxRegionNotInitialized, "BoMaxRegionNotInitialized")   // 21
	addCfg(retry.BoIsWitness, "BoIsWitness")                               // 22
	addCfg(retry.NewConfig("TXNLOCKFAST", nil, retry.NewBackoffFnCfg(7, 900, retry.EqualJitter), errors.New("upper lock fast"))) // 23: EqualFold
}

// ---- world ----
type world struct {
	bos       []*retry.Backoffer
	boCtx     []int
	parent    []int
	live      []bool
	boVars    []int
	noop      []bool
	cancels   []context.CancelFunc
	ctxs      []context.Context
	ctxParent []int
	ctxDone   []bool
	vars      []*kv.Variables
	errSeq    int
	reasons   map[string]int // error text recorded by the back-offer -> error id
	sparse    bool
}

func newWorld() *world {
	return &world{vars: []*kv.Variables{kv.DefaultVars}, reasons: map[string]int{}}
}

func (w *world) cancelled(c int) bool {
	for c >= 0 {
		if w.ctxDone[c] {
			return true
		}
		c = w.ctxParent[c]
	}
	return false
}

func (w *world) isAncestor(i, j int) bool { // i on the parent chain of j
	for p := w.parent[j]; p >= 0; p = w.parent[p] {
		if p == i {
			return true
		}
	}
	return false
}

func (w *world) depth(i int) int {
	d := 0
	for p := w.parent[i]; p >= 0; p = w.parent[p] {
		d++
	}
	return d
}

func mapStr(m map[string]int) string {
	type kv struct{ k, v int }
	var l []kv
	for k, v := range m {
		id, ok := nameIDs[k]
		if !ok {
			id = -1
		}
		l = append(l, kv{id, v})
	}
	sort.Slice(l, func(a, b int) bool { return l[a].k < l[b].k })
	var sb strings.Builder
	for i, e := range l {
		if i > 0 {
			sb.WriteByte('.')
		}
		fmt.Fprintf(&sb, "%d:%d", e.k, e.v)
	}
	return sb.String()
}

func (w *world) state(i int) string {
	b := w.bos[i]
	var errs, cs, ts []string
	for _, r := range b.VerifLatestErrors() {
		if id, ok := w.reasons[r]; ok {
			errs = append(errs, strconv.Itoa(id))
		} else {
			errs = append(errs, strings.TrimPrefix(r, "e"))
		}
	}
	ctxID, varsID, killed := -1, -1, 0
	for k, c := range w.ctxs {
		if c == b.GetCtx() {
			ctxID = k
		}
	}
	for k, v := range w.vars {
		if v == b.GetVars() {
			varsID = k
		}
	}
	if err := b.CheckKilled(); err != nil {
		killed = -1
		if k, ok := errors.Cause(err).(tikverr.ErrQueryInterruptedWithSignal); ok {
			killed = int(k.Signal)
		}
	}
	for _, c := range b.VerifConfigs() {
		id, ok := cfgByPtr[c]
		if !ok {
			id = -1
		}
		cs = append(cs, strconv.Itoa(id))
	}
	for _, t := range b.GetTypes() {
		id, ok := nameIDs[t]
		if !ok {
			id = -1
		}
		ts = append(ts, strconv.Itoa(id))
	}
	keep := b.VerifKeepGoing()
	if keep < 0 {
		keep = 0
	}
	return fmt.Sprintf("%d=%d,%d,%d,%d,%d,%d,%d,%d,%d|%s|%s|%s|%s|%s|%s", i, b.VerifMaxSleep(), b.GetTotalSleep(), b.VerifExcludedSleep(),
		b.ErrorsNum(), ctxID, varsID, killed, b.GetTotalBackoffTimes(), keep, strings.Join(errs, "."), mapStr(b.GetBackoffSleepMS()), mapStr(b.GetBackoffTimes()),
		strings.Join(cs, "."), strings.Join(ts, "."), b.String())
}

type op struct {
	k             string
	a, b, c, d, e int // B: e = api (0 BackoffWithCfgAndMaxSleep, 1 Backoff, 2 BackoffWithMaxSleepTxnLockFast, 3/4 MayBackoffForRegionError fake-epoch/other)
}

func (o op) String() string {
	switch o.k {
	case "V", "M", "RM", "K", "SE", "SC", "MN":
		return fmt.Sprintf("%s\t%d\t%d", o.k, o.a, o.b)
	case "N":
		return fmt.Sprintf("N\t%d\t%d\t%d", o.a, o.b, o.c)
	case "B":
		return fmt.Sprintf("B\t%d\t%d\t%d\t%d\t%d", o.a, o.b, o.c, o.d, o.e)
	case "SF":
		return fmt.Sprintf("SF\t%d\t%d\t%d\t%d", o.a, o.b, o.c, o.d)
	}
	return fmt.Sprintf("%s\t%d", o.k, o.a)
}

func classify(err error, orig error) string {
	if err == nil {
		return "ok"
	}
	c := errors.Cause(err)
	if sameErr(c, orig) {
		return "orig"
	}
	if k, ok := c.(tikverr.ErrQueryInterruptedWithSignal); ok {
		return fmt.Sprintf("killed:%d", k.Signal)
	}
	if id := errIDOf(c); id > 0 {
		return fmt.Sprintf("cfgerr:%d", id)
	}
	return "other"
}

// exec runs one op on the real code; returns extra op fields (observed), result and touched back-offers
func (w *world) exec(o op) (extra string, res string, touched []int) {
	defer func() {
		if r := recover(); r != nil {
			res = "panic"
			if o.k == "B" {
				extra = "\t-1"
			}
		}
	}()
	res = "-"
	switch o.k {
	case "V":
		k := new(uint32)
		v := kv.NewVariables(k)
		v.BackOffWeight, v.BackoffLockFast = o.a, o.b
		w.vars = append(w.vars, v)
	case "N":
		ctx, cancel := context.WithCancel(context.Background())
		cid := len(w.ctxs)
		w.ctxs, w.cancels, w.ctxParent, w.ctxDone = append(w.ctxs, ctx), append(w.cancels, cancel), append(w.ctxParent, -1), append(w.ctxDone, false)
		var b *retry.Backoffer
		vi := o.b
		switch o.c {
		case 2:
			b, vi = retry.NewNoopBackoff(ctx), -1
		case 1:
			b, vi = retry.NewBackoffer(ctx, o.a), 0
		default:
			b = retry.NewBackofferWithVars(ctx, o.a, w.vars[o.b])
		}
		w.bos, w.boCtx, w.parent, w.live, w.boVars, w.noop = append(w.bos, b), append(w.boCtx, cid), append(w.parent, -1), append(w.live, true), append(w.boVars, vi), append(w.noop, o.c == 2)
		touched = []int{len(w.bos) - 1}
	case "B":
		b := w.bos[o.a]
		orig := errors.New("e" + strconv.Itoa(o.d))
		before := b.GetTotalSleep()
		lastSleep = -1
		var err error
		switch o.e {
		case 1: // Backoff(cfg, err); per-call maximum must be -1
			err = b.Backoff(cfgs[o.b].c, orig)
		case 2: // BackoffWithMaxSleepTxnLockFast; cfg must be BoTxnLockFast (#5)
			err = b.BackoffWithMaxSleepTxnLockFast(o.c, orig)
		case 3, 4: // MayBackoffForRegionError that does back off; cfg must be BoRegionMiss (#2), per-call maximum -1
			re := &errorpb.Error{Message: "e" + strconv.Itoa(o.d)}
			if o.e == 3 {
				re.EpochNotMatch = &errorpb.EpochNotMatch{}
			} else {
				re.NotLeader = &errorpb.NotLeader{RegionId: 7}
			}
			if retry.IsFakeRegionError(re) != (o.e == 3) {
				panic("IsFakeRegionError")
			}
			w.reasons[re.String()] = o.d
			err = retry.MayBackoffForRegionError(re, b)
			if err != nil && errors.Cause(err).Error() == re.String() {
				orig = errors.Cause(err)
			}
		default:
			err = b.BackoffWithCfgAndMaxSleep(cfgs[o.b].c, o.c, orig)
		}
		real := b.GetTotalSleep() - before
		res = classify(err, orig)
		s := lastSleep
		if res == "ok" || strings.HasPrefix(res, "killed") {
			if s < 0 {
				s = real // no log line seen: fall back to the accounted sleep
			}
			extra = fmt.Sprintf("\t%d", s)
			res += fmt.Sprintf(":%d", real)
		} else {
			extra = "\t-1"
		}
		touched = []int{o.a}
	case "C":
		b := w.bos[o.a].Clone()
		w.bos, w.boCtx, w.parent, w.live, w.boVars, w.noop = append(w.bos, b), append(w.boCtx, w.boCtx[o.a]), append(w.parent, w.parent[o.a]), append(w.live, true), append(w.boVars, w.boVars[o.a]), append(w.noop, false)
		touched = []int{o.a, len(w.bos) - 1}
	case "F":
		b, cancel := w.bos[o.a].Fork()
		cid := len(w.ctxs)
		w.ctxs, w.cancels, w.ctxParent, w.ctxDone = append(w.ctxs, b.GetCtx()), append(w.cancels, cancel), append(w.ctxParent, w.boCtx[o.a]), append(w.ctxDone, false)
		w.bos, w.boCtx, w.parent, w.live, w.boVars, w.noop = append(w.bos, b), append(w.boCtx, cid), append(w.parent, o.a), append(w.live, true), append(w.boVars, w.boVars[o.a]), append(w.noop, false)
		touched = []int{o.a, len(w.bos) - 1}
	case "M":
		w.bos[o.a].UpdateUsingForked(w.bos[o.b])
		touched = []int{o.a}
		if w.isAncestor(o.a, o.b) {
			w.live[o.b] = false // contract: the forked back-offer is not used any more
		} else {
			touched = append(touched, o.b)
		}
	case "MN": // MayBackoffForRegionError that must not back off: nil error / real EpochNotMatch
		var re *errorpb.Error
		if o.b == 1 {
			re = &errorpb.Error{Message: "real", EpochNotMatch: &errorpb.EpochNotMatch{CurrentRegions: []*metapb.Region{{Id: 1}}}}
		}
		if retry.IsFakeRegionError(re) {
			res = "isfake-wrong"
		}
		if err := retry.MayBackoffForRegionError(re, w.bos[o.a]); err != nil {
			res = "unexpected-error"
		}
		touched = []int{o.a}
	case "SE":
		cfgs[o.a].c.SetErrors(errVals[o.b-1])
	case "SF":
		cfgs[o.a].c.SetBackoffFnCfg(retry.NewBackoffFnCfg(o.b, o.c, o.d))
		if cfgs[o.a].c.Base() != o.b {
			res = "base-wrong"
		}
	case "KG": // KeepGoingWhenKilled (called by name: older trees do not have it and the generator then never emits KG)
		reflect.ValueOf(w.bos[o.a]).MethodByName("KeepGoingWhenKilled").Call(nil)
		touched = []int{o.a}
	case "SC":
		w.bos[o.a].SetCtx(w.ctxs[o.b])
		w.boCtx[o.a] = o.b
		touched = []int{o.a}
	case "R":
		w.bos[o.a].Reset()
		touched = []int{o.a}
	case "RM":
		w.bos[o.a].ResetMaxSleep(o.b)
		touched = []int{o.a}
	case "X":
		w.cancels[o.a]()
		w.ctxDone[o.a] = true
	case "K":
		*w.vars[o.a].Killed = uint32(o.b)
	}
	return
}

func (w *world) run(o op) string {
	extra, res, touched := w.exec(o)
	var sb strings.Builder
	sb.WriteString("O\t")
	sb.WriteString(o.String())
	sb.WriteString(extra)
	sb.WriteString("\t=>\t")
	sb.WriteString(res)
	if w.sparse && o.k == "B" && o.d%150 != 0 { // long sequences: the state lists grow linearly, dump them rarely
		touched = nil
	}
	if res != "panic" {
		for _, i := range touched {
			sb.WriteByte('\t')
			sb.WriteString(w.state(i))
		}
	}
	sb.WriteByte('\n')
	out.WriteString(sb.String())
	return res
}

// ---- generator ----
var budgets = []int{1, 10, 40, 100, 250, 400, 800, 1500, 4000, 0, -5, 20000}
var weights = []int{1, 2, 2, 3, 1, 10, -1, 1 << 30}
var limits = []int{600000, 600000, 0, 500, 3000, 12000}
var perCall = []int{0, 1, 5, 50, 300, 10000}

type gen struct {
	r     *rand.Rand
	w     *world
	class string
	dead  bool
	exh   map[int]int // consecutive budget errors per back-offer
}

func (g *gen) do(o op) string {
	if g.dead {
		return "panic"
	}
	r := g.w.run(o)
	if r == "panic" {
		g.dead = true
	}
	return r
}

func (g *gen) liveBo() int {
	var l []int
	for i, v := range g.w.live {
		if v {
			l = append(l, i)
		}
	}
	if len(l) == 0 {
		return -1
	}
	// prefer recent ones
	if g.r.Intn(3) == 0 {
		return l[len(l)-1]
	}
	return l[g.r.Intn(len(l))]
}

func (g *gen) kind(i int) int {
	r := g.r
	var pool []int
	switch g.class {
	case "excluded":
		pool = []int{3, 3, 3, 15, 15, 0, 2, 1}
	case "maxsleep":
		pool = []int{5, 5, 0, 1, 3, 12, 11, 23, 23}
	case "custom":
		pool = []int{11, 12, 13, 14, 1, 15, 2, 12, 11, 23}
	default:
		pool = []int{0, 1, 2, 3, 4, 0, 1, 2, 4, 5, 6, 7, 8, 9, 10, 13, 17, 18, 19, 20, 21, 22}
	}
	k := pool[r.Intn(len(pool))]
	if r.Intn(40) == 0 {
		k = 16
	}
	if (k == 5 || k == 23) && g.w.boVars[i] < 0 { // txnLockFast needs vars (nil vars on a fork of a noop back-offer panics)
		k = 0
	}
	return k
}

func (g *gen) backoff(i int, k int) string {
	m := -1
	p := 6
	if g.class == "maxsleep" {
		p = 2
	}
	if g.r.Intn(p) == 0 {
		m = perCall[g.r.Intn(len(perCall))]
	}
	g.w.errSeq++
	api := 0
	switch {
	case m == -1 && k == 2 && g.r.Intn(3) == 0:
		api = 3 + g.r.Intn(2)
	case k == 5 && g.r.Intn(2) == 0:
		api = 2
	case m == -1 && g.r.Intn(2) == 0:
		api = 1
	}
	res := g.do(op{k: "B", a: i, b: k, c: m, d: g.w.errSeq, e: api})
	if strings.HasPrefix(res, "ok") {
		g.exh[i] = 0
	} else {
		g.exh[i]++
	}
	return res
}

func (g *gen) newVars() int {
	lf := []int{10, 10, 1, 100, 0}[g.r.Intn(5)]
	g.do(op{k: "V", a: weights[g.r.Intn(len(weights))], b: lf})
	return len(g.w.vars) - 1
}

func (g *gen) newRoot() int {
	r := g.r
	mode := 0
	switch r.Intn(12) {
	case 0:
		mode = 1
	case 1:
		if g.class == "tree" || g.class == "single" {
			mode = 2
		}
	}
	v := 0
	if mode == 0 {
		if len(g.w.vars) == 1 || r.Intn(3) == 0 {
			v = g.newVars()
		} else {
			v = 1 + r.Intn(len(g.w.vars)-1)
		}
	}
	g.do(op{k: "N", a: budgets[r.Intn(len(budgets))], b: v, c: mode})
	return len(g.w.bos) - 1
}

func (g *gen) randomOp() {
	r, w := g.r, g.w
	i := g.liveBo()
	if i < 0 {
		g.newRoot()
		return
	}
	x := r.Intn(100)
	if g.exh[i] >= 2 && r.Intn(4) != 0 { // do not dwell on an exhausted / cancelled back-offer
		switch r.Intn(5) {
		case 0:
			g.do(op{k: "R", a: i})
			g.exh[i] = 0
			return
		case 1:
			if w.boVars[i] >= 0 {
				g.do(op{k: "RM", a: i, b: budgets[r.Intn(len(budgets))]})
				g.exh[i] = 0
				return
			}
		case 2:
			if len(w.bos) < 10 {
				g.newRoot()
				return
			}
		default:
			x = 55 + r.Intn(45) // any non-back-off op
		}
	}
	treeish := g.class == "tree" || g.class == "directed11" || g.class == "cancelkill"
	customs := []int{11, 12, 13, 14, 15, 16, 23}
	switch y := r.Intn(60); {
	case y == 0:
		g.do(op{k: "SE", a: customs[r.Intn(len(customs))], b: 1 + r.Intn(len(errVals))})
		return
	case y == 1 && (g.class == "custom" || g.class == "maxsleep" || r.Intn(3) == 0):
		base := []int{1, 5, 20, 60}[r.Intn(4)]
		cp := []int{60, 200, 1000}[r.Intn(3)]
		g.do(op{k: "SF", a: customs[r.Intn(len(customs))], b: base, c: cp, d: 1 + r.Intn(4)})
		return
	case y == 2 || (y == 3 && g.class == "cancelkill"):
		g.do(op{k: "SC", a: i, b: r.Intn(len(w.ctxs))})
		return
	case y == 4:
		g.do(op{k: "MN", a: i, b: r.Intn(2)})
		return
	case hasKG && (y == 5 || (g.class == "cancelkill" && y < 9)):
		g.do(op{k: "KG", a: i})
		return
	}
	switch {
	case x < 55 || (!treeish && x < 75):
		g.backoff(i, g.kind(i))
	case x < 63 && len(w.bos) < 10:
		if w.depth(i) < 3 {
			g.do(op{k: "F", a: i})
		} else {
			g.do(op{k: "C", a: i})
		}
	case x < 68 && len(w.bos) < 10:
		g.do(op{k: "C", a: i})
	case x < 78:
		// merge: usually a live descendant into an ancestor, sometimes unrelated
		var pairs [][2]int
		for j := range w.bos {
			for a := range w.bos {
				if w.live[j] && w.live[a] && w.isAncestor(a, j) {
					pairs = append(pairs, [2]int{a, j})
				}
			}
		}
		if len(pairs) > 0 && r.Intn(8) != 0 {
			p := pairs[r.Intn(len(pairs))]
			g.do(op{k: "M", a: p[0], b: p[1]})
		} else {
			j := g.liveBo()
			g.do(op{k: "M", a: i, b: j})
		}
	case x < 82:
		g.do(op{k: "R", a: i})
	case x < 86:
		if w.boVars[i] >= 0 {
			g.do(op{k: "RM", a: i, b: budgets[r.Intn(len(budgets))]})
		} else {
			g.do(op{k: "RM", a: i, b: 0})
		}
	case x < 90:
		if g.class == "cancelkill" || r.Intn(4) == 0 {
			g.do(op{k: "X", a: r.Intn(len(w.ctxs))})
		} else {
			g.backoff(i, g.kind(i))
		}
	case x < 94:
		if len(w.vars) > 1 && (g.class == "cancelkill" || r.Intn(4) == 0) {
			sig := []int{1, 0, 2, 5}[r.Intn(4)]
			g.do(op{k: "K", a: 1 + r.Intn(len(w.vars)-1), b: sig})
		} else {
			g.backoff(i, g.kind(i))
		}
	case x < 97 && len(w.bos) < 10:
		g.newRoot()
	default:
		g.backoff(i, g.kind(i))
	}
}

// regression scenario of the UpdateUsingForked/configs defect: all the sleeping happens in a fork,
// the fork is merged back, the next back-off on the parent must report the longest sleeper's error
func (g *gen) directed11() {
	r := g.r
	v := len(g.w.vars)
	g.do(op{k: "V", a: 1 + r.Intn(2), b: 10})
	budget := []int{100, 200, 400, 600}[r.Intn(4)]
	g.do(op{k: "N", a: budget, b: v, c: 0})
	root := len(g.w.bos) - 1
	for n := r.Intn(3); n > 0; n-- {
		g.backoff(root, 2)
	}
	cur := root
	for d := 1 + r.Intn(3); d > 0; d-- {
		g.do(op{k: "F", a: cur})
		cur = len(g.w.bos) - 1
		if r.Intn(2) == 0 {
			g.backoff(cur, g.kind(cur))
		}
	}
	heavy := []int{1, 0, 4, 7, 11, 12}[r.Intn(6)]
	for n := 0; n < 14; n++ {
		res := g.backoff(cur, heavy)
		if !strings.HasPrefix(res, "ok") {
			break
		}
	}
	g.do(op{k: "M", a: root, b: cur})
	g.backoff(root, []int{2, 9, 8, 13}[r.Intn(4)])
}

// expoLines drives the real expo: X base cap n => value (compared with the model's expo), XP = probes outside the
// model's domain (cap >= 2^53), reported only
func expoLines(seed int64) {
	r := rand.New(rand.NewSource(seed * 977))
	bases := []int{1, 2, 3, 7, 100, 500, 2000, 1 << 31, 1<<52 + 1, 1<<53 - 1}
	caps := []int{0, 1, 2, 7, 500, 3000, 10000, 1<<31 - 1, 1<<53 - 1, 1 << 53}
	ns := []int{100, 500, 970, 971, 1000, 1022, 1023, 1024, 1025, 1100, 2000}
	for n := 0; n <= 70; n++ {
		ns = append(ns, n)
	}
	emit := func(tag string, b, c, n int) {
		fmt.Fprintf(out, "%s\t%d\t%d\t%d\t=>\t%d\n", tag, b, c, n, retry.VerifExpo(b, c, n))
	}
	for _, b := range bases {
		for _, c := range caps {
			for _, n := range ns {
				emit("X", b, c, n)
			}
		}
	}
	for i := 0; i < 3000; i++ {
		emit("X", 1+r.Intn(1<<uint(1+r.Intn(40))), r.Intn(1<<uint(1+r.Intn(52))), r.Intn(2001))
	}
	for _, c := range []int{1<<53 + 1, 1<<62 - 1, 1<<63 - 1025, 1<<63 - 512, 1<<63 - 1} {
		for _, n := range []int{0, 10, 61, 62, 63, 64, 1024, 2000} {
			emit("XP", 2, c, n)
			emit("XP", 1<<40+1, c, n)
		}
	}
}

var hasKG = reflect.ValueOf(&retry.Backoffer{}).MethodByName("KeepGoingWhenKilled").IsValid()

func runSeq(seq int, class string, seed int64, nops int) {
	r := rand.New(rand.NewSource(seed))
	lim := limits[r.Intn(len(limits))]
	if class == "excluded" {
		lim = []int{0, 500, 3000, 12000}[r.Intn(4)]
	}
	retry.VerifSetExcluded("tikvServerBusy", lim)
	startSeq(seq, class, seed)
	g := &gen{r: r, w: newWorld(), class: class, exh: map[int]int{}}
	if class == "domain" { // the model's domain guards: the last op must panic in the code (RBad in the model)
		switch r.Intn(5) {
		case 0: // BackOffWeight = 0, positive budget
			g.do(op{k: "V", a: 0, b: 10})
			g.do(op{k: "N", a: budgets[r.Intn(5)], b: 1, c: 0})
		case 1: // BackOffWeight = 0: fine without a budget, ResetMaxSleep(>0) divides
			g.do(op{k: "V", a: 0, b: 10})
			g.do(op{k: "N", a: []int{0, -5}[r.Intn(2)], b: 1, c: 0})
			g.backoff(0, 2)
			g.do(op{k: "RM", a: 0, b: budgets[r.Intn(5)]})
		case 2: // fork of a no-op back-offer: really sleeps, ResetMaxSleep(>0) hits nil vars
			g.do(op{k: "N", a: 0, b: 0, c: 2})
			g.backoff(0, 0)
			g.do(op{k: "F", a: 0})
			g.backoff(1, 2)
			g.do(op{k: "RM", a: 1, b: budgets[r.Intn(5)]})
		case 3: // clone of a no-op back-offer + txnLockFast: nil vars in createBackoffFn
			g.do(op{k: "N", a: 0, b: 0, c: 2})
			g.do(op{k: "C", a: 0})
			g.backoff(1, 1)
			g.w.errSeq++
			g.do(op{k: "B", a: 1, b: []int{5, 23}[r.Intn(2)], c: -1, d: g.w.errSeq})
		case 4: // no-op back-offer itself: ResetMaxSleep(>0)
			g.do(op{k: "N", a: 0, b: 0, c: 2})
			g.do(op{k: "RM", a: 0, b: 0})
			g.do(op{k: "RM", a: 0, b: budgets[r.Intn(5)]})
		}
		nops = 0
	} else if class == "directed11" {
		g.directed11()
		nops = 4
	} else if class == "long" { // attempts far beyond the point where expo saturates (and where 2^n is +Inf as a double)
		v := g.newVars()
		g.w.sparse = true
		g.do(op{k: "N", a: 0, b: v, c: 0})
		k := []int{2, 13, 8, 0, 12, 5, 7}[r.Intn(7)]
		for n := 0; n < 2100 && !g.dead; n++ {
			g.backoff(0, k)
		}
		nops = 0
	} else if class == "cancelkill" && hasKG && r.Intn(3) == 0 {
		// a marked back-offer under a raised kill flag keeps backing off until its budget; forks and clones inherit
		v := g.newVars()
		g.do(op{k: "N", a: []int{100, 250, 400}[r.Intn(3)], b: v, c: 0})
		g.do(op{k: "KG", a: 0})
		g.do(op{k: "K", a: v, b: 1 + r.Intn(3)})
		if r.Intn(2) == 0 {
			g.do(op{k: "F", a: 0})
		} else {
			g.do(op{k: "C", a: 0})
		}
		for n := 0; n < 12 && !g.dead; n++ {
			if res := g.backoff(r.Intn(2), []int{0, 1, 4, 2}[r.Intn(4)]); !strings.HasPrefix(res, "ok") {
				break
			}
		}
	} else {
		g.newRoot()
	}
	for n := 0; n < nops && !g.dead; n++ {
		g.randomOp()
	}
	endSeq(seq, g.w)
}

func startSeq(seq int, class string, seed int64) {
	rand.Seed(seed) // the jitter of config/retry comes from the global source: same seed => same draws (go:debug randseednop=0)
	var ex []string
	for k, v := range retry.VerifExcluded() {
		ex = append(ex, fmt.Sprintf("%d:%d", nameID(k), v))
	}
	sort.Strings(ex)
	var lf []string
	for n, id := range nameIDs {
		if strings.EqualFold(n, "txnLockFast") {
			lf = append(lf, strconv.Itoa(id))
		}
	}
	sort.Strings(lf)
	fmt.Fprintf(out, "S\t%d\t%s\t%s\t%s\t%d\n", seq, class, strings.Join(ex, ";"), strings.Join(lf, ";"), seed)
}

func endSeq(seq int, w *world) {
	for _, c := range w.cancels {
		c()
	}
	for _, v := range w.vars[1:] {
		*v.Killed = 0
	}
	for _, c := range cfgs {
		if c.govar == "-" {
			c.c.SetErrors(c.origErr)
			c.c.SetBackoffFnCfg(retry.NewBackoffFnCfg(c.origFn[0], c.origFn[1], c.origFn[2]))
		}
	}
	fmt.Fprintf(out, "E\t%d\n", seq)
}

func replay(file string) {
	fh, err := os.Open(file)
	if err != nil {
		panic(err)
	}
	sc := bufio.NewScanner(fh)
	sc.Buffer(make([]byte, 1<<20), 1<<26)
	var w *world
	seq := 0
	atoi := func(s string) int { v, _ := strconv.Atoi(s); return v }
	for sc.Scan() {
		f := strings.Split(sc.Text(), "\t")
		switch f[0] {
		case "S":
			for _, e := range strings.Split(f[3], ";") {
				kvp := strings.Split(e, ":")
				if len(kvp) == 2 {
					for n, id := range nameIDs {
						if id == atoi(kvp[0]) {
							retry.VerifSetExcluded(n, atoi(kvp[1]))
						}
					}
				}
			}
			seq = atoi(f[1])
			w = newWorld()
			w.sparse = f[2] == "long"
			sd := int64(1)
			if len(f) > 5 {
				sd, _ = strconv.ParseInt(f[5], 10, 64)
			}
			startSeq(seq, f[2], sd)
		case "O":
			o := op{k: f[1]}
			arg := func(i int) int {
				if 1+i < len(f) && f[1+i] != "=>" {
					return atoi(f[1+i])
				}
				return 0
			}
			o.a, o.b, o.c, o.d, o.e = arg(1), arg(2), arg(3), arg(4), arg(5)
			if w.run(o) == "panic" {
				w = nil
			}
		case "E":
			if w != nil {
				endSeq(seq, w)
			}
		}
		if w == nil && f[0] == "O" {
			break
		}
	}
}

func main() {
	out = bufio.NewWriterSize(os.Stdout, 1<<20)
	defer out.Flush()
	util.EnableFailpoints()
	if err := failpoint.Enable("tikvclient/fastBackoffBySkipSleep", "return"); err != nil {
		panic(err)
	}
	lg := zap.New(capCore{})
	log.ReplaceGlobals(lg, &log.ZapProperties{Core: capCore{}, Level: zap.NewAtomicLevelAt(zapcore.DebugLevel)})
	initCfgs()
	for _, c := range cfgs {
		fmt.Fprintf(out, "CFG\t%d\t%d\t%d\t%d\t%d\t%d\t%s\t%s\n", c.id, c.nameID, c.base, c.cap, c.jit, c.errID, c.c.VerifName(), c.govar)
	}
	nameID("txnLockFast")
	if len(os.Args) >= 3 && os.Args[1] == "replay" {
		replay(os.Args[2])
		return
	}
	seed, _ := strconv.ParseInt(os.Getenv("VERIF_SEED"), 10, 64)
	if seed == 0 {
		seed = 1
	}
	nseq, nops := 5000, 30
	if os.Getenv("VERIF_TIER") == "thorough" {
		nseq, nops = 30000, 45
	}
	if v := os.Getenv("VERIF_NSEQ"); v != "" {
		nseq, _ = strconv.Atoi(v)
	}
	expoLines(seed)
	nlong := 2
	if os.Getenv("VERIF_TIER") == "thorough" {
		nlong = 14
	}
	for s := 0; s < nlong; s++ {
		runSeq(1000000+s, "long", seed*31+int64(s), 0)
	}
	for s := 0; s < 10; s++ {
		runSeq(2000000+s, "domain", seed*53+int64(s), 0)
	}
	classes := []string{"single", "tree", "tree", "directed11", "excluded", "cancelkill", "maxsleep", "custom", "tree", "single"}
	for s := 0; s < nseq; s++ {
		cl := classes[s%len(classes)]
		n := nops/2 + rand.New(rand.NewSource(seed*1000003+int64(s))).Intn(nops)
		runSeq(s, cl, seed*7919+int64(s)*104729, n)
	}
}
