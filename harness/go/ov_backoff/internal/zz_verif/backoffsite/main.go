//go:build verif

// Call-site driver for property C20: runs the real consumers of Fork / Clone / UpdateUsingForked over mocktikv with
// injected region errors and prints, per run, the caller's back-offer before and after the call:
//
//	CS  {json}
//
// Consumers:  txnlock.LockResolver.checkAllSecondaries (one fork per region, the last finished fork is merged back, on
// success AND on the early error return), txnsnapshot.KVSnapshot.batchGetKeysByRegions (one fork, a clone of the FORK
// per further batch, the last finished one is merged back).  A client wrapper answers the first k requests of every
// region with a fake EpochNotMatch (no current regions), so that every worker backs off exactly k times with
// BoRegionMiss (fresh closure in every fork / clone: 2, 4, ... ms; sleeping is virtualised); optionally one region then
// gets a response without body (error ending); one region's final answer is delayed so that different workers finish last.
package main

import (
	"bufio"
	"context"
	"encoding/json"
	"fmt"
	"math/rand"
	"os"
	"sort"
	"strconv"
	"sync"
	"sync/atomic"
	"time"

	"github.com/pingcap/failpoint"
	"github.com/pingcap/kvproto/pkg/errorpb"
	"github.com/pingcap/kvproto/pkg/kvrpcpb"
	"github.com/pingcap/log"
	"github.com/pkg/errors"
	"github.com/tikv/client-go/v2/config"
	"github.com/tikv/client-go/v2/config/retry"
	"github.com/tikv/client-go/v2/internal/mockstore/mocktikv"
	"github.com/tikv/client-go/v2/kv"
	"github.com/tikv/client-go/v2/rawkv"
	"github.com/tikv/client-go/v2/tikv"
	"github.com/tikv/client-go/v2/tikvrpc"
	"github.com/tikv/client-go/v2/txnkv/txnsnapshot"
	"github.com/tikv/client-go/v2/util"
	"github.com/tikv/client-go/v2/util/async"
	"go.uber.org/zap"
)

type runKeyT struct{}

var runKey = runKeyT{}

type plan struct {
	id         int
	cmd        tikvrpc.CmdType
	errsLeft   map[uint64]int // region id -> region errors still to inject
	bodyless   uint64         // region that gets a response without body after its region errors (0 = none)
	delayed    uint64         // region whose final answer is delayed
	delay      time.Duration
	injected   int
	finals     int
	bodylessed int
	onFirst    func()   // runs (under the wrapper's lock) when the first region error is injected: kill / cancel mid-call
	envErrs    []string // region errors / errors the mock store itself answered to a passed-through request
}

type inject struct {
	tikv.Client
	mu     sync.Mutex
	p      *plan
	nasync int
}

func (c *inject) SendRequest(ctx context.Context, addr string, req *tikvrpc.Request, timeout time.Duration) (*tikvrpc.Response, error) {
	c.mu.Lock()
	p := c.p
	if p == nil || req.Type != p.cmd || ctx.Value(runKey) != p.id {
		c.mu.Unlock()
		if req.Type == tikvrpc.CmdCheckSecondaryLocks { // straggler of an earlier run (its caller returned early)
			return &tikvrpc.Response{Resp: &kvrpcpb.CheckSecondaryLocksResponse{}}, nil
		}
		return c.Client.SendRequest(ctx, addr, req, timeout)
	}
	rid := req.Context.GetRegionId()
	if p.errsLeft[rid] > 0 {
		p.errsLeft[rid]--
		p.injected++
		if p.injected == 1 && p.onFirst != nil {
			p.onFirst()
		}
		c.mu.Unlock()
		re := &errorpb.Error{Message: "injected", EpochNotMatch: &errorpb.EpochNotMatch{}}
		return tikvrpc.GenRegionErrorResp(req, re)
	}
	bodyless := p.bodyless == rid
	var d time.Duration
	if p.delayed == rid {
		d = p.delay
	}
	p.finals++
	if bodyless {
		p.bodylessed++
	}
	c.mu.Unlock()
	if d > 0 {
		time.Sleep(d) // only steers which worker finishes last; nothing is asserted about time
	}
	if bodyless {
		return &tikvrpc.Response{}, nil
	}
	if req.Type == tikvrpc.CmdCheckSecondaryLocks {
		// mocktikv has no CheckSecondaryLocks: answer "no lock found, not committed" (the transaction was rolled back)
		return &tikvrpc.Response{Resp: &kvrpcpb.CheckSecondaryLocksResponse{}}, nil
	}
	resp, err := c.Client.SendRequest(ctx, addr, req, timeout)
	note := ""
	if err != nil {
		note = "err:" + err.Error()
	} else if resp != nil && resp.Resp != nil {
		if re, e2 := resp.GetRegionError(); e2 == nil && re != nil {
			note = fmt.Sprintf("region %d: %s", rid, re.String())
		}
	}
	if note != "" {
		c.mu.Lock()
		p.envErrs = append(p.envErrs, note)
		c.mu.Unlock()
	}
	return resp, err
}

// the async client API (EnableAsyncBatchGet): same plan, answered from a goroutine like the mock client does
func (c *inject) SendRequestAsync(ctx context.Context, addr string, req *tikvrpc.Request, cb async.Callback[*tikvrpc.Response]) {
	c.mu.Lock()
	c.nasync++
	c.mu.Unlock()
	go func() {
		cb.Schedule(c.SendRequest(ctx, addr, req, 0))
	}()
}

type boState struct {
	Total  int            `json:"total"`
	Errs   int            `json:"errnum"`
	Sleep  map[string]int `json:"sleep"`
	Times  map[string]int `json:"times"`
	Types  []string       `json:"types"`
	TTimes int            `json:"ttimes"`
}

func snap(b *retry.Backoffer) boState {
	cp := func(m map[string]int) map[string]int {
		r := map[string]int{}
		for k, v := range m {
			r[k] = v
		}
		return r
	}
	return boState{Total: b.GetTotalSleep(), Errs: b.ErrorsNum(), Sleep: cp(b.GetBackoffSleepMS()), Times: cp(b.GetBackoffTimes()),
		Types: append([]string{}, b.GetTypes()...), TTimes: b.GetTotalBackoffTimes()}
}

type record struct {
	Run      int     `json:"run"`
	Site     string  `json:"site"`
	Workers  int     `json:"workers"`
	K        int     `json:"k"`
	Ending   string  `json:"ending"`
	Slow     string  `json:"slow"` // which region is delayed: none / erroring / other
	Pre      []int   `json:"pre"`  // kinds the caller's back-offer slept with before the call (0 regionMiss, 1 txnLockFast)
	Before   boState `json:"before"`
	After    boState `json:"after"`
	Err      string  `json:"err"`
	Values   int     `json:"values"`
	Injected int     `json:"injected"`
	Finals   int     `json:"finals"`
	EnvErrs  []string `json:"env_errs"` // answers with a (region) error that came from the mock store itself, not from the plan
	// site "public": several public Get / BatchGet calls on ONE snapshot with runtime statistics
	Async      bool           `json:"async"`
	AsyncReqs  int            `json:"async_reqs"`
	Calls      []callRec      `json:"calls"`
	StatSleep  map[string]int `json:"stat_sleep"`
	StatTimes  map[string]int `json:"stat_times"`
	CloneSleep map[string]int `json:"clone_sleep"` // stats.Clone() merged with stats: everything doubled
	CloneTimes map[string]int `json:"clone_times"`
}

type callRec struct {
	Kind    string `json:"kind"` // batchget / get
	Workers int    `json:"workers"`
	K       int    `json:"k"`
	Values  int    `json:"values"`
	Err     string `json:"err"`
}

func key(i int) []byte { return []byte(fmt.Sprintf("k%03d", i)) }

func main() {
	out := bufio.NewWriterSize(os.Stdout, 1<<20)
	defer out.Flush()
	util.EnableFailpoints()
	if err := failpoint.Enable("tikvclient/fastBackoffBySkipSleep", "return"); err != nil {
		panic(err)
	}
	log.ReplaceGlobals(zap.NewNop(), &log.ZapProperties{Level: zap.NewAtomicLevel()})
	seed, _ := strconv.ParseInt(os.Getenv("VERIF_SEED"), 10, 64)
	if seed == 0 {
		seed = 1
	}
	nruns := 100
	if os.Getenv("VERIF_TIER") == "thorough" {
		nruns = 600
	}
	r := rand.New(rand.NewSource(seed*7907 + 13))

	const nregions = 8
	mvcc := mocktikv.MustNewMVCCStore()
	cluster := mocktikv.NewCluster(mvcc)
	var splits [][]byte
	for i := 1; i < nregions; i++ {
		splits = append(splits, key(i*10))
	}
	_, regionIDs, _ := mocktikv.BootstrapWithMultiRegions(cluster, splits...)
	inj := &inject{}
	store, err := tikv.NewTestTiKVStore(mocktikv.NewRPCClient(cluster, mvcc, nil), mocktikv.NewPDClient(cluster),
		func(c tikv.Client) tikv.Client { inj.Client = c; return inj }, nil, 0)
	if err != nil {
		panic(err)
	}
	defer store.Close()
	// data for BatchGet: 3 keys in every region
	txn, err := store.Begin()
	if err != nil {
		panic(err)
	}
	for reg := 0; reg < nregions; reg++ {
		for j := 1; j <= 6; j++ {
			if err := txn.Set(key(reg*10+j), []byte(fmt.Sprintf("v%d", reg*10+j))); err != nil {
				panic(err)
			}
		}
	}
	if err := txn.Commit(context.Background()); err != nil {
		panic(err)
	}
	_ = regionIDs
	// a second cluster for the raw client (rawkv.sendBatchReq / sendBatchPut: fork of a fork per batch)
	mvcc2 := mocktikv.MustNewMVCCStore()
	cluster2 := mocktikv.NewCluster(mvcc2)
	mocktikv.BootstrapWithMultiRegions(cluster2, splits...)
	inj2 := &inject{Client: mocktikv.NewRPCClient(cluster2, mvcc2, nil)}
	raw := rawkv.VerifNewClient(mocktikv.NewPDClient(cluster2), inj2)
	{
		var ks, vs [][]byte
		for reg := 0; reg < nregions; reg++ {
			for j := 1; j <= 3; j++ {
				ks, vs = append(ks, key(reg*10+j)), append(vs, []byte("raw"))
			}
		}
		if err := raw.VerifSendBatchPut(retry.NewBackofferWithVars(context.Background(), 40000, nil), ks, vs); err != nil {
			panic(err)
		}
	}

	// warm the region caches (the first calls of a cold cache may see region errors of the cache's own making)
	{
		var ks [][]byte
		for reg := 0; reg < nregions; reg++ {
			ks = append(ks, key(reg*10+1))
		}
		ts, _ := store.CurrentTimestamp("global")
		if _, err := store.GetSnapshot(ts).BatchGet(context.Background(), ks); err != nil {
			panic(err)
		}
		if _, err := raw.VerifSendBatchGet(retry.NewBackofferWithVars(context.Background(), 40000, nil), ks); err != nil {
			panic(err)
		}
	}
	planID := 1 << 20
	publicRun := func(run int) {
		async := r.Intn(2) == 0
		restore := config.UpdateGlobal(func(c *config.Config) { c.EnableAsyncBatchGet = async })
		defer restore()
		ts, err := store.CurrentTimestamp("global")
		if err != nil {
			panic(err)
		}
		snap := store.GetSnapshot(ts)
		stats := &txnsnapshot.SnapshotRuntimeStats{}
		snap.SetRuntimeStats(stats)
		rec := record{Run: run, Site: "public", Async: async}
		inj.mu.Lock()
		inj.nasync = 0
		inj.mu.Unlock()
		ncalls := 2 + r.Intn(3)
		for c := 0; c < ncalls; c++ {
			planID++
			k := r.Intn(3)
			p := &plan{id: planID, errsLeft: map[uint64]int{}, delay: 3 * time.Millisecond}
			ctx, cancel := context.WithCancel(context.WithValue(context.Background(), runKey, p.id))
			cr := callRec{K: k}
			isGet := c == ncalls-1 && r.Intn(2) == 0
			w := 1 + r.Intn(6)
			if isGet {
				w = 1
			}
			regs := r.Perm(nregions)[:w]
			var keys [][]byte
			var rids []uint64
			for _, reg := range regs {
				keys = append(keys, key(reg*10+2+c)) // a fresh key per call: the snapshot caches what it has read
				region, _, _, _ := cluster.GetRegionByKey(mocktikv.NewMvccKey(key(reg*10 + 1)))
				rids = append(rids, region.GetId())
				p.errsLeft[region.GetId()] = k
			}
			if w > 1 && r.Intn(2) == 0 {
				p.delayed = rids[r.Intn(len(rids))]
			}
			cr.Workers = w
			inj.mu.Lock()
			inj.p = p
			inj.mu.Unlock()
			var e error
			if isGet {
				cr.Kind, p.cmd = "get", tikvrpc.CmdGet
				var v kv.ValueEntry
				v, e = snap.Get(ctx, keys[0])
				if len(v.Value) > 0 {
					cr.Values = 1
				}
			} else {
				cr.Kind, p.cmd = "batchget", tikvrpc.CmdBatchGet
				var m map[string]kv.ValueEntry
				m, e = snap.BatchGet(ctx, keys)
				cr.Values = len(m)
			}
			if e != nil {
				cr.Err = errors.Cause(e).Error()
			}
			inj.mu.Lock()
			inj.p = nil
			inj.mu.Unlock()
			cancel()
			rec.Calls = append(rec.Calls, cr)
		}
		inj.mu.Lock()
		rec.AsyncReqs = inj.nasync
		inj.mu.Unlock()
		rec.StatSleep, rec.StatTimes = stats.VerifBackoff()
		cl := stats.Clone()
		cl.Merge(stats)
		rec.CloneSleep, rec.CloneTimes = cl.VerifBackoff()
		js, _ := json.Marshal(rec)
		fmt.Fprintf(out, "CS\t%s\n", js)
	}
	for run := 0; run < nruns; run++ {
		if run%5 == 4 {
			publicRun(run)
			continue
		}
		site := []string{"batchget", "checksecondaries", "rawbatchget", "rawbatchput"}[run%4]
		w := 2 + r.Intn(nregions-1) // regions taking part
		k := 1 + r.Intn(2)
		ending := "ok"
		switch e := r.Intn(8); {
		case e < 3 && site != "rawbatchget": // a body-less RawBatchGet answer is not an error path of the consumer
			ending = "error"
		case e == 3: // the query is killed when the first region error is answered: that worker's back-off sleeps once and fails
			ending = "killed"
		case e == 4: // the caller's context is cancelled at that moment: no back-off sleeps or is accounted any more
			ending = "cancelled"
		}
		regs := r.Perm(nregions)[:w]
		sort.Ints(regs)
		var keys [][]byte
		for _, reg := range regs {
			keys = append(keys, key(reg*10+1), key(reg*10+2))
		}
		p := &plan{id: run + 1, errsLeft: map[uint64]int{}, delay: 4 * time.Millisecond}
		cl, in := cluster, inj
		switch site {
		case "batchget":
			p.cmd = tikvrpc.CmdBatchGet
		case "checksecondaries":
			p.cmd = tikvrpc.CmdCheckSecondaryLocks
		case "rawbatchget":
			p.cmd, cl, in = tikvrpc.CmdRawBatchGet, cluster2, inj2
		default:
			p.cmd, cl, in = tikvrpc.CmdRawBatchPut, cluster2, inj2
		}
		var rids []uint64
		for _, reg := range regs {
			region, _, _, _ := cl.GetRegionByKey(mocktikv.NewMvccKey(key(reg*10 + 1)))
			rids = append(rids, region.GetId())
			p.errsLeft[region.GetId()] = k
		}
		slow := "none"
		if ending == "error" {
			p.bodyless = rids[r.Intn(len(rids))]
		}
		switch r.Intn(3) {
		case 0:
			if p.bodyless != 0 {
				p.delayed, slow = p.bodyless, "erroring"
			}
		case 1:
			for {
				c := rids[r.Intn(len(rids))]
				if c != p.bodyless {
					p.delayed, slow = c, "other"
					break
				}
			}
		}
		ctx, cancel := context.WithCancel(context.WithValue(context.Background(), runKey, p.id))
		killFlag := new(uint32)
		bo := retry.NewBackofferWithVars(ctx, 40000, kv.NewVariables(killFlag))
		var pre []int
		for n := r.Intn(4); n > 0; n-- {
			kind := r.Intn(2)
			pre = append(pre, kind)
			cfg := retry.BoRegionMiss
			if kind == 1 {
				cfg = retry.BoTxnLockFast
			}
			if err := bo.Backoff(cfg, errors.New("pre")); err != nil {
				panic(err)
			}
		}
		switch ending { // both happen in the middle of the call, when the first region error is handed out
		case "killed":
			sig := uint32(1 + r.Intn(3))
			p.onFirst = func() { atomic.StoreUint32(killFlag, sig) }
		case "cancelled":
			p.onFirst = cancel
		}
		rec := record{Run: run, Site: site, Workers: w, K: k, Ending: ending, Slow: slow, Pre: pre, Before: snap(bo)}
		in.mu.Lock()
		in.p = p
		in.mu.Unlock()
		var callErr error
		if site == "rawbatchget" {
			rec.Values, callErr = raw.VerifSendBatchGet(bo, keys)
		} else if site == "rawbatchput" {
			var vs [][]byte
			for range keys {
				vs = append(vs, []byte("raw"))
			}
			callErr = raw.VerifSendBatchPut(bo, keys, vs)
		} else if site == "batchget" {
			ts, err := store.CurrentTimestamp("global")
			if err != nil {
				panic(err)
			}
			m, err := store.GetSnapshot(ts).VerifBatchGetKeysByRegions(bo, keys)
			callErr, rec.Values = err, len(m)
		} else {
			startTS := uint64(1000000 + run*10)
			_, callErr = store.GetLockResolver().VerifCheckAllSecondaries(bo, startTS, []byte("primary"), startTS+1, keys)
		}
		rec.After = snap(bo)
		if callErr != nil {
			rec.Err = errors.Cause(callErr).Error()
		}
		in.mu.Lock()
		rec.Injected, rec.Finals, rec.EnvErrs = p.injected, p.finals, p.envErrs
		in.p = nil
		in.mu.Unlock()
		cancel()
		js, _ := json.Marshal(rec)
		fmt.Fprintf(out, "CS\t%s\n", js)
	}
	_ = kvrpcpb.Op_Put
}
