//go:build verif

// Add-only accessor for the C20 call-site driver.
package txnlock

import (
	"github.com/pingcap/kvproto/pkg/kvrpcpb"
	"github.com/tikv/client-go/v2/config/retry"
)

// VerifCheckAllSecondaries runs checkAllSecondaries for an async-commit primary lock with the given secondaries.
func (lr *LockResolver) VerifCheckAllSecondaries(bo *retry.Backoffer, startTS uint64, primary []byte, minCommitTS uint64, secondaries [][]byte) (bool, error) {
	l := &Lock{Key: primary, Primary: primary, TxnID: startTS, UseAsyncCommit: true, MinCommitTS: minCommitTS}
	status := &TxnStatus{primaryLock: &kvrpcpb.LockInfo{PrimaryLock: primary, LockVersion: startTS, Key: primary,
		UseAsyncCommit: true, MinCommitTs: minCommitTS, Secondaries: secondaries}}
	d, err := lr.checkAllSecondaries(bo, l, status)
	return d != nil, err
}
