//go:build verif

// Add-only accessor for the C20 call-site driver.
package txnsnapshot

import (
	"sync"

	"github.com/tikv/client-go/v2/config/retry"
	"github.com/tikv/client-go/v2/kv"
)

// VerifBatchGetKeysByRegions runs batchGetKeysByRegions (goroutine-per-batch path) with the caller's back-offer.
func (s *KVSnapshot) VerifBatchGetKeysByRegions(bo *retry.Backoffer, keys [][]byte) (map[string][]byte, error) {
	var mu sync.Mutex
	m := map[string][]byte{}
	err := s.batchGetKeysByRegions(bo, keys, BatchGetSnapshotTier, false, kv.BatchGetOptions{}, func(k []byte, v kv.ValueEntry) {
		mu.Lock()
		m[string(k)] = v.Value
		mu.Unlock()
	})
	return m, err
}

// VerifBackoff returns copies of the back-off statistics accumulated by recordBackoffInfo.
func (rs *SnapshotRuntimeStats) VerifBackoff() (sleep, times map[string]int) {
	sleep, times = map[string]int{}, map[string]int{}
	for k, v := range rs.backoffSleepMS {
		sleep[k] = v
	}
	for k, v := range rs.backoffTimes {
		times[k] = v
	}
	return
}
