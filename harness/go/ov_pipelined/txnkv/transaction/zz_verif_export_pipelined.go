//go:build verif

package transaction

// Add-only accessors for the C16 driver (area Pipelined). Nothing here changes behaviour.

// VerifPipelinedBounds returns pipelinedCommitInfo.pipelinedStart / pipelinedEnd as tracked by the flush callback.
func (c CommitterProbe) VerifPipelinedBounds() (start, end []byte) {
	return c.pipelinedCommitInfo.pipelinedStart, c.pipelinedCommitInfo.pipelinedEnd
}
