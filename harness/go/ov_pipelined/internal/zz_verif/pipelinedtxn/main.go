//go:build verif

// C16 driver (2): commit side on the in-repo mock store (which has no Flush command).
//   mode "txn":   a whole pipelined KVTxn (real flush callback, real Commit / Rollback / resolveFlushedLocks); the client
//                 shim below answers a Flush RPC by running the same mutations as a Prewrite on the mock store and then
//                 applies TiKV's generation rule (a flush whose generation is not newer than the lock's is ignored,
//                 otherwise the lock's op/value are replaced); BufferBatchGet is answered from the flushed locks.
//                 Region splits can be injected between ops (["split",key]) and right before the i-th Flush RPC is
//                 delivered (rpc_splits), so that batches are regrouped after EpochNotMatch.
//   mode "probe": locks prewritten by direct Prewrite RPCs, then CommitterProbe.ResolveFlushedLocks(start, end, commit)
//                 with the bounds computed as the flush callback computes them (smallest / largest key).
// After the end of a case the driver waits until the store's background pool has resolved (or the settle time is over)
// and audits the mock MVCC store directly: remaining locks of the transaction, final committed values.
// Usage: pipelinedtxn <cases.json>; one JSON line per case on stdout.
package main

import (
	"bytes"
	"context"
	"encoding/hex"
	"encoding/json"
	"fmt"
	"math"
	"os"
	"sort"
	"sync"
	"time"

	"github.com/pingcap/kvproto/pkg/kvrpcpb"
	"github.com/pingcap/log"
	"go.uber.org/zap"
	"github.com/tikv/client-go/v2/config"
	"github.com/tikv/client-go/v2/config/retry"
	tikverr "github.com/tikv/client-go/v2/error"
	"github.com/tikv/client-go/v2/internal/mockstore/mocktikv"
	"github.com/tikv/client-go/v2/kv"
	"github.com/tikv/client-go/v2/tikv"
	"github.com/tikv/client-go/v2/tikvrpc"
	"github.com/tikv/client-go/v2/txnkv/transaction"
	"github.com/tikv/client-go/v2/util/async"
)

type testCase struct {
	ID       string          `json:"id"`
	Mode     string          `json:"mode"`
	Splits   []string        `json:"splits"`
	Pre      [][2]string     `json:"pre"`
	Ops      [][]interface{} `json:"ops"`
	End      string          `json:"end"`
	SettleMs int             `json:"settle_ms"`
	// [[i, key]]: split at key right before the i-th (1-based) Flush RPC of the case reaches the store
	RPCSplits [][]interface{} `json:"rpc_splits"`
	// layout changes while the resolve runs: [[i, "split"|"merge", key]] applied right before the i-th ResolveLock RPC
	// (merge = the region containing key swallows its right neighbour)
	ResolveChanges [][]interface{} `json:"resolve_changes"`
	// Flush RPCs number >= FailFlushFrom (1-based, 0 = never) are answered with an Abort key error (the client "loses" the store)
	FailFlushFrom int `json:"fail_flush_from"`
	// the i-th ResolveLock RPC is answered with an empty response body (candidate finding probe, not in default runs)
	ResolveNilAt int `json:"resolve_nil_at"`
	// the caller's context of Commit: "" / "never" = never cancelled, "after" = cancelled right after Commit returns
	// (the usual `defer cancel()`), "rpc" = cancelled while the CancelAtRPC-th ResolveLock RPC of the background task is in flight
	Cancel      string `json:"cancel"`
	CancelAtRPC int    `json:"cancel_at_rpc"`
	// store-side refusal of single Flush batches: [[i, class]], the i-th Flush RPC (1-based) is answered with a key error of the
	// class ("assertion" | "conflict" | "exists") and applies nothing, its sibling batches are applied normally
	FlushRefuse [][]interface{} `json:"flush_refuse"`
}

type layoutChange struct {
	kind string
	key  []byte
}

type lockRec struct {
	gen   uint64
	op    kvrpcpb.Op
	value []byte
}

type flushRec struct {
	Gen  uint64      `json:"gen"`
	Muts [][2]string `json:"muts"`
	Ops  []int32     `json:"ops"` // kvrpcpb.Op of every mutation (Put 0, Del 1, Insert 4, CheckNotExists 6)
}

type shim struct {
	tikv.Client
	mu       sync.Mutex
	flushes  []flushRec
	resolves []string // start key (hex) of the region a ResolveLock was served by, "" for the first region
	cluster  *mocktikv.Cluster
	mvcc     *mocktikv.MVCCLevelDB
	shadow   map[string]lockRec // flushed locks of the transaction under test: generation, op, value
	nFlush   int
	rpcSplit map[int][]byte
	bounds   map[string]bool // current split keys (raw)
	served   [][2]*string    // [start, end) (hex, end nil = unbounded) of every region that answered a ResolveLock, at that moment
	nResolve int
	resolveChange map[int][]layoutChange
	failFlushFrom int
	resolveNilAt  int
	cancelAt      int
	cancelFn      context.CancelFunc
	flushRefuse   map[int]string
	refusedNow    []string // classes of the refusals injected since the driver last looked (per op)
	startTS       uint64   // start ts of the transaction under test (0 until it begins)
	snapFlushed   []string // keys of snapshot-tier Get/BatchGet requests at startTS that the transaction has already flushed
}

// splitAt splits the region containing key at key (no-op if key is already a region start)
func (s *shim) splitAt(key []byte) {
	if s.bounds[string(key)] {
		return
	}
	s.bounds[string(key)] = true
	r, _, _, _ := s.cluster.GetRegionByKey(mocktikv.NewMvccKey(key))
	if r == nil {
		panic("split: no region for key " + hex.EncodeToString(key))
	}
	nid, pid := s.cluster.AllocID(), s.cluster.AllocID()
	s.cluster.Split(r.Id, nid, key, []uint64{pid}, pid)
}

func (s *shim) SendRequest(ctx context.Context, addr string, req *tikvrpc.Request, timeout time.Duration) (*tikvrpc.Response, error) {
	switch req.Type {
	case tikvrpc.CmdFlush:
		fr := req.Flush()
		rec := flushRec{Gen: fr.Generation}
		for _, m := range fr.Mutations {
			rec.Muts = append(rec.Muts, [2]string{hex.EncodeToString(m.Key), hex.EncodeToString(m.Value)})
			rec.Ops = append(rec.Ops, int32(m.Op))
		}
		s.mu.Lock()
		s.flushes = append(s.flushes, rec)
		s.nFlush++
		if k, ok := s.rpcSplit[s.nFlush]; ok {
			s.splitAt(k)
		}
		lost := s.failFlushFrom > 0 && s.nFlush >= s.failFlushFrom
		refuse, refused := s.flushRefuse[s.nFlush]
		if refused {
			s.refusedNow = append(s.refusedNow, refuse)
		}
		s.mu.Unlock()
		if refused {
			k := fr.Mutations[0].Key
			ke := &kvrpcpb.KeyError{}
			switch refuse {
			case "assertion":
				ke.AssertionFailed = &kvrpcpb.AssertionFailed{StartTs: fr.StartTs, Key: k, Assertion: kvrpcpb.Assertion_Exist}
			case "conflict":
				ke.Conflict = &kvrpcpb.WriteConflict{StartTs: fr.StartTs, ConflictTs: fr.StartTs + 1, ConflictCommitTs: fr.StartTs + 2, Key: k, Primary: fr.PrimaryKey}
			default:
				ke.AlreadyExist = &kvrpcpb.AlreadyExist{Key: k}
			}
			return &tikvrpc.Response{Resp: &kvrpcpb.FlushResponse{Errors: []*kvrpcpb.KeyError{ke}}}, nil
		}
		if lost {
			return &tikvrpc.Response{Resp: &kvrpcpb.FlushResponse{Errors: []*kvrpcpb.KeyError{{Abort: "injected: store lost"}}}}, nil
		}
		nr := *req
		nr.Type = tikvrpc.CmdPrewrite
		nr.Req = &kvrpcpb.PrewriteRequest{Mutations: fr.Mutations, PrimaryLock: fr.PrimaryKey, StartVersion: fr.StartTs,
			LockTtl: fr.LockTtl, MinCommitTs: fr.MinCommitTs, Context: fr.Context}
		resp, err := s.Client.SendRequest(ctx, addr, &nr, timeout)
		if err != nil {
			return resp, err
		}
		pr := resp.Resp.(*kvrpcpb.PrewriteResponse)
		if pr.RegionError == nil && len(pr.Errors) == 0 {
			// TiKV: a flush that is not newer than the existing lock is stale and ignored; a newer one replaces the lock
			s.mu.Lock()
			for _, m := range fr.Mutations {
				if m.Op == kvrpcpb.Op_CheckNotExists {
					continue // asserts absence at the store, writes no lock
				}
				if old, ok := s.shadow[string(m.Key)]; ok && old.gen >= fr.Generation {
					continue
				}
				s.shadow[string(m.Key)] = lockRec{gen: fr.Generation, op: m.Op, value: m.Value}
				if _, err := s.mvcc.VerifPipelinedOverwriteLock(m.Key, fr.StartTs, m.Op, m.Value); err != nil {
					s.mu.Unlock()
					return nil, err
				}
			}
			s.mu.Unlock()
		}
		return &tikvrpc.Response{Resp: &kvrpcpb.FlushResponse{RegionError: pr.RegionError, Errors: pr.Errors}}, nil
	case tikvrpc.CmdBatchGet, tikvrpc.CmdGet:
		// RPC-kind oracle: what the transaction flushed is read through BufferBatchGet only, never through the snapshot tier
		var keys [][]byte
		var ver uint64
		if req.Type == tikvrpc.CmdGet {
			keys, ver = [][]byte{req.Get().Key}, req.Get().Version
		} else {
			keys, ver = req.BatchGet().Keys, req.BatchGet().Version
		}
		s.mu.Lock()
		if s.startTS != 0 && ver == s.startTS {
			for _, k := range keys {
				if _, ok := s.shadow[string(k)]; ok {
					s.snapFlushed = append(s.snapFlushed, hex.EncodeToString(k))
				}
			}
		}
		s.mu.Unlock()
	case tikvrpc.CmdBufferBatchGet:
		br := req.BufferBatchGet()
		// region / epoch check by the mock store itself (an empty BatchGet in the same context)
		nr := *req
		nr.Type = tikvrpc.CmdBatchGet
		nr.Req = &kvrpcpb.BatchGetRequest{Version: br.Version, Context: br.Context}
		resp, err := s.Client.SendRequest(ctx, addr, &nr, timeout)
		if err != nil {
			return resp, err
		}
		out := &kvrpcpb.BufferBatchGetResponse{RegionError: resp.Resp.(*kvrpcpb.BatchGetResponse).RegionError}
		if out.RegionError == nil {
			s.mu.Lock()
			for _, k := range br.Keys {
				if l, ok := s.shadow[string(k)]; ok {
					v := l.value
					if l.op == kvrpcpb.Op_Del {
						v = nil
					}
					out.Pairs = append(out.Pairs, &kvrpcpb.KvPair{Key: k, Value: v})
				}
			}
			s.mu.Unlock()
		}
		return &tikvrpc.Response{Resp: out}, nil
	case tikvrpc.CmdResolveLock:
		s.mu.Lock()
		s.nResolve++
		for _, ch := range s.resolveChange[s.nResolve] {
			if ch.kind == "split" {
				s.splitAt(ch.key)
			} else {
				s.mergeAt(ch.key)
			}
		}
		if s.cancelFn != nil && s.cancelAt > 0 && s.nResolve == s.cancelAt {
			s.cancelFn() // the caller of Commit gives up its context while the background resolve is at work
		}
		nilBody := s.resolveNilAt > 0 && s.nResolve == s.resolveNilAt
		if nilBody {
			s.mu.Unlock()
			return &tikvrpc.Response{}, nil
		}
		// layout changes and ResolveLock serving are serialised (s.mu) so that the recorded range is the range of the
		// region at the moment it answered
		defer s.mu.Unlock()
		var st string
		var en *string
		found := false
		for _, r := range s.cluster.GetAllRegions() {
			if r.Meta.Id == req.Context.GetRegionId() {
				found = true
				st = hex.EncodeToString(mocktikvRawStart(r.Meta.StartKey))
				if len(r.Meta.EndKey) > 0 {
					e := hex.EncodeToString(mocktikvRawStart(r.Meta.EndKey))
					en = &e
				}
			}
		}
		resp, err := s.Client.SendRequest(ctx, addr, req, timeout)
		if err == nil && found && resp.Resp.(*kvrpcpb.ResolveLockResponse).RegionError == nil {
			s.resolves = append(s.resolves, st)
			s.served = append(s.served, [2]*string{&st, en})
		}
		return resp, err
	case tikvrpc.CmdBroadcastTxnStatus:
		return &tikvrpc.Response{Resp: &kvrpcpb.BroadcastTxnStatusResponse{}}, nil
	}
	return s.Client.SendRequest(ctx, addr, req, timeout)
}

func (s *shim) SendRequestAsync(ctx context.Context, addr string, req *tikvrpc.Request, cb async.Callback[*tikvrpc.Response]) {
	go func() {
		resp, err := s.SendRequest(ctx, addr, req, time.Minute)
		cb.Schedule(resp, err)
	}()
}

// mergeAt makes the region containing key swallow its right neighbour (no-op for the last region); s.mu held
func (s *shim) mergeAt(key []byte) {
	r, _, _, _ := s.cluster.GetRegionByKey(mocktikv.NewMvccKey(key))
	if r == nil || len(r.EndKey) == 0 {
		return
	}
	for _, n := range s.cluster.GetAllRegions() {
		if bytes.Equal(n.Meta.StartKey, r.EndKey) {
			delete(s.bounds, string(mocktikvRawStart(r.EndKey)))
			s.cluster.Merge(r.Id, n.Meta.Id)
			return
		}
	}
}

// region start keys of the mock cluster are memcomparable-encoded MVCC keys
func mocktikvRawStart(k []byte) []byte {
	if len(k) == 0 {
		return k
	}
	return mocktikv.MvccKey(k).Raw()
}

func unhex(s string) []byte {
	b, err := hex.DecodeString(s)
	if err != nil {
		panic(err)
	}
	return b
}

type result struct {
	ID        string            `json:"id"`
	StartTS   uint64            `json:"start_ts"`
	CommitTS  uint64            `json:"commit_ts"`
	Results   []map[string]any  `json:"results"`
	Regions   []string          `json:"regions"`
	Served    [][2]*string      `json:"served"`
	Primary   string            `json:"primary"`
	TTLEnd    bool              `json:"ttl_running_end"`
	GCErr     string            `json:"gc_err"`
	EndRefused []string         `json:"end_refused"`
	SnapFlushed []string        `json:"snapshot_reads_of_flushed"`
	EndErr    string            `json:"end_err"`
	PStart    string            `json:"pstart"`
	PEnd      string            `json:"pend"`
	Flushes   []flushRec        `json:"flushes"`
	Resolves  []string          `json:"resolves"`
	LocksLeft []string          `json:"locks_left"`
	SettledMs int64             `json:"settled_ms"`
	Final     map[string]string `json:"final"`
	Panic     string            `json:"panic,omitempty"`
}

func runCase(tc testCase) (res result) {
	res = result{ID: tc.ID, Final: map[string]string{}, Results: []map[string]any{}, Regions: []string{}, LocksLeft: []string{}, Flushes: []flushRec{}, Resolves: []string{}}
	defer func() {
		if x := recover(); x != nil {
			res.Panic = fmt.Sprint(x)
		}
	}()
	ctx := context.Background()
	mvcc := mocktikv.MustNewMVCCStore().(*mocktikv.MVCCLevelDB)
	cluster := mocktikv.NewCluster(mvcc)
	splits := [][]byte{}
	for _, s := range tc.Splits {
		splits = append(splits, unhex(s))
	}
	mocktikv.BootstrapWithMultiRegions(cluster, splits...)
	sh := &shim{Client: mocktikv.NewRPCClient(cluster, mvcc, nil), cluster: cluster, mvcc: mvcc, shadow: map[string]lockRec{},
		rpcSplit: map[int][]byte{}, bounds: map[string]bool{}}
	for _, k := range splits {
		sh.bounds[string(k)] = true
	}
	for _, e := range tc.RPCSplits {
		sh.rpcSplit[int(e[0].(float64))] = unhex(e[1].(string))
	}
	sh.resolveChange = map[int][]layoutChange{}
	for _, e := range tc.ResolveChanges {
		i := int(e[0].(float64))
		sh.resolveChange[i] = append(sh.resolveChange[i], layoutChange{e[1].(string), unhex(e[2].(string))})
	}
	sh.failFlushFrom, sh.resolveNilAt = tc.FailFlushFrom, tc.ResolveNilAt
	sh.flushRefuse = map[int]string{}
	for _, e := range tc.FlushRefuse {
		sh.flushRefuse[int(e[0].(float64))] = e[1].(string)
	}
	store, err := tikv.NewTestTiKVStore(sh, mocktikv.NewPDClient(cluster), nil, nil, 0)
	if err != nil {
		panic(err)
	}
	touched := map[string]bool{}
	if len(tc.Pre) > 0 {
		t0, err := store.Begin()
		if err != nil {
			panic(err)
		}
		for _, kvp := range tc.Pre {
			touched[kvp[0]] = true
			if err := t0.Set(unhex(kvp[0]), unhex(kvp[1])); err != nil {
				panic(err)
			}
		}
		if err := t0.Commit(ctx); err != nil {
			panic(err)
		}
		// secondaries are committed in the background: wait until the setup transaction left no lock
		for {
			locks, err := mvcc.ScanLock(nil, nil, math.MaxUint64)
			if err != nil {
				panic(err)
			}
			if len(locks) == 0 {
				break
			}
			time.Sleep(time.Millisecond)
		}
	}
	txn, err := store.Begin(tikv.WithDefaultPipelinedTxn())
	if err != nil {
		panic(err)
	}
	res.StartTS = txn.StartTS()
	sh.mu.Lock()
	sh.startTS = res.StartTS
	sh.mu.Unlock()
	probe := transaction.TxnProbe{KVTxn: txn}
	committer := probe.GetCommitter()
	if tc.Mode == "probe" {
		// direct Prewrite RPCs for the "flushed" keys, bounds as the callback computes them
		keys := [][]byte{}
		for _, op := range tc.Ops {
			if op[0].(string) == "set" {
				touched[op[1].(string)] = true
				keys = append(keys, unhex(op[1].(string)))
			}
		}
		sort.Slice(keys, func(i, j int) bool { return bytes.Compare(keys[i], keys[j]) < 0 })
		primary := keys[0]
		for _, k := range keys {
			bo := retry.NewBackofferWithVars(ctx, 20000, nil)
			loc, err := store.GetRegionCache().LocateKey(bo, k)
			if err != nil {
				panic(err)
			}
			preq := &kvrpcpb.PrewriteRequest{Mutations: []*kvrpcpb.Mutation{{Op: kvrpcpb.Op_Put, Key: k, Value: []byte("pv")}},
				PrimaryLock: primary, StartVersion: res.StartTS, LockTtl: 20000}
			resp, err := store.SendReq(bo, tikvrpc.NewRequest(tikvrpc.CmdPrewrite, preq), loc.Region, time.Second*10)
			if err != nil {
				panic(err)
			}
			if pr := resp.Resp.(*kvrpcpb.PrewriteResponse); len(pr.Errors) > 0 || pr.RegionError != nil {
				panic(fmt.Sprint("prewrite: ", pr))
			}
		}
		start, end := keys[0], keys[len(keys)-1]
		res.PStart, res.PEnd = hex.EncodeToString(start), hex.EncodeToString(end)
		commit := tc.End == "commit"
		if commit {
			cts, err := store.CurrentTimestamp("global")
			if err != nil {
				panic(err)
			}
			committer.SetCommitTS(cts)
			res.CommitTS = cts
		}
		committer.ResolveFlushedLocks(retry.NewBackofferWithVars(ctx, 40000, nil), start, end, commit)
	} else {
		for _, op := range tc.Ops {
			var err error
			name := op[0].(string)
			r := map[string]any{"op": name}
			switch name {
			case "set":
				touched[op[1].(string)] = true
				err = txn.Set(unhex(op[1].(string)), unhex(op[2].(string)))
			case "del":
				touched[op[1].(string)] = true
				err = txn.Delete(unhex(op[1].(string)))
			case "insert":
				touched[op[1].(string)] = true
				err = txn.GetMemBuffer().SetWithFlags(unhex(op[1].(string)), unhex(op[2].(string)), kv.SetPresumeKeyNotExists)
			case "get":
				var e kv.ValueEntry
				e, err = txn.Get(ctx, unhex(op[1].(string)))
				if err == nil {
					r["v"] = hex.EncodeToString(e.Value)
				} else if tikverr.IsErrNotFound(err) {
					r["v"], err = nil, nil
				}
			case "bget":
				keys := [][]byte{}
				for _, k := range op[1].([]interface{}) {
					keys = append(keys, unhex(k.(string)))
				}
				var m map[string]kv.ValueEntry
				m, err = txn.BatchGet(ctx, keys)
				hm := map[string]string{}
				for k, e := range m {
					hm[hex.EncodeToString([]byte(k))] = hex.EncodeToString(e.Value)
				}
				r["m"] = hm
			case "flush":
				if _, err = txn.GetMemBuffer().Flush(true); err == nil {
					err = txn.GetMemBuffer().FlushWait()
				}
				r["ttl_running"] = committer.IsTTLRunning()
				// every lock the transaction holds must point to its one primary
				prims := map[string]bool{}
				if locks, lerr := mvcc.ScanLock(nil, nil, math.MaxUint64); lerr == nil {
					for _, l := range locks {
						if l.LockVersion == res.StartTS {
							prims[hex.EncodeToString(l.PrimaryLock)] = true
						}
					}
				}
				pl := []string{}
				for k := range prims {
					pl = append(pl, k)
				}
				sort.Strings(pl)
				r["lock_primaries"] = pl
			case "flushnw":
				_, err = txn.GetMemBuffer().Flush(true)
			case "split":
				sh.mu.Lock()
				sh.splitAt(unhex(op[1].(string)))
				sh.mu.Unlock()
			}
			if err != nil {
				r["err"] = err.Error()
			} else {
				r["err"] = nil
			}
			sh.mu.Lock()
			if len(sh.refusedNow) > 0 {
				r["refused"] = append([]string{}, sh.refusedNow...)
				sh.refusedNow = nil
			}
			sh.mu.Unlock()
			res.Results = append(res.Results, r)
		}
		err = nil
		switch tc.End {
		case "commit":
			cctx, cancel := context.WithCancel(ctx)
			if tc.Cancel == "rpc" {
				sh.mu.Lock()
				sh.cancelAt, sh.cancelFn = tc.CancelAtRPC, cancel
				sh.mu.Unlock()
			}
			err = txn.Commit(cctx)
			if tc.Cancel == "after" {
				cancel()
			}
			defer cancel()
			res.CommitTS = committer.GetCommitTS()
		case "rollback":
			err = txn.Rollback()
		case "crash":
			// the client is gone: no commit, no rollback, no keep-alive; a second client (own store object, plain mock
			// client) resolves whatever it finds the way GC does (status of the primary decides)
			txn.GetMemBuffer().FlushWait()
			committer.CloseTTLManager()
			store2, err2 := tikv.NewTestTiKVStore(mocktikv.NewRPCClient(cluster, mvcc, nil), mocktikv.NewPDClient(cluster), nil, nil, 0)
			if err2 != nil {
				panic(err2)
			}
			sp, err2 := store2.CurrentTimestamp("global")
			if err2 != nil {
				panic(err2)
			}
			if err2 = (tikv.StoreProbe{KVStore: store2}).GCResolveLockPhase(ctx, sp, 2); err2 != nil {
				res.GCErr = err2.Error()
			}
		}
		if err != nil {
			res.EndErr = err.Error()
		}
		sh.mu.Lock()
		res.EndRefused = append([]string{}, sh.refusedNow...)
		sh.mu.Unlock()
		ps, pe := committer.VerifPipelinedBounds()
		res.PStart, res.PEnd = hex.EncodeToString(ps), hex.EncodeToString(pe)
		res.Primary = hex.EncodeToString(committer.GetPrimaryKey())
		res.TTLEnd = committer.IsTTLRunning()
	}
	// wait for the background resolve: until no lock of the txn is left or the settle time is over
	settle := time.Duration(tc.SettleMs) * time.Millisecond
	t0 := time.Now()
	for {
		locks, err := mvcc.ScanLock(nil, nil, math.MaxUint64)
		if err != nil {
			panic(err)
		}
		res.LocksLeft = res.LocksLeft[:0]
		for _, l := range locks {
			if l.LockVersion == res.StartTS {
				res.LocksLeft = append(res.LocksLeft, hex.EncodeToString(l.Key))
			}
		}
		if len(res.LocksLeft) == 0 || time.Since(t0) > settle {
			break
		}
		time.Sleep(5 * time.Millisecond)
	}
	res.SettledMs = time.Since(t0).Milliseconds()
	// let a resolve that is still running over later (lock free) regions finish: wait until the record is stable
	for n, stable := -1, 0; stable < 4; {
		time.Sleep(5 * time.Millisecond)
		sh.mu.Lock()
		m := len(sh.resolves)
		sh.mu.Unlock()
		if m == n {
			stable++
		} else {
			n, stable = m, 0
		}
	}
	sh.mu.Lock()
	res.Flushes = append(res.Flushes, sh.flushes...)
	res.Resolves = append(res.Resolves, sh.resolves...)
	res.Served = append([][2]*string{}, sh.served...)
	res.SnapFlushed = append([]string{}, sh.snapFlushed...)
	for k := range sh.bounds {
		res.Regions = append(res.Regions, hex.EncodeToString([]byte(k)))
	}
	sort.Strings(res.Regions)
	sh.mu.Unlock()
	for k := range touched {
		v, err := mvcc.Get(unhex(k), math.MaxUint64-1, kvrpcpb.IsolationLevel_SI, nil)
		if err != nil {
			res.Final[k] = "err:" + err.Error()
		} else if v == nil {
			res.Final[k] = "nf"
		} else {
			res.Final[k] = hex.EncodeToString(v)
		}
	}
	return res
}

func main() {
	if len(os.Args) < 2 {
		fmt.Fprintln(os.Stderr, "usage: pipelinedtxn <cases.json>")
		os.Exit(2)
	}
	log.ReplaceGlobals(zap.NewNop(), nil)
	if os.Getenv("C16_ASYNC_BATCHGET") == "1" {
		// process wide switch: BatchGet over several regions goes through the async client API
		config.UpdateGlobal(func(c *config.Config) { c.EnableAsyncBatchGet = true })
	}
	raw, err := os.ReadFile(os.Args[1])
	if err != nil {
		panic(err)
	}
	var cases []testCase
	if err := json.Unmarshal(raw, &cases); err != nil {
		panic(err)
	}
	enc := json.NewEncoder(os.Stdout)
	// cases are independent (fresh store each): run a few in parallel to hide the settle waits
	par := 8
	out := make([]result, len(cases))
	var wg sync.WaitGroup
	sem := make(chan struct{}, par)
	for i := range cases {
		wg.Add(1)
		sem <- struct{}{}
		go func(i int) {
			defer wg.Done()
			defer func() { <-sem }()
			out[i] = runCase(cases[i])
		}(i)
	}
	wg.Wait()
	for i := range out {
		enc.Encode(out[i])
	}
}
