//go:build verif

// C16 driver (1): internal/unionstore.PipelinedMemDB against a scripted flush function and a scripted
// store-tier getter. Usage: pipelined <casefile>. The case file holds CASE / op / END lines (see checks/C16.py);
// the driver echoes every op with what the implementation returned (OP ... => ...).
package main

import (
	"bufio"
	"context"
	stderrors "errors"
	"encoding/hex"
	"fmt"
	"os"
	"runtime"
	"sort"
	"strconv"
	"strings"
	"sync"
	"sync/atomic"
	"time"

	"github.com/pingcap/errors"
	"github.com/pingcap/kvproto/pkg/kvrpcpb"
	"github.com/pingcap/log"
	"go.uber.org/zap"
	tikverr "github.com/tikv/client-go/v2/error"
	"github.com/tikv/client-go/v2/internal/unionstore"
	"github.com/tikv/client-go/v2/kv"
)

type flushCall struct {
	gen  uint64
	ops  []int       // op the flush callback of txn.go gives the mutation: 0 Put 1 Del 2 Insert 3 CheckNotExists
	muts [][2]string // key, value (raw bytes as strings), in iteration order
}

type outcome struct {
	ok    bool
	exist []byte // non-nil: the flush fails with ErrKeyExist for this key
}

type harness struct {
	p        *unionstore.PipelinedMemDB
	store    map[string][]byte // buffer tier: what successful flushes wrote; empty value = delete record
	early    map[string][]byte // writes of the flush in flight that already reached the store
	calls    [][]string        // bufferBatchGetter invocations since the last reset
	enter    chan flushCall
	release  chan outcome
	running  int32
	maxRun   int32
	closed   bool // mirror of the flush callback's prologue/epilogue in txn.go (committer closed on first error)
	inflight bool
	cur      flushCall // the flush call in flight
	pendExist *string  // an ErrKeyExist(key) failure was scripted and not yet reported: expected Value ("" = key absent)
	plines   []string  // implementation oracle lines (P ...)
	limit    uint64
	opsLine  string // (key, op) list of the flush call that has just started
	havePrimary bool
	handles  []int
}

func hx(b []byte) string {
	if len(b) == 0 {
		return "_"
	}
	return hex.EncodeToString(b)
}
func unhex(s string) []byte {
	if s == "_" || s == "-" {
		return []byte{}
	}
	b, err := hex.DecodeString(s)
	if err != nil {
		panic(err)
	}
	return b
}

func newHarness(minKeys, minSize, force uint64) *harness {
	h := &harness{store: map[string][]byte{}, early: map[string][]byte{}, enter: make(chan flushCall, 1), release: make(chan outcome)}
	getter := func(ctx context.Context, keys [][]byte) (map[string]kv.ValueEntry, error) {
		c := make([]string, 0, len(keys))
		m := map[string]kv.ValueEntry{}
		for _, k := range keys {
			c = append(c, string(k))
			v, ok := h.early[string(k)]
			if !ok {
				v, ok = h.store[string(k)]
			}
			if ok {
				if len(v) == 0 {
					// the buffer tier returns a delete record as an entry with an empty (protobuf: nil) value
					m[string(k)] = kv.NewValueEntry(nil, 0)
				} else {
					m[string(k)] = kv.NewValueEntry(append([]byte{}, v...), 0)
				}
			}
		}
		h.calls = append(h.calls, c)
		return m, nil
	}
	flushFn := func(gen uint64, db *unionstore.MemDB) error {
		n := atomic.AddInt32(&h.running, 1)
		for {
			old := atomic.LoadInt32(&h.maxRun)
			if n <= old || atomic.CompareAndSwapInt32(&h.maxRun, old, n) {
				break
			}
		}
		closedAtStart := h.closed
		call := flushCall{gen: gen}
		for it := db.IterWithFlags(nil, nil); it.Valid(); it.Next() {
			v := ""
			if it.HasValue() {
				v = string(it.Value())
			}
			call.muts = append(call.muts, [2]string{string(it.Key()), v})
			op := 0
			if len(v) == 0 {
				op = 1
			}
			if it.Flags().HasPresumeKeyNotExists() {
				op += 2
			}
			call.ops = append(call.ops, op)
		}
		h.enter <- call
		o := <-h.release
		// mirror of txn.go / handleSingleBatch: the primary is the first mutation that writes a lock; while there is none every
		// batch is refused ("primary key should be set before pipelined flush")
		noprim := false
		if !closedAtStart && !h.havePrimary && len(call.muts) > 0 {
			noprim = true
			for _, op := range call.ops {
				if op != 3 {
					noprim = false
				}
			}
			if !noprim {
				h.havePrimary = true
			}
		}
		eff := o.ok && !closedAtStart && !noprim
		if eff {
			for i, m := range call.muts {
				if call.ops[i] != 3 { // CheckNotExists writes no lock
					h.store[m[0]] = []byte(m[1])
				}
			}
		} else {
			h.closed = true
			// what already reached the store stays there (locks of a failed flush)
			for k, v := range h.early {
				h.store[k] = v
			}
		}
		h.early = map[string][]byte{}
		atomic.AddInt32(&h.running, -1)
		if eff {
			return nil
		}
		if o.exist != nil && !closedAtStart { // a closed committer answers "ttl manager is closed" before any RPC
			return errors.WithStack(&tikverr.ErrKeyExist{AlreadyExist: &kvrpcpb.AlreadyExist{Key: o.exist}})
		}
		return errors.New("scripted flush failure")
	}
	h.p = unionstore.NewPipelinedMemDB(getter, flushFn)
	h.p.VerifPipelinedSetFlushOption(minKeys, minSize, force)
	return h
}

func (h *harness) fmtCalls() string {
	if len(h.calls) == 0 {
		return "-"
	}
	parts := []string{}
	for _, c := range h.calls {
		if len(c) == 0 {
			parts = append(parts, "()")
			continue
		}
		ks := []string{}
		for _, k := range c {
			ks = append(ks, hex.EncodeToString([]byte(k)))
		}
		parts = append(parts, strings.Join(ks, ","))
	}
	return strings.Join(parts, ";")
}

// complete lets the running flush function return and waits until the goroutine has published the result
// (spin=false when a concurrent Flush/FlushWait is blocked on errCh: its receive is the synchronisation, and
// Flush may set onFlushing again at once)
func (h *harness) complete(ok bool, spin bool) {
	h.completeWith(outcome{ok: ok}, spin)
}

func (h *harness) completeWith(o outcome, spin bool) {
	if !h.inflight {
		return
	}
	if o.exist != nil && !h.closed {
		exp := ""
		for _, m := range h.cur.muts {
			if m[0] == string(o.exist) {
				exp = "v:" + m[1]
			}
		}
		h.pendExist = &exp
	}
	h.release <- o
	for spin && h.p.OnFlushing() {
		runtime.Gosched()
	}
	h.inflight = false
}

// handleAlreadyExistErr: an ErrKeyExist coming out of the flush function is reported with the value the failed flush
// was writing for that key
func (h *harness) checkExist(err error) {
	if h.pendExist == nil {
		return
	}
	exp := *h.pendExist
	h.pendExist = nil
	var ke *tikverr.ErrKeyExist
	if !stderrors.As(err, &ke) {
		h.plines = append(h.plines, "P\texisterr\tnot-an-ErrKeyExist:"+err.Error()+"\tfail")
		return
	}
	got := ""
	if ke.Value != nil {
		got = "v:" + string(ke.Value)
	}
	verdict := "pass"
	if got != exp {
		verdict = "fail"
	}
	h.plines = append(h.plines, fmt.Sprintf("P\texisterr\tkey=%x expected=%x got=%x\t%s", ke.GetKey(), exp, got, verdict))
}

// an ErrKeyExist is reported with the value it carries (absent and empty are not distinguished)
func existField(err error) string {
	var ke *tikverr.ErrKeyExist
	if err == nil || !stderrors.As(err, &ke) {
		return ""
	}
	return "\tX:" + hx(ke.Value)
}

func settle() {
	for i := 0; i < 50; i++ {
		runtime.Gosched()
	}
	time.Sleep(200 * time.Microsecond)
}

func fmtStarted(c flushCall) string {
	parts := []string{}
	for _, m := range c.muts {
		parts = append(parts, hex.EncodeToString([]byte(m[0]))+"="+hx([]byte(m[1])))
	}
	s := "-"
	if len(parts) > 0 {
		s = strings.Join(parts, ",")
	}
	return fmt.Sprintf("%d:%s", c.gen, s)
}

func (h *harness) exec(f []string) string {
	ctx := context.Background()
	h.calls = nil
	switch f[0] {
	case "set":
		if err := h.p.Set(unhex(f[1]), unhex(f[2])); err != nil {
			if err == tikverr.ErrCannotSetNilValue {
				return "errnil"
			}
			var tl *tikverr.ErrEntryTooLarge
			if stderrors.As(err, &tl) {
				return "errlarge"
			}
			return "err:" + err.Error()
		}
		return "ok"
	case "insert":
		if err := h.p.SetWithFlags(unhex(f[1]), unhex(f[2]), kv.SetPresumeKeyNotExists); err != nil {
			if err == tikverr.ErrCannotSetNilValue {
				return "errnil"
			}
			return "err:" + err.Error()
		}
		return "ok"
	case "del":
		if err := h.p.Delete(unhex(f[1])); err != nil {
			return "err:" + err.Error()
		}
		return "ok"
	case "get", "getlocal":
		var v []byte
		var err error
		if f[0] == "get" {
			var e kv.ValueEntry
			e, err = h.p.Get(ctx, unhex(f[1]))
			v = e.Value
		} else {
			v, err = h.p.GetLocal(ctx, unhex(f[1]))
		}
		if err != nil {
			if tikverr.IsErrNotFound(err) {
				return "nf\t" + h.fmtCalls()
			}
			return "err:" + err.Error()
		}
		return hx(v) + "\t" + h.fmtCalls()
	case "bget":
		keys := [][]byte{}
		if f[1] != "-" {
			for _, k := range strings.Split(f[1], ",") {
				keys = append(keys, unhex(k))
			}
		}
		m, err := h.p.BatchGet(ctx, keys)
		if err != nil {
			return "err:" + err.Error()
		}
		ks := make([]string, 0, len(m))
		for k := range m {
			ks = append(ks, k)
		}
		sort.Strings(ks)
		parts := []string{}
		for _, k := range ks {
			parts = append(parts, hex.EncodeToString([]byte(k))+"="+hx(m[k].Value))
		}
		s := "-"
		if len(parts) > 0 {
			s = strings.Join(parts, ",")
		}
		return s + "\t" + h.fmtCalls()
	case "flush":
		force := f[1] == "1"
		wo := f[3] == "1"
		willWait := h.inflight && h.p.VerifPipelinedHasFlushing() && !h.p.VerifPipelinedIsStaging() && (force || h.p.VerifPipelinedNeedFlush())
		type res struct {
			t   bool
			err error
		}
		done := make(chan res, 1)
		go func() { t, err := h.p.Flush(force); done <- res{t, err} }()
		if willWait {
			settle() // Flush is now blocked on errCh; a second invocation of the flush function would show in maxRun
			h.complete(wo, false)
		}
		r := <-done
		status := "0"
		if r.err != nil {
			status = "1"
			if strings.Contains(r.err.Error(), "stages unreleased") {
				status = "2"
			} else {
				h.checkExist(r.err)
			}
		}
		started := "-"
		if r.t {
			c := <-h.enter
			h.inflight = true
			h.cur = c
			started = fmtStarted(c)
			parts := []string{}
			for i, m := range c.muts {
				parts = append(parts, fmt.Sprintf("%s:%d", hex.EncodeToString([]byte(m[0])), c.ops[i]))
			}
			h.opsLine = "-"
			if len(parts) > 0 {
				h.opsLine = strings.Join(parts, ",")
			}
		}
		t := "0"
		if r.t {
			t = "1"
		}
		return t + "\t" + status + "\t" + started + existField(r.err)
	case "complete":
		h.complete(f[1] == "1", true)
		return "ok"
	case "completeexist":
		h.completeWith(outcome{ok: false, exist: unhex(f[1])}, true)
		return "ok"
	case "storestep":
		i, _ := strconv.Atoi(f[1])
		if h.inflight && i < len(h.cur.muts) && h.cur.ops[i] != 3 {
			h.early[h.cur.muts[i][0]] = []byte(h.cur.muts[i][1])
		}
		return "ok"
	case "flushwait":
		willWait := h.inflight && h.p.VerifPipelinedHasFlushing()
		done := make(chan error, 1)
		go func() { done <- h.p.FlushWait() }()
		if willWait {
			settle()
			h.complete(f[1] == "1", false)
		}
		if err := <-done; err != nil {
			h.checkExist(err)
			return "err" + existField(err)
		}
		return "ok"
	case "staging":
		hd := h.p.Staging()
		h.handles = append(h.handles, hd)
		return strconv.Itoa(hd)
	case "release", "cleanup":
		if len(h.handles) == 0 {
			return "ok"
		}
		hd := h.handles[len(h.handles)-1]
		h.handles = h.handles[:len(h.handles)-1]
		if f[0] == "release" {
			h.p.Release(hd)
		} else {
			h.p.Cleanup(hd)
		}
		return "ok"
	case "len":
		return strconv.Itoa(h.p.Len())
	case "size":
		return strconv.Itoa(h.p.Size())
	}
	return "unknown-op"
}

// observation only (not part of the check): two goroutines Set while a third one flushes. The documented contract is ONE
// driving goroutine; this shows what the code does when it is broken: is there a guard that fails loudly?
func concurrencyObservation() {
	var got sync.Map
	var handed int64
	p := unionstore.NewPipelinedMemDB(func(ctx context.Context, keys [][]byte) (map[string]kv.ValueEntry, error) { return nil, nil },
		func(gen uint64, db *unionstore.MemDB) error {
			for it := db.IterWithFlags(nil, nil); it.Valid(); it.Next() {
				got.Store(string(it.Key()), true)
				atomic.AddInt64(&handed, 1)
			}
			return nil
		})
	const n = 20000
	var wg sync.WaitGroup
	panics := int64(0)
	for w := 0; w < 2; w++ {
		wg.Add(1)
		go func(w int) {
			defer wg.Done()
			defer func() {
				if x := recover(); x != nil {
					atomic.AddInt64(&panics, 1)
					fmt.Println("writer panic:", x)
				}
			}()
			for i := 0; i < n; i++ {
				p.Set([]byte(fmt.Sprintf("w%d-%06d", w, i)), []byte("v"))
			}
		}(w)
	}
	flushErrs := 0
	func() {
		defer func() {
			if x := recover(); x != nil {
				fmt.Println("flusher panic:", x)
			}
		}()
		for i := 0; i < 400; i++ {
			if _, err := p.Flush(true); err != nil {
				flushErrs++
			}
			runtime.Gosched()
		}
	}()
	wg.Wait()
	p.Flush(true)
	p.FlushWait()
	distinct := 0
	got.Range(func(_, _ any) bool { distinct++; return true })
	fmt.Printf("OBSERVATION writers=2 sets=%d distinct_keys_handed_to_flush=%d mutations_handed=%d flush_errors=%d panics=%d Len()=%d\n",
		2*n, distinct, handed, flushErrs, panics, p.Len())
}

func main() {
	if len(os.Args) >= 2 && os.Args[1] == "concurrency-observation" {
		concurrencyObservation()
		return
	}
	if len(os.Args) < 2 {
		fmt.Fprintln(os.Stderr, "usage: pipelined <casefile>")
		os.Exit(2)
	}
	log.ReplaceGlobals(zap.NewNop(), nil)
	fh, err := os.Open(os.Args[1])
	if err != nil {
		panic(err)
	}
	defer fh.Close()
	out := bufio.NewWriter(os.Stdout)
	defer out.Flush()
	sc := bufio.NewScanner(fh)
	sc.Buffer(make([]byte, 1<<20), 1<<26)
	var h *harness
	id := ""
	for sc.Scan() {
		f := strings.Split(sc.Text(), "\t")
		switch f[0] {
		case "":
		case "CASE":
			id = f[1]
			a, _ := strconv.ParseUint(f[2], 10, 64)
			b, _ := strconv.ParseUint(f[3], 10, 64)
			c, _ := strconv.ParseUint(f[4], 10, 64)
			h = newHarness(a, b, c)
			if len(f) > 5 {
				if lim, _ := strconv.ParseUint(f[5], 10, 64); lim > 0 {
					h.limit = lim
					h.p.SetEntrySizeLimit(lim, 0)
				}
			}
			fmt.Fprintln(out, strings.Join(f, "\t"))
		case "END":
			h.complete(true, true)
			fmt.Fprintf(out, "MAXRUN\t%s\t%d\n", id, atomic.LoadInt32(&h.maxRun))
			fmt.Fprintf(out, "END\t%s\n", id)
			h = nil
		default:
			var r string
			func() {
				defer func() {
					if x := recover(); x != nil {
						r = fmt.Sprintf("panic:%v", x)
					}
				}()
				args := f
				if f[0] == "flush" {
					// the model's op carries the observed memDB.Mem(): flush <force> <memsz> <wo>; the script has flush <force> <wo> <early>
					memsz := h.p.VerifPipelinedMutableMem()
					args = []string{"flush", f[1], strconv.FormatUint(memsz, 10), f[2], f[3]}
					r = h.exec(args)
					args = args[:4]
				} else {
					r = h.exec(f)
				}
				f = args
			}()
			tag := "OP"
			if f[0] == "set" && strings.HasPrefix(r, "errlarge") {
				tag = "X" // refused by the entry size limit: no effect, not an op of the model
			}
			fmt.Fprintf(out, "%s\t%s\t=>\t%s\n", tag, strings.Join(f, "\t"), r)
			if h.opsLine != "" {
				fmt.Fprintf(out, "OP\tflushops\t=>\t%s\n", h.opsLine)
				h.opsLine = ""
			}
			for _, pl := range h.plines {
				fmt.Fprintln(out, pl)
			}
			h.plines = nil
		}
	}
}
