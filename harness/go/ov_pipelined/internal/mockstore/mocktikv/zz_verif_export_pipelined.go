//go:build verif

package mocktikv

import (
	"github.com/pingcap/kvproto/pkg/kvrpcpb"
	"github.com/pingcap/goleveldb/leveldb/util"
)

// Add-only helper for the C16 driver (area Pipelined): the mock store has no Flush command; the driver's client shim
// runs a Flush as a Prewrite and, for a key the transaction already holds a lock on, rewrites the lock's op/value the
// way TiKV's Flush of a newer generation does. Nothing here changes existing behaviour.

// VerifPipelinedOverwriteLock replaces op and value of the lock that startTS holds on key; false if there is no such lock.
func (mvcc *MVCCLevelDB) VerifPipelinedOverwriteLock(key []byte, startTS uint64, op kvrpcpb.Op, value []byte) (bool, error) {
	mvcc.mu.Lock()
	defer mvcc.mu.Unlock()
	db := mvcc.getDB("")
	lockKey := mvccEncode(key, lockVer)
	iter := newIterator(db, &util.Range{Start: lockKey})
	defer iter.Release()
	dec := lockDecoder{expectKey: key}
	ok, err := dec.Decode(iter)
	if err != nil || !ok || dec.lock.startTS != startTS {
		return false, err
	}
	if op == kvrpcpb.Op_Insert {
		op = kvrpcpb.Op_Put
	}
	dec.lock.op = op
	dec.lock.value = value
	val, err := dec.lock.MarshalBinary()
	if err != nil {
		return false, err
	}
	return true, db.Put(lockKey, val, nil)
}
