//go:build verif

package unionstore

// Add-only accessors for the C16 driver (area Pipelined). Nothing here changes behaviour.

// VerifPipelinedSetFlushOption overrides the needFlush thresholds (normally set through failpoints).
func (p *PipelinedMemDB) VerifPipelinedSetFlushOption(minKeys, minSize, force uint64) {
	p.flushOption = flushOption{MinFlushKeys: minKeys, MinFlushMemSize: minSize, ForceFlushMemSizeThreshold: force}
}

// VerifPipelinedMutableMem is memDB.Mem(), the quantity needFlush compares with the thresholds.
func (p *PipelinedMemDB) VerifPipelinedMutableMem() uint64 { return p.memDB.Mem() }

// VerifPipelinedNeedFlush calls the real needFlush (used by the driver only to know whether Flush will block).
func (p *PipelinedMemDB) VerifPipelinedNeedFlush() bool { return p.needFlush() }

// VerifPipelinedHasFlushing reports flushingMemDB != nil.
func (p *PipelinedMemDB) VerifPipelinedHasFlushing() bool { return p.flushingMemDB != nil }

// VerifPipelinedIsStaging reports memDB.IsStaging().
func (p *PipelinedMemDB) VerifPipelinedIsStaging() bool { return p.memDB.IsStaging() }

// VerifPipelinedGeneration returns the generation counter.
func (p *PipelinedMemDB) VerifPipelinedGeneration() uint64 { return p.generation }
