//go:build verif

// pipelinedtxn: run whole pipelined transactions of tikv/client-go on tidb's unistore,
// driven by a JSON case file; prints one JSON line per case with everything observed.
package main

import (
	"bytes"
	"context"
	"encoding/hex"
	"encoding/json"
	"fmt"
	"math"
	"os"
	"runtime/debug"
	"sort"
	"strconv"
	"sync"
	"time"

	"github.com/pingcap/kvproto/pkg/kvrpcpb"
	"github.com/pingcap/tidb/pkg/store/mockstore/unistore"
	"github.com/pingcap/tidb/pkg/util/logutil"
	tikverr "github.com/tikv/client-go/v2/error"
	"github.com/tikv/client-go/v2/kv"
	"github.com/tikv/client-go/v2/oracle"
	"github.com/tikv/client-go/v2/tikv"
	"github.com/tikv/client-go/v2/tikvrpc"
	"github.com/tikv/client-go/v2/txnkv/transaction"
	"github.com/tikv/client-go/v2/util/async"
	"github.com/tikv/client-go/v2/util/codec"
	pd "github.com/tikv/pd/client"
	"github.com/tikv/pd/client/constants"
)

type caseT struct {
	ID       string              `json:"id"`
	Splits   []string            `json:"splits"`
	Pre      [][]string          `json:"pre"`
	Ops      [][]json.RawMessage `json:"ops"`
	End      string              `json:"end"`
	SettleMs int                 `json:"settle_ms"`
	// [[i, key]]: split at key right before the i-th (1-based) Flush RPC of the case reaches the store
	RPCSplits [][]json.RawMessage `json:"rpc_splits"`
	// [[i, "split", key]]: split right before the i-th ResolveLock RPC (layout changes while the resolve runs)
	ResolveChanges [][]json.RawMessage `json:"resolve_changes"`
	// Flush RPCs number >= FailFlushFrom (1-based, 0 = never) are answered with an Abort key error
	FailFlushFrom int `json:"fail_flush_from"`
	// caller's context of Commit: "after" = cancelled right after Commit returns, "rpc" = while the CancelAtRPC-th ResolveLock is in flight
	Cancel      string `json:"cancel"`
	CancelAtRPC int    `json:"cancel_at_rpc"`
	// [[i, class]]: the i-th Flush RPC is refused by the "store" with a key error of the class, siblings are applied
	FlushRefuse [][]json.RawMessage `json:"flush_refuse"`
}

type flushRec struct {
	Gen  uint64      `json:"gen"`
	Muts [][2]string `json:"muts"`
	Ops  []int32     `json:"ops"`
}

type obj = map[string]any

// clientWrapper mirrors unistoreClientWrapper of /repo/integration_tests/async_commit_test.go.
type clientWrapper struct {
	*unistore.RPCClient
	mu       sync.Mutex
	cluster  *unistore.Cluster
	flushes  []flushRec
	nFlush   int
	rpcSplit map[int][]byte
	bounds   map[string]bool
	pd       pd.Client
	served   [][2]*string
	nResolve int
	resolveSplit  map[int][][]byte
	failFlushFrom int
	cancelAt      int
	cancelFn      context.CancelFunc
	flushRefuse   map[int]string
	refusedNow    []string
}

// splitAt splits the region containing key at key (no-op if key is already a region start); c.mu held
func (c *clientWrapper) splitAt(key []byte) {
	if c.bounds[string(key)] {
		return
	}
	c.bounds[string(key)] = true
	r, _, _, _ := c.cluster.GetRegionByKey(codec.EncodeBytes(nil, key))
	if r == nil {
		panic("split: no region for key " + hx(key))
	}
	nid, pid := c.cluster.AllocID(), c.cluster.AllocID()
	c.cluster.Split(r.Id, nid, key, []uint64{pid}, pid)
}

func (c *clientWrapper) SendRequest(ctx context.Context, addr string, req *tikvrpc.Request, timeout time.Duration) (*tikvrpc.Response, error) {
	if req.Type == tikvrpc.CmdFlush {
		fr := req.Flush()
		rec := flushRec{Gen: fr.Generation}
		for _, m := range fr.Mutations {
			rec.Muts = append(rec.Muts, [2]string{hx(m.Key), hx(m.Value)})
			rec.Ops = append(rec.Ops, int32(m.Op))
		}
		c.mu.Lock()
		c.flushes = append(c.flushes, rec)
		c.nFlush++
		if k, ok := c.rpcSplit[c.nFlush]; ok {
			c.splitAt(k)
		}
		lost := c.failFlushFrom > 0 && c.nFlush >= c.failFlushFrom
		refuse, refused := c.flushRefuse[c.nFlush]
		if refused {
			c.refusedNow = append(c.refusedNow, refuse)
		}
		c.mu.Unlock()
		if refused {
			k := fr.Mutations[0].Key
			ke := &kvrpcpb.KeyError{}
			switch refuse {
			case "assertion":
				ke.AssertionFailed = &kvrpcpb.AssertionFailed{StartTs: fr.StartTs, Key: k, Assertion: kvrpcpb.Assertion_Exist}
			case "conflict":
				ke.Conflict = &kvrpcpb.WriteConflict{StartTs: fr.StartTs, ConflictTs: fr.StartTs + 1, ConflictCommitTs: fr.StartTs + 2, Key: k, Primary: fr.PrimaryKey}
			default:
				ke.AlreadyExist = &kvrpcpb.AlreadyExist{Key: k}
			}
			return &tikvrpc.Response{Resp: &kvrpcpb.FlushResponse{Errors: []*kvrpcpb.KeyError{ke}}}, nil
		}
		if lost {
			return &tikvrpc.Response{Resp: &kvrpcpb.FlushResponse{Errors: []*kvrpcpb.KeyError{{Abort: "injected: store lost"}}}}, nil
		}
	}
	if req.Type == tikvrpc.CmdResolveLock && req.ResolveLock().StartVersion != 0 && len(req.ResolveLock().TxnInfos) == 0 {
		// layout changes and ResolveLock serving are serialised so that the recorded range is the range of the region
		// at the moment it answered
		c.mu.Lock()
		defer c.mu.Unlock()
		c.nResolve++
		for _, k := range c.resolveSplit[c.nResolve] {
			c.splitAt(k)
		}
		if c.cancelFn != nil && c.cancelAt > 0 && c.nResolve == c.cancelAt {
			c.cancelFn()
		}
		var st string
		var en *string
		r := c.cluster.GetRegion(req.Context.GetRegionId())
		if r != nil {
			if len(r.StartKey) > 0 {
				if _, raw, err := codec.DecodeBytes(r.StartKey, nil); err == nil {
					st = hx(raw)
				}
			}
			if len(r.EndKey) > 0 {
				if _, raw, err := codec.DecodeBytes(r.EndKey, nil); err == nil {
					e := hx(raw)
					en = &e
				}
			}
		}
		resp, err := c.RPCClient.SendRequest(ctx, addr, req, timeout)
		if err == nil && r != nil && resp.Resp != nil && resp.Resp.(*kvrpcpb.ResolveLockResponse).RegionError == nil {
			c.served = append(c.served, [2]*string{&st, en})
		}
		return resp, err
	}
	return c.RPCClient.SendRequest(ctx, addr, req, timeout)
}

func (c *clientWrapper) SendRequestAsync(ctx context.Context, addr string, req *tikvrpc.Request, cb async.Callback[*tikvrpc.Response]) {
	go func() { cb.Schedule(c.SendRequest(ctx, addr, req, tikv.ReadTimeoutShort)) }()
}
func (c *clientWrapper) SetEventListener(tikv.ClientEventListener) {}

func unhex(s string) []byte {
	b, err := hex.DecodeString(s)
	if err != nil {
		panic(fmt.Sprintf("bad hex %q: %v", s, err))
	}
	return b
}

func hx(b []byte) string { return hex.EncodeToString(b) }
func errv(err error) any {
	if err == nil {
		return nil
	}
	return err.Error()
}

func rawStr(r json.RawMessage) string {
	var s string
	if err := json.Unmarshal(r, &s); err != nil {
		panic(fmt.Sprintf("expected string, got %s", string(r)))
	}
	return s
}

// newStore builds a fresh unistore-backed KVStore (as NewTestUniStore does) with the
// key space pre-split at the given (sorted) user keys.
func newStore(splits [][]byte) (*tikv.KVStore, *clientWrapper, error) {
	client, pdClient, cluster, err := unistore.New("", nil, constants.NullKeyspaceID, nil)
	if err != nil {
		return nil, nil, err
	}
	_, _, regionID := unistore.BootstrapWithSingleStore(cluster)
	for _, k := range splits { // ascending: always split the right-most region
		newRegion, newPeer := cluster.AllocID(), cluster.AllocID()
		cluster.Split(regionID, newRegion, k, []uint64{newPeer}, newPeer)
		regionID = newRegion
	}
	w := &clientWrapper{RPCClient: client, cluster: cluster, rpcSplit: map[int][]byte{}, bounds: map[string]bool{}, pd: pdClient,
		resolveSplit: map[int][][]byte{}}
	for _, k := range splits {
		w.bounds[string(k)] = true
	}
	store, err := tikv.NewTestTiKVStore(w, pdClient, nil, nil, 0)
	return store, w, err
}

// KVStore.Close blocks ~5 s after every pipelined txn: the async resolve task sleeps
// broadcastGracePeriod (5 s, a const) before broadcasting the txn status, and Close waits for
// the store's WaitGroup. So stores are closed in the background (at most $PIPELINED_CLOSE_PAR
// pending, default 32; a live store costs ~110 MB RSS) and main waits for them before exiting.
var (
	closeSem chan struct{}
	closeWG  sync.WaitGroup
)

func closeLater(store *tikv.KVStore) {
	closeSem <- struct{}{}
	closeWG.Add(1)
	go func() {
		defer func() { recover(); <-closeSem; closeWG.Done() }()
		store.Close()
	}()
}

// scanLocks sends one raw ScanLock per region over the whole key space (walking the region
// cache) and returns all locks and the number of regions visited. It never resolves a lock.
func scanLocks(store *tikv.KVStore) ([]*kvrpcpb.LockInfo, int, error) {
	ctx, cancel := context.WithTimeout(context.Background(), 10*time.Second)
	defer cancel()
	bo := tikv.NewBackofferWithVars(ctx, 10000, nil)
	var out []*kvrpcpb.LockInfo
	key, regions := []byte{}, 0
	for {
		loc, err := store.GetRegionCache().LocateKey(bo, key)
		if err != nil {
			return nil, 0, err
		}
		req := tikvrpc.NewRequest(tikvrpc.CmdScanLock, &kvrpcpb.ScanLockRequest{
			MaxVersion: math.MaxUint64, Limit: 1 << 20, StartKey: key, EndKey: loc.EndKey,
		})
		resp, err := store.SendReq(bo, req, loc.Region, tikv.ReadTimeoutMedium)
		if err != nil {
			return nil, 0, err
		}
		regionErr, err := resp.GetRegionError()
		if err != nil {
			return nil, 0, err
		}
		if regionErr != nil {
			if err := bo.Backoff(tikv.BoRegionMiss(), fmt.Errorf("%s", regionErr.String())); err != nil {
				return nil, 0, err
			}
			continue
		}
		r, ok := resp.Resp.(*kvrpcpb.ScanLockResponse)
		if !ok || r == nil {
			return nil, 0, fmt.Errorf("scanlock: unexpected response %T", resp.Resp)
		}
		if r.GetError() != nil {
			return nil, 0, fmt.Errorf("scanlock: %s", r.GetError().String())
		}
		out, regions = append(out, r.GetLocks()...), regions+1
		if len(loc.EndKey) == 0 {
			return out, regions, nil
		}
		key = loc.EndKey
	}
}

func runCase(c *caseT) (out obj) {
	out = obj{"id": c.ID}
	defer func() {
		if r := recover(); r != nil {
			fmt.Fprintf(os.Stderr, "case %s panic: %v\n%s\n", c.ID, r, debug.Stack())
			out = obj{"id": c.ID, "panic": fmt.Sprint(r)}
		}
	}()
	ctx := context.Background()
	tCase := time.Now()

	// keys mentioned anywhere (for the final read), in first-seen order
	var mentioned [][]byte
	seen := map[string]bool{}
	mention := func(k []byte) {
		if !seen[string(k)] {
			seen[string(k)] = true
			mentioned = append(mentioned, k)
		}
	}

	splits := make([][]byte, 0, len(c.Splits))
	for _, s := range c.Splits {
		splits = append(splits, unhex(s))
	}
	sort.Slice(splits, func(i, j int) bool { return bytes.Compare(splits[i], splits[j]) < 0 })

	store, wrap, err := newStore(splits)
	if err != nil {
		panic(fmt.Sprintf("newStore: %v", err))
	}
	for _, e := range c.RPCSplits {
		var i int
		if err := json.Unmarshal(e[0], &i); err != nil {
			panic(fmt.Sprintf("rpc_splits index: %v", err))
		}
		wrap.rpcSplit[i] = unhex(rawStr(e[1]))
	}
	for _, e := range c.ResolveChanges {
		var i int
		if err := json.Unmarshal(e[0], &i); err != nil {
			panic(fmt.Sprintf("resolve_changes index: %v", err))
		}
		if rawStr(e[1]) == "split" {
			wrap.resolveSplit[i] = append(wrap.resolveSplit[i], unhex(rawStr(e[2])))
		}
	}
	wrap.failFlushFrom = c.FailFlushFrom
	wrap.flushRefuse = map[int]string{}
	for _, e := range c.FlushRefuse {
		var i int
		if err := json.Unmarshal(e[0], &i); err != nil {
			panic(fmt.Sprintf("flush_refuse index: %v", err))
		}
		wrap.flushRefuse[i] = rawStr(e[1])
	}
	defer closeLater(store)
	_, n, err := scanLocks(store)
	if err != nil {
		panic(fmt.Sprintf("count regions: %v", err))
	}
	out["regions"] = n

	if len(c.Pre) > 0 {
		pre, err := store.Begin()
		if err != nil {
			panic(fmt.Sprintf("begin pre: %v", err))
		}
		for _, kv := range c.Pre {
			k := unhex(kv[0])
			mention(k)
			if err := pre.Set(k, unhex(kv[1])); err != nil {
				panic(fmt.Sprintf("pre set: %v", err))
			}
		}
		if err := pre.Commit(ctx); err != nil {
			panic(fmt.Sprintf("pre commit: %v", err))
		}
	}
	out["setup_ms"] = time.Since(tCase).Milliseconds()

	txn, err := store.Begin(tikv.WithDefaultPipelinedTxn())
	if err != nil {
		panic(fmt.Sprintf("begin pipelined: %v", err))
	}
	if !txn.IsPipelined() {
		panic("txn is not pipelined")
	}
	startTS := txn.StartTS()
	out["start_ts"] = startTS
	committer := transaction.TxnProbe{KVTxn: txn}.GetCommitter()

	results := make([]obj, 0, len(c.Ops))
	for _, op := range c.Ops {
		name := rawStr(op[0])
		r := obj{"op": name}
		switch name {
		case "set":
			k := unhex(rawStr(op[1]))
			mention(k)
			r["err"] = errv(txn.Set(k, unhex(rawStr(op[2]))))
		case "del":
			k := unhex(rawStr(op[1]))
			mention(k)
			r["err"] = errv(txn.Delete(k))
		case "insert":
			k := unhex(rawStr(op[1]))
			mention(k)
			r["err"] = errv(txn.GetMemBuffer().SetWithFlags(k, unhex(rawStr(op[2])), kv.SetPresumeKeyNotExists))
		case "get":
			k := unhex(rawStr(op[1]))
			mention(k)
			e, err := txn.Get(ctx, k)
			switch {
			case err == nil:
				r["v"], r["err"] = hx(e.Value), nil
			case tikverr.IsErrNotFound(err):
				r["v"], r["err"] = nil, nil
			default:
				r["v"], r["err"] = nil, err.Error()
			}
		case "bget":
			var hs []string
			if err := json.Unmarshal(op[1], &hs); err != nil {
				panic(fmt.Sprintf("bget keys: %v", err))
			}
			keys := make([][]byte, 0, len(hs))
			for _, h := range hs {
				k := unhex(h)
				mention(k)
				keys = append(keys, k)
			}
			m, err := txn.BatchGet(ctx, keys)
			hm := map[string]string{}
			for k, e := range m {
				hm[hx([]byte(k))] = hx(e.Value)
			}
			r["m"], r["err"] = hm, errv(err)
		case "flush", "flushnw":
			flushed, err := txn.GetMemBuffer().Flush(true)
			if err == nil && name == "flush" {
				err = txn.GetMemBuffer().FlushWait()
			}
			r["flushed"], r["err"] = flushed, errv(err)
			if name == "flush" {
				r["ttl_running"] = committer.IsTTLRunning()
				prims := map[string]bool{}
				if locks, _, lerr := scanLocks(store); lerr == nil {
					for _, l := range locks {
						if l.GetLockVersion() == startTS {
							prims[hx(l.GetPrimaryLock())] = true
						}
					}
				}
				pl := []string{}
				for k := range prims {
					pl = append(pl, k)
				}
				sort.Strings(pl)
				r["lock_primaries"] = pl
			}
		case "split":
			wrap.mu.Lock()
			wrap.splitAt(unhex(rawStr(op[1])))
			wrap.mu.Unlock()
			r["err"] = nil
		default:
			panic("unknown op " + name)
		}
		wrap.mu.Lock()
		if len(wrap.refusedNow) > 0 {
			r["refused"] = append([]string{}, wrap.refusedNow...)
			wrap.refusedNow = nil
		}
		wrap.mu.Unlock()
		results = append(results, r)
	}
	out["results"] = results

	tEnd := time.Now()
	switch c.End {
	case "commit":
		cctx, cancel := context.WithCancel(ctx)
		defer cancel()
		if c.Cancel == "rpc" {
			wrap.mu.Lock()
			wrap.cancelAt, wrap.cancelFn = c.CancelAtRPC, cancel
			wrap.mu.Unlock()
		}
		out["end_err"] = errv(txn.Commit(cctx))
		if c.Cancel == "after" {
			cancel()
		}
	case "rollback":
		out["end_err"] = errv(txn.Rollback())
	case "crash":
		// the client is gone: no commit, no rollback, no keep-alive; a second client resolves what it finds (GC style)
		txn.GetMemBuffer().FlushWait()
		committer.CloseTTLManager()
		out["end_err"] = nil
		store2, err2 := tikv.NewTestTiKVStore(&clientWrapper{RPCClient: wrap.RPCClient, cluster: wrap.cluster, rpcSplit: map[int][]byte{},
			bounds: map[string]bool{}, resolveSplit: map[int][][]byte{}}, wrap.pd, nil, nil, 0)
		if err2 != nil {
			panic(fmt.Sprintf("second store: %v", err2))
		}
		sp, err2 := store2.CurrentTimestamp(oracle.GlobalTxnScope)
		if err2 != nil {
			panic(fmt.Sprintf("second store ts: %v", err2))
		}
		if err2 = (tikv.StoreProbe{KVStore: store2}).GCResolveLockPhase(ctx, sp, 2); err2 != nil {
			out["gc_err"] = err2.Error()
		}
	case "none": // negative control: leave the txn open, its flushed locks must show up in locks_left
		out["end_err"] = nil
	default:
		panic("unknown end " + c.End)
	}
	wrap.mu.Lock()
	out["end_refused"] = append([]string{}, wrap.refusedNow...)
	wrap.mu.Unlock()
	out["commit_ts"] = txn.CommitTS()
	out["end_ms"] = time.Since(tEnd).Milliseconds()

	// Audit: poll ScanLock (which never resolves) until no lock of start_ts is left.
	settle := time.Duration(c.SettleMs) * time.Millisecond
	tAudit := time.Now()
	left := []string{}
	otherLocks, seenMax := 0, 0
	for {
		locks, _, err := scanLocks(store)
		if err != nil {
			panic(fmt.Sprintf("scanLocks: %v", err))
		}
		left, otherLocks = left[:0], 0
		for _, l := range locks {
			if l.GetLockVersion() == startTS {
				left = append(left, hx(l.GetKey()))
			} else {
				otherLocks++
			}
		}
		seenMax = max(seenMax, len(left))
		if len(left) == 0 || time.Since(tAudit) >= settle {
			break
		}
		time.Sleep(20 * time.Millisecond)
	}
	// the background resolve may still be visiting (lock free) regions: wait until the record of served regions is stable,
	// and for a first entry if the transaction flushed anything and was committed / rolled back
	ps, _ := committer.VerifPipelinedBounds()
	for n, stable, t0 := -1, 0, time.Now(); stable < 4; {
		time.Sleep(5 * time.Millisecond)
		wrap.mu.Lock()
		m := len(wrap.served)
		wrap.mu.Unlock()
		if m == 0 && len(ps) > 0 && (c.End == "commit" || c.End == "rollback") && time.Since(t0) < settle {
			continue
		}
		if m == n {
			stable++
		} else {
			n, stable = m, 0
		}
	}
	sort.Strings(left)
	out["locks_left"] = left
	out["other_locks"] = otherLocks
	out["locks_seen_max"] = seenMax // max number of start_ts locks seen by any single scan of the audit
	out["settled_ms"] = time.Since(tAudit).Milliseconds()

	// Final committed state at a fresh ts, AFTER the audit (these reads may resolve locks).
	ts, err := store.CurrentTimestamp(oracle.GlobalTxnScope)
	if err != nil {
		panic(fmt.Sprintf("current ts: %v", err))
	}
	snap := store.GetSnapshot(ts)
	final, finalErrs := map[string]any{}, map[string]string{}
	for _, k := range mentioned {
		rctx, cancel := context.WithTimeout(ctx, 30*time.Second)
		e, err := snap.Get(rctx, k)
		cancel()
		switch {
		case err == nil:
			final[hx(k)] = hx(e.Value)
		case tikverr.IsErrNotFound(err):
			final[hx(k)] = nil
		default:
			final[hx(k)] = nil
			finalErrs[hx(k)] = err.Error()
		}
	}
	out["final"] = final
	out["primary"] = hx(committer.GetPrimaryKey())
	out["ttl_running_end"] = committer.IsTTLRunning()
	wrap.mu.Lock()
	out["flushes"] = append([]flushRec{}, wrap.flushes...)
	regs := []string{}
	for k := range wrap.bounds {
		regs = append(regs, hx([]byte(k)))
	}
	sort.Strings(regs)
	out["region_splits"] = regs
	out["served"] = append([][2]*string{}, wrap.served...)
	wrap.mu.Unlock()
	if len(finalErrs) > 0 {
		out["final_errs"] = finalErrs
	}
	out["wall_ms"] = time.Since(tCase).Milliseconds()
	return out
}

func die(code int, a ...any) {
	fmt.Fprintln(os.Stderr, a...)
	os.Exit(code)
}

func main() {
	if len(os.Args) != 2 {
		die(2, "usage: pipelinedtxn <cases.json>")
	}
	// Silence zap (client-go and unistore log through pingcap/log's global logger). Done through
	// tidb's logutil so that this package has no direct import of pingcap/log or zap: a direct
	// import would make `go build -mod=mod` rewrite /repo/integration_tests/go.mod (indirect -> direct).
	if err := logutil.InitLogger(logutil.NewLogConfig("fatal", "text", "", "", logutil.EmptyFileLogConfig, false)); err != nil {
		fmt.Fprintln(os.Stderr, "init logger:", err)
	}
	par, _ := strconv.Atoi(os.Getenv("PIPELINED_CLOSE_PAR"))
	if par <= 0 {
		par = 32
	}
	closeSem = make(chan struct{}, par)
	data, err := os.ReadFile(os.Args[1])
	if err != nil {
		die(2, err)
	}
	var cases []caseT
	if err := json.Unmarshal(data, &cases); err != nil {
		die(2, "bad case file:", err)
	}
	enc := json.NewEncoder(os.Stdout)
	for i := range cases {
		if err := enc.Encode(runCase(&cases[i])); err != nil {
			die(1, "encode:", err)
		}
	}
	done := make(chan struct{})
	go func() { closeWG.Wait(); close(done) }()
	select {
	case <-done:
	case <-time.After(60 * time.Second):
		fmt.Fprintln(os.Stderr, "timeout waiting for stores to close")
	}
}
