//go:build verif

// Driver for property C05 on tidb/unistore (module integration_tests): the store honours committed_locks
// (read-through) and implements async commit and 1PC.  Histories are built with the public transaction
// API and the committer probe: committed (2PC / async commit / 1PC), primary committed with secondaries
// still locked (2PC and async commit), async-commit orphans (everything prewritten, nothing committed:
// the reader recovers the commit ts from the secondaries), TTL-expired 2PC, min-commit-ts pushable locks.
// Reads: Get / BatchGet / forward Iter (reverse scans on unistore return versions newer than the read
// ts — environment defect — and are not compared).  Same line protocol as internal/zz_verif/snapread;
// scan lines carry no RPC trace ("!").
package main

import (
	"bufio"
	"bytes"
	"context"
	"encoding/hex"
	"fmt"
	"math/rand"
	"os"
	"sort"
	"strconv"
	"strings"
	"sync"
	"sync/atomic"
	"time"

	"github.com/pingcap/failpoint"
	"github.com/pingcap/kvproto/pkg/kvrpcpb"
	"github.com/pingcap/log"
	"github.com/pingcap/tidb/pkg/store/mockstore/unistore"
	"github.com/tikv/client-go/v2/config"
	"github.com/tikv/client-go/v2/config/retry"
	tikverr "github.com/tikv/client-go/v2/error"
	"github.com/tikv/client-go/v2/oracle"
	"github.com/tikv/client-go/v2/testutils"
	"github.com/tikv/client-go/v2/tikv"
	"github.com/tikv/client-go/v2/tikvrpc"
	"github.com/tikv/client-go/v2/txnkv/transaction"
	"github.com/tikv/client-go/v2/txnkv/txnsnapshot"
	"github.com/tikv/client-go/v2/util"
	"github.com/tikv/client-go/v2/util/async"
	"github.com/tikv/client-go/v2/util/codec"
	"github.com/tikv/pd/client/constants"
)

var out *bufio.Writer

func hx(b []byte) string {
	if len(b) == 0 {
		return "-"
	}
	return hex.EncodeToString(b)
}
func hxs(ks [][]byte) string {
	if len(ks) == 0 {
		return "-"
	}
	s := make([]string, len(ks))
	for i, k := range ks {
		s[i] = hx(k)
	}
	return strings.Join(s, ",")
}
func u64s(v uint64) string { return strconv.FormatUint(v, 16) }
func must(err error) {
	if err != nil {
		panic(err)
	}
}
func clean(s string) string {
	s = strings.Map(func(r rune) rune {
		if r == '\t' || r == '\n' || r == ';' {
			return ' '
		}
		return r
	}, s)
	if len(s) > 120 {
		s = s[:120]
	}
	return s
}

type wrapper struct{ *unistore.RPCClient }

// dropResolve: ResolveLock RPCs are lost (the asynchronous lock resolution of a read does not land), so a
// leftover lock stays where it is while the reader goes on with its committed-lock / ignored-lock sets
var dropResolve atomic.Bool
var committedLocksSeen sync.Map // txn start ts -> true: seen in the committed_locks of a read request

func (c *wrapper) SendRequest(ctx context.Context, addr string, req *tikvrpc.Request, timeout time.Duration) (*tikvrpc.Response, error) {
	if dropResolve.Load() && req.Type == tikvrpc.CmdResolveLock {
		// answered with a key error (a send error would mark the only store unreachable)
		return &tikvrpc.Response{Resp: &kvrpcpb.ResolveLockResponse{Error: &kvrpcpb.KeyError{Abort: "injected: resolve lock refused"}}}, nil
	}
	if req.Type == tikvrpc.CmdGet || req.Type == tikvrpc.CmdBatchGet || req.Type == tikvrpc.CmdScan {
		for _, t := range req.Context.GetCommittedLocks() {
			committedLocksSeen.Store(fmt.Sprintf("%d@%d", t, readVersion(req)), true)
		}
	}
	return c.RPCClient.SendRequest(ctx, addr, req, timeout)
}

func readVersion(req *tikvrpc.Request) uint64 {
	switch req.Type {
	case tikvrpc.CmdGet:
		return req.Get().Version
	case tikvrpc.CmdBatchGet:
		return req.BatchGet().Version
	case tikvrpc.CmdScan:
		return req.Scan().Version
	}
	return 0
}

func (c *wrapper) SendRequestAsync(ctx context.Context, addr string, req *tikvrpc.Request, cb async.Callback[*tikvrpc.Response]) {
	go func() { cb.Schedule(c.RPCClient.SendRequest(ctx, addr, req, tikv.ReadTimeoutShort)) }()
}
func (c *wrapper) SetEventListener(listener tikv.ClientEventListener) {}

const (
	kCommit = iota
	kOnePC
	kAsync
	kAsyncPrim   // async commit, primary committed by a direct Commit RPC, secondaries locked
	kTwoPCPrim   // 2PC, primary committed, secondaries locked
	kAsyncOrphan // async commit, all prewritten, nothing committed, TTL expired
	kExpired     // 2PC prewritten, TTL expired
	kPush        // 2PC prewritten, min commit ts set, long TTL
	nKinds
)

var kindName = []string{"commit", "1pc", "async", "async-primary", "2pc-primary", "async-orphan", "expired", "pushable"}

var alphabet = [][]byte{[]byte("a"), []byte("a\x00"), []byte("ab"), []byte("b"), []byte("b\xff"), []byte("c"), []byte("cc"), []byte("d"),
	[]byte("e"), []byte("f"), []byte("g"), []byte("g\x00"), []byte("h"), []byte("m"), []byte("z")}

type primTxn struct {
	start, commit uint64
	secondaries   [][]byte
}

type env struct {
	store   *tikv.KVStore
	cluster testutils.Cluster
	keys    [][]byte
	r       *rand.Rand
	hid     int
	desc    []string
	prims   []primTxn // transactions whose primary is committed and whose secondaries are still locked
}

func (e *env) split(k []byte) {
	r, _, _, _ := e.cluster.GetRegionByKey(codec.EncodeBytes(nil, k))
	if r == nil || string(r.StartKey) == string(codec.EncodeBytes(nil, k)) {
		return
	}
	nr, np := e.cluster.AllocID(), e.cluster.AllocID()
	e.cluster.Split(r.Id, nr, k, []uint64{np}, np)
}

func (e *env) ts() uint64 {
	v, err := e.store.CurrentTimestamp(oracle.GlobalTxnScope)
	must(err)
	return v
}

func (e *env) commitPrimary(primary []byte, start uint64) uint64 {
	bo := retry.NewBackofferWithVars(context.Background(), 5000, nil)
	cts := e.ts()
	for i := 0; i < 5; i++ {
		loc, err := e.store.GetRegionCache().LocateKey(bo, primary)
		must(err)
		req := tikvrpc.NewRequest(tikvrpc.CmdCommit, &kvrpcpb.CommitRequest{StartVersion: start, Keys: [][]byte{primary}, CommitVersion: cts})
		resp, err := e.store.SendReq(bo, req, loc.Region, 5*time.Second)
		must(err)
		if re, _ := resp.GetRegionError(); re != nil {
			e.store.GetRegionCache().InvalidateCachedRegion(loc.Region)
			continue
		}
		if ke := resp.Resp.(*kvrpcpb.CommitResponse).Error; ke != nil {
			panic("commit primary: " + ke.String())
		}
		return cts
	}
	panic("commit primary: region errors")
}

func (e *env) build() (tsMid uint64) {
	r := e.r
	locked := map[string]bool{}
	ntx := 3 + r.Intn(8)
	mid := r.Intn(ntx)
	ctx := context.Background()
	for i := 0; i < ntx; i++ {
		if i == mid {
			tsMid = e.ts()
		}
		var free [][]byte
		for _, k := range e.keys {
			if !locked[string(k)] {
				free = append(free, k)
			}
		}
		if len(free) < 2 {
			break
		}
		kind := r.Intn(nKinds)
		if r.Intn(3) == 0 {
			kind = kCommit
		}
		n := 2 + r.Intn(2)
		p := r.Perm(len(free))
		if n > len(free) {
			n = len(free)
		}
		ks := make([][]byte, n)
		for j := range ks {
			ks[j] = free[p[j]]
		}
		txn, err := e.store.Begin()
		must(err)
		d := fmt.Sprintf("%s@%s[", kindName[kind], u64s(txn.StartTS()))
		for j, k := range ks {
			if r.Intn(4) == 0 {
				must(txn.Delete(k))
				d += hx(k) + ":D "
			} else {
				v := []byte(fmt.Sprintf("u%d.%d", i, j))
				must(txn.Set(k, v))
				d += hx(k) + ":P:" + hx(v) + " "
			}
		}
		e.desc = append(e.desc, d+"]")
		switch kind {
		case kCommit:
			must(txn.Commit(ctx))
		case kOnePC:
			txn.SetEnable1PC(true)
			must(txn.Commit(ctx))
		case kAsync:
			txn.SetEnableAsyncCommit(true)
			must(txn.Commit(ctx))
		default:
			tpc, err := transaction.TxnProbe{KVTxn: txn}.NewCommitter(0)
			must(err)
			tpc.SetPrimaryKey(ks[0])
			tpc.SetLockTTL(1)
			if kind == kAsyncPrim || kind == kAsyncOrphan {
				tpc.SetUseAsyncCommit()
			}
			if kind == kPush {
				tpc.SetLockTTL(3600 * 1000)
				tpc.SetMinCommitTS(txn.StartTS() + 1)
			}
			must(tpc.PrewriteAllMutations(ctx))
			first := 0
			if kind == kAsyncPrim || kind == kTwoPCPrim {
				c := e.commitPrimary(ks[0], txn.StartTS())
				e.prims = append(e.prims, primTxn{start: txn.StartTS(), commit: c, secondaries: ks[1:]})
				first = 1
			}
			for _, k := range ks[first:] {
				locked[string(k)] = true
			}
		}
	}
	if tsMid == 0 {
		tsMid = e.ts()
	}
	return
}

func (e *env) mvccInfo(k []byte) *kvrpcpb.MvccInfo {
	bo := retry.NewBackofferWithVars(context.Background(), 5000, nil)
	for i := 0; i < 5; i++ {
		loc, err := e.store.GetRegionCache().LocateKey(bo, k)
		must(err)
		req := tikvrpc.NewRequest(tikvrpc.CmdMvccGetByKey, &kvrpcpb.MvccGetByKeyRequest{Key: k})
		resp, err := e.store.SendReq(bo, req, loc.Region, 5*time.Second)
		must(err)
		if re, _ := resp.GetRegionError(); re != nil {
			e.store.GetRegionCache().InvalidateCachedRegion(loc.Region)
			continue
		}
		r := resp.Resp.(*kvrpcpb.MvccGetByKeyResponse)
		if r.Info == nil {
			return &kvrpcpb.MvccInfo{}
		}
		return r.Info
	}
	panic("mvcc get by key: region errors")
}

func (e *env) truthLines() []string {
	commitOf := func(primary []byte, start uint64) uint64 {
		for _, w := range e.mvccInfo(primary).Writes {
			if w.StartTs == start && w.Type != kvrpcpb.Op_Rollback {
				return w.CommitTs
			}
		}
		return 0
	}
	var lines []string
	for _, k := range e.keys {
		info := e.mvccInfo(k)
		var ws []string
		for _, w := range info.Writes {
			switch w.Type {
			case kvrpcpb.Op_Put:
				val := w.ShortValue
				for _, v := range info.Values {
					if v.StartTs == w.StartTs && len(v.Value) > 0 {
						val = v.Value
					}
				}
				ws = append(ws, u64s(w.CommitTs)+":P:"+hx(val))
			case kvrpcpb.Op_Del:
				ws = append(ws, u64s(w.CommitTs)+":D:-")
			}
		}
		if l := info.Lock; l != nil && (l.Type == kvrpcpb.Op_Put || l.Type == kvrpcpb.Op_Del) {
			if c := commitOf(l.Primary, l.StartTs); c > 0 {
				if l.Type == kvrpcpb.Op_Put {
					ws = append(ws, u64s(c)+":P:"+hx(l.ShortValue))
				} else {
					ws = append(ws, u64s(c)+":D:-")
				}
			}
		}
		s := "-"
		if len(ws) > 0 {
			s = strings.Join(ws, ",")
		}
		lines = append(lines, fmt.Sprintf("TRUTH\t%d\t%s\t%s", e.hid, hx(k), s))
	}
	return lines
}

func guard(f func() string) string {
	done := make(chan string, 1)
	go func() {
		defer func() {
			if r := recover(); r != nil {
				done <- "panic:" + clean(fmt.Sprint(r))
			}
		}()
		done <- f()
	}()
	select {
	case r := <-done:
		return r
	case <-time.After(30 * time.Second):
		return "err:hang"
	}
}

func doGet(s *txnsnapshot.KVSnapshot, k []byte) string {
	return guard(func() string {
		v, err := s.Get(context.Background(), k)
		if err != nil {
			if tikverr.IsErrNotFound(err) {
				return "none"
			}
			return "err:" + clean(err.Error())
		}
		return "v:" + hx(v.Value)
	})
}

func doBatchGet(s *txnsnapshot.KVSnapshot, ks [][]byte) string {
	return guard(func() string {
		m, err := s.BatchGet(context.Background(), ks)
		if err != nil {
			return "err:" + clean(err.Error())
		}
		keys := make([]string, 0, len(m))
		for k := range m {
			keys = append(keys, k)
		}
		sort.Strings(keys)
		var parts []string
		for _, k := range keys {
			parts = append(parts, hx([]byte(k))+"="+hx(m[k].Value))
		}
		if len(parts) == 0 {
			return "-"
		}
		return strings.Join(parts, ",")
	})
}

func doScan(s *txnsnapshot.KVSnapshot, lo, hi []byte) string {
	return guard(func() string {
		it, err := s.Iter(lo, hi)
		if err != nil {
			return "err:" + clean(err.Error())
		}
		defer it.Close()
		var parts []string
		for it.Valid() {
			parts = append(parts, hx(it.Key())+"="+hx(it.Value()))
			if len(parts) > 1000 {
				return "err:runaway"
			}
			if err := it.Next(); err != nil {
				return "err:" + clean(err.Error())
			}
		}
		if len(parts) == 0 {
			return "-"
		}
		return strings.Join(parts, ",")
	})
}

func runHistory(seed int64, hid int, tmp string) {
	r := rand.New(rand.NewSource(seed*1000003 + int64(hid)*104729 + 5))
	dir, _ := os.MkdirTemp(tmp, "h")
	os.Setenv("TMPDIR", dir)
	defer os.RemoveAll(dir)
	client, pdClient, cluster, err := unistore.New("", nil, constants.NullKeyspaceID, nil)
	must(err)
	unistore.BootstrapWithSingleStore(cluster)
	store, err := tikv.NewTestTiKVStore(&wrapper{client}, pdClient, nil, nil, 0)
	must(err)
	defer store.Close()
	e := &env{store: store, cluster: cluster, r: r, hid: hid}
	p := r.Perm(len(alphabet))
	nk := 4 + r.Intn(8)
	for i := 0; i < nk; i++ {
		e.keys = append(e.keys, alphabet[p[i]])
	}
	sort.Slice(e.keys, func(i, j int) bool { return bytes.Compare(e.keys[i], e.keys[j]) < 0 })
	var layout [][]byte
	for i, n := 0, r.Intn(4); i < n; i++ {
		k := alphabet[r.Intn(len(alphabet))]
		layout = append(layout, k)
		e.split(k)
	}
	asyncBG := hid%2 == 0
	restore := config.UpdateGlobal(func(c *config.Config) { c.EnableAsyncBatchGet = asyncBG })
	defer restore()
	// real sleeping while the history is built (background commits of secondaries need real time);
	// virtual sleeping for the reads
	tsMid := e.build()
	time.Sleep(5 * time.Millisecond) // TTL 1 ms locks expire
	must(failpoint.Enable("tikvclient/fastBackoffBySkipSleep", "return"))
	defer failpoint.Disable("tikvclient/fastBackoffBySkipSleep")
	ts1 := e.ts()
	var lines []string
	all := append(append([][]byte{}, e.keys...), []byte("absent"))
	// backward move below a commit (first thing after the history is built, so that the leftover locks are
	// still there): a snapshot at "now" meets the secondary lock of a transaction T whose primary is
	// committed at c <= now, reads through it (T goes into the snapshot's committed-lock set; the
	// asynchronous ResolveLock is lost, so the lock stays); the SAME snapshot object is then moved BACK to
	// c-1: T is not committed at that timestamp, its value must not be read
	if len(e.prims) > 0 {
		pt := e.prims[r.Intn(len(e.prims))]
		dropResolve.Store(true)
		sb := store.GetSnapshot(ts1)
		for _, k := range pt.secondaries {
			lines = append(lines, fmt.Sprintf("GET\t%d\tbm-before\t%s\t%s\t=>\t%s", hid, u64s(ts1), hx(k), doGet(sb, k)))
		}
		tsBack := pt.commit - 1
		sb.SetSnapshotTS(tsBack)
		for _, k := range pt.secondaries {
			lines = append(lines, fmt.Sprintf("GET\t%d\tbm-after\t%s\t%s\t=>\t%s", hid, u64s(tsBack), hx(k), doGet(sb, k)))
		}
		lines = append(lines, fmt.Sprintf("BGET\t%d\tbm-after\t%s\t%s\t=>\t%s", hid, u64s(tsBack), hxs(all), doBatchGet(sb, all)))
		lines = append(lines, fmt.Sprintf("SCAN\t%d\tbm-after\t%s\t-\t-\t%d\t0\t0\t1\t=>\t%s\t!", hid, u64s(tsBack), 256, doScan(sb, nil, nil)))
		lines = append(lines, fmt.Sprintf("BGET\t%d\tbm-fresh\t%s\t%s\t=>\t%s", hid, u64s(tsBack), hxs(all), doBatchGet(store.GetSnapshot(tsBack), all)))
		sb.SetSnapshotTS(ts1)
		lines = append(lines, fmt.Sprintf("BGET\t%d\tbm-forward-again\t%s\t%s\t=>\t%s", hid, u64s(ts1), hxs(all), doBatchGet(sb, all)))
		dropResolve.Store(false)
		// the request field itself: after the move no read request at tsBack may name T as committed
		if _, leaked := committedLocksSeen.Load(fmt.Sprintf("%d@%d", pt.start, tsBack)); leaked {
			lines = append(lines, fmt.Sprintf("LATER\t%d\t%s\t%s\t=>\tcommitted-lock-leaked-across-move", hid, u64s(pt.start), u64s(tsBack)))
		}
	}
	for pass, ts := range []uint64{ts1, tsMid} {
		label := []string{"uni-now", "uni-mid"}[pass]
		s := store.GetSnapshot(ts)
		order := r.Intn(3)
		if order == 0 {
			lines = append(lines, fmt.Sprintf("BGET\t%d\t%s-cold\t%s\t%s\t=>\t%s", hid, label, u64s(ts), hxs(all), doBatchGet(s, all)))
		} else if order == 1 {
			s.SetScanBatchSize(2 + r.Intn(3))
			lines = append(lines, fmt.Sprintf("SCAN\t%d\t%s-first\t%s\t-\t-\t%d\t0\t0\t1\t=>\t%s\t!", hid, label, u64s(ts), 2, doScan(s, nil, nil)))
		}
		for _, k := range all {
			lines = append(lines, fmt.Sprintf("GET\t%d\t%s\t%s\t%s\t=>\t%s", hid, label, u64s(ts), hx(k), doGet(s, k)))
		}
		lines = append(lines, fmt.Sprintf("BGET\t%d\t%s-warm\t%s\t%s\t=>\t%s", hid, label, u64s(ts), hxs(all), doBatchGet(s, all)))
		s2 := store.GetSnapshot(ts)
		lines = append(lines, fmt.Sprintf("BGET\t%d\t%s-cold2\t%s\t%s\t=>\t%s", hid, label, u64s(ts), hxs(all), doBatchGet(s2, all)))
		for _, b := range []int{2, 3, 256} {
			s3 := store.GetSnapshot(ts)
			s3.SetScanBatchSize(b)
			lines = append(lines, fmt.Sprintf("SCAN\t%d\t%s\t%s\t-\t-\t%d\t0\t0\t1\t=>\t%s\t!", hid, label, u64s(ts), b, doScan(s3, nil, nil)))
			lo, hi := alphabet[r.Intn(len(alphabet))], alphabet[r.Intn(len(alphabet))]
			if bytes.Compare(lo, hi) > 0 {
				lo, hi = hi, lo
			}
			lines = append(lines, fmt.Sprintf("SCAN\t%d\t%s\t%s\t%s\t%s\t%d\t0\t0\t1\t=>\t%s\t!", hid, label, u64s(ts), hx(lo), hx(hi), b, doScan(s3, lo, hi)))
		}
	}
	// quiescence: a final read of every key at a fresh timestamp finishes every transaction that can be
	// finished (expired ones are rolled back, async-commit orphans are committed at their min commit ts)
	_ = doBatchGet(store.GetSnapshot(e.ts()), all)
	time.Sleep(30 * time.Millisecond)
	fmt.Fprintf(out, "HIST\t%d\t%s\t%s\t%s\tunistore async=%v %s\n", hid, u64s(ts1), u64s(tsMid), hxs(layout), asyncBG, strings.Join(e.desc, " "))
	for _, l := range e.truthLines() {
		fmt.Fprintln(out, l)
	}
	for _, l := range lines {
		fmt.Fprintln(out, l)
	}
	fmt.Fprintf(out, "MODE\t%d\tunistore\tbuilt\tasyncRPCs=0\n", hid)
}

func main() {
	out = bufio.NewWriterSize(os.Stdout, 1<<20)
	defer out.Flush()
	lvl := os.Getenv("VERIF_LOG")
	if lvl == "" {
		lvl = "fatal"
	}
	if lg, props, err := log.InitLogger(&log.Config{Level: lvl}); err == nil {
		log.ReplaceGlobals(lg, props)
	}
	util.EnableFailpoints()
	seed := int64(1)
	if s := os.Getenv("VERIF_SEED"); s != "" {
		v, err := strconv.ParseInt(s, 10, 64)
		must(err)
		seed = v
	}
	tmp, _ := os.MkdirTemp("", "c05uni")
	defer os.RemoveAll(tmp)
	if len(os.Args) >= 4 && os.Args[1] == "replay" {
		sd, err := strconv.ParseInt(os.Args[2], 10, 64)
		must(err)
		hid, err := strconv.Atoi(os.Args[3])
		must(err)
		runHistory(sd, hid, tmp)
		return
	}
	n := 100
	if os.Getenv("VERIF_TIER") == "thorough" {
		n = 1500
	}
	if s := os.Getenv("VERIF_N"); s != "" {
		v, err := strconv.Atoi(s)
		must(err)
		n = v
	}
	// history ids of this driver start at 100000 so that they never collide with the mock driver's
	for i := 1; i <= n; i++ {
		func() {
			defer func() {
				if r := recover(); r != nil {
					fmt.Fprintf(os.Stderr, "history %d not built: %v\n", 100000+i, r)
					fmt.Fprintf(out, "MODE\t%d\tunistore\tnot-built\tasyncRPCs=0\n", 100000+i)
				}
			}()
			runHistory(seed, 100000+i, tmp)
		}()
	}
}
