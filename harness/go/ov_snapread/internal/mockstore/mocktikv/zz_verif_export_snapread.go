//go:build verif

package mocktikv

import "github.com/pingcap/kvproto/pkg/metapb"

// VerifMerge merges region id2 into its left neighbour id1 like TiKV does: the epoch version of
// the result is larger than the versions of both sources (Cluster.Merge only increments the
// version of the left region, which can leave it below the version of the region it swallowed;
// the client's region cache then rightly treats the merged region as stale).
func (c *Cluster) VerifMerge(id1, id2 uint64) {
	c.Lock()
	defer c.Unlock()
	r1, r2 := c.regions[id1], c.regions[id2]
	if r1 == nil || r2 == nil {
		return
	}
	v := r1.Meta.GetRegionEpoch().GetVersion()
	if v2 := r2.Meta.GetRegionEpoch().GetVersion(); v2 > v {
		v = v2
	}
	r1.Meta.EndKey = r2.Meta.GetEndKey()
	r1.Meta.RegionEpoch = &metapb.RegionEpoch{ConfVer: r1.Meta.GetRegionEpoch().GetConfVer(), Version: v + 1}
	delete(c.regions, id2)
}

// VerifSplit splits like TiKV does: both halves get the parent's epoch version + 1
// (Cluster.Split starts the new region at version 1, below regions it may overlap in a client's cache).
func (c *Cluster) VerifSplit(regionID, newRegionID uint64, key []byte, peerIDs []uint64, leaderPeerID uint64) {
	c.Lock()
	defer c.Unlock()
	r := c.regions[regionID]
	if r == nil {
		return
	}
	v := r.Meta.GetRegionEpoch().GetVersion()
	nr := r.split(newRegionID, NewMvccKey(key), peerIDs, leaderPeerID)
	ep := r.Meta.GetRegionEpoch()
	r.Meta.RegionEpoch = &metapb.RegionEpoch{ConfVer: ep.GetConfVer(), Version: v + 1}
	nr.Meta.RegionEpoch = &metapb.RegionEpoch{ConfVer: nr.Meta.GetRegionEpoch().GetConfVer(), Version: v + 1}
	c.regions[newRegionID] = nr
}
