//go:build verif

// Driver for property C05 (snapshot reads stable and identical across access paths).
// Builds random MVCC histories with leftover locks of every kind directly in the mock MVCC
// store, reads them through the public snapshot API (Get / BatchGet / Iter / IterReverse) over
// random region layouts with splits/merges injected between RPCs, records every successful Scan
// RPC, and prints one line per observation (tab separated; keys/values hex, "-" = empty):
//
//	HIST  hid ts1 ts2 layout(k,k,..) desc
//	TRUTH hid key  c:P:val,c:D:-,...           committed writes of the key after quiescence
//	GET   hid label ts key            => v:<hex> | none | err:<kind> | panic:<msg>
//	BGET  hid label ts k,k,..         => k=v,k=v (ascending) | err:.. | panic:..
//	SCAN  hid label ts lo hi batch ko rev maxregions => k=v,.. | panic:.. | err:..  \t trace
//	      trace = rstart|rend|reqstart|reqend|limit|locked(k,k)|resp(k,k) ; ...
//	CLS   forread ttl commit action ts => ignore|access|wait
//	CACHE hid label op;op;...         => res;res;...    (g:key / b:k,k / t:ts ; results v:.. none k=v,..)
package main

import (
	"bufio"
	"bytes"
	"context"
	"encoding/hex"
	"fmt"
	"math/rand"
	"os"
	"sort"
	"strconv"
	"strings"
	"sync"
	"sync/atomic"
	"time"

	"github.com/pingcap/failpoint"
	"github.com/pingcap/kvproto/pkg/errorpb"
	"github.com/pingcap/kvproto/pkg/kvrpcpb"
	"github.com/pingcap/log"
	"github.com/tikv/client-go/v2/config"
	"github.com/tikv/client-go/v2/config/retry"
	tikverr "github.com/tikv/client-go/v2/error"
	"github.com/pingcap/kvproto/pkg/keyspacepb"
	"github.com/tikv/client-go/v2/internal/apicodec"
	"github.com/tikv/client-go/v2/internal/mockstore/mocktikv"
	pd "github.com/tikv/pd/client"
	pdgc "github.com/tikv/pd/client/clients/gc"
	"github.com/tikv/pd/client/constants"
	"github.com/tikv/pd/client/pkg/caller"
	"github.com/tikv/client-go/v2/kv"
	"github.com/tikv/client-go/v2/oracle"
	"github.com/tikv/client-go/v2/tikv"
	"github.com/tikv/client-go/v2/tikvrpc"
	"github.com/tikv/client-go/v2/tikvrpc/interceptor"
	"github.com/tikv/client-go/v2/txnkv/txnlock"
	"github.com/tikv/client-go/v2/txnkv/txnsnapshot"
	"github.com/tikv/client-go/v2/util"
	"github.com/tikv/client-go/v2/util/async"
)

var out *bufio.Writer

func hx(b []byte) string {
	if len(b) == 0 {
		return "-"
	}
	return hex.EncodeToString(b)
}
func hxs(ks [][]byte) string {
	if len(ks) == 0 {
		return "-"
	}
	s := make([]string, len(ks))
	for i, k := range ks {
		s[i] = hx(k)
	}
	return strings.Join(s, ",")
}
func u64s(v uint64) string { return strconv.FormatUint(v, 16) }
func must(err error) {
	if err != nil {
		panic(err)
	}
}
func clean(s string) string {
	s = strings.Map(func(r rune) rune {
		if r == '\t' || r == '\n' || r == ';' {
			return ' '
		}
		return r
	}, s)
	if len(s) > 120 {
		s = s[:120]
	}
	return s
}

// ---------------------------------------------------------------- history description
const (
	kCommitted    = iota // committed everywhere
	kRolledBack          // rolled back everywhere (rollback records stay)
	kCommitPrim          // primary committed, secondaries still locked
	kRollbackPrim        // primary rolled back, secondaries still locked
	kExpired             // prewritten, TTL expired, nobody finished it
	kPushable            // alive, min commit ts > 0: a reader pushes it and ignores the lock
	kLiveFinish          // alive (long TTL); the owner finishes after n status checks
	kPessimistic         // pessimistic locks only (never block reads)
	kLockOnly            // Op_Lock prewrite left over (never blocks reads)
	nKinds
)

var kindName = []string{"committed", "rolledback", "commit-primary", "rollback-primary", "expired", "pushable", "live-finish", "pessimistic", "lock-only"}

type txnSpec struct {
	kind       int
	start      uint64
	commit     uint64
	keys       [][]byte
	del        []bool
	vals       [][]byte
	ttl        uint64
	minCommit  uint64
	finishAt   int  // kLiveFinish: finish at the n-th status check
	finishComm bool // commit (true) or roll back
}

type topoEvent struct {
	at    int // before the at-th read RPC (1-based)
	merge bool
	key   []byte
}

type history struct {
	hid    int
	keys   [][]byte // universe, ascending
	layout [][]byte
	txns   []txnSpec
	ts1    uint64
	ts2    uint64
	rnd    *rand.Rand
	keyspace bool // run under an API v2 keyspace store
}

var alphabet = [][]byte{
	[]byte("a"), []byte("a\x00"), []byte("a\x00\x00"), []byte("ab"), []byte("b"), []byte("b\x00"), []byte("b\xff"), []byte("ba"),
	[]byte("c"), []byte("c\x00"), []byte("cc"), []byte("d"), []byte("d\x01"), []byte("e"), []byte("e\xff\xff"), []byte("f"),
	[]byte("g"), []byte("g\x00"), []byte("h"), []byte("\x00"), []byte("\x00\x00"), []byte("\xff"), []byte("\xff\xff"), []byte("m"), []byte("n"), []byte("z"),
}

func sortKeys(ks [][]byte) {
	sort.Slice(ks, func(i, j int) bool { return bytes.Compare(ks[i], ks[j]) < 0 })
}

func pick(r *rand.Rand, n int, from [][]byte) [][]byte {
	p := r.Perm(len(from))
	if n > len(from) {
		n = len(from)
	}
	res := make([][]byte, n)
	for i := 0; i < n; i++ {
		res[i] = from[p[i]]
	}
	sortKeys(res)
	return res
}

var basePhys int64

func tsAt(i int, off int) uint64 { return oracle.ComposeTS(basePhys+int64(i)*10+int64(off), 0) }

func genHistory(seed int64, hid int, tier string) *history {
	r := rand.New(rand.NewSource(seed*1000003 + int64(hid)*7919 + 17))
	h := &history{hid: hid, rnd: r}
	nk := 3 + r.Intn(10)
	h.keys = pick(r, nk, alphabet)
	// layout: 0..4 split points; about half of them on keys of the universe
	nsp := r.Intn(5)
	if r.Intn(6) == 0 {
		nsp = 0
	}
	cand := [][]byte{}
	for i := 0; i < nsp; i++ {
		if r.Intn(2) == 0 {
			cand = append(cand, h.keys[r.Intn(len(h.keys))])
		} else {
			cand = append(cand, alphabet[r.Intn(len(alphabet))])
		}
	}
	sortKeys(cand)
	for i, k := range cand {
		if i == 0 || !bytes.Equal(cand[i-1], k) {
			h.layout = append(h.layout, k)
		}
	}
	ntx := 2 + r.Intn(9)
	locked := map[string]bool{}
	for i := 1; i <= ntx; i++ {
		t := txnSpec{start: tsAt(i, 0), commit: tsAt(i, 5)}
		switch x := r.Intn(20); {
		case x < 7:
			t.kind = kCommitted
		case x < 9:
			t.kind = kRolledBack
		default:
			t.kind = 2 + r.Intn(nKinds-2)
		}
		free := [][]byte{}
		for _, k := range h.keys {
			if !locked[string(k)] {
				free = append(free, k)
			}
		}
		if len(free) == 0 {
			break
		}
		n := 1 + r.Intn(3)
		if (t.kind == kCommitPrim || t.kind == kRollbackPrim) && n < 2 {
			n = 2
		}
		ks := pick(r, n, free)
		// random primary position
		p := r.Intn(len(ks))
		ks[0], ks[p] = ks[p], ks[0]
		t.keys = ks
		for range ks {
			t.del = append(t.del, r.Intn(4) == 0)
			t.vals = append(t.vals, []byte(fmt.Sprintf("v%d.%d", i, r.Intn(100))))
		}
		t.ttl = uint64(1 + r.Intn(2000))
		switch t.kind {
		case kPushable:
			t.ttl = 3 * 3600 * 1000
			t.minCommit = t.start + 1
		case kLiveFinish:
			t.ttl = 3 * 3600 * 1000
			t.finishAt = 1 + r.Intn(3)
			t.finishComm = r.Intn(3) != 0
			if r.Intn(2) == 0 { // commit late: possibly above the snapshot ts
				t.commit = tsAt(i+r.Intn(ntx+1), 7)
			}
		case kPessimistic:
			if r.Intn(2) == 0 {
				t.ttl = 3 * 3600 * 1000
			}
		}
		if t.kind >= kCommitPrim {
			for j, k := range ks {
				if t.kind == kCommitPrim || t.kind == kRollbackPrim {
					if j == 0 {
						continue
					}
				}
				locked[string(k)] = true
			}
		}
		h.txns = append(h.txns, t)
	}
	pickTS := func() uint64 {
		i := r.Intn(ntx + 2)
		switch r.Intn(5) {
		case 0:
			return tsAt(i, 0) // = a start ts
		case 1:
			return tsAt(i, 5) // = a commit ts
		case 2:
			return tsAt(i, 4) // just below a commit ts
		case 3:
			return tsAt(i, 8)
		default:
			return tsAt(ntx+2, 9) // after everything
		}
	}
	h.ts1, h.ts2 = pickTS(), pickTS()
	return h
}

func (h *history) desc() string {
	var sb strings.Builder
	for _, t := range h.txns {
		fmt.Fprintf(&sb, "%s@%s/%s[", kindName[t.kind], u64s(t.start), u64s(t.commit))
		for j, k := range t.keys {
			op := "P"
			if t.del[j] {
				op = "D"
			}
			fmt.Fprintf(&sb, "%s:%s:%s ", hx(k), op, hx(t.vals[j]))
		}
		fmt.Fprintf(&sb, "ttl=%d fin=%d/%v] ", t.ttl, t.finishAt, t.finishComm)
	}
	return sb.String()
}

// ---------------------------------------------------------------- the cluster under test
type scanRPC struct {
	rstart, rend, reqStart, reqEnd []byte
	limit                          uint32
	locked, resp                   [][]byte
	done                           bool
	retry                          bool // answered with a response-level lock error: the cursor must not move
}

type hijack struct {
	tikv.Client
	mu       sync.Mutex
	env      *env
	readRPCs int
	events   []topoEvent
	trace    []scanRPC
	tracing  bool
	later    []string
	leaks    []string
	asyncSent int
	failAt, failKind, failed int
	failTxn                  *txnSpec
	fakeSt   map[uint64]*kvrpcpb.CheckTxnStatusResponse
	checks   map[uint64]int
}

type env struct {
	opts        int    // option plumbing bit mask of this history
	intercepted int64  // requests seen by the snapshot's RPC interceptor
	killed      uint32 // kv.Variables.Killed
	prefix  []byte // keyspace prefix of an API v2 history
	h       *history
	mvcc    mocktikv.MVCCStore
	cluster *mocktikv.Cluster
	store   *tikv.KVStore
	hj      *hijack
}

// snap: a snapshot with the option plumbing of this history switched on (none for half of the histories):
// runtime stats, configurable read timeout, RPC interceptor, resource group tag/name/task id/not-fill-cache,
// stale read, replica read + load based threshold, variables.  None of them may change an answer.
func (e *env) snap(ts uint64) *txnsnapshot.KVSnapshot {
	s := e.store.GetSnapshot(ts)
	o := e.opts
	if o&1 != 0 {
		s.SetRuntimeStats(&txnsnapshot.SnapshotRuntimeStats{})
	}
	if o&2 != 0 {
		s.SetKVReadTimeout(2 * time.Second)
	}
	if o&4 != 0 {
		s.AddRPCInterceptor(interceptor.NewRPCInterceptor("verif", func(next interceptor.RPCInterceptorFunc) interceptor.RPCInterceptorFunc {
			return func(target string, req *tikvrpc.Request) (*tikvrpc.Response, error) {
				atomic.AddInt64(&e.intercepted, 1)
				return next(target, req)
			}
		}))
	}
	if o&8 != 0 {
		s.SetResourceGroupTagger(func(req *tikvrpc.Request) { req.ResourceGroupTag = []byte("verif") })
		s.SetResourceGroupName("rg")
		s.SetTaskID(7)
		s.SetNotFillCache(true)
	}
	if o&16 != 0 {
		s.SetIsStalenessReadOnly(true)
	}
	if o&32 != 0 {
		s.SetReplicaRead(kv.ReplicaReadMixed)
		s.SetLoadBasedReplicaReadThreshold(time.Second)
	}
	if o&64 != 0 {
		s.SetVars(kv.NewVariables(&e.killed))
	}
	return s
}

func (e *env) regionCount() int { return len(e.cluster.GetAllRegions()) }

var topoMu sync.Mutex // batch-get workers send concurrently: one topology change at a time

func (e *env) applyTopo(ev topoEvent) {
	topoMu.Lock()
	defer topoMu.Unlock()
	e.applyTopo1(ev)
	if os.Getenv("VERIF_DEBUG") != "" {
		regs := e.cluster.GetAllRegions()
		sort.Slice(regs, func(i, j int) bool { return bytes.Compare(regs[i].Meta.StartKey, regs[j].Meta.StartKey) < 0 })
		var sb strings.Builder
		for _, r := range regs {
			fmt.Fprintf(&sb, "[%d:%s,%s) ", r.Meta.Id, hx(mocktikv.MvccKey(r.Meta.StartKey).Raw()), hx(mocktikv.MvccKey(r.Meta.EndKey).Raw()))
		}
		fmt.Fprintf(os.Stderr, "TOPO merge=%v key=%s -> %s\n", ev.merge, hx(ev.key), sb.String())
	}
}

func (e *env) applyTopo1(ev topoEvent) {
	if ev.merge {
		regs := e.cluster.GetAllRegions()
		if len(regs) < 2 {
			return
		}
		sort.Slice(regs, func(i, j int) bool { return bytes.Compare(regs[i].Meta.StartKey, regs[j].Meta.StartKey) < 0 })
		i := int(ev.key[0]) % (len(regs) - 1)
		e.cluster.Merge(regs[i].Meta.Id, regs[i+1].Meta.Id)
		return
	}
	reg, _, _, _ := e.cluster.GetRegionByKey(mocktikv.NewMvccKey(e.phys(ev.key)))
	if reg == nil {
		return
	}
	if bytes.Equal(mocktikv.MvccKey(reg.StartKey).Raw(), e.phys(ev.key)) {
		return // already a boundary
	}
	nr, np := e.cluster.AllocID(), e.cluster.AllocID()
	e.cluster.Split(reg.Id, nr, e.phys(ev.key), []uint64{np}, np)
}

// SendRequestAsync (the EnableAsyncBatchGet path of snapshot_async.go): the same hooks, then the
// asynchronous send of the wrapped client
func (hj *hijack) SendRequestAsync(ctx context.Context, addr string, req *tikvrpc.Request, cb async.Callback[*tikvrpc.Response]) {
	if resp, err := hj.pre(req); resp != nil || err != nil {
		cb.Schedule(resp, err)
		return
	}
	hj.mu.Lock()
	hj.asyncSent++
	hj.mu.Unlock()
	hj.Client.SendRequestAsync(ctx, addr, req, cb)
}

func (hj *hijack) SendRequest(ctx context.Context, addr string, req *tikvrpc.Request, timeout time.Duration) (*tikvrpc.Response, error) {
	if resp, err := hj.pre(req); resp != nil || err != nil {
		return resp, err
	}
	return hj.send(ctx, addr, req, timeout)
}

// pre runs the scheduled topology changes / transaction finishes / injected faults; a non-nil result
// is a faked answer or the injected error
func (hj *hijack) pre(req *tikvrpc.Request) (*tikvrpc.Response, error) {
	e := hj.env
	switch req.Type {
	case tikvrpc.CmdBufferBatchGet:
		// the mock store has no BufferBatchGet: a minimal shim answers from the lock table (after the
		// scheduled topology changes, with the region checks every command gets)
		hj.mu.Lock()
		hj.readRPCs++
		n := hj.readRPCs
		var todo []topoEvent
		for _, ev := range hj.events {
			if ev.at == n {
				todo = append(todo, ev)
			}
		}
		hj.mu.Unlock()
		for _, ev := range todo {
			e.applyTopo(ev)
		}
		return e.bufferBatchGet(req)
	case tikvrpc.CmdGet, tikvrpc.CmdBatchGet, tikvrpc.CmdScan:
		// the request field: a transaction named in committed_locks must be committed at or below the
		// version of THIS request (the mock store ignores the field, a real store reads through the lock)
		if cl := req.Context.GetCommittedLocks(); len(cl) > 0 {
			ver := uint64(0)
			switch req.Type {
			case tikvrpc.CmdGet:
				ver = req.Get().Version
			case tikvrpc.CmdBatchGet:
				ver = req.BatchGet().Version
			default:
				ver = req.Scan().Version
			}
			for _, t := range cl {
				if c := e.commitOfTxn(t); c == 0 || c > ver {
					hj.mu.Lock()
					hj.leaks = append(hj.leaks, fmt.Sprintf("%s\t%s", u64s(t), u64s(ver)))
					hj.mu.Unlock()
				}
			}
		}
		hj.mu.Lock()
		// fault class: the failAt-th Scan RPC is answered with a response-level lock error (no pairs): the
		// scanner resolves the named lock (ResolveLocks, the write-side variant), backs off if it is alive,
		// and sends the same request again.  Only on a request whose region epoch is current (a stale one
		// gets its region error from the store).
		if hj.failAt > 0 && hj.failKind == 3 && req.Type == tikvrpc.CmdScan {
			if reg, _ := e.cluster.GetRegion(req.Context.GetRegionId()); reg != nil &&
				req.Context.GetRegionEpoch().GetVersion() == reg.GetRegionEpoch().GetVersion() {
				hj.failAt--
				if hj.failAt == 0 {
					t := hj.failTxn
					hj.failed++
					sr := req.Scan()
					if hj.tracing {
						hj.trace = append(hj.trace, scanRPC{rstart: e.logical(mocktikv.MvccKey(reg.StartKey).Raw(), false), rend: e.logical(mocktikv.MvccKey(reg.EndKey).Raw(), true),
							reqStart: sr.StartKey, reqEnd: sr.EndKey, limit: sr.Limit, done: true, retry: true})
					}
					hj.mu.Unlock()
					li := &kvrpcpb.LockInfo{Key: t.keys[0], PrimaryLock: t.keys[0], LockVersion: t.start,
						LockTtl: t.ttl, TxnSize: uint64(len(t.keys)), LockType: kvrpcpb.Op_Put}
					return &tikvrpc.Response{Resp: &kvrpcpb.ScanResponse{Error: &kvrpcpb.KeyError{Locked: li}}}, nil
				}
			}
		}
		// fault class: the failAt-th point read RPC from now on fails non-retryably
		if hj.failAt > 0 && hj.failKind == 2 {
			// fault class: the failAt-th BatchGet RPC is answered with a response-level lock error (no pairs)
			// naming a lock of an already finished transaction of the history; the retry goes through
			if req.Type == tikvrpc.CmdBatchGet && len(req.BatchGet().Keys) > 0 {
				hj.failAt--
				if hj.failAt == 0 {
					t := hj.failTxn
					hj.failed++
					hj.mu.Unlock()
					li := &kvrpcpb.LockInfo{Key: req.BatchGet().Keys[0], PrimaryLock: t.keys[0], LockVersion: t.start,
						LockTtl: 1, TxnSize: uint64(len(t.keys)), LockType: kvrpcpb.Op_Put}
					return &tikvrpc.Response{Resp: &kvrpcpb.BatchGetResponse{Error: &kvrpcpb.KeyError{Locked: li}}}, nil
				}
			}
		} else if hj.failAt > 0 && hj.failKind <= 1 && req.Type != tikvrpc.CmdScan {
			hj.failAt--
			if hj.failAt == 0 {
				kind := hj.failKind
				hj.failed++
				hj.mu.Unlock()
				switch {
				case kind == 0:
					return nil, context.Canceled // cancelled RPC
				case req.Type == tikvrpc.CmdGet:
					return &tikvrpc.Response{Resp: &kvrpcpb.GetResponse{Error: &kvrpcpb.KeyError{Abort: "injected abort"}}}, nil
				default:
					return &tikvrpc.Response{Resp: &kvrpcpb.BatchGetResponse{Error: &kvrpcpb.KeyError{Abort: "injected abort"}}}, nil
				}
			}
		}
		hj.readRPCs++
		n := hj.readRPCs
		var todo []topoEvent
		for _, ev := range hj.events {
			if ev.at == n {
				todo = append(todo, ev)
			}
		}
		hj.mu.Unlock()
		for _, ev := range todo {
			e.applyTopo(ev)
		}
	case tikvrpc.CmdCheckTxnStatus:
		r := req.CheckTxnStatus()
		hj.mu.Lock()
		if fake, ok := hj.fakeSt[r.LockTs]; ok {
			hj.mu.Unlock()
			cp := *fake
			return &tikvrpc.Response{Resp: &cp}, nil
		}
		hj.checks[r.LockTs]++
		n := hj.checks[r.LockTs]
		if n == 12 && os.Getenv("VERIF_DEBUG") != "" {
			fmt.Fprintf(os.Stderr, "MANY-CHECKS hid=%d txn=%s caller=%s primary=%s\n", e.h.hid, u64s(r.LockTs), u64s(r.CallerStartTs), hx(r.PrimaryKey))
		}
		if r.LockTs > r.CallerStartTs {
			// a lock of a transaction that started after the snapshot must be ignored, not resolved
			hj.later = append(hj.later, fmt.Sprintf("%s\t%s", u64s(r.LockTs), u64s(r.CallerStartTs)))
		}
		// The owner finishes its transaction at the n-th status check.  This happens INSIDE the critical
		// section: with sleeping virtualised a reader burns its whole back-off budget in microseconds of
		// real time, so if the goroutine that drew n = finishAt were descheduled between the counter and the
		// commit, the other batch-get worker would draw n+1, n+2, ... see "alive" every time and give up
		// (the load-sensitive "resolve lock timeout" of earlier rounds).  Holding the lock orders every
		// later status check after the finish.
		for _, t := range e.h.txns {
			if t.kind == kLiveFinish && t.start == r.LockTs && n == t.finishAt {
				var ferr error
				if t.finishComm {
					ferr = e.mvcc.Commit(e.physAll(t.keys), t.start, t.commit)
				} else {
					ferr = e.mvcc.Rollback(e.physAll(t.keys), t.start)
				}
				if os.Getenv("VERIF_DEBUG") != "" {
					fmt.Fprintf(os.Stderr, "FINISH hid=%d txn=%s n=%d comm=%v err=%v\n", e.h.hid, u64s(t.start), n, t.finishComm, ferr)
				}
			}
		}
		hj.mu.Unlock()
	}
	return nil, nil
}

// bufferBatchGet: BufferBatchGet as TiKV serves it — for each key the content of the lock held by the
// transaction whose start ts is the request's version (flushed value; empty for a flushed delete)
func (e *env) bufferBatchGet(req *tikvrpc.Request) (*tikvrpc.Response, error) {
	r := req.BufferBatchGet()
	reg, _ := e.cluster.GetRegion(req.Context.GetRegionId())
	regionErr := func(er *errorpb.Error) (*tikvrpc.Response, error) {
		return &tikvrpc.Response{Resp: &kvrpcpb.BufferBatchGetResponse{RegionError: er}}, nil
	}
	if reg == nil {
		return regionErr(&errorpb.Error{RegionNotFound: &errorpb.RegionNotFound{RegionId: req.Context.GetRegionId()}})
	}
	if ep := req.Context.GetRegionEpoch(); ep.GetVersion() != reg.GetRegionEpoch().GetVersion() || ep.GetConfVer() != reg.GetRegionEpoch().GetConfVer() {
		return regionErr(&errorpb.Error{EpochNotMatch: &errorpb.EpochNotMatch{}})
	}
	start, end := mocktikv.MvccKey(reg.StartKey).Raw(), mocktikv.MvccKey(reg.EndKey).Raw()
	dbg := e.mvcc.(mocktikv.MVCCDebugger)
	resp := &kvrpcpb.BufferBatchGetResponse{}
	for _, k := range r.Keys {
		k := e.phys(k)
		if bytes.Compare(k, start) < 0 || (len(end) > 0 && bytes.Compare(k, end) >= 0) {
			return regionErr(&errorpb.Error{KeyNotInRegion: &errorpb.KeyNotInRegion{Key: k, RegionId: reg.Id, StartKey: reg.StartKey, EndKey: reg.EndKey}})
		}
		if l := dbg.MvccGetByKey(k).Lock; l != nil && l.StartTs == r.Version {
			switch l.Type {
			case kvrpcpb.Op_Put:
				resp.Pairs = append(resp.Pairs, &kvrpcpb.KvPair{Key: k[len(e.prefix):], Value: l.ShortValue})
			case kvrpcpb.Op_Del:
				resp.Pairs = append(resp.Pairs, &kvrpcpb.KvPair{Key: k[len(e.prefix):]})
			}
		}
	}
	return &tikvrpc.Response{Resp: resp}, nil
}

// commitOfTxn: the commit ts of the transaction with this start ts according to the store (0: not committed)
func (e *env) commitOfTxn(start uint64) uint64 {
	for _, t := range e.h.txns {
		if t.start == start {
			for _, w := range e.mvcc.(mocktikv.MVCCDebugger).MvccGetByKey(e.phys(t.keys[0])).Writes {
				if w.StartTs == start && w.Type != kvrpcpb.Op_Rollback {
					return w.CommitTs
				}
			}
		}
	}
	return 0
}

// arm makes the n-th Get/BatchGet RPC from now fail (kind 0: context.Canceled, 1: fabricated abort)
func (hj *hijack) arm(n, kind int) {
	hj.mu.Lock()
	hj.failAt, hj.failKind = n, kind
	hj.mu.Unlock()
}

// armLockAnswer: the n-th BatchGet RPC from now gets a whole-batch lock answer; false if the history has
// no finished transaction to name
func (hj *hijack) armLockAnswer(n int, r *rand.Rand, ts uint64) bool {
	var fin []*txnSpec
	for i := range hj.env.h.txns {
		if t := &hj.env.h.txns[i]; (t.kind == kCommitted || t.kind == kRolledBack) && t.start <= ts { // a store never reports a later lock
			fin = append(fin, t)
		}
	}
	if len(fin) == 0 {
		return false
	}
	hj.mu.Lock()
	hj.failAt, hj.failKind, hj.failTxn = n, 2, fin[r.Intn(len(fin))]
	hj.mu.Unlock()
	return true
}

// armScanLock: the n-th Scan RPC from now gets a response-level lock error naming a lock of a finished
// or of a live pushable transaction (start <= ts)
func (hj *hijack) armScanLock(n int, r *rand.Rand, ts uint64) bool {
	var cand []*txnSpec
	for i := range hj.env.h.txns {
		if t := &hj.env.h.txns[i]; (t.kind == kCommitted || t.kind == kRolledBack || t.kind == kPushable) && t.start <= ts {
			cand = append(cand, t)
		}
	}
	if len(cand) == 0 {
		return false
	}
	hj.mu.Lock()
	hj.failAt, hj.failKind, hj.failTxn = n, 3, cand[r.Intn(len(cand))]
	hj.mu.Unlock()
	return true
}

func (hj *hijack) send(ctx context.Context, addr string, req *tikvrpc.Request, timeout time.Duration) (*tikvrpc.Response, error) {
	e := hj.env
	traced := false
	if req.Type == tikvrpc.CmdScan && hj.tracing {
		var rstart, rend []byte
		if reg, _ := e.cluster.GetRegion(req.Context.GetRegionId()); reg != nil {
			rstart, rend = e.logical(mocktikv.MvccKey(reg.StartKey).Raw(), false), e.logical(mocktikv.MvccKey(reg.EndKey).Raw(), true)
		}
		sr := req.Scan()
		hj.mu.Lock()
		hj.trace = append(hj.trace, scanRPC{rstart: rstart, rend: rend, reqStart: sr.StartKey, reqEnd: sr.EndKey, limit: sr.Limit})
		hj.mu.Unlock()
		traced = true
	}
	// a panic inside the mock store leaves the pending trace entry behind (done = false)
	resp, err := hj.Client.SendRequest(ctx, addr, req, timeout)
	if os.Getenv("VERIF_DEBUG") != "" {
		var re interface{}
		if resp != nil && resp.Resp != nil {
			re, _ = resp.GetRegionError()
		}
		extra := ""
		if req.Type == tikvrpc.CmdCheckTxnStatus && resp != nil && resp.Resp != nil {
			cr := resp.Resp.(*kvrpcpb.CheckTxnStatusResponse)
			extra = fmt.Sprintf(" lockTs=%s caller=%s rbIfNot=%v -> ttl=%d commit=%s action=%v err=%v", u64s(req.CheckTxnStatus().LockTs), u64s(req.CheckTxnStatus().CallerStartTs), req.CheckTxnStatus().RollbackIfNotExist, cr.LockTtl, u64s(cr.CommitVersion), cr.Action, cr.Error)
		}
		fmt.Fprintf(os.Stderr, "RPC hid=%d %v region=%d ver=%v err=%v regionErr=%v%s\n", e.h.hid, req.Type, req.Context.GetRegionId(), req.Context.GetRegionEpoch(), err, re, extra)
	}
	if traced {
		hj.mu.Lock()
		rec := &hj.trace[len(hj.trace)-1]
		served := false
		if err == nil && resp != nil && resp.Resp != nil {
			if re, _ := resp.GetRegionError(); re == nil {
				served = true
				for _, p := range resp.Resp.(*kvrpcpb.ScanResponse).Pairs {
					k := p.Key
					if p.Error != nil {
						if l := p.Error.GetLocked(); l != nil {
							k = l.Key
						}
						rec.locked = append(rec.locked, k)
					}
					rec.resp = append(rec.resp, k)
				}
				rec.done = true
			}
		}
		if !served {
			hj.trace = hj.trace[:len(hj.trace)-1]
		}
		hj.mu.Unlock()
	}
	return resp, err
}

// the mock PD has no keyspaces: answer LoadKeyspace for the API v2 histories
type ksPD struct {
	pd.Client
	meta *keyspacepb.KeyspaceMeta
}

func (p ksPD) GetGCStatesClient(keyspaceID uint32) pdgc.GCStatesClient {
	return p.Client.GetGCStatesClient(constants.NullKeyspaceID)
}
func (p ksPD) GetGCInternalController(keyspaceID uint32) pdgc.InternalController {
	return p.Client.GetGCInternalController(constants.NullKeyspaceID)
}
func (p ksPD) WithCallerComponent(c caller.Component) pd.Client {
	return ksPD{p.Client.WithCallerComponent(c), p.meta}
}
func (p ksPD) LoadKeyspace(ctx context.Context, name string) (*keyspacepb.KeyspaceMeta, error) {
	return p.meta, nil
}

// phys: the key as it is stored (keyspace prefix for an API v2 history); every direct access to the
// MVCC store / the cluster goes through it
func (e *env) phys(k []byte) []byte {
	if len(e.prefix) == 0 {
		return k
	}
	return append(append([]byte{}, e.prefix...), k...)
}
func (e *env) physAll(ks [][]byte) [][]byte {
	r := make([][]byte, len(ks))
	for i, k := range ks {
		r[i] = e.phys(k)
	}
	return r
}

// logical: a physical region bound as the client sees it inside its keyspace ("" = unbounded)
func (e *env) logical(b []byte, isEnd bool) []byte {
	if len(e.prefix) == 0 {
		return b
	}
	if bytes.HasPrefix(b, e.prefix) {
		return b[len(e.prefix):]
	}
	return nil // below the keyspace (start) or above it / unbounded (end)
}

func newEnv(h *history) *env {
	e := &env{h: h}
	e.mvcc = mocktikv.MustNewMVCCStore()
	e.cluster = mocktikv.NewCluster(e.mvcc)
	rpc := mocktikv.NewRPCClient(e.cluster, e.mvcc, nil)
	pdCli := mocktikv.NewPDClient(e.cluster)
	e.hj = &hijack{env: e, fakeSt: map[uint64]*kvrpcpb.CheckTxnStatusResponse{}, checks: map[uint64]int{}}
	hook := func(c tikv.Client) tikv.Client { e.hj.Client = c; return e.hj }
	var store *tikv.KVStore
	var err error
	if h.keyspace {
		meta := keyspacepb.KeyspaceMeta{Keyspace: &keyspacepb.KeyspaceMeta_Id{Id: 7}, Name: "ks", State: keyspacepb.KeyspaceState_ENABLED}
		cd, err2 := apicodec.NewCodecV2(apicodec.ModeTxn, &meta)
		must(err2)
		e.prefix = append([]byte{}, cd.GetKeyspace()...)
		mocktikv.BootstrapWithMultiRegions(e.cluster, e.physAll(h.layout)...)
		store, err = tikv.NewTestKeyspaceTiKVStore(rpc, ksPD{pdCli, &meta}, hook, nil, 0, meta)
	} else {
		mocktikv.BootstrapWithMultiRegions(e.cluster, h.layout...)
		store, err = tikv.NewTestTiKVStore(rpc, pdCli, hook, nil, 0)
	}
	must(err)
	e.store = store
	return e
}

func (e *env) build() {
	ctx := &kvrpcpb.Context{}
	for _, t := range e.h.txns {
		prim := e.phys(t.keys[0])
		if t.kind == kPessimistic {
			muts := []*kvrpcpb.Mutation{}
			for _, k := range t.keys {
				muts = append(muts, &kvrpcpb.Mutation{Op: kvrpcpb.Op_PessimisticLock, Key: e.phys(k)})
			}
			resp := e.mvcc.PessimisticLock(&kvrpcpb.PessimisticLockRequest{Context: ctx, Mutations: muts, PrimaryLock: prim,
				StartVersion: t.start, ForUpdateTs: t.start, LockTtl: t.ttl, WaitTimeout: -1})
			if len(resp.Errors) > 0 {
				panic(fmt.Sprintf("pessimistic lock failed: %v", resp.Errors))
			}
			continue
		}
		muts := []*kvrpcpb.Mutation{}
		for j, k := range t.keys {
			m := &kvrpcpb.Mutation{Op: kvrpcpb.Op_Put, Key: e.phys(k), Value: t.vals[j]}
			if t.del[j] {
				m = &kvrpcpb.Mutation{Op: kvrpcpb.Op_Del, Key: e.phys(k)}
			}
			if t.kind == kLockOnly {
				m = &kvrpcpb.Mutation{Op: kvrpcpb.Op_Lock, Key: e.phys(k)}
			}
			muts = append(muts, m)
		}
		errs := e.mvcc.Prewrite(&kvrpcpb.PrewriteRequest{Context: ctx, Mutations: muts, PrimaryLock: prim, StartVersion: t.start,
			LockTtl: t.ttl, MinCommitTs: t.minCommit, TxnSize: uint64(len(t.keys))})
		for _, er := range errs {
			if er != nil {
				panic(fmt.Sprintf("prewrite failed: %v", er))
			}
		}
		switch t.kind {
		case kCommitted:
			must(e.mvcc.Commit(e.physAll(t.keys), t.start, t.commit))
		case kRolledBack:
			must(e.mvcc.Rollback(e.physAll(t.keys), t.start))
		case kCommitPrim:
			must(e.mvcc.Commit(e.physAll(t.keys[:1]), t.start, t.commit))
		case kRollbackPrim:
			must(e.mvcc.Rollback(e.physAll(t.keys[:1]), t.start))
		}
	}
}

// committed writes per key according to the store after quiescence: write records plus a
// leftover Put/Del lock whose primary is committed (Percolator: the primary decides)
func (e *env) truthLines() []string {
	dbg := e.mvcc.(mocktikv.MVCCDebugger)
	commitOf := func(primary []byte, start uint64) uint64 {
		info := dbg.MvccGetByKey(primary)
		for _, w := range info.Writes {
			if w.StartTs == start && w.Type != kvrpcpb.Op_Rollback {
				return w.CommitTs
			}
		}
		return 0
	}
	var lines []string
	for _, k := range e.h.keys {
		info := dbg.MvccGetByKey(e.phys(k))
		var ws []string
		for _, w := range info.Writes {
			switch w.Type {
			case kvrpcpb.Op_Put:
				var val []byte
				for _, v := range info.Values {
					if v.StartTs == w.StartTs {
						val = v.Value
					}
				}
				ws = append(ws, u64s(w.CommitTs)+":P:"+hx(val))
			case kvrpcpb.Op_Del:
				ws = append(ws, u64s(w.CommitTs)+":D:-")
			}
		}
		if l := info.Lock; l != nil && (l.Type == kvrpcpb.Op_Put || l.Type == kvrpcpb.Op_Del) {
			if c := commitOf(l.Primary, l.StartTs); c > 0 {
				if l.Type == kvrpcpb.Op_Put {
					ws = append(ws, u64s(c)+":P:"+hx(l.ShortValue))
				} else {
					ws = append(ws, u64s(c)+":D:-")
				}
			}
		}
		s := "-"
		if len(ws) > 0 {
			s = strings.Join(ws, ",")
		}
		lines = append(lines, fmt.Sprintf("TRUTH\t%d\t%s\t%s", e.h.hid, hx(k), s))
	}
	return lines
}

// ---------------------------------------------------------------- reads
func errKind(err error) string {
	s := err.Error()
	switch {
	case strings.Contains(s, "GC life time is shorter"):
		return "refused"
	case strings.Contains(s, "interrupted"):
		return "injected"
	case strings.Contains(s, "context canceled") || strings.Contains(s, "injected abort"):
		return "injected"
	case strings.Contains(s, "MaxSleep") || strings.Contains(s, "backoff"):
		return "backoff-exhausted"
	}
	return clean(s)
}

// hung is set when a read did not come back within the watchdog time: the rest of the history is skipped
var hung bool

func guard(f func() string) string {
	if hung {
		return "err:skipped-after-hang"
	}
	done := make(chan string, 1)
	go func() {
		defer func() {
			if r := recover(); r != nil {
				done <- "panic:" + clean(fmt.Sprint(r))
			}
		}()
		done <- f()
	}()
	select {
	case r := <-done:
		return r
	case <-time.After(20 * time.Second):
		hung = true
		return "err:hang (no answer within 20s of wall clock with sleeping virtualised)"
	}
}

func doGet(s *txnsnapshot.KVSnapshot, k []byte) string {
	return guard(func() string {
		var v kv.ValueEntry
		var err error
		if withCommitTS {
			v, err = s.Get(context.Background(), k, kv.WithReturnCommitTS())
		} else {
			v, err = s.Get(context.Background(), k)
		}
		if err != nil {
			if tikverr.IsErrNotFound(err) {
				return "none"
			}
			return "err:" + errKind(err)
		}
		return "v:" + hx(v.Value)
	})
}

// aliasing oracle: an API that takes [][]byte / []byte must leave the caller's slices as they were
// (BatchGet's contract says "Don't modify keys"): same elements, same order, same bytes
var aliasLog []string

type keysCopy struct {
	hdr  [][]byte
	data [][]byte
}

func snapKeys(ks [][]byte) keysCopy {
	c := keysCopy{hdr: append([][]byte{}, ks...)}
	for _, k := range ks {
		c.data = append(c.data, append([]byte{}, k...))
	}
	return c
}

func (c keysCopy) check(what string, ks [][]byte) {
	bad := len(ks) != len(c.hdr)
	for i := 0; !bad && i < len(ks); i++ {
		if !bytes.Equal(ks[i], c.data[i]) || (len(ks[i]) > 0 && &ks[i][0] != &c.hdr[i][0]) {
			bad = true
		}
	}
	if bad {
		aliasLog = append(aliasLog, fmt.Sprintf("%s\tbefore=%s\tafter=%s", what, hxs(c.data), hxs(ks)))
	}
}

// withCommitTS: Get / BatchGet are called with kv.WithReturnCommitTS() (different cache-hit rule)
var withCommitTS bool

func doBatchGet(s *txnsnapshot.KVSnapshot, ks [][]byte) string {
	cp := snapKeys(ks)
	defer cp.check("BatchGet", ks)
	return guard(func() string {
		var m map[string]kv.ValueEntry
		var err error
		if withCommitTS {
			m, err = s.BatchGet(context.Background(), ks, kv.WithReturnCommitTS())
		} else {
			m, err = s.BatchGet(context.Background(), ks)
		}
		if err != nil {
			return "err:" + errKind(err)
		}
		keys := make([]string, 0, len(m))
		for k := range m {
			keys = append(keys, k)
		}
		sort.Strings(keys)
		parts := []string{}
		for _, k := range keys {
			parts = append(parts, hx([]byte(k))+"="+hx(m[k].Value))
		}
		if len(parts) == 0 {
			return "-"
		}
		return strings.Join(parts, ",")
	})
}

func doScan(s *txnsnapshot.KVSnapshot, lo, hi []byte, rev bool) string {
	cp := snapKeys([][]byte{lo, hi})
	defer cp.check("Iter bounds", [][]byte{lo, hi})
	return guard(func() string {
		var it interface {
			Valid() bool
			Key() []byte
			Value() []byte
			Next() error
			Close()
		}
		var err error
		if rev {
			it, err = s.IterReverse(hi, lo)
		} else {
			it, err = s.Iter(lo, hi)
		}
		if err != nil {
			return "err:" + errKind(err)
		}
		defer it.Close()
		parts := []string{}
		for it.Valid() {
			parts = append(parts, hx(it.Key())+"="+hx(it.Value()))
			if len(parts) > 1000 {
				return "err:runaway"
			}
			if err := it.Next(); err != nil {
				return "err:" + errKind(err)
			}
		}
		if len(parts) == 0 {
			return "-"
		}
		return strings.Join(parts, ",")
	})
}

func (e *env) traceString() string {
	e.hj.mu.Lock()
	defer e.hj.mu.Unlock()
	parts := []string{}
	for _, t := range e.hj.trace {
		st := "ok"
		if !t.done {
			st = "panic"
		}
		if t.retry {
			st = "resplock"
		}
		parts = append(parts, fmt.Sprintf("%s|%s|%s|%s|%d|%s|%s|%s", hx(t.rstart), hx(t.rend), hx(t.reqStart), hx(t.reqEnd), t.limit, hxs(t.locked), hxs(t.resp), st))
	}
	e.hj.trace = nil
	if len(parts) == 0 {
		return "-"
	}
	return strings.Join(parts, ";")
}

var batchSizes = []int{2, 3, 5, 256}

func (e *env) randBound(r *rand.Rand) []byte {
	switch r.Intn(6) {
	case 0:
		return nil
	case 1:
		if len(e.h.layout) > 0 {
			return e.h.layout[r.Intn(len(e.h.layout))]
		}
		return nil
	case 2, 3:
		return e.h.keys[r.Intn(len(e.h.keys))]
	case 4:
		k := e.h.keys[r.Intn(len(e.h.keys))]
		return append(append([]byte{}, k...), 0)
	default:
		return alphabet[r.Intn(len(alphabet))]
	}
}

func (e *env) scheduleTopo(r *rand.Rand) {
	e.hj.mu.Lock()
	defer e.hj.mu.Unlock()
	e.hj.events = nil
	base := e.hj.readRPCs
	if r.Intn(3) == 0 {
		return
	}
	n := 1 + r.Intn(3)
	for i := 0; i < n; i++ {
		ev := topoEvent{at: base + 1 + r.Intn(5)}
		if r.Intn(4) == 0 {
			ev.merge = true
			ev.key = []byte{byte(r.Intn(256))}
		} else if r.Intn(2) == 0 {
			ev.key = e.h.keys[r.Intn(len(e.h.keys))]
		} else {
			ev.key = alphabet[r.Intn(len(alphabet))]
		}
		e.hj.events = append(e.hj.events, ev)
	}
}

func (e *env) scanCase(lines *[]string, label string, ts uint64, lo, hi []byte, batch int, ko, rev bool, topo bool) {
	r := e.h.rnd
	s := e.snap(ts)
	s.SetScanBatchSize(batch)
	s.SetKeyOnly(ko)
	if topo {
		e.scheduleTopo(r)
	}
	nreg := e.regionCount()
	e.hj.mu.Lock()
	e.hj.trace, e.hj.tracing = nil, true
	e.hj.mu.Unlock()
	res := doScan(s, lo, hi, rev)
	e.hj.mu.Lock()
	e.hj.tracing = false
	e.hj.events = nil
	e.hj.mu.Unlock()
	if n := e.regionCount(); n > nreg {
		nreg = n
	}
	b := func(x bool) string {
		if x {
			return "1"
		}
		return "0"
	}
	tr := e.traceString()
	if batch > 1<<31 { // the model replay cannot run with unary batch sizes of this magnitude: oracle only
		tr = "!"
	}
	*lines = append(*lines, fmt.Sprintf("SCAN\t%d\t%s\t%s\t%s\t%s\t%d\t%s\t%s\t%d\t=>\t%s\t%s", e.h.hid, label, u64s(ts), hx(lo), hx(hi), batch, b(ko), b(rev), nreg, res, tr))
}

func (e *env) reads(tier string) []string {
	h, r := e.h, e.h.rnd
	var lines []string
	hid := h.hid
	getL := func(label string, s *txnsnapshot.KVSnapshot, ts uint64, k []byte) {
		lines = append(lines, fmt.Sprintf("GET\t%d\t%s\t%s\t%s\t=>\t%s", hid, label, u64s(ts), hx(k), doGet(s, k)))
	}
	bgetL := func(label string, s *txnsnapshot.KVSnapshot, ts uint64, ks [][]byte) {
		lines = append(lines, fmt.Sprintf("BGET\t%d\t%s\t%s\t%s\t=>\t%s", hid, label, u64s(ts), hxs(ks), doBatchGet(s, ks)))
	}
	allKeys := append([][]byte{}, h.keys...)
	allKeys = append(allKeys, []byte("absent"), []byte("a\x00\x01"))
	// buffer tier of BatchGetWithTier, before anything resolves a lock: a transaction with leftover
	// Put/Del locks plays the pipelined transaction that has flushed them
	for i := range h.txns {
		t := &h.txns[i]
		if !(t.kind == kCommitPrim || t.kind == kRollbackPrim || t.kind == kExpired || t.kind == kPushable || t.kind == kLiveFinish) || r.Intn(2) == 0 {
			continue
		}
		sp := e.snap(t.start)
		sp.SetPipelined(t.start)
		ks := allKeys
		if r.Intn(3) == 0 {
			ks = pick(r, 1+r.Intn(len(allKeys)), allKeys)
		}
		var dump []string
		dbg := e.mvcc.(mocktikv.MVCCDebugger)
		for _, k := range h.keys {
			if l := dbg.MvccGetByKey(e.phys(k)).Lock; l != nil {
				dump = append(dump, fmt.Sprintf("%s:%s:%s:%s", hx(k), u64s(l.StartTs), l.Type.String(), hx(l.ShortValue)))
			}
		}
		e.scheduleTopo(r)
		cpBuf := snapKeys(ks)
		res := guard(func() string {
			m, err := sp.BatchGetWithTier(context.Background(), ks, txnsnapshot.BatchGetBufferTier, kv.BatchGetOptions{})
			if err != nil {
				return "err:" + errKind(err)
			}
			keys := make([]string, 0, len(m))
			for k := range m {
				keys = append(keys, k)
			}
			sort.Strings(keys)
			parts := []string{}
			for _, k := range keys {
				parts = append(parts, hx([]byte(k))+"="+hx(m[k].Value))
			}
			if len(parts) == 0 {
				return "-"
			}
			return strings.Join(parts, ",")
		})
		d := "-"
		if len(dump) > 0 {
			d = strings.Join(dump, ",")
		}
		cpBuf.check("BatchGetWithTier(buffer)", ks)
		lines = append(lines, fmt.Sprintf("BBUF\t%d\tbuffer-tier\t%s\t%s\t%s\t=>\t%s", hid, u64s(t.start), hxs(ks), d, res))
		// the snapshot tier of the same pipelined snapshot: own locks are skipped, not resolved
		bgetL("pipelined-own", sp, t.start, allKeys)
		break
	}
	// the order of the first contact with the locks varies
	order := r.Intn(4)
	s1 := e.snap(h.ts1)
	first := func() {
		switch order {
		case 0: // cold batch get first
			e.scheduleTopo(r)
			bgetL("cold", s1, h.ts1, allKeys)
		case 1: // point gets first
			e.scheduleTopo(r)
			for _, k := range pick(r, 1+r.Intn(len(allKeys)), allKeys) {
				getL("cold", s1, h.ts1, k)
			}
		case 2: // forward scan first
			e.scanCase(&lines, "first", h.ts1, nil, nil, batchSizes[r.Intn(4)], false, false, true)
		default: // reverse scan from the end of the key space first
			e.scanCase(&lines, "first", h.ts1, nil, nil, batchSizes[r.Intn(4)], false, true, true)
		}
	}
	first()
	// all four paths, warm and cold
	for _, k := range allKeys {
		getL("warm", s1, h.ts1, k)
	}
	bgetL("warm", s1, h.ts1, allKeys)
	bgetL("warm-sub", s1, h.ts1, pick(r, 1+r.Intn(len(allKeys)), allKeys))
	s1b := e.snap(h.ts1)
	e.scheduleTopo(r)
	bgetL("cold2", s1b, h.ts1, allKeys)
	for _, k := range pick(r, 3, allKeys) {
		getL("rep", s1b, h.ts1, k)
	}
	// scans: full range in every batch size, both directions
	for _, b := range batchSizes {
		e.scanCase(&lines, "full", h.ts1, nil, nil, b, r.Intn(4) == 0, false, r.Intn(2) == 0)
		var top []byte
		if r.Intn(3) == 0 {
			top = []byte("\xff\xff\xff")
		}
		e.scanCase(&lines, "full", h.ts1, nil, top, b, r.Intn(4) == 0, true, r.Intn(2) == 0)
	}
	nb := 6
	if tier == "thorough" {
		nb = 16
	}
	for i := 0; i < nb; i++ {
		lo, hi := e.randBound(r), e.randBound(r)
		if len(hi) > 0 && bytes.Compare(lo, hi) > 0 {
			lo, hi = hi, lo
		}
		b := batchSizes[r.Intn(4)]
		if r.Intn(8) == 0 {
			b = r.Intn(2) // 0 / 1: replaced by the default size
		}
		e.scanCase(&lines, "rand", h.ts1, lo, hi, b, r.Intn(5) == 0, r.Intn(2) == 0, r.Intn(2) == 0)
	}
	// reverse scans whose lower bound is a region border (and a key of the universe when possible)
	if len(h.layout) > 0 {
		lo := h.layout[r.Intn(len(h.layout))]
		for _, k := range h.layout {
			for _, u := range h.keys {
				if bytes.Equal(k, u) && r.Intn(2) == 0 {
					lo = k
				}
			}
		}
		for _, b := range []int{2, 3, 5} {
			e.scanCase(&lines, "rev-border", h.ts1, lo, []byte("\xff\xff\xff"), b, false, true, false)
		}
		// equal bounds on a border, both directions
		e.scanCase(&lines, "eq-border", h.ts1, lo, lo, batchSizes[r.Intn(4)], false, true, false)
		e.scanCase(&lines, "eq-border", h.ts1, lo, lo, batchSizes[r.Intn(4)], false, false, false)
	}
	// reverse scans from the end of the key space (F08b class when there is more than one region)
	e.scanCase(&lines, "rev-unbounded", h.ts1, nil, nil, batchSizes[r.Intn(4)], false, true, r.Intn(2) == 0)
	if r.Intn(2) == 0 {
		e.scanCase(&lines, "rev-unbounded", h.ts1, e.randBound(r), nil, batchSizes[r.Intn(4)], false, true, r.Intn(2) == 0)
	}
	// move the timestamp of the warm snapshot: cached answers of ts1 must not leak
	s1.SetSnapshotTS(h.ts2)
	for _, k := range pick(r, 1+r.Intn(len(allKeys)), allKeys) {
		getL("moved", s1, h.ts2, k)
	}
	bgetL("moved", s1, h.ts2, allKeys)
	e.scanCase(&lines, "moved-fresh", h.ts2, nil, nil, batchSizes[r.Intn(4)], false, false, false)
	// the SAME key slice object reused over a partly warm cache: some keys read by Get first, then
	// BatchGet twice with one slice; the second call must still be asked for (and answer) every key
	for round := 0; round < 2; round++ {
		sa := e.snap(h.ts1)
		own := append([][]byte{}, allKeys...)
		if round == 1 {
			own = pick(r, 2+r.Intn(len(allKeys)), allKeys)
		}
		intended := hxs(own)
		for _, k := range pick(r, 1+r.Intn(len(own)), own) {
			getL("same-slice-warmup", sa, h.ts1, k)
		}
		for rep := 0; rep < 3; rep++ {
			lines = append(lines, fmt.Sprintf("BGET\t%d\tsame-slice-%d\t%s\t%s\t=>\t%s", hid, rep, u64s(h.ts1), intended, doBatchGet(sa, own)))
		}
	}
	// fault class: the i-th point-read RPC of a BatchGet / Get fails non-retryably (cancelled RPC or a
	// fabricated abort) while other regions answered; the SAME snapshot is then read again through every
	// path: a failed call must not leave anything behind
	for round := 0; round < 2; round++ {
		sf := e.snap(h.ts1)
		if round == 1 { // partly warm before the fault
			for _, k := range pick(r, 1+r.Intn(3), allKeys) {
				getL("fault-warmup", sf, h.ts1, k)
			}
		}
		e.hj.arm(1+r.Intn(3), r.Intn(2))
		if r.Intn(4) == 0 {
			getL("fault", sf, h.ts1, allKeys[r.Intn(len(allKeys))])
		} else {
			bgetL("fault", sf, h.ts1, allKeys)
		}
		e.hj.arm(0, 0)
		for _, k := range allKeys {
			getL("after-fault", sf, h.ts1, k)
		}
		bgetL("after-fault", sf, h.ts1, allKeys)
		bgetL("after-fault-sub", sf, h.ts1, pick(r, 1+r.Intn(len(allKeys)), allKeys))
	}
	e.scanCase(&lines, "after-fault", h.ts1, nil, nil, batchSizes[r.Intn(4)], false, false, false)
	// fault class: the kill flag (kv.Variables.Killed) is raised while a read runs; a read that has to back
	// off (lock wait, region miss) fails with "query interrupted", one that does not need to back off
	// succeeds; afterwards the flag is lowered and the SAME snapshot is read again: nothing half-done stays
	for round := 0; round < 2; round++ {
		var killed uint32
		sk := e.store.GetSnapshot(h.ts1)
		sk.SetVars(kv.NewVariables(&killed))
		if round == 1 {
			for _, k := range pick(r, 1+r.Intn(3), allKeys) {
				getL("kill-warmup", sk, h.ts1, k)
			}
		}
		e.scheduleTopo(r)
		atomic.StoreUint32(&killed, 1)
		if r.Intn(3) == 0 {
			getL("fault", sk, h.ts1, allKeys[r.Intn(len(allKeys))])
		} else {
			bgetL("fault", sk, h.ts1, allKeys)
		}
		atomic.StoreUint32(&killed, 0)
		for _, k := range allKeys {
			getL("after-kill", sk, h.ts1, k)
		}
		bgetL("after-kill", sk, h.ts1, allKeys)
	}
	// fault class: a Scan RPC is answered with a response-level lock error (both directions, random
	// bounds and batch sizes, with and without topology changes)
	for round := 0; round < 4; round++ {
		lo, hi := []byte(nil), []byte(nil)
		if round >= 2 {
			lo, hi = e.randBound(r), e.randBound(r)
			if len(hi) > 0 && bytes.Compare(lo, hi) > 0 {
				lo, hi = hi, lo
			}
		}
		if e.hj.armScanLock(1+r.Intn(3), r, h.ts1) {
			e.scanCase(&lines, "scan-resplock", h.ts1, lo, hi, batchSizes[r.Intn(4)], false, round%2 == 1, r.Intn(3) == 0)
			e.hj.arm(0, 0)
		}
	}
	// fault class: a BatchGet RPC is answered with a response-level lock error (TiKV does so when the
	// whole batch hits e.g. an in-memory lock): no pairs, one lock named; the retry must re-read ALL keys of
	// the batch.  Synchronous and asynchronous API, batches of 1..n keys, cold and partly warm cache.
	for round := 0; round < 4; round++ {
		asyncMode := round%2 == 1
		restore := config.UpdateGlobal(func(c *config.Config) { c.EnableAsyncBatchGet = asyncMode })
		label := "lockans-sync"
		if asyncMode {
			label = "lockans-async"
		}
		sl := e.snap(h.ts1)
		if round >= 2 {
			for _, k := range pick(r, 1+r.Intn(3), allKeys) {
				getL("lockans-warmup", sl, h.ts1, k)
			}
		}
		ks := allKeys
		if r.Intn(3) == 0 {
			ks = pick(r, 1+r.Intn(len(allKeys)), allKeys)
		}
		if e.hj.armLockAnswer(1+r.Intn(2), r, h.ts1) {
			bgetL(label, sl, h.ts1, ks)
			e.hj.arm(0, 0)
			for _, k := range allKeys {
				getL("after-"+label, sl, h.ts1, k)
			}
			bgetL("after-"+label, sl, h.ts1, allKeys)
		}
		restore()
	}
	// a pessimistic lock resolved by a WRITER while the primary does not exist yet (status check answers
	// "lock not exist, nothing done": not a final status, must not be remembered), the transaction then
	// prewrites, commits its primary and leaves the secondary locked; a reader after the commit must read
	// the new value (the resolver's status cache must not say "rolled back")
	{
		dbg := e.mvcc.(mocktikv.MVCCDebugger)
		var free [][]byte
		for _, k := range h.keys {
			if dbg.MvccGetByKey(e.phys(k)).Lock == nil {
				free = append(free, k)
			}
		}
		if len(free) >= 2 && r.Intn(2) == 0 {
			pk, sk := free[r.Intn(len(free))], free[r.Intn(len(free))]
			if !bytes.Equal(pk, sk) {
				n := len(h.txns) + 12
				tT, tC, tR := tsAt(n, 1), tsAt(n, 6), tsAt(n+1, 0)
				resp := e.mvcc.PessimisticLock(&kvrpcpb.PessimisticLockRequest{Context: &kvrpcpb.Context{},
					Mutations:   []*kvrpcpb.Mutation{{Op: kvrpcpb.Op_PessimisticLock, Key: e.phys(sk)}},
					PrimaryLock: e.phys(pk), StartVersion: tT, ForUpdateTs: tT, LockTtl: 1, WaitTimeout: -1})
				if len(resp.Errors) == 0 {
					lr := e.store.GetLockResolver()
					_ = guard(func() string {
						bo := retry.NewBackofferWithVars(context.Background(), 2000, nil)
						_, err := lr.ResolveLocksWithOpts(bo, txnlock.ResolveLocksOptions{CallerStartTS: tR, Locks: []*txnlock.Lock{{
							Key: sk, Primary: pk, TxnID: tT, TTL: 1, TxnSize: 2, LockType: kvrpcpb.Op_PessimisticLock, LockForUpdateTS: tT}}})
						if err != nil {
							return "err:" + errKind(err)
						}
						return "ok"
					})
					vals := [][]byte{[]byte("pl.p"), []byte("pl.s")}
					errs := e.mvcc.Prewrite(&kvrpcpb.PrewriteRequest{Context: &kvrpcpb.Context{}, Mutations: []*kvrpcpb.Mutation{
						{Op: kvrpcpb.Op_Put, Key: e.phys(pk), Value: vals[0]}, {Op: kvrpcpb.Op_Put, Key: e.phys(sk), Value: vals[1]}},
						PrimaryLock: e.phys(pk), StartVersion: tT, LockTtl: 1, TxnSize: 2})
					okp := true
					for _, er := range errs {
						if er != nil {
							okp = false
						}
					}
					if okp && e.mvcc.Commit([][]byte{e.phys(pk)}, tT, tC) == nil {
						e.h.txns = append(e.h.txns, txnSpec{kind: kCommitPrim, start: tT, commit: tC, keys: [][]byte{pk, sk},
							del: []bool{false, false}, vals: vals, ttl: 1})
						sn := e.snap(tR)
						getL("pess-late", sn, tR, sk)
						getL("pess-late", sn, tR, pk)
						bgetL("pess-late", e.snap(tR), tR, allKeys)
					} else if okp {
						_ = e.mvcc.Rollback([][]byte{e.phys(pk), e.phys(sk)}, tT)
					}
				}
			}
		}
	}
	// a cache program: gets / batch gets / SetSnapshotTS / failing calls interleaved on one snapshot
	{
		sc := e.snap(h.ts1)
		hasLive := false
		for _, t := range h.txns {
			if t.kind == kLiveFinish || t.kind == kPushable { // pushable ones are committed by the forward-move section
				hasLive = true
			}
		}
		var ops, res []string
		n := 6 + r.Intn(8)
		for i := 0; i < n; i++ {
			switch x := r.Intn(12); {
			case x < 5:
				k := allKeys[r.Intn(len(allKeys))]
				ops = append(ops, "g:"+hx(k))
				res = append(res, doGet(sc, k))
			case x < 8:
				ks := pick(r, 1+r.Intn(4), allKeys)
				ops = append(ops, "b:"+hxs(ks))
				res = append(res, doBatchGet(sc, ks))
			case x >= 10:
				// a call with an injected fault; if no RPC was needed (all cached) it is an ordinary call
				e.hj.arm(1+r.Intn(2), r.Intn(2))
				var op, rr string
				if r.Intn(3) == 0 {
					k := allKeys[r.Intn(len(allKeys))]
					op, rr = "g:"+hx(k), doGet(sc, k)
				} else {
					ks := pick(r, 2+r.Intn(5), allKeys)
					op, rr = "b:"+hxs(ks), doBatchGet(sc, ks)
				}
				e.hj.arm(0, 0)
				if rr == "err:injected" {
					op = strings.ToUpper(op[:1]) + op[1:]
				}
				ops = append(ops, op)
				res = append(res, rr)
			default:
				ts := h.ts1
				if r.Intn(2) == 0 {
					ts = h.ts2
				}
				// the max timestamp reads "the latest committed data as of now", which is the final truth only
				// if no live transaction can still be finished by a later read of the program
				if r.Intn(6) == 0 && !hasLive {
					ts = ^uint64(0)
				}
				sc.SetSnapshotTS(ts)
				ops = append(ops, "t:"+u64s(ts))
				res = append(res, "ok")
			}
		}
		res = append(res, fmt.Sprintf("size=%d", sc.SnapCacheSize()))
		lines = append(lines, fmt.Sprintf("CACHE\t%d\tprog\t0\t%s\t=>\t%s", hid, strings.Join(ops, ";"), strings.Join(res, ";")))
	}
	// the same kind of program with the store's cached transaction safe point above ts1: reads below it
	// are refused (CheckVisibility) and must stay refused on every re-read; moving above it serves them
	{
		spTS := h.ts1 + 1
		tsHigh := spTS + 10
		e.store.UpdateTxnSafePointCache(spTS, time.Now())
		sc := e.snap(h.ts1)
		var ops, res []string
		n := 6 + r.Intn(6)
		for i := 0; i < n; i++ {
			switch x := r.Intn(10); {
			case x < 4:
				k := allKeys[r.Intn(len(allKeys))]
				ops = append(ops, "g:"+hx(k))
				res = append(res, doGet(sc, k))
			case x < 8:
				ks := pick(r, 1+r.Intn(4), allKeys)
				ops = append(ops, "b:"+hxs(ks))
				res = append(res, doBatchGet(sc, ks))
			default:
				ts := []uint64{h.ts1, tsHigh, tsHigh, h.ts2}[r.Intn(4)]
				sc.SetSnapshotTS(ts)
				ops = append(ops, "t:"+u64s(ts))
				res = append(res, "ok")
			}
		}
		res = append(res, fmt.Sprintf("size=%d", sc.SnapCacheSize()))
		e.store.UpdateTxnSafePointCache(0, time.Now())
		lines = append(lines, fmt.Sprintf("CACHE\t%d\tprog-sp\t%s\t%s\t=>\t%s", hid, u64s(spTS), strings.Join(ops, ";"), strings.Join(res, ";")))
	}
	// forward move over a commit (last section: it changes the world).  A snapshot meets the lock of a
	// live, pushable transaction (min commit ts pushed, the transaction is remembered as "ignore"); the
	// owner then commits the primary and leaves the secondary locks; the SAME snapshot object is moved
	// FORWARD past the commit: it must stop ignoring that transaction (plain and pipelined snapshot),
	// then moved back.
	for i := range h.txns {
		pt := &h.txns[i]
		if pt.kind != kPushable || len(pt.keys) < 2 || pt.start > h.ts1 {
			continue
		}
		nowPhys := oracle.GetPhysical(time.Now())
		commitTS, tsF := oracle.ComposeTS(nowPhys+2000, 0), oracle.ComposeTS(nowPhys+4000, 0)
		sA, sB := e.snap(h.ts1), e.snap(h.ts1)
		sB.SetPipelined(tsAt(0, 1))
		snaps := []*txnsnapshot.KVSnapshot{sA, sB}
		names := []string{"fm", "fm-pipelined"}
		for j, sn := range snaps {
			if r.Intn(2) == 0 {
				bgetL(names[j]+"-before", sn, h.ts1, allKeys)
			} else {
				for _, k := range pt.keys {
					getL(names[j]+"-before", sn, h.ts1, k)
				}
			}
		}
		if err := e.mvcc.Commit(e.physAll(pt.keys[:1]), pt.start, commitTS); err != nil {
			break // e.g. the lock was resolved otherwise: no forward-move case in this history
		}
		// whoever reads first after the move meets the leftover secondary lock (and resolves it)
		if r.Intn(2) == 0 {
			snaps[0], snaps[1], names[0], names[1] = snaps[1], snaps[0], names[1], names[0]
		}
		for j, sn := range snaps {
			sn.SetSnapshotTS(tsF)
			for _, k := range pt.keys {
				getL(names[j]+"-after", sn, tsF, k)
			}
			bgetL(names[j]+"-after", sn, tsF, allKeys)
			sn.SetSnapshotTS(h.ts1)
			bgetL(names[j]+"-back", sn, h.ts1, allKeys)
			sn.SetSnapshotTS(tsF)
			bgetL(names[j]+"-again", sn, tsF, allKeys)
		}
		bgetL("fm-fresh", e.snap(tsF), tsF, allKeys)
		e.scanCase(&lines, "fm-fresh", tsF, nil, nil, batchSizes[r.Intn(4)], false, r.Intn(2) == 0, false)
		break
	}
	return lines
}

// directed regression (the former F08/F08b witness): keys a..h, regions split at "c" and "f",
// IterReverse from the end of the key space with and without a lower bound
const regressionHID = 99999
const regressionHID1 = 99998  // the same data in a single region
const regressionHIDks = 99997 // three regions under an API v2 keyspace store

func regressionHistory(hid int) *history {
	h := &history{hid: hid, rnd: rand.New(rand.NewSource(1))}
	for c := byte('a'); c <= 'h'; c++ {
		h.keys = append(h.keys, []byte{c})
	}
	if hid != regressionHID1 {
		h.layout = [][]byte{[]byte("c"), []byte("f")}
	}
	for i := 0; i < 4; i++ {
		t := txnSpec{kind: kCommitted, start: tsAt(i+1, 0), commit: tsAt(i+1, 5), ttl: 100}
		for j := 0; j < 2; j++ {
			t.keys = append(t.keys, h.keys[2*i+j])
			t.del = append(t.del, false)
			t.vals = append(t.vals, []byte{'v', h.keys[2*i+j][0]})
		}
		h.txns = append(h.txns, t)
	}
	h.ts1, h.ts2 = tsAt(9, 0), tsAt(9, 0)
	return h
}

func (e *env) regressionReads() []string {
	var lines []string
	// F38 (fixed by 8f02ec4): batch sizes at and above the uint32 limit of the scan request
	for _, b := range []int{1 << 32, 1<<32 + 2, 1<<32 - 1} {
		e.scanCase(&lines, "regression-f38", e.h.ts1, nil, nil, b, false, false, false)
		e.scanCase(&lines, "regression-f38", e.h.ts1, nil, nil, b, false, true, false)
		e.scanCase(&lines, "regression-f38", e.h.ts1, []byte("b"), []byte("g"), b, false, false, false)
	}
	for _, b := range []int{256, 2, 3} {
		e.scanCase(&lines, "regression-f08", e.h.ts1, nil, nil, b, false, true, false)
		for _, lo := range []string{"c", "b", "f", "g\x00"} {
			e.scanCase(&lines, "regression-f08", e.h.ts1, []byte(lo), nil, b, false, true, false)
		}
	}
	return lines
}

func runHistory(seed int64, hid int, tier string) {
	if hung {
		return
	}
	h := genHistory(seed, hid, tier)
	if hid == regressionHID || hid == regressionHID1 || hid == regressionHIDks {
		h = regressionHistory(hid)
	}
	h.keyspace = hid%10 == 7 || hid == regressionHIDks
	// a third of the histories use the asynchronous batch-get API, a quarter ask for commit timestamps
	asyncBG := hid%3 == 0
	withCommitTS = hid%4 == 1
	restore := config.UpdateGlobal(func(c *config.Config) { c.EnableAsyncBatchGet = asyncBG })
	defer restore()
	e := newEnv(h)
	defer e.store.Close()
	if hid%2 == 1 && hid < regressionHIDks {
		e.opts = 1 + h.rnd.Intn(127)
	}
	e.build()
	var lines []string
	if hid == regressionHID || hid == regressionHID1 || hid == regressionHIDks {
		lines = e.regressionReads()
	} else {
		lines = e.reads(tier)
	}
	// quiescence: let asynchronous lock resolution finish (it only moves committed data from a
	// lock to a write record; the truth below is the same before and after)
	time.Sleep(2 * time.Millisecond)
	fmt.Fprintf(out, "HIST\t%d\t%s\t%s\t%s\t%s\n", hid, u64s(h.ts1), u64s(h.ts2), hxs(h.layout), h.desc())
	for _, l := range e.truthLines() {
		fmt.Fprintln(out, l)
	}
	for _, l := range lines {
		fmt.Fprintln(out, l)
	}
	e.hj.mu.Lock()
	for _, l := range e.hj.later {
		fmt.Fprintf(out, "LATER\t%d\t%s\t=>\tprobed\n", hid, l)
	}
	for _, l := range e.hj.leaks {
		fmt.Fprintf(out, "LATER\t%d\t%s\t=>\tcommitted-lock-not-committed-at-request-ts\n", hid, l)
	}
	fmt.Fprintf(out, "LATER\t%d\tnone\tnone\t=>\tchecked\n", hid)
	// atomicity of what the readers resolved: a key of a transaction whose primary is committed must carry
	// that commit (or still the lock) — never a rollback, never nothing
	{
		dbg := e.mvcc.(mocktikv.MVCCDebugger)
		for _, t := range h.txns {
			if t.kind == kPessimistic || len(t.keys) < 2 {
				continue
			}
			c := e.commitOfTxn(t.start)
			if c == 0 {
				continue
			}
			for _, k := range t.keys[1:] {
				info := dbg.MvccGetByKey(e.phys(k))
				ok := info.Lock != nil && info.Lock.StartTs == t.start
				for _, w := range info.Writes {
					if w.StartTs == t.start && w.Type != kvrpcpb.Op_Rollback && w.CommitTs == c {
						ok = true
					}
				}
				if !ok {
					fmt.Fprintf(out, "ATOMIC\t%d\t%s\t%s\t=>\tsecondary-lost-under-committed-primary\n", hid, u64s(t.start), hx(k))
				}
			}
		}
		fmt.Fprintf(out, "ATOMIC\t%d\tnone\tnone\t=>\tchecked\n", hid)
	}
	for _, a := range aliasLog {
		fmt.Fprintf(out, "ALIAS\t%d\t%s\t=>\tmodified\n", hid, a)
	}
	aliasLog = nil
	fmt.Fprintf(out, "ALIAS\t%d\tnone\t=>\tchecked\n", hid)
	fmt.Fprintf(out, "MODE\t%d\tasync=%v\tcommitts=%v keyspace=%v\tasyncRPCs=%d\n", hid, asyncBG, withCommitTS, h.keyspace, e.hj.asyncSent)
	optRes := "ok"
	if e.opts&4 != 0 && e.hj.readRPCs > 0 && atomic.LoadInt64(&e.intercepted) == 0 {
		optRes = "interceptor-never-called"
	}
	fmt.Fprintf(out, "OPTS\t%d\t%d\tintercepted=%d\t=>\t%s\n", hid, e.opts, atomic.LoadInt64(&e.intercepted), optRes)
	e.hj.mu.Unlock()
}

// ---------------------------------------------------------------- classification differential
var actions = []kvrpcpb.Action{kvrpcpb.Action_NoAction, kvrpcpb.Action_TTLExpireRollback, kvrpcpb.Action_LockNotExistRollback,
	kvrpcpb.Action_MinCommitTSPushed, kvrpcpb.Action_TTLExpirePessimisticRollback, kvrpcpb.Action_LockNotExistDoNothing}
var actionName = []string{"NoAction", "TTLExpireRollback", "LockNotExistRollback", "MinCommitTSPushed", "TTLExpirePessimisticRollback", "LockNotExistDoNothing"}

func runClassify(seed int64, n int) {
	h := &history{hid: 0, keys: [][]byte{[]byte("k")}}
	e := newEnv(h)
	defer e.store.Close()
	r := rand.New(rand.NewSource(seed*31 + 5))
	lr := e.store.GetLockResolver()
	ts := tsAt(50, 0)
	for i := 0; i < n; i++ {
		txn := oracle.ComposeTS(basePhys-7200000+int64(i), 1)
		var ttl, commit uint64
		if r.Intn(2) == 0 {
			ttl = uint64(1 + r.Intn(5)*3600*1000)
		}
		switch r.Intn(5) {
		case 0:
			commit = ts
		case 1:
			commit = ts + 1
		case 2:
			commit = ts - 1
		case 3:
			commit = uint64(1 + r.Intn(1000))
		}
		ai := r.Intn(len(actions))
		if i < 72 { // the full table first
			ai = i % 6
			ttl = []uint64{0, 3 * 3600 * 1000}[(i/6)%2]
			commit = []uint64{0, ts - 1, ts, ts + 1, 1, ^uint64(0) >> 1}[(i/12)%6]
		}
		forRead := r.Intn(4) != 0
		e.hj.mu.Lock()
		e.hj.fakeSt[txn] = &kvrpcpb.CheckTxnStatusResponse{LockTtl: ttl, CommitVersion: commit, Action: actions[ai]}
		e.hj.mu.Unlock()
		l := &txnlock.Lock{Key: []byte("k"), Primary: []byte("k"), TxnID: txn, TTL: 3000, TxnSize: 1, LockType: kvrpcpb.Op_Put}
		res := guard(func() string {
			bo := retry.NewBackofferWithVars(context.Background(), 1000, nil)
			rr, err := lr.ResolveLocksWithOpts(bo, txnlock.ResolveLocksOptions{CallerStartTS: ts, Locks: []*txnlock.Lock{l}, ForRead: forRead, Lite: true})
			if err != nil {
				return "err:" + errKind(err)
			}
			has := func(xs []uint64) bool {
				for _, x := range xs {
					if x == txn {
						return true
					}
				}
				return false
			}
			// for a write-side resolve the lists are computed as well; what the caller acts on is the TTL
			switch {
			case has(rr.IgnoreLocks) && has(rr.AccessLocks):
				return "both"
			case has(rr.IgnoreLocks):
				return "ignore"
			case has(rr.AccessLocks):
				return "access"
			default:
				return "wait"
			}
		})
		fr := "0"
		if forRead {
			fr = "1"
		}
		if ttl != 0 {
			commit = 0 // getTxnStatus keeps the commit version only when the TTL is zero
		}
		fmt.Fprintf(out, "CLS\t%s\t%s\t%s\t%s\t%s\t=>\t%s\n", fr, u64s(ttl), u64s(commit), actionName[ai], u64s(ts), res)
	}
}

func logLevel() string {
	if l := os.Getenv("VERIF_LOG"); l != "" {
		return l
	}
	return "fatal"
}

func main() {
	out = bufio.NewWriterSize(os.Stdout, 1<<20)
	defer out.Flush()
	if lg, props, err := log.InitLogger(&log.Config{Level: logLevel()}); err == nil {
		log.ReplaceGlobals(lg, props)
	}
	util.EnableFailpoints()
	must(failpoint.Enable("tikvclient/fastBackoffBySkipSleep", "return"))
	basePhys = oracle.GetPhysical(time.Now()) - 3600*1000
	seed := int64(1)
	if s := os.Getenv("VERIF_SEED"); s != "" {
		v, err := strconv.ParseInt(s, 10, 64)
		must(err)
		seed = v
	}
	tier := os.Getenv("VERIF_TIER")
	if len(os.Args) >= 4 && os.Args[1] == "replay" {
		// replay <seed> <hid> [tier]
		sd, err := strconv.ParseInt(os.Args[2], 10, 64)
		must(err)
		hid, err := strconv.Atoi(os.Args[3])
		must(err)
		if len(os.Args) >= 5 {
			tier = os.Args[4]
		}
		if hid == 0 {
			runClassify(sd, 300)
		} else {
			runHistory(sd, hid, tier)
		}
		return
	}
	n := 600
	if tier == "thorough" {
		n = 8000
	}
	if s := os.Getenv("VERIF_N"); s != "" {
		v, err := strconv.Atoi(s)
		must(err)
		n = v
	}
	runClassify(seed, 300)
	runHistory(seed, regressionHID, tier)
	runHistory(seed, regressionHID1, tier)
	runHistory(seed, regressionHIDks, tier)
	for hid := 1; hid <= n; hid++ {
		runHistory(seed, hid, tier)
	}
}
