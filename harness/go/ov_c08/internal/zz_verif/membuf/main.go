//go:build verif

// Driver for property C08: runs identical operation sequences on the ART backed and the RBT backed
// MemBuffer and prints one line per operation (the model driver recomputes every result).
//
//	SEQ <id> <class>
//	O <op> <args..> => <canonical result of ART>          (RBT's result is compared here)
//	P <oracle> <seq> <idx> fail <detail..>                 property oracle failed on the implementation
//	END
//	PC <oracle> <evaluations>                              oracle evaluation counters (at the end)
//
// Modes:  membuf                 generate (VERIF_SEED, VERIF_TIER)
//
//	membuf replay exact FILE  execute the O lines of FILE as they are
//	membuf replay auto FILE   execute the mutators of FILE, full observation after every one
package main

import (
	"bufio"
	"bytes"
	"context"
	"encoding/hex"
	"fmt"
	"io"
	"math/rand"
	"os"
	"sort"
	"strconv"
	"strings"
	"sync/atomic"
	"syscall"
	"time"

	"github.com/pingcap/log"
	tikverr "github.com/tikv/client-go/v2/error"
	"github.com/tikv/client-go/v2/internal/unionstore"
	"github.com/tikv/client-go/v2/internal/unionstore/arena"
	"github.com/tikv/client-go/v2/internal/unionstore/art"
	"github.com/tikv/client-go/v2/internal/unionstore/rbt"
	"github.com/tikv/client-go/v2/kv"
	"go.uber.org/zap"
)

var out *bufio.Writer
var ctx = context.Background()

// ---------- canonical encodings ----------
func enc(b []byte) string {
	if len(b) == 0 {
		return "-"
	}
	if len(b) >= 16 {
		same := true
		for _, c := range b {
			if c != b[0] {
				same = false
				break
			}
		}
		if same {
			return fmt.Sprintf("r%02xx%d", b[0], len(b))
		}
	}
	return hex.EncodeToString(b)
}

func dec(s string) []byte {
	if s == "-" {
		return nil
	}
	if s == "_" {
		return []byte{} // empty but NON-nil: as a bound it must mean "unbounded", exactly like nil
	}
	if s[0] == 'r' {
		x := strings.IndexByte(s, 'x')
		b, _ := strconv.ParseUint(s[1:x], 16, 8)
		n, _ := strconv.Atoi(s[x+1:])
		return bytes.Repeat([]byte{byte(b)}, n)
	}
	b, err := hex.DecodeString(s)
	if err != nil {
		panic(err)
	}
	return b
}

func encFops(ops []int) string {
	if len(ops) == 0 {
		return "-"
	}
	s := make([]string, len(ops))
	for i, o := range ops {
		s[i] = strconv.Itoa(o)
	}
	return strings.Join(s, ",")
}

func decFops(s string) []kv.FlagsOp {
	if s == "-" {
		return nil
	}
	var r []kv.FlagsOp
	for _, x := range strings.Split(s, ",") {
		i, _ := strconv.Atoi(x)
		r = append(r, kv.FlagsOp(1<<uint(i)))
	}
	return r
}

func limitOf(s string) uint64 {
	if s == "max" {
		return ^uint64(0)
	}
	v, _ := strconv.ParseUint(s, 16, 64)
	return v
}

func errStr(err error) string {
	if err == nil {
		return "ok"
	}
	switch err.(type) {
	case *tikverr.ErrKeyTooLarge:
		return "err:key"
	case *tikverr.ErrEntryTooLarge:
		return "err:entry"
	case *tikverr.ErrTxnTooLarge:
		return "err:txn"
	}
	if tikverr.IsErrNotFound(err) {
		return "notfound"
	}
	return "err:other:" + err.Error()
}

// ---------- one implementation under test ----------
type impl struct {
	name  string
	mb    unionstore.MemBuffer
	art   *art.ART
	rbt   *rbt.RBT
	depth int
	regs  [][]*unionstore.MemDBCheckpoint
	bsnap unionstore.MemBufferSnapshot // a batched snapshot iterator kept across operations (bopen / bnext)
	bit   unionstore.Iterator
}

func newImpl(name string) *impl {
	im := &impl{name: name, regs: [][]*unionstore.MemDBCheckpoint{nil}}
	if name == "art" {
		im.mb = unionstore.VerifNewART()
		im.art = unionstore.VerifART(im.mb)
	} else {
		im.mb = unionstore.VerifNewRBT()
		im.rbt = unionstore.VerifRBT(im.mb)
	}
	return im
}

type kvp struct{ k, v []byte }

func cp(b []byte) []byte { return append([]byte{}, b...) }

func collect(it unionstore.Iterator) []kvp {
	var r []kvp
	for it.Valid() {
		r = append(r, kvp{cp(it.Key()), cp(it.Value())})
		if err := it.Next(); err != nil {
			break
		}
		if len(r) > 4000 {
			r = append(r, kvp{[]byte("RUNAWAY"), nil})
			break
		}
	}
	it.Close()
	return r
}

func kvsStr(l []kvp) string {
	var sb strings.Builder
	sb.WriteString("kv:")
	for i, p := range l {
		if i > 0 {
			sb.WriteByte(',')
		}
		sb.WriteString(enc(p.k))
		sb.WriteByte('=')
		sb.WriteString(enc(p.v))
	}
	return sb.String()
}

type flagIter interface {
	Valid() bool
	Key() []byte
	Value() []byte
	Flags() kv.KeyFlags
	HasValue() bool
	Next() error
	Close()
}

func (im *impl) popReg() {
	if len(im.regs) > 1 {
		im.regs = im.regs[:len(im.regs)-1]
	} else {
		im.regs = [][]*unionstore.MemDBCheckpoint{nil}
	}
}

// exec runs one op, returns the canonical result ("panic" when the code panicked)
func (im *impl) exec(f []string) (res string) {
	defer func() {
		if r := recover(); r != nil {
			res = "panic"
		}
	}()
	mb := im.mb
	switch f[0] {
	case "set":
		k, v, ops := dec(f[1]), dec(f[2]), decFops(f[3])
		var err error
		if len(v) == 0 {
			if len(ops) == 0 {
				err = mb.Delete(k)
			} else {
				err = mb.DeleteWithFlags(k, ops...)
			}
		} else if len(ops) == 0 {
			err = mb.Set(k, v)
		} else {
			err = mb.SetWithFlags(k, v, ops...)
		}
		return errStr(err)
	case "flags":
		mb.UpdateFlags(dec(f[1]), decFops(f[2])...)
		return "ok"
	case "staging":
		h := mb.Staging()
		im.depth++
		im.regs = append(im.regs, nil)
		return "n:" + strconv.Itoa(h)
	case "release":
		h, _ := strconv.Atoi(f[1])
		mb.Release(h) // panics when h != depth
		if h != 0 {
			im.depth--
			inner := im.regs[len(im.regs)-1]
			im.popReg()
			// tokens taken inside the released level stay valid in the level below
			im.regs[len(im.regs)-1] = append(im.regs[len(im.regs)-1], inner...)
		}
		return "ok"
	case "cleanup":
		h, _ := strconv.Atoi(f[1])
		mb.Cleanup(h) // panics when h < depth
		if h != 0 && h <= im.depth {
			im.depth--
			im.popReg()
		}
		return "ok"
	case "cp":
		top := len(im.regs) - 1
		im.regs[top] = append(im.regs[top], mb.Checkpoint())
		return "n:" + strconv.Itoa(len(im.regs[top])-1)
	case "revert":
		i, _ := strconv.Atoi(f[1])
		top := len(im.regs) - 1
		if i < 0 || i >= len(im.regs[top]) {
			return "misuse"
		}
		mb.RevertToCheckpoint(im.regs[top][i])
		im.regs[top] = im.regs[top][:i+1]
		return "ok"
	case "limits":
		mb.SetEntrySizeLimit(limitOf(f[1]), limitOf(f[2]))
		return "ok"
	case "get":
		e, err := mb.Get(ctx, dec(f[1]))
		if err != nil {
			return errStr(err)
		}
		return "v:" + enc(e.Value)
	case "gflags":
		fl, err := mb.GetFlags(dec(f[1]))
		if err != nil {
			return errStr(err)
		}
		// the flag word and what its readers (KeyFlags.HasXxx) say, in the order of FlagPreds.preds
		preds := []bool{fl.HasAssertExist(), fl.HasAssertNotExist(), fl.HasAssertUnknown(), fl.HasAssertionFlags(),
			fl.HasPresumeKeyNotExists(), fl.HasLocked(), fl.HasLockedInShareMode(), fl.HasNeedLocked(), fl.HasLockedValueExists(),
			fl.HasNeedCheckExists(), fl.HasPrewriteOnly(), fl.HasIgnoredIn2PC(), fl.HasReadable(),
			fl.HasNeedConstraintCheckInPrewrite(), fl.HasNewlyInserted()}
		w := 0
		for i, b := range preds {
			if b {
				w |= 1 << uint(i)
			}
		}
		return "f:" + strconv.Itoa(int(fl)) + ":" + strconv.Itoa(w)
	case "len":
		return "n:" + strconv.Itoa(mb.Len())
	case "size":
		return "n:" + strconv.Itoa(mb.Size())
	case "dirty":
		if mb.Dirty() {
			return "b:1"
		}
		return "b:0"
	case "iter":
		lo, hi := dec(f[2]), dec(f[3])
		var it unionstore.Iterator
		var err error
		if f[1] == "1" {
			it, err = mb.IterReverse(hi, lo)
		} else {
			it, err = mb.Iter(lo, hi)
		}
		if err != nil {
			return "err:other:" + err.Error()
		}
		return kvsStr(collect(it))
	case "iterf":
		lo, hi := dec(f[2]), dec(f[3])
		var it flagIter
		switch {
		case f[1] == "1" && im.art != nil:
			it = im.art.IterReverseWithFlags(hi) // reverse: no lower bound in the API
		case f[1] == "1":
			it = im.rbt.IterReverseWithFlags(hi)
		case im.art != nil:
			it = im.art.IterWithFlags(lo, hi)
		default:
			it = im.rbt.IterWithFlags(lo, hi)
		}
		var sb strings.Builder
		sb.WriteString("kfv:")
		n := 0
		for it.Valid() {
			if n > 0 {
				sb.WriteByte(',')
			}
			n++
			sb.WriteString(enc(it.Key()))
			sb.WriteByte('/')
			sb.WriteString(strconv.Itoa(int(it.Flags())))
			sb.WriteByte('=')
			if it.HasValue() {
				sb.WriteString(enc(it.Value()))
			} else {
				sb.WriteByte('~')
			}
			if err := it.Next(); err != nil {
				break
			}
		}
		return sb.String()
	case "bopen":
		// GetSnapshot().BatchedSnapshotIter kept open across the following operations
		if im.depth == 0 {
			return "nostage"
		}
		im.bsnap = mb.GetSnapshot()
		if f[1] == "1" {
			im.bit = im.bsnap.BatchedSnapshotIter(dec(f[2]), dec(f[3]), true)
		} else {
			im.bit = im.bsnap.BatchedSnapshotIter(dec(f[2]), dec(f[3]), false)
		}
		return "ok"
	case "bnext":
		if im.bit == nil {
			return "none"
		}
		n, _ := strconv.Atoi(f[1])
		var l []kvp
		for i := 0; i < n && im.bit.Valid(); i++ {
			l = append(l, kvp{cp(im.bit.Key()), cp(im.bit.Value())})
			if err := im.bit.Next(); err != nil {
				break
			}
		}
		if im.bit.Valid() {
			return kvsStr(l) + "|v"
		}
		return kvsStr(l) + "|x"
	case "sget":
		e, err := mb.SnapshotGetter().Get(ctx, dec(f[1]))
		if err != nil {
			return errStr(err)
		}
		return "v:" + enc(e.Value)
	case "siter":
		lo, hi := dec(f[2]), dec(f[3])
		if f[1] == "1" {
			return kvsStr(collect(mb.SnapshotIterReverse(hi, lo)))
		}
		return kvsStr(collect(mb.SnapshotIter(lo, hi)))
	case "inspect":
		h, _ := strconv.Atoi(f[1])
		var sb strings.Builder
		sb.WriteString("kfv:")
		n := 0
		mb.InspectStage(h, func(k []byte, fl kv.KeyFlags, v []byte) {
			if n > 0 {
				sb.WriteByte(',')
			}
			n++
			sb.WriteString(enc(k) + "/" + strconv.Itoa(int(fl)) + "=" + enc(v))
		})
		return sb.String()
	case "hist":
		k := dec(f[1])
		pred := predOf(f[2])
		var v []byte
		var err error
		if im.art != nil {
			v, err = im.art.SelectValueHistory(k, pred)
		} else {
			v, err = im.rbt.SelectValueHistory(k, pred)
		}
		if err != nil {
			return errStr(err)
		}
		if v == nil {
			return "nil"
		}
		return "v:" + enc(v)
	case "tree":
		if im.art != nil {
			return im.art.VerifDump()
		}
		return "tree"
	case "seekl":
		if im.art != nil {
			return im.art.VerifSeekFirst(dec(f[1]))
		}
		return "seekl"
	case "rangel":
		if im.art != nil {
			return im.art.VerifRange(dec(f[2]), dec(f[3]), f[1] == "1")
		}
		return "rangel"
	case "seq":
		if im.art != nil {
			return fmt.Sprintf("ws:%d:%d", im.art.WriteSeqNo, im.art.SnapshotSeqNo)
		}
		return "ws"
	}
	return "unknown-op"
}

func predOf(s string) func([]byte) bool {
	switch s {
	case "any":
		return func([]byte) bool { return true }
	case "never":
		return func([]byte) bool { return false }
	case "nonempty":
		return func(v []byte) bool { return len(v) > 0 }
	}
	n, _ := strconv.Atoi(s[2:])
	return func(v []byte) bool { return len(v) <= n }
}

func isMutator(op string) bool {
	switch op {
	case "set", "flags", "staging", "release", "cleanup", "cp", "revert", "limits":
		return true
	}
	return false
}

// ---------- sequence runner ----------
type runner struct {
	a, r   *impl
	id     string
	idx    int
	pc     map[string]int
	staleN int
}

var pcTotal = map[string]int{}

// ---------- watchdog: a call into the buffer that never returns is a property failure, not a hung check ----------
type hbInfo struct {
	seq, op string
	idx     int
	printed bool
}

var hbCount atomic.Uint64
var hbCur atomic.Value // hbInfo
var inWrite, wdOff atomic.Bool

// wdWriter: time spent blocked on the output pipe (the model driver reads slower than we write) is not a hang
type wdWriter struct{ w io.Writer }

func (x wdWriter) Write(p []byte) (int, error) {
	inWrite.Store(true)
	n, err := x.w.Write(p)
	hbCount.Add(1)
	inWrite.Store(false)
	return n, err
}

func heartbeat(seq string, idx int, op string, printed bool) {
	hbCur.Store(hbInfo{seq, op, idx, printed})
	hbCount.Add(1)
}

func cpuTime() time.Duration {
	var ru syscall.Rusage
	if syscall.Getrusage(syscall.RUSAGE_SELF, &ru) != nil {
		return 0
	}
	return time.Duration(ru.Utime.Nano() + ru.Stime.Nano())
}

// a stall counts as a hang when the process burnt CPU for at least half of the limit without finishing the
// op (busy loop), or made no progress for 10x the limit (blocked); a starved machine alone is not a hang
func watchdog(limit time.Duration) {
	last, since, cpu0 := hbCount.Load(), time.Now(), cpuTime()
	for {
		time.Sleep(500 * time.Millisecond)
		c := hbCount.Load()
		if c != last || inWrite.Load() || wdOff.Load() {
			last, since, cpu0 = c, time.Now(), cpuTime()
			continue
		}
		if time.Since(since) < limit {
			continue
		}
		if cpuTime()-cpu0 < limit/2 && time.Since(since) < 10*limit {
			continue
		}
		info, _ := hbCur.Load().(hbInfo)
		if info.seq == "" {
			last, since = c, time.Now()
			continue
		}
		// the main goroutine is stuck inside the implementation: it does not touch the writer any more
		if !info.printed {
			fmt.Fprintf(out, "O\t%s\t=>\thang\n", info.op)
		}
		fmt.Fprintf(out, "P\tcall-terminates\t%s\t%d\tfail\t%s\tno progress for %v\n", info.seq, info.idx, strings.ReplaceAll(info.op, "\t", " "), limit)
		fmt.Fprintf(out, "END\n")
		fmt.Fprintf(out, "PC\tcall-terminates\t%d\n", rnSteps)
		out.Flush()
		os.Exit(0)
	}
}

func pfail(name, seq string, idx int, detail ...string) {
	fmt.Fprintf(out, "P\t%s\t%s\t%d\tfail\t%s\n", name, seq, idx, strings.Join(detail, "\t"))
}
func pcount(name string) { pcTotal[name]++ }

func newRunner(id string) *runner {
	return &runner{a: newImpl("art"), r: newImpl("rbt"), id: id}
}

// fullDump is the in-process pairwise comparison of every observable after a mutator
func fullDump(im *impl) string {
	var sb strings.Builder
	for _, f := range [][]string{{"len"}, {"size"}, {"dirty"}, {"iterf", "0", "-", "-"}, {"iterf", "1", "-", "-"}, {"iter", "0", "-", "-"},
		{"iter", "1", "-", "-"}, {"siter", "0", "-", "-"}, {"siter", "1", "-", "-"}} {
		sb.WriteString(im.exec(f))
		sb.WriteByte('|')
	}
	for h := 1; h <= im.depth; h++ {
		sb.WriteString(im.exec([]string{"inspect", strconv.Itoa(h)}))
		sb.WriteByte('|')
	}
	return sb.String()
}

// oracles evaluated on ART's iteration results: strictly ordered, inside the bounds
func (rn *runner) iterOracles(f []string, res string) {
	var rev bool
	var lo, hi []byte
	rev = f[1] == "1"
	lo, hi = dec(f[2]), dec(f[3])
	if !strings.HasPrefix(res, "kv:") && !strings.HasPrefix(res, "kfv:") {
		return // a panicking iterator is reported by the comparisons, not by this oracle
	}
	body := res[strings.IndexByte(res, ':')+1:]
	if body == "" {
		return
	}
	var prev []byte
	first := true
	for _, ent := range strings.Split(body, ",") {
		ks := ent[:strings.IndexAny(ent, "=/")]
		k := dec(ks)
		pcount("iter-in-bounds")
		if (len(lo) > 0 && bytes.Compare(k, lo) < 0) || (len(hi) > 0 && bytes.Compare(k, hi) >= 0) {
			pfail("iter-in-bounds", rn.id, rn.idx, strings.Join(f, " "), ks)
		}
		if !first {
			pcount("iter-strictly-ordered")
			c := bytes.Compare(prev, k)
			if (!rev && c >= 0) || (rev && c <= 0) {
				pfail("iter-strictly-ordered", rn.id, rn.idx, strings.Join(f, " "), ks)
			}
		}
		prev, first = k, false
	}
}

// key handles: Handle() of an iterator position resolves to the same key / value
func (rn *runner) handleOracle() {
	check := func(name string, it interface {
		Valid() bool
		Key() []byte
		Value() []byte
		Next() error
		Handle() arena.MemKeyHandle
	}, keyOf func(arena.MemKeyHandle) []byte, valOf func(arena.MemKeyHandle) ([]byte, bool)) {
		for it.Valid() {
			h := it.Handle()
			pcount("handle-roundtrip")
			v, ok := valOf(h)
			if !bytes.Equal(keyOf(h), it.Key()) || !ok || !bytes.Equal(v, it.Value()) {
				pfail("handle-roundtrip", rn.id, rn.idx, name, enc(it.Key()))
			}
			if it.Next() != nil {
				break
			}
		}
	}
	ai, _ := rn.a.art.Iter(nil, nil)
	check("art", ai, rn.a.art.GetKeyByHandle, rn.a.art.GetValueByHandle)
	ri, _ := rn.r.rbt.Iter(nil, nil)
	check("rbt", ri, rn.r.rbt.GetKeyByHandle, rn.r.rbt.GetValueByHandle)
}

// snapshot API variants agree with each other (GetSnapshot: Get / ForEach / batched iter)
func (rn *runner) snapshotApis(im *impl, lo, hi []byte, rev bool, want string) {
	if im.depth == 0 {
		return // GetSnapshot is documented for staged buffers only
	}
	snap := im.mb.GetSnapshot()
	var l []kvp
	_ = snap.ForEachInSnapshotRange(lo, hi, func(k, v []byte) (bool, error) {
		l = append(l, kvp{cp(k), cp(v)})
		return false, nil
	}, rev)
	pcount("snapshot-apis-agree")
	if s := kvsStr(l); s != want {
		pfail("snapshot-apis-agree", rn.id, rn.idx, im.name, "foreach", s, want)
	}
	if len(l) > 1 {
		// early stop: the callback asks to stop after n entries
		n, got := 1+len(l)/2, []kvp(nil)
		_ = snap.ForEachInSnapshotRange(lo, hi, func(k, v []byte) (bool, error) {
			got = append(got, kvp{cp(k), cp(v)})
			return len(got) >= n, nil
		}, rev)
		pcount("snapshot-apis-agree")
		if kvsStr(got) != kvsStr(l[:n]) {
			pfail("snapshot-apis-agree", rn.id, rn.idx, im.name, "foreach-stop", kvsStr(got), kvsStr(l[:n]))
		}
	}
	// F25 (fixed by f5829fa): a reverse batched scan over a buffer holding the empty key used to restart forever;
	// collect() caps a runaway iterator, the watchdog catches a call that never returns.
	pcount("snapshot-apis-agree")
	if s := kvsStr(collect(snap.BatchedSnapshotIter(lo, hi, rev))); s != want {
		pfail("snapshot-apis-agree", rn.id, rn.idx, im.name, "batched", s, want)
	}
	snap.Close()
}

func validPanics(it *art.Iterator) (p bool) {
	defer func() {
		if r := recover(); r != nil {
			p = true
		}
	}()
	it.Valid()
	return false
}

// step executes one op on both implementations, prints the O line, runs the oracles
var rnSteps int

func (rn *runner) step(f []string, staleProbe bool) string {
	rnSteps++
	heartbeat(rn.id, rn.idx, strings.Join(f, "\t"), false)
	mut := isMutator(f[0])
	var probe *art.Iterator
	var probeSeq, snapSeq int
	var snap unionstore.MemBufferSnapshot
	if mut && staleProbe {
		probe, _ = rn.a.art.Iter(nil, nil)
		probeSeq = rn.a.art.WriteSeqNo
		if rn.a.depth > 0 {
			snap = rn.a.mb.GetSnapshot()
			snapSeq = rn.a.art.SnapshotSeqNo
		}
	}
	ra := rn.a.exec(f)
	rr := rn.r.exec(f)
	fmt.Fprintf(out, "O\t%s\t=>\t%s\n", strings.Join(f, "\t"), ra)
	heartbeat(rn.id, rn.idx, strings.Join(f, "\t"), true)
	if f[0] == "seekl" || f[0] == "rangel" {
		// ART only: the raw seek of the radix tree iterator
	} else if f[0] == "bnext" && ra == "kv:|x" {
		// ART declared the snapshot stale (SnapshotSeqNo moved); the RBT snapshot has no such check: not compared
	} else if f[0] != "seq" && f[0] != "tree" {
		pcount("art-rbt-agree")
		if ra != rr {
			pfail("art-rbt-agree", rn.id, rn.idx, strings.Join(f, " "), "art="+ra, "rbt="+rr)
		}
	}
	switch f[0] {
	case "iter", "siter", "iterf":
		rn.iterOracles(f, ra)
		if f[0] == "siter" {
			rn.snapshotApis(rn.a, dec(f[2]), dec(f[3]), f[1] == "1", ra)
			rn.snapshotApis(rn.r, dec(f[2]), dec(f[3]), f[1] == "1", rr)
		}
	case "sget":
		for _, im := range []*impl{rn.a, rn.r} {
			if im.depth > 0 {
				pcount("snapshot-apis-agree")
				s := im.mb.GetSnapshot()
				e, err := s.Get(ctx, dec(f[1]))
				got := errStr(err)
				if err == nil {
					got = "v:" + enc(e.Value)
				}
				if got != ra {
					pfail("snapshot-apis-agree", rn.id, rn.idx, im.name, "get", got, ra)
				}
			}
		}
	case "get":
		// GetLocal and BatchGet agree with Get
		for _, im := range []*impl{rn.a, rn.r} {
			pcount("get-variants-agree")
			k := dec(f[1])
			v, err := im.mb.GetLocal(ctx, k)
			got := errStr(err)
			if err == nil {
				got = "v:" + enc(v)
			}
			m, _ := im.mb.BatchGet(ctx, [][]byte{k})
			got2 := "notfound"
			if e, ok := m[string(k)]; ok {
				got2 = "v:" + enc(e.Value)
			}
			if got != ra || got2 != ra {
				pfail("get-variants-agree", rn.id, rn.idx, im.name, got, got2, ra)
			}
		}
	}
	if mut {
		pcount("art-rbt-agree-full")
		da, dr := fullDump(rn.a), fullDump(rn.r)
		if da != dr {
			pfail("art-rbt-agree-full", rn.id, rn.idx, strings.Join(f, " "), "art="+da, "rbt="+dr)
		}
		if probe != nil {
			// an iterator created before a write must fail loudly (ART: panic) afterwards
			changed := rn.a.art.WriteSeqNo != probeSeq
			pcount("stale-iterator-fails-loudly")
			if p := validPanics(probe); p != changed {
				pfail("stale-iterator-fails-loudly", rn.id, rn.idx, strings.Join(f, " "), fmt.Sprintf("panicked=%v seqchanged=%v", p, changed))
			}
			if snap != nil {
				schanged := rn.a.art.SnapshotSeqNo != snapSeq
				_, err := snap.Get(ctx, []byte("k"))
				invalid := err != nil && strings.Contains(err.Error(), "invalid iter")
				pcount("stale-snapshot-fails-loudly")
				if invalid != schanged {
					pfail("stale-snapshot-fails-loudly", rn.id, rn.idx, strings.Join(f, " "), fmt.Sprintf("invalid=%v seqchanged=%v", invalid, schanged))
				}
			}
		}
	}
	rn.idx++
	return ra
}

// ---------- generation ----------
type gen struct {
	rng    *rand.Rand
	keys   [][]byte
	lens   []int // value length menu
	depth  int
	regs   []int // tokens per level
	cls    string
	values map[string][]byte // last value written per key (to produce same-length overwrites)
	bopen  bool              // a batched snapshot iterator is open
}

var allFops = 22

func (g *gen) pickKey() []byte { return g.keys[g.rng.Intn(len(g.keys))] }

func (g *gen) pickFops() []int {
	n := 0
	switch x := g.rng.Intn(10); {
	case x < 5:
		n = 0
	case x < 8:
		n = 1
	default:
		n = 2 + g.rng.Intn(2)
	}
	r := make([]int, n)
	for i := range r {
		r[i] = g.rng.Intn(allFops)
	}
	return r
}

func (g *gen) pickValue(k []byte) []byte {
	old, has := g.values[string(k)]
	x := g.rng.Intn(100)
	switch {
	case x < 12:
		return nil // tombstone
	case x < 45 && has && len(old) > 0:
		v := make([]byte, len(old)) // same length overwrite
		for i := range v {
			v[i] = byte('a' + g.rng.Intn(26))
		}
		if len(v) >= 16 {
			v = bytes.Repeat([]byte{byte('a' + g.rng.Intn(26))}, len(v))
		}
		return v
	}
	n := g.lens[g.rng.Intn(len(g.lens))]
	if n >= 16 {
		return bytes.Repeat([]byte{byte('A' + g.rng.Intn(26))}, n)
	}
	v := make([]byte, n)
	for i := range v {
		v[i] = byte('a' + g.rng.Intn(26))
	}
	return v
}

func (g *gen) bound() string {
	switch x := g.rng.Intn(12); {
	case x < 3:
		return "-"
	case x < 8:
		return enc(g.pickKey())
	case x >= 10:
		return "_" // []byte{}: empty non-nil bound (F26)
	default:
		k := cp(g.pickKey())
		if len(k) > 0 && g.rng.Intn(2) == 0 {
			k[len(k)-1]++ // neighbour
		} else {
			k = append(k, byte(g.rng.Intn(3)))
		}
		return enc(k)
	}
}

// next mutator
func (g *gen) mutator() []string {
	x := g.rng.Intn(100)
	switch {
	case x < 42:
		k := g.pickKey()
		v := g.pickValue(k)
		g.values[string(k)] = v
		return []string{"set", enc(k), enc(v), encFops(g.pickFops())}
	case x < 54:
		return []string{"flags", enc(g.pickKey()), encFops(g.pickFops())}
	case x < 63:
		if g.depth < 5 {
			g.depth++
			g.regs = append(g.regs, 0)
			return []string{"staging"}
		}
		fallthrough
	case x < 71:
		if g.depth > 0 && g.rng.Intn(12) != 0 {
			g.depth--
			n := g.regs[len(g.regs)-1]
			g.regs = g.regs[:len(g.regs)-1]
			g.regs[len(g.regs)-1] += n
			return []string{"release", strconv.Itoa(g.depth + 1)}
		}
		h := g.rng.Intn(g.depth + 2) // 0, wrong handles: no-op / panic
		if h == g.depth && h > 0 {
			g.depth--
			n := g.regs[len(g.regs)-1]
			g.regs = g.regs[:len(g.regs)-1]
			g.regs[len(g.regs)-1] += n
		}
		return []string{"release", strconv.Itoa(h)}
	case x < 81:
		if g.depth > 0 && g.rng.Intn(12) != 0 {
			g.depth--
			g.regs = g.regs[:len(g.regs)-1]
			return []string{"cleanup", strconv.Itoa(g.depth + 1)}
		}
		h := g.rng.Intn(g.depth + 3)
		if h == g.depth && h > 0 {
			g.depth--
			g.regs = g.regs[:len(g.regs)-1]
		}
		return []string{"cleanup", strconv.Itoa(h)}
	case x < 89:
		g.regs[len(g.regs)-1]++
		return []string{"cp"}
	case x < 98:
		n := g.regs[len(g.regs)-1]
		i := g.rng.Intn(n + 1) // n = misuse
		if i < n {
			g.regs[len(g.regs)-1] = i + 1
		}
		return []string{"revert", strconv.Itoa(i)}
	default:
		if g.cls == "limits" {
			return []string{"limits", strconv.FormatUint(uint64(4+g.rng.Intn(30)), 16), strconv.FormatUint(uint64(20+g.rng.Intn(120)), 16)}
		}
		return []string{"flags", enc(g.pickKey()), "-"}
	}
}

func (g *gen) observers(touched []byte, final bool) [][]string {
	var r [][]string
	r = append(r, []string{"len"}, []string{"size"}, []string{"dirty"}, []string{"seq"})
	// structure differential: the shape of the real radix tree against L2 (Art.v)
	switch g.cls {
	case "fan":
		if final || g.rng.Intn(5) == 0 {
			r = append(r, []string{"tree"})
		}
	case "batch":
		if final {
			r = append(r, []string{"tree"})
		}
	default:
		if touched != nil || final {
			r = append(r, []string{"tree"})
		}
	}
	if g.cls != "batch" || final {
		// the raw seek of the radix tree iterator against L2's seek_rank
		if b := g.bound(); b != "-" && b != "_" {
			r = append(r, []string{"seekl", b})
		}
		// Iterator.init's end-bound handling on the raw leaves (with or without value), both directions
		if g.rng.Intn(2) == 0 {
			r = append(r, []string{"rangel", strconv.Itoa(g.rng.Intn(2)), g.bound(), g.bound()})
		}
	}
	// a batched snapshot iterator that lives across the following writes
	if g.depth > 0 && g.rng.Intn(100) < 8 {
		r = append(r, []string{"bopen", strconv.Itoa(g.rng.Intn(2)), g.bound(), g.bound()})
		g.bopen = true
	}
	if g.bopen && g.rng.Intn(100) < 35 {
		r = append(r, []string{"bnext", strconv.Itoa(1 + g.rng.Intn(40))})
	}
	cand := [][]byte{g.pickKey()}
	if touched != nil {
		cand = append(cand, touched)
	}
	for _, k := range cand {
		ks := enc(k)
		r = append(r, []string{"get", ks}, []string{"gflags", ks}, []string{"sget", ks})
	}
	if g.rng.Intn(100) < 30 {
		r = append(r, []string{"iter", strconv.Itoa(g.rng.Intn(2)), g.bound(), g.bound()})
	}
	if g.rng.Intn(100) < 25 {
		r = append(r, []string{"siter", strconv.Itoa(g.rng.Intn(2)), g.bound(), g.bound()})
	}
	if g.rng.Intn(100) < 15 {
		if g.rng.Intn(3) == 0 {
			r = append(r, []string{"iterf", "1", "-", g.bound()}) // IterReverseWithFlags(upper)
		} else {
			r = append(r, []string{"iterf", "0", g.bound(), g.bound()})
		}
	}
	if g.rng.Intn(100) < 20 {
		r = append(r, []string{"inspect", strconv.Itoa(g.rng.Intn(g.depth + 2))})
	}
	if g.rng.Intn(100) < 25 {
		p := []string{"any", "never", "nonempty", "le0", "le2", "le5"}[g.rng.Intn(6)]
		r = append(r, []string{"hist", enc(g.pickKey()), p})
	}
	if final {
		r = append(r, []string{"iter", "0", "-", "-"}, []string{"iter", "1", "-", "-"}, []string{"iterf", "0", "-", "-"},
			[]string{"siter", "0", "-", "-"}, []string{"siter", "1", "-", "-"})
		for h := 1; h <= g.depth; h++ {
			r = append(r, []string{"inspect", strconv.Itoa(h)})
		}
	}
	return r
}

func distinctBytes(rng *rand.Rand, n int) []byte {
	perm := rng.Perm(256)
	set := map[byte]bool{0: true, 255: true}
	res := []byte{0, 255}
	for _, p := range perm {
		if len(res) >= n {
			break
		}
		if !set[byte(p)] {
			set[byte(p)] = true
			res = append(res, byte(p))
		}
	}
	return res[:n]
}

func randBytes(rng *rand.Rand, n int, alphabet []byte) []byte {
	b := make([]byte, n)
	for i := range b {
		b[i] = alphabet[rng.Intn(len(alphabet))]
	}
	return b
}

// key universes per class
func universe(rng *rand.Rand, cls string) (keys [][]byte, preload int) {
	alpha := []byte{0x00, 0x01, 0x61, 0xff}
	switch cls {
	case "small", "limits", "cp", "f02", "bigval":
		seen := map[string]bool{}
		n := 3 + rng.Intn(6)
		for len(keys) < n {
			k := randBytes(rng, rng.Intn(4), alpha) // length 0 = the empty key
			if !seen[string(k)] {
				seen[string(k)] = true
				keys = append(keys, k)
			}
		}
	case "prefix":
		// shared prefixes longer than the in-node prefix (20), keys that are prefixes of other keys
		p := randBytes(rng, 21+rng.Intn(25), alpha)
		seen := map[string]bool{}
		add := func(k []byte) {
			if !seen[string(k)] {
				seen[string(k)] = true
				keys = append(keys, k)
			}
		}
		n := 5 + rng.Intn(8)
		for len(keys) < n {
			switch rng.Intn(5) {
			case 0:
				add(cp(p[:rng.Intn(len(p)+1)])) // a prefix of the shared prefix
			case 1:
				q := cp(p)
				q[rng.Intn(len(q))] ^= 0x60 // diverges inside the long prefix
				add(append(q, randBytes(rng, rng.Intn(3), alpha)...))
			default:
				add(append(cp(p), randBytes(rng, rng.Intn(4), alpha)...))
			}
		}
	case "batch":
		// large snapshots for the batched snapshot iterators (batches of 32, 64, 128, ... keys): long keys
		// first, short keys late (the reused resume-key buffer shrinks), keys that are proper prefixes of the
		// keys that follow them, next bytes below and above whatever an earlier resume key left in the buffer
		seen := map[string]bool{}
		add := func(k []byte) {
			if !seen[string(k)] {
				seen[string(k)] = true
				keys = append(keys, k)
			}
		}
		hi := []byte{'0', '1', '2', '3', '4', '5', '6', '7', '8', '9', 'z', 0xff}
		mid := []byte{0x00, '0', '5', 'z', 0xff}
		kids := []byte{0x00, 0x01, '0', '1', '2', 0xfe}
		nLong := 20 + rng.Intn(30)
		for len(keys) < nLong {
			k := append([]byte{'a'}, randBytes(rng, 2, hi)...)
			add(append(k, bytes.Repeat([]byte{[]byte{'z', 0xff, 'q'}[rng.Intn(3)]}, 4+rng.Intn(6))...))
		}
		nMid := nLong + 20 + rng.Intn(110)
		for tries := 0; len(keys) < nMid && tries < 5000; tries++ {
			k := append([]byte{'b'}, randBytes(rng, 2+rng.Intn(2), mid)...)
			add(k)
			if rng.Intn(3) == 0 {
				add(append(cp(k), kids[rng.Intn(len(kids))]))
			}
		}
		total := 100 + rng.Intn(300)
		for tries := 0; len(keys) < total && tries < 5000; tries++ {
			stem := []byte{byte('c' + rng.Intn(20))}
			if rng.Intn(3) != 0 {
				stem = append(stem, mid[rng.Intn(len(mid))])
			}
			add(stem)
			for _, c := range kids {
				if rng.Intn(2) == 0 {
					add(append(cp(stem), c))
				}
			}
		}
		rng.Shuffle(len(keys), func(i, j int) { keys[i], keys[j] = keys[j], keys[i] })
		preload = len(keys)
	case "fan":
		// fan-out crossing the node sizes 4/16/48/256 below one inner node
		fo := []int{3, 4, 5, 15, 16, 17, 18, 47, 48, 49, 50, 100, 255, 256}[rng.Intn(14)]
		p := randBytes(rng, rng.Intn(4), alpha)
		if rng.Intn(4) == 0 {
			p = randBytes(rng, 22+rng.Intn(5), alpha)
		}
		for _, b := range distinctBytes(rng, fo) {
			k := append(cp(p), b)
			if rng.Intn(3) == 0 {
				k = append(k, randBytes(rng, 1+rng.Intn(2), alpha)...)
			}
			keys = append(keys, k)
		}
		keys = append(keys, cp(p)) // the prefix itself is a key too (in-place leaf)
		preload = len(keys) - rng.Intn(3)
	}
	return
}

func lensFor(rng *rand.Rand, cls string) []int {
	switch cls {
	case "bigval":
		// arena blocks: 4 KiB, then doubling; an entry takes len(value)+20 bytes
		return []int{1, 2, 3, 1000 + rng.Intn(400), 2030 + rng.Intn(40), 4060 + rng.Intn(40), 4076, 4077, 8150 + rng.Intn(60), 12268, 300}
	case "limits":
		return []int{1, 2, 3, 5, 8, 13, 21, 34}
	case "batch":
		return []int{1, 1, 2, 2, 3}
	}
	return []int{1, 1, 2, 2, 2, 3, 3, 5, 8, 17}
}

func genSeq(rng *rand.Rand, id, cls string, nops int) {
	rn := newRunner(id)
	fmt.Fprintf(out, "SEQ\t%s\t%s\n", id, cls)
	keys, preload := universe(rng, cls)
	g := &gen{rng: rng, keys: keys, lens: lensFor(rng, cls), regs: []int{0}, cls: cls, values: map[string][]byte{}}
	stale := func() bool { return rng.Intn(4) == 0 }
	if cls == "limits" {
		rn.step([]string{"limits", strconv.FormatUint(uint64(4+rng.Intn(30)), 16), strconv.FormatUint(uint64(20+rng.Intn(120)), 16)}, false)
	}
	for i := 0; i < preload; i++ {
		if cls == "fan" && rng.Intn(6) == 0 && i > 4 {
			// growth inside a stage that is cleaned up later also exercises node reuse
			rn.step(g.mutator(), stale())
		}
		v := g.pickValue(keys[i])
		g.values[string(keys[i])] = v
		rn.step([]string{"set", enc(keys[i]), enc(v), "-"}, false)
		if i%16 == 15 {
			for _, o := range g.observers(keys[i], false) {
				rn.step(o, false)
			}
		}
	}
	if cls == "f02" {
		// regression class for F02: repeated no-op flag updates on fresh keys
		for i := 0; i < 3+rng.Intn(3); i++ {
			k := g.pickKey()
			for j := 0; j < 2+rng.Intn(3); j++ {
				rn.step([]string{"flags", enc(k), "1"}, false)
				rn.step([]string{"len"}, false)
				rn.step([]string{"size"}, false)
			}
			if rng.Intn(3) == 0 {
				rn.step(g.mutator(), stale())
			}
		}
	}
	if cls == "batch" {
		// the snapshot is the preloaded base level; every siter also runs ForEachInSnapshotRange and
		// BatchedSnapshotIter of GetSnapshot() on both buffers and compares them with the plain snapshot iterator
		g.depth++
		g.regs = append(g.regs, 0)
		rn.step([]string{"staging"}, false)
		for i := 0; i < 14; i++ {
			lo, hi := "-", "-"
			if rng.Intn(4) != 0 {
				lo = g.bound()
			}
			if rng.Intn(3) == 0 {
				hi = g.bound()
			}
			rn.step([]string{"siter", strconv.Itoa(i % 2), lo, hi}, false)
			if i%5 == 4 {
				rn.step(g.mutator(), stale()) // staged writes must not show up
			}
		}
		rn.step([]string{"siter", "0", "-", "-"}, false)
		rn.step([]string{"siter", "1", "-", "-"}, false)
		// batched iterators consumed in pieces across batch boundaries with staged writes in between
		for _, rv := range []string{"0", "1"} {
			lo := "-"
			if rng.Intn(2) == 0 {
				lo = g.bound()
			}
			rn.step([]string{"bopen", rv, lo, "-"}, false)
			for i := 0; i < 6; i++ {
				rn.step([]string{"bnext", strconv.Itoa(5 + rng.Intn(60))}, false)
				if g.depth > 0 {
					k := g.pickKey()
					v := g.pickValue(k)
					g.values[string(k)] = v
					rn.step([]string{"set", enc(k), enc(v), "-"}, stale())
				}
			}
			rn.step([]string{"bnext", "1000"}, false)
		}
	}
	if cls == "cp" {
		// the F03b shape, embedded at a random depth
		for d := rng.Intn(3); d > 0; d-- {
			g.depth++
			g.regs = append(g.regs, 0)
			rn.step([]string{"staging"}, false)
		}
	}
	for i := 0; i < nops; i++ {
		m := g.mutator()
		rn.step(m, stale())
		var touched []byte
		if m[0] == "set" || m[0] == "flags" {
			touched = dec(m[1])
			if touched == nil {
				touched = []byte{}
			}
		}
		for _, o := range g.observers(touched, i == nops-1) {
			rn.step(o, false)
		}
		if i%8 == 7 {
			rn.handleOracle()
		}
	}
	fmt.Fprintf(out, "END\n")
}

// directed sequences for the limits: key length 65535 / 65536, entry and buffer limits exactly at the edge
func directed() {
	emit := func(id string, ops [][]string) {
		rn := newRunner(id)
		fmt.Fprintf(out, "SEQ\t%s\tdirected\n", id)
		for _, o := range ops {
			rn.step(o, false)
			if isMutator(o[0]) {
				for _, ob := range [][]string{{"len"}, {"size"}, {"dirty"}, {"seq"}, {"iterf", "0", "-", "-"}, {"tree"}} {
					rn.step(ob, false)
				}
			}
		}
		fmt.Fprintf(out, "END\n")
	}
	k65535 := "r61x65535"
	k65536 := "r61x65536"
	emit("d-keylen", [][]string{
		{"set", k65536, "76", "-"}, {"get", k65536}, {"flags", k65536, "2"}, {"gflags", k65536},
		{"set", k65535, "76", "-"}, {"get", k65535}, {"set", k65535, "-", "2"}, {"gflags", k65535},
		{"staging"}, {"set", k65536, "-", "-"}, {"set", k65535, "7777", "-"}, {"cleanup", "1"}, {"get", k65535},
	})
	// entry limit: len(key)+len(value) > limit rejected, == limit accepted; tombstones count len(key) only
	emit("d-entry", [][]string{
		{"limits", "5", "max"}, {"set", "6162", "r41x3", "-"}, {"set", "6162", "41414141", "-"}, {"get", "6162"},
		{"set", "616263646566", "-", "-"}, {"get", "616263646566"}, {"flags", "616263646566", "2"}, {"gflags", "616263646566"},
		{"set", "6162636465", "-", "-"}, {"get", "6162636465"},
	})
	// buffer limit: the write that exceeds it is applied AND answered with ErrTxnTooLarge
	emit("d-buffer", [][]string{
		{"limits", "max", "a"}, {"set", "61", "4141414141414141", "-"}, {"set", "62", "42", "-"}, {"get", "62"},
		{"set", "63", "43", "-"}, {"get", "63"}, {"set", "61", "41", "-"}, {"set", "64", "44", "-"}, {"get", "64"},
		{"staging"}, {"set", "65", "4545454545", "-"}, {"cleanup", "1"}, {"set", "65", "45", "-"},
	})
	// F02 regression: repeated no-op flag updates of fresh keys
	emit("d-f02", [][]string{
		{"flags", "6b", "1"}, {"flags", "6b", "1"}, {"flags", "6b", "1"}, {"gflags", "6b"}, {"staging"},
		{"flags", "6c", "1"}, {"flags", "6c", "1"}, {"set", "6c", "76", "-"}, {"flags", "6d", "-"}, {"flags", "6d", "-"},
		{"cleanup", "1"}, {"flags", "6c", "1"}, {"flags", "6c", "1"},
	})
	// F25/F26 regression: empty non-nil bounds ("_") mean unbounded on every iterator of both buffers;
	// batched reverse snapshot scan over a buffer holding the empty key terminates
	emit("d-emptybound", [][]string{
		{"set", "-", "7630", "-"}, {"set", "61", "7631", "-"}, {"flags", "62", "2"},
		{"iter", "0", "-", "_"}, {"iter", "0", "_", "_"}, {"iter", "0", "_", "-"}, {"iter", "0", "_", "62"}, {"iter", "0", "61", "_"},
		{"iter", "1", "-", "_"}, {"iter", "1", "_", "_"}, {"iter", "1", "_", "-"}, {"iterf", "0", "-", "_"}, {"iterf", "0", "_", "_"}, {"iterf", "0", "_", "-"}, {"iterf", "1", "-", "_"}, {"iterf", "1", "-", "61"}, {"iterf", "1", "-", "-"},
		{"siter", "0", "-", "_"}, {"siter", "1", "_", "_"},
		{"staging"}, {"set", "63", "7632", "-"},
		{"siter", "0", "-", "_"}, {"siter", "0", "_", "_"}, {"siter", "1", "-", "-"}, {"siter", "1", "_", "_"}, {"siter", "1", "_", "-"}, {"siter", "1", "62", "_"},
		{"iter", "0", "-", "_"}, {"iter", "1", "_", "_"}, {"release", "1"}, {"iter", "0", "_", "_"},
	})
	// F03/F03b regression (fixed by 6b4091a): a same-length overwrite after a checkpoint is undone by the revert
	emit("d-f03b", [][]string{
		{"set", "78", "6161", "-"}, {"cp"}, {"set", "78", "6262", "-"}, {"revert", "0"}, {"get", "78"},
	})
	// the same inside a stage, revert / overwrite / revert again, a token older than a released stage, a token taken
	// inside a stage used after its release, and a cleanup that cuts the log below the latest checkpoint
	emit("d-f03b-more", [][]string{
		{"staging"}, {"set", "78", "6161", "-"}, {"cp"}, {"set", "78", "6262", "-"}, {"revert", "0"}, {"get", "78"},
		{"set", "78", "6363", "-"}, {"get", "78"}, {"revert", "0"}, {"get", "78"}, {"hist", "78", "any"},
		{"staging"}, {"set", "78", "6464", "-"}, {"cp"}, {"set", "78", "6565", "-"}, {"release", "2"},
		{"set", "78", "6666", "-"}, {"revert", "1"}, {"get", "78"}, {"revert", "0"}, {"get", "78"}, {"inspect", "1"},
		{"staging"}, {"set", "79", "r4bx17", "-"}, {"set", "7a", "7a66", "-"}, {"cp"}, {"set", "79", "7676", "-"}, {"cp"},
		{"cleanup", "2"}, {"set", "7a", "6e63", "-"}, {"set", "79", "6b", "-"}, {"set", "7a", "6469", "-"}, {"set", "79", "76", "-"},
		{"inspect", "1"}, {"hist", "7a", "any"}, {"hist", "79", "any"}, {"cleanup", "1"}, {"get", "78"}, {"len"}, {"size"},
	})
}

func readSeqs(path string) [][][]string {
	fh, err := os.Open(path)
	if err != nil {
		panic(err)
	}
	defer fh.Close()
	sc := bufio.NewScanner(fh)
	sc.Buffer(make([]byte, 1<<20), 1<<28)
	var res [][][]string
	var cur [][]string
	for sc.Scan() {
		f := strings.Split(sc.Text(), "\t")
		switch f[0] {
		case "SEQ":
			cur = [][]string{f}
		case "O":
			o := f[1:]
			for i, x := range o {
				if x == "=>" {
					o = o[:i]
					break
				}
			}
			cur = append(cur, o)
		case "END":
			res = append(res, cur)
			cur = nil
		}
	}
	return res
}

func replay(mode, path string) {
	for _, sq := range readSeqs(path) {
		id, cls := sq[0][1], "replay"
		if len(sq[0]) > 2 {
			cls = sq[0][2]
		}
		rn := newRunner(id)
		fmt.Fprintf(out, "SEQ\t%s\t%s\n", id, cls)
		keyset := map[string]bool{}
		for _, o := range sq[1:] {
			if mode == "exact" {
				rn.step(o, true)
				continue
			}
			if !isMutator(o[0]) {
				rn.step(o, false) // an observer kept by the minimiser (the one that failed)
				continue
			}
			rn.step(o, true)
			if o[0] == "set" || o[0] == "flags" {
				keyset[o[1]] = true
			}
			for _, ob := range [][]string{{"len"}, {"size"}, {"dirty"}, {"seq"}, {"tree"}, {"iterf", "0", "-", "-"}, {"iter", "0", "-", "-"},
				{"iter", "1", "-", "-"}, {"siter", "0", "-", "-"}, {"siter", "1", "-", "-"}} {
				rn.step(ob, false)
			}
			ks := make([]string, 0, len(keyset))
			for k := range keyset {
				ks = append(ks, k)
			}
			sort.Strings(ks)
			if len(ks) > 8 {
				// big sequences: per-key observers for the key just written and a few neighbours only
				cur := ""
				if len(o) > 1 {
					cur = o[1]
				}
				j := sort.SearchStrings(ks, cur)
				lo, hi := j-4, j+4
				if lo < 0 {
					lo = 0
				}
				if hi > len(ks) {
					hi = len(ks)
				}
				ks = ks[lo:hi]
			}
			for _, k := range ks {
				for _, ob := range [][]string{{"get", k}, {"gflags", k}, {"sget", k}, {"hist", k, "any"}, {"hist", k, "nonempty"}} {
					rn.step(ob, false)
				}
			}
			for h := 1; h <= rn.a.depth; h++ {
				rn.step([]string{"inspect", strconv.Itoa(h)}, false)
			}
		}
		fmt.Fprintf(out, "END\n")
	}
}

func main() {
	log.ReplaceGlobals(zap.NewNop(), &log.ZapProperties{})
	out = bufio.NewWriterSize(wdWriter{os.Stdout}, 1<<20)
	defer out.Flush()
	wd := 30
	if v, err := strconv.Atoi(os.Getenv("VERIF_C08_WATCHDOG_S")); err == nil && v > 0 {
		wd = v
	}
	go watchdog(time.Duration(wd) * time.Second)
	if len(os.Args) >= 4 && os.Args[1] == "replay" {
		replay(os.Args[2], os.Args[3])
	} else {
		seed, _ := strconv.ParseInt(os.Getenv("VERIF_SEED"), 10, 64)
		if seed == 0 {
			seed = 1
		}
		scale := 1
		if os.Getenv("VERIF_TIER") == "thorough" {
			scale = 8
		}
		if s, err := strconv.Atoi(os.Getenv("VERIF_C08_SCALE_PCT")); err == nil && s > 0 {
			scale = scale * s / 100
			if scale == 0 {
				scale = 1
			}
		}
		rng := rand.New(rand.NewSource(seed*7919 + 13))
		directed()
		plan := []struct {
			cls       string
			n, nops   int
		}{
			{"small", 900, 60}, {"prefix", 600, 60}, {"fan", 220, 40}, {"bigval", 260, 40}, {"limits", 300, 50},
			{"cp", 450, 50}, {"f02", 200, 30}, {"batch", 24, 6},
		}
		for _, p := range plan {
			for i := 0; i < p.n*scale; i++ {
				genSeq(rng, fmt.Sprintf("%s-%d-%d", p.cls, seed, i), p.cls, p.nops)
			}
		}
	}
	wdOff.Store(true) // generation is over: only output remains
	pcTotal["call-terminates"] = rnSteps
	names := make([]string, 0, len(pcTotal))
	for n := range pcTotal {
		names = append(names, n)
	}
	sort.Strings(names)
	for _, n := range names {
		fmt.Fprintf(out, "PC\t%s\t%d\n", n, pcTotal[n])
	}
}
