//go:build verif

// Add-only structure dump of the radix tree for the C08 (MemBuf) structure differential: node kinds, prefix
// lengths, stored prefixes, in-place leaves, children bytes in order, leaf keys. Mapped in by `go build -overlay`.
package art

import (
	"encoding/hex"
	"fmt"
	"strings"

	"github.com/tikv/client-go/v2/internal/unionstore/arena"
)

func verifEnc(b []byte) string {
	if len(b) == 0 {
		return "-"
	}
	if len(b) >= 16 {
		same := true
		for _, c := range b {
			if c != b[0] {
				same = false
				break
			}
		}
		if same {
			return fmt.Sprintf("r%02xx%d", b[0], len(b))
		}
	}
	return hex.EncodeToString(b)
}

// VerifDump prints the shape of the tree:  L<key>  |  N<kind>:<prefixLen>:<stored prefix>:<in-place leaf key or ~>(<byte>=<child>,...)
func (t *ART) VerifDump() string {
	if t.root.addr.IsNull() {
		return "nil"
	}
	var sb strings.Builder
	t.verifDump(&sb, t.root)
	return sb.String()
}

func (t *ART) verifDump(sb *strings.Builder, an artNode) {
	a := &t.allocator
	if an.kind == typeLeaf {
		sb.WriteString("L" + verifEnc(an.asLeaf(a).GetKey()))
		return
	}
	base := an.asNode(a)
	kind := map[nodeKind]int{typeNode4: 4, typeNode16: 16, typeNode48: 48, typeNode256: 256}[an.kind]
	stored := base.prefix[:min(base.prefixLen, maxInNodePrefixLen)]
	inl := "~"
	if !base.inplaceLeaf.addr.IsNull() {
		inl = verifEnc(base.inplaceLeaf.asLeaf(a).GetKey())
	}
	fmt.Fprintf(sb, "N%d:%d:%s:%s(", kind, base.prefixLen, verifEnc(stored), inl)
	first := true
	emit := func(b byte, c artNode) {
		if !first {
			sb.WriteByte(',')
		}
		first = false
		fmt.Fprintf(sb, "%02x=", b)
		t.verifDump(sb, c)
	}
	switch an.kind {
	case typeNode4:
		n := an.asNode4(a)
		for i := 0; i < int(n.nodeNum); i++ {
			emit(n.keys[i], n.children[i])
		}
	case typeNode16:
		n := an.asNode16(a)
		for i := 0; i < int(n.nodeNum); i++ {
			emit(n.keys[i], n.children[i])
		}
	case typeNode48:
		n := an.asNode48(a)
		for b := 0; b < 256; b++ {
			if n.present[b>>n48s]&(1<<(uint(b)%n48m)) != 0 {
				emit(byte(b), n.children[n.keys[b]])
			}
		}
	case typeNode256:
		n := an.asNode256(a)
		for b := 0; b < 256; b++ {
			if n.present[b>>n48s]&(1<<(uint(b)%n48m)) != 0 {
				emit(byte(b), n.children[b])
			}
		}
	}
	sb.WriteByte(')')
}

// VerifSeekFirst runs the raw baseIter.seek for a non-empty lower bound and returns the first leaf the walk then
// reaches (any leaf: with a value, flags-only or undone), or "end".
func (t *ART) VerifSeekFirst(lo []byte) string {
	if t.root.addr.IsNull() {
		return "end"
	}
	it := &baseIter{allocator: &t.allocator}
	it.seek(t.root, lo)
	leaf := it.next()
	if leaf.addr.IsNull() {
		return "end"
	}
	return "L" + verifEnc(leaf.asLeaf(&t.allocator).GetKey())
}

// VerifRange runs Iterator.init for the bounds (nil or empty = unbounded) and then walks the raw leaves the way
// Iterator.Next does (stop after the leaf at endAddr), without skipping leaves that hold no value: every leaf between
// the two seek positions, including flags-only and undone ones.
func (t *ART) VerifRange(lo, hi []byte, reverse bool) string {
	it := &Iterator{
		tree: t, reverse: reverse, valid: true, includeFlags: true,
		inner:    &baseIter{allocator: &t.allocator},
		currAddr: arena.BadAddr, endAddr: arena.NullAddr, seqNo: t.WriteSeqNo, ignoreSeqNo: true,
	}
	it.init(lo, hi)
	var keys []string
	for it.valid && len(keys) < 5000 {
		if it.currAddr == it.endAddr {
			break
		}
		var leaf artNode
		if reverse {
			leaf = it.inner.prev()
		} else {
			leaf = it.inner.next()
		}
		if leaf.addr.IsNull() {
			break
		}
		it.currAddr = leaf.addr
		keys = append(keys, verifEnc(leaf.asLeaf(&t.allocator).GetKey()))
	}
	return "ks:" + strings.Join(keys, ",")
}
