//go:build verif

// Add-only accessors for the C08 (MemBuf) correspondence driver. Mapped into the package by
// `go build -overlay`; nothing here changes behaviour.
package unionstore

import (
	"github.com/tikv/client-go/v2/internal/unionstore/art"
	"github.com/tikv/client-go/v2/internal/unionstore/rbt"
)

// VerifNewART returns the ART backed MemBuffer (what NewMemDB returns).
func VerifNewART() MemBuffer { return newArtDBWithContext() }

// VerifNewRBT returns the RBT backed MemBuffer.
func VerifNewRBT() MemBuffer { return newRbtDBWithContext() }

// VerifART exposes the inner tree of an ART backed MemBuffer.
func VerifART(m MemBuffer) *art.ART { return m.(*artDBWithContext).ART }

// VerifRBT exposes the inner tree of an RBT backed MemBuffer.
func VerifRBT(m MemBuffer) *rbt.RBT { return m.(*rbtDBWithContext).RBT }
