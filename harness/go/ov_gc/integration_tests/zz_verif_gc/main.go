//go:build verif

// Driver `gcuni` for property C14 on unistore (module integration_tests): GC lock resolution over leftover
// populations that include ASYNC-COMMIT transactions (primary still locked, secondaries in several regions, some
// missing / rolled back / already committed), ordinary 2PC leftovers and pessimistic locks, with splits before
// the i-th ScanLock/ResolveLock, forced delivery order of CheckSecondaryLocks answers, and a PrimaryMismatch case.
// Same RES json shape as the mocktikv driver (internal/zz_verif/gc); timestamps come from unistore's PD.
//
// Normalisation N3u: unistore's DeleteRange panics on an empty (unbounded) end key; the wrapper forwards ff ff ff ff instead.
// Normalisation N1u: unistore's ScanLock ignores StartKey/EndKey (it honours the limit, counted from the region
// start); the wrapping client asks for everything and applies TiKV's contract itself.
package main

import (
	"bufio"
	"bytes"
	"context"
	"encoding/hex"
	"encoding/json"
	"fmt"
	"math"
	"math/rand"
	"os"
	"sort"
	"strconv"
	"sync"
	"time"

	"github.com/pingcap/failpoint"
	"github.com/pingcap/kvproto/pkg/kvrpcpb"
	"github.com/pingcap/log"
	"github.com/pingcap/tidb/pkg/store/mockstore/unistore"
	tikverr "github.com/tikv/client-go/v2/error"
	"github.com/tikv/client-go/v2/kv"
	"github.com/tikv/client-go/v2/testutils"
	"github.com/tikv/client-go/v2/tikv"
	"github.com/tikv/client-go/v2/tikvrpc"
	"github.com/tikv/client-go/v2/txnkv/rangetask"
	"github.com/tikv/client-go/v2/util"
	"github.com/tikv/client-go/v2/util/async"
	"github.com/tikv/client-go/v2/util/codec"
	"github.com/tikv/pd/client/constants"
	"go.uber.org/zap"
	"go.uber.org/zap/zapcore"
)

type Op struct {
	Op      string   `json:"op"` // begin | prewrite | pesslock | commit | rollback | sp
	T       int      `json:"t"`  // transaction index (timestamps are allocated at run time)
	Key     string   `json:"key,omitempty"`
	Primary string   `json:"primary,omitempty"`
	Kind    string   `json:"kind,omitempty"`
	Val     string   `json:"val,omitempty"`
	Async   bool     `json:"async,omitempty"`
	Secs    []string `json:"secs,omitempty"` // secondaries (on the primary's prewrite)
	Pess    bool     `json:"pess,omitempty"`
}
type Inject struct {
	At  int    `json:"at"`
	Key string `json:"key"`
}
type Case struct {
	ID      int      `json:"id"`
	Kind    string   `json:"kind"`
	Backend string   `json:"backend"`
	Class   string   `json:"class,omitempty"`
	Splits  []string `json:"splits"`
	Script  []Op     `json:"script"`
	Keys    []string `json:"keys"`
	SP      uint64   `json:"sp"` // filled at run time
	Mode    string   `json:"mode"`
	Limit   uint32   `json:"limit"`
	Conc    int      `json:"conc"`
	RPT     int      `json:"rpt"`
	S       string   `json:"s"`
	E       string   `json:"e"`
	Inj     []Inject `json:"inj,omitempty"`
	Order   string   `json:"order,omitempty"` // CheckSecondaryLocks answers: "" | missing_first | locked_first
	ReadTS  []uint64 `json:"readts,omitempty"`
	Expect  string   `json:"expect,omitempty"` // "primary_mismatch": the pass is expected to fail with that error
}
type Lock struct {
	Start     uint64   `json:"start"`
	Primary   string   `json:"primary"`
	Kind      string   `json:"kind"`
	Val       string   `json:"val"`
	Async     bool     `json:"async,omitempty"`
	MinCommit uint64   `json:"min_commit,omitempty"`
	Secs      []string `json:"secs,omitempty"`
}
type Write struct {
	Start  uint64 `json:"start"`
	Commit uint64 `json:"commit"`
	Kind   string `json:"kind"`
	Val    string `json:"val"`
}
type Rec struct {
	Key    string  `json:"key"`
	Lock   *Lock   `json:"lock"`
	Writes []Write `json:"writes"`
}
type Event struct {
	T        string      `json:"t"`
	N        int         `json:"n,omitempty"`
	RS       string      `json:"rs,omitempty"`
	RE       string      `json:"re,omitempty"`
	S        string      `json:"s,omitempty"`
	E        string      `json:"e,omitempty"`
	Limit    uint32      `json:"limit,omitempty"`
	MaxVer   uint64      `json:"maxver,omitempty"`
	Keys     []string    `json:"keys,omitempty"`
	Raw      int         `json:"raw,omitempty"`
	Infos    [][2]uint64 `json:"infos,omitempty"`
	TS       uint64      `json:"ts,omitempty"`
	Commit   uint64      `json:"commit,omitempty"`
	TTL      uint64      `json:"ttl,omitempty"`
	MinCs    []uint64    `json:"mincs,omitempty"` // checksec: min_commit_ts of the locks returned
	Async    bool        `json:"async,omitempty"`
	Force    bool        `json:"force,omitempty"`    // check: force_sync_commit
	NonAsync bool        `json:"nonasync,omitempty"` // checksec: a returned lock is not an async-commit lock
	Notify   bool        `json:"notify,omitempty"`
	Err      string      `json:"err,omitempty"`
}
type Read struct {
	Key string `json:"key"`
	TS  uint64 `json:"ts"`
	Res string `json:"res"`
}
type Result struct {
	Case        Case              `json:"case"`
	SetupErr    string            `json:"setup_err,omitempty"`
	Pre         []Rec             `json:"pre,omitempty"`
	Post        []Rec             `json:"post,omitempty"`
	Err         string            `json:"err"`
	Events      []Event           `json:"events,omitempty"`
	Subs        [][2]string       `json:"subs,omitempty"`
	Reads       []Read            `json:"reads,omitempty"`
	ReadsBefore []Read            `json:"reads_before,omitempty"`
	Layout0     []string          `json:"layout0"`
	Starts      map[string]uint64 `json:"starts,omitempty"`
	Done        int               `json:"completed_regions,omitempty"`
}

func hx(b []byte) string {
	if len(b) == 0 {
		return "-"
	}
	return hex.EncodeToString(b)
}
func unhx(s string) []byte {
	if s == "-" || s == "" {
		return []byte{}
	}
	b, err := hex.DecodeString(s)
	if err != nil {
		panic(err)
	}
	return b
}
func decKey(enc []byte) []byte {
	if len(enc) == 0 {
		return []byte{}
	}
	_, k, err := codec.DecodeBytes(enc, nil)
	if err != nil {
		panic(err)
	}
	return k
}

type uniClient struct{ *unistore.RPCClient }

func (c *uniClient) SendRequestAsync(ctx context.Context, addr string, req *tikvrpc.Request, cb async.Callback[*tikvrpc.Response]) {
	go func() { cb.Schedule(c.RPCClient.SendRequest(ctx, addr, req, tikv.ReadTimeoutShort)) }()
}
func (c *uniClient) SetEventListener(listener tikv.ClientEventListener) {}

type world struct {
	cluster     testutils.Cluster
	store       *tikv.KVStore
	mu          sync.Mutex
	cond        *sync.Cond
	events      []Event
	rpcN        int
	total       int
	inj         map[int][]string
	splits      map[string]bool
	raw         bool
	order       string
	seenMissing map[uint64]bool // a "lock missing" CheckSecondaryLocks answer was delivered for this start ts
	seenLocked  map[uint64]bool
}

const rpcBudget = 6000

func (w *world) logEv(e Event) { w.mu.Lock(); w.events = append(w.events, e); w.mu.Unlock() }

func (w *world) split(key []byte) {
	if len(key) == 0 {
		return
	}
	w.mu.Lock()
	defer w.mu.Unlock()
	if w.splits[string(key)] {
		return
	}
	enc := codec.EncodeBytes(nil, key)
	r, _, _, _ := w.cluster.GetRegionByKey(enc)
	if r == nil || bytes.Equal(r.StartKey, enc) {
		return
	}
	newID, newPeer := w.cluster.AllocID(), w.cluster.AllocID()
	w.cluster.Split(r.Id, newID, key, []uint64{newPeer}, newPeer)
	w.splits[string(key)] = true
	w.events = append(w.events, Event{T: "split", S: hx(key)})
}
func (w *world) layout() []string {
	w.mu.Lock()
	defer w.mu.Unlock()
	l := make([]string, 0, len(w.splits))
	for k := range w.splits {
		l = append(l, k)
	}
	sort.Strings(l)
	r := make([]string, len(l))
	for i, k := range l {
		r[i] = hx([]byte(k))
	}
	return r
}

// the Cluster interface has no lookup by id: every region starts at "" or at a split key
func (w *world) regionRange(id uint64) (string, string) {
	w.mu.Lock()
	cands := [][]byte{{}, codec.EncodeBytes(nil, []byte{0})}
	for k := range w.splits {
		cands = append(cands, codec.EncodeBytes(nil, []byte(k)))
	}
	w.mu.Unlock()
	for _, k := range cands {
		if r, _, _, _ := w.cluster.GetRegionByKey(k); r != nil && r.Id == id {
			return hx(decKey(r.StartKey)), hx(decKey(r.EndKey))
		}
	}
	return "?", "?"
}
func (w *world) nextRPC() int {
	w.mu.Lock()
	w.rpcN++
	n := w.rpcN
	ks := w.inj[n]
	w.mu.Unlock()
	for _, k := range ks {
		w.split(unhx(k))
	}
	return n
}

type gate struct {
	tikv.Client
	w *world
}

func regionErrOf(resp *tikvrpc.Response) string {
	if resp == nil {
		return ""
	}
	re, err := resp.GetRegionError()
	if err != nil {
		return "err:" + err.Error()
	}
	if re != nil {
		return "region"
	}
	return ""
}
func (g *gate) SendRequestAsync(ctx context.Context, addr string, req *tikvrpc.Request, cb async.Callback[*tikvrpc.Response]) {
	go func() { cb.Schedule(g.SendRequest(ctx, addr, req, 0)) }()
}
func (g *gate) SendRequest(ctx context.Context, addr string, req *tikvrpc.Request, timeout time.Duration) (*tikvrpc.Response, error) {
	w := g.w
	if w.raw {
		return g.Client.SendRequest(ctx, addr, req, timeout)
	}
	w.mu.Lock()
	w.total++
	over := w.total > rpcBudget
	w.mu.Unlock()
	if over {
		return nil, fmt.Errorf("verif: RPC budget exceeded (livelock?)")
	}
	switch req.Type {
	case tikvrpc.CmdScanLock:
		n := w.nextRPC()
		r := req.ScanLock()
		// N1u: ask for everything, apply the contract here
		all := tikvrpc.NewRequest(tikvrpc.CmdScanLock, &kvrpcpb.ScanLockRequest{MaxVersion: r.MaxVersion, Limit: 1 << 30}, req.Context)
		resp, err := g.Client.SendRequest(ctx, addr, all, timeout)
		if err != nil {
			return resp, err
		}
		if re := regionErrOf(resp); re != "" {
			w.logEv(Event{T: "scanerr", N: n, S: hx(r.StartKey), E: hx(r.EndKey), Err: re})
			return resp, nil
		}
		sr := resp.Resp.(*kvrpcpb.ScanLockResponse)
		if sr.Error != nil {
			return resp, nil
		}
		raw := len(sr.Locks)
		var locks []*kvrpcpb.LockInfo
		for _, l := range sr.Locks {
			if bytes.Compare(l.Key, r.StartKey) < 0 || (len(r.EndKey) > 0 && bytes.Compare(l.Key, r.EndKey) >= 0) {
				continue
			}
			locks = append(locks, l)
		}
		sort.Slice(locks, func(i, j int) bool { return bytes.Compare(locks[i].Key, locks[j].Key) < 0 })
		if r.Limit > 0 && len(locks) > int(r.Limit) {
			locks = locks[:r.Limit]
		}
		keys := make([]string, 0, len(locks))
		for _, l := range locks {
			keys = append(keys, hx(l.Key))
		}
		sr.Locks = locks
		rs, re := w.regionRange(req.Context.RegionId)
		w.logEv(Event{T: "scan", N: n, RS: rs, RE: re, S: hx(r.StartKey), E: hx(r.EndKey), Limit: r.Limit, MaxVer: r.MaxVersion, Keys: keys, Raw: raw})
		return resp, nil
	case tikvrpc.CmdResolveLock:
		n := w.nextRPC()
		r := req.ResolveLock()
		infos := make([][2]uint64, 0, len(r.TxnInfos))
		for _, ti := range r.TxnInfos {
			infos = append(infos, [2]uint64{ti.Txn, ti.Status})
		}
		sort.Slice(infos, func(i, j int) bool { return infos[i][0] < infos[j][0] })
		resp, err := g.Client.SendRequest(ctx, addr, req, timeout)
		if err != nil {
			return resp, err
		}
		if re := regionErrOf(resp); re != "" {
			w.logEv(Event{T: "resolveerr", N: n, Infos: infos, Err: re})
			return resp, nil
		}
		rs, re := w.regionRange(req.Context.RegionId)
		ev := Event{T: "resolve", N: n, RS: rs, RE: re, Infos: infos, TS: r.StartVersion, Commit: r.CommitVersion}
		if ke := resp.Resp.(*kvrpcpb.ResolveLockResponse).Error; ke != nil {
			ev.Err = ke.String()
		}
		w.logEv(ev)
		return resp, nil
	case tikvrpc.CmdCheckTxnStatus:
		r := req.CheckTxnStatus()
		resp, err := g.Client.SendRequest(ctx, addr, req, timeout)
		if err == nil && regionErrOf(resp) == "" {
			cr := resp.Resp.(*kvrpcpb.CheckTxnStatusResponse)
			ev := Event{T: "check", S: hx(r.PrimaryKey), TS: r.LockTs, Commit: cr.CommitVersion, TTL: cr.LockTtl, Force: r.ForceSyncCommit}
			if cr.LockInfo != nil && cr.LockInfo.UseAsyncCommit {
				ev.Async = true
				ev.MinCs = []uint64{cr.LockInfo.MinCommitTs}
			}
			if cr.Error != nil {
				ev.Err = cr.Error.String()
				if cr.Error.PrimaryMismatch != nil {
					ev.Err = "PrimaryMismatch"
				}
			}
			w.logEv(ev)
		}
		return resp, err
	case tikvrpc.CmdCheckSecondaryLocks:
		r := req.CheckSecondaryLocks()
		resp, err := g.Client.SendRequest(ctx, addr, req, timeout)
		if err != nil || regionErrOf(resp) != "" {
			return resp, err
		}
		cr := resp.Resp.(*kvrpcpb.CheckSecondaryLocksResponse)
		missing := len(cr.Locks) < len(r.Keys)
		// forced delivery order of the answers for one transaction
		w.mu.Lock()
		deadline := time.Now().Add(150 * time.Millisecond)
		for w.order != "" && time.Now().Before(deadline) {
			if (w.order == "missing_first" && (missing || w.seenMissing[r.StartVersion])) ||
				(w.order == "locked_first" && (!missing || w.seenLocked[r.StartVersion])) {
				break
			}
			w.mu.Unlock()
			time.Sleep(2 * time.Millisecond)
			w.mu.Lock()
		}
		if missing {
			w.seenMissing[r.StartVersion] = true
		} else {
			w.seenLocked[r.StartVersion] = true
		}
		ev := Event{T: "checksec", TS: r.StartVersion, Commit: cr.CommitTs}
		for _, k := range r.Keys {
			ev.Keys = append(ev.Keys, hx(k))
		}
		if missing {
			ev.Err = "missing"
		}
		for _, l := range cr.Locks {
			ev.MinCs = append(ev.MinCs, l.MinCommitTs)
			if !missing && !l.UseAsyncCommit {
				ev.NonAsync = true
			}
		}
		w.events = append(w.events, ev)
		w.mu.Unlock()
		return resp, nil
	case tikvrpc.CmdDeleteRange:
		n := w.nextRPC()
		r := req.DeleteRange()
		fwd := req
		if len(r.EndKey) == 0 {
			// N3u: unistore's DeleteRange panics on an unbounded end key ("invalid end key"): forward a key above every test key
			fwd = tikvrpc.NewRequest(tikvrpc.CmdDeleteRange, &kvrpcpb.DeleteRangeRequest{StartKey: r.StartKey, EndKey: []byte{0xff, 0xff, 0xff, 0xff}, NotifyOnly: r.NotifyOnly}, req.Context)
		}
		resp, err := g.Client.SendRequest(ctx, addr, fwd, timeout)
		if err != nil {
			return resp, err
		}
		if re := regionErrOf(resp); re != "" {
			w.logEv(Event{T: "delerr", N: n, S: hx(r.StartKey), E: hx(r.EndKey), Err: re})
			return resp, nil
		}
		rs, re := w.regionRange(req.Context.RegionId)
		w.logEv(Event{T: "delrange", N: n, RS: rs, RE: re, S: hx(r.StartKey), E: hx(r.EndKey), Notify: r.NotifyOnly, Err: resp.Resp.(*kvrpcpb.DeleteRangeResponse).Error})
		return resp, nil
	case tikvrpc.CmdPessimisticRollback:
		r := req.PessimisticRollback()
		resp, err := g.Client.SendRequest(ctx, addr, req, timeout)
		if err == nil && regionErrOf(resp) == "" {
			ev := Event{T: "pessrb", TS: r.StartVersion}
			for _, k := range r.Keys {
				ev.Keys = append(ev.Keys, hx(k))
			}
			w.logEv(ev)
		}
		return resp, err
	}
	return g.Client.SendRequest(ctx, addr, req, timeout)
}

func newWorld(c *Case) (*world, error) {
	client, pdClient, cluster, err := unistore.New("", nil, constants.NullKeyspaceID, nil)
	if err != nil {
		return nil, err
	}
	unistore.BootstrapWithSingleStore(cluster)
	w := &world{cluster: cluster, inj: map[int][]string{}, splits: map[string]bool{}, order: c.Order, seenMissing: map[uint64]bool{}, seenLocked: map[uint64]bool{}}
	for _, s := range c.Splits {
		w.split(unhx(s))
	}
	w.events = nil
	for _, i := range c.Inj {
		w.inj[i.At] = append(w.inj[i.At], i.Key)
	}
	st, err := tikv.NewTestTiKVStore(&uniClient{client}, pdClient, func(cl tikv.Client) tikv.Client { return &gate{Client: cl, w: w} }, nil, 0)
	if err != nil {
		return nil, err
	}
	w.store = st
	return w, nil
}

// region-routed RPC, bypassing the gate's bookkeeping
func (w *world) rpc(key []byte, mk func() *tikvrpc.Request) (*tikvrpc.Response, error) {
	bo := tikv.NewGcResolveLockMaxBackoffer(context.Background())
	for i := 0; i < 6; i++ {
		loc, err := w.store.GetRegionCache().LocateKey(bo, key)
		if err != nil {
			return nil, err
		}
		resp, err := w.store.SendReq(bo, mk(), loc.Region, 5*time.Second)
		if err != nil {
			return nil, err
		}
		if regionErrOf(resp) != "" {
			w.store.GetRegionCache().InvalidateCachedRegion(loc.Region)
			continue
		}
		return resp, nil
	}
	return nil, fmt.Errorf("region errors")
}

func (w *world) ts() uint64 {
	t, err := w.store.CurrentTimestamp("global")
	if err != nil {
		panic(err)
	}
	return t
}

func (w *world) runScript(c *Case, starts map[int]uint64, commits map[int]uint64) error {
	w.raw = true
	defer func() { w.raw = false }()
	for i, o := range c.Script {
		var err error
		key := unhx(o.Key)
		switch o.Op {
		case "begin":
			starts[o.T] = w.ts()
		case "sp":
			c.SP = w.ts()
		case "prewrite":
			m := &kvrpcpb.Mutation{Op: kvrpcpb.Op_Put, Key: key, Value: unhx(o.Val)}
			if o.Kind == "del" {
				m = &kvrpcpb.Mutation{Op: kvrpcpb.Op_Del, Key: key}
			}
			var resp *tikvrpc.Response
			resp, err = w.rpc(key, func() *tikvrpc.Request {
				req := &kvrpcpb.PrewriteRequest{Mutations: []*kvrpcpb.Mutation{m}, PrimaryLock: unhx(o.Primary), StartVersion: starts[o.T], LockTtl: 3000, TxnSize: 1}
				if o.Async {
					req.UseAsyncCommit = true
					req.MinCommitTs = starts[o.T] + 1
					for _, s := range o.Secs {
						req.Secondaries = append(req.Secondaries, unhx(s))
					}
				}
				if o.Pess {
					req.ForUpdateTs = starts[o.T]
					req.PessimisticActions = []kvrpcpb.PrewriteRequest_PessimisticAction{kvrpcpb.PrewriteRequest_DO_PESSIMISTIC_CHECK}
				}
				return tikvrpc.NewRequest(tikvrpc.CmdPrewrite, req)
			})
			if err == nil {
				if es := resp.Resp.(*kvrpcpb.PrewriteResponse).Errors; len(es) > 0 {
					err = fmt.Errorf("%s", es[0].String())
				}
			}
		case "pesslock":
			var resp *tikvrpc.Response
			resp, err = w.rpc(key, func() *tikvrpc.Request {
				return tikvrpc.NewRequest(tikvrpc.CmdPessimisticLock, &kvrpcpb.PessimisticLockRequest{
					Mutations:   []*kvrpcpb.Mutation{{Op: kvrpcpb.Op_PessimisticLock, Key: key}},
					PrimaryLock: unhx(o.Primary), StartVersion: starts[o.T], ForUpdateTs: starts[o.T], LockTtl: 3000, WaitTimeout: -1})
			})
			if err == nil {
				if es := resp.Resp.(*kvrpcpb.PessimisticLockResponse).Errors; len(es) > 0 {
					err = fmt.Errorf("%s", es[0].String())
				}
			}
		case "commit":
			if commits[o.T] == 0 {
				commits[o.T] = w.ts()
			}
			var resp *tikvrpc.Response
			resp, err = w.rpc(key, func() *tikvrpc.Request {
				return tikvrpc.NewRequest(tikvrpc.CmdCommit, &kvrpcpb.CommitRequest{Keys: [][]byte{key}, StartVersion: starts[o.T], CommitVersion: commits[o.T]})
			})
			if err == nil {
				if e := resp.Resp.(*kvrpcpb.CommitResponse).Error; e != nil {
					err = fmt.Errorf("%s", e.String())
				}
			}
		case "rollback":
			var resp *tikvrpc.Response
			resp, err = w.rpc(key, func() *tikvrpc.Request {
				return tikvrpc.NewRequest(tikvrpc.CmdBatchRollback, &kvrpcpb.BatchRollbackRequest{Keys: [][]byte{key}, StartVersion: starts[o.T]})
			})
			if err == nil {
				if e := resp.Resp.(*kvrpcpb.BatchRollbackResponse).Error; e != nil {
					err = fmt.Errorf("%s", e.String())
				}
			}
		}
		if err != nil {
			return fmt.Errorf("script op %d %+v: %v", i, o, err)
		}
	}
	return nil
}

func opName(o kvrpcpb.Op) string {
	switch o {
	case kvrpcpb.Op_Put:
		return "put"
	case kvrpcpb.Op_Del:
		return "del"
	case kvrpcpb.Op_Rollback:
		return "rollback"
	case kvrpcpb.Op_Lock:
		return "lock"
	case kvrpcpb.Op_PessimisticLock:
		return "pess"
	}
	return "op" + strconv.Itoa(int(o))
}

func (w *world) dump(keys []string) ([]Rec, error) {
	w.raw = true
	defer func() { w.raw = false }()
	recs := make([]Rec, 0, len(keys))
	for _, k := range keys {
		key := unhx(k)
		r := Rec{Key: k, Writes: []Write{}}
		resp, err := w.rpc(key, func() *tikvrpc.Request {
			return tikvrpc.NewRequest(tikvrpc.CmdMvccGetByKey, &kvrpcpb.MvccGetByKeyRequest{Key: key})
		})
		if err != nil {
			return nil, err
		}
		if info := resp.Resp.(*kvrpcpb.MvccGetByKeyResponse).Info; info != nil {
			for _, wr := range info.Writes {
				r.Writes = append(r.Writes, Write{Start: wr.StartTs, Commit: wr.CommitTs, Kind: opName(wr.Type), Val: hx(wr.ShortValue)})
			}
		}
		// the lock with all its fields: ScanLock of the key's region
		resp, err = w.rpc(key, func() *tikvrpc.Request {
			return tikvrpc.NewRequest(tikvrpc.CmdScanLock, &kvrpcpb.ScanLockRequest{MaxVersion: math.MaxUint64, Limit: 1 << 30})
		})
		if err != nil {
			return nil, err
		}
		for _, l := range resp.Resp.(*kvrpcpb.ScanLockResponse).Locks {
			if bytes.Equal(l.Key, key) {
				lk := &Lock{Start: l.LockVersion, Primary: hx(l.PrimaryLock), Kind: opName(l.LockType), Async: l.UseAsyncCommit, MinCommit: l.MinCommitTs, Val: "-"}
				for _, s := range l.Secondaries {
					lk.Secs = append(lk.Secs, hx(s))
				}
				r.Lock = lk
			}
		}
		recs = append(recs, r)
	}
	return recs, nil
}

func runCase(c *Case) *Result {
	res := &Result{Case: *c}
	w, err := newWorld(c)
	if err != nil {
		res.SetupErr = err.Error()
		return res
	}
	defer w.store.Close()
	res.Layout0 = w.layout()
	starts, commits := map[int]uint64{}, map[int]uint64{}
	if err := w.runScript(&res.Case, starts, commits); err != nil {
		res.SetupErr = err.Error()
		return res
	}
	c = &res.Case
	if c.SP == 0 {
		c.SP = w.ts()
	}
	res.Starts = map[string]uint64{}
	for t, s := range starts {
		res.Starts[strconv.Itoa(t)] = s
	}
	// the value of a prewrite lock is not reported by ScanLock: take it from the script
	vals := map[string]string{}
	for _, o := range c.Script {
		if o.Op == "prewrite" && o.Kind != "del" {
			vals[o.Key+"@"+strconv.FormatUint(starts[o.T], 10)] = o.Val
		}
	}
	fill := func(recs []Rec) {
		for i := range recs {
			if l := recs[i].Lock; l != nil && l.Kind == "put" {
				if v, ok := vals[recs[i].Key+"@"+strconv.FormatUint(l.Start, 10)]; ok {
					l.Val = v
				}
			}
		}
	}
	ctx := context.Background()
	// audit by snapshot reads (unistore's MvccGetByKey panics on a key removed by DeleteRange)
	dumpReads := func() []Rec {
		w.raw = true
		defer func() { w.raw = false }()
		snap := w.store.GetSnapshot(w.ts())
		recs := make([]Rec, 0, len(c.Keys))
		for _, k := range c.Keys {
			r := Rec{Key: k, Writes: []Write{}}
			if e, err := snap.Get(ctx, unhx(k)); err == nil {
				r.Writes = append(r.Writes, Write{Start: 1, Commit: 2, Kind: "put", Val: hx(e.Value)})
			} else if !tikverr.IsErrNotFound(err) {
				r.Writes = append(r.Writes, Write{Kind: "err:" + err.Error()})
			}
			recs = append(recs, r)
		}
		return recs
	}
	if c.Kind == "del" {
		res.Pre = dumpReads()
		task := rangetask.NewDeleteRangeTask(w.store, unhx(c.S), unhx(c.E), c.Conc)
		if err = task.Execute(ctx); err != nil {
			res.Err = err.Error()
		}
		res.Done = task.CompletedRegions()
		w.mu.Lock()
		res.Events = w.events
		w.inj = map[int][]string{}
		w.mu.Unlock()
		res.Post = dumpReads()
		return res
	}
	if res.Pre, err = w.dump(c.Keys); err != nil {
		res.SetupErr = "dump: " + err.Error()
		return res
	}
	fill(res.Pre)
	now := w.ts()
	c.ReadTS = []uint64{c.SP, c.SP + 1, now}
	readAll := func(recs []Rec, before bool) []Read {
		var out []Read
		for _, ts := range c.ReadTS {
			snap := w.store.GetSnapshot(ts)
			for _, r := range recs {
				if r.Lock != nil && (before || (r.Lock.Kind != "pess" && r.Lock.Start <= ts)) {
					continue // before the pass only lock-free keys are read (a reader would resolve locks itself)
				}
				e, err := snap.Get(ctx, unhx(r.Key))
				rd := Read{Key: r.Key, TS: ts}
				switch {
				case err == nil:
					rd.Res = "V" + hex.EncodeToString(e.Value)
				case tikverr.IsErrNotFound(err):
					rd.Res = "N"
				default:
					rd.Res = "err:" + err.Error()
				}
				out = append(out, rd)
			}
		}
		return out
	}
	w.raw = true
	res.ReadsBefore = readAll(res.Pre, true)
	w.raw = false
	var subsMu sync.Mutex
	resolver := tikv.NewRegionLockResolver("verif-gc", w.store)
	handler := func(ctx context.Context, r kv.KeyRange) (rangetask.TaskStat, error) {
		subsMu.Lock()
		res.Subs = append(res.Subs, [2]string{hx(r.StartKey), hx(r.EndKey)})
		subsMu.Unlock()
		w.logEv(Event{T: "begin", S: hx(r.StartKey), E: hx(r.EndKey)})
		st, err := tikv.ResolveLocksForRange(ctx, resolver, c.SP, r.StartKey, r.EndKey, tikv.NewGcResolveLockMaxBackoffer, c.Limit)
		w.logEv(Event{T: "end", S: hx(r.StartKey), E: hx(r.EndKey)})
		return st, err
	}
	runner := rangetask.NewRangeTaskRunner("verif-gc", w.store, c.Conc, handler)
	if c.RPT > 0 {
		runner.SetRegionsPerTask(c.RPT)
	}
	err = runner.RunOnRange(ctx, unhx(c.S), unhx(c.E))
	res.Done = runner.CompletedRegions()
	if err != nil {
		res.Err = err.Error()
	}
	w.mu.Lock()
	res.Events = w.events
	w.inj = map[int][]string{}
	w.mu.Unlock()
	if res.Post, err = w.dump(c.Keys); err != nil {
		res.SetupErr = "dump: " + err.Error()
		return res
	}
	fill(res.Post)
	if res.Err == "" {
		w.raw = true
		res.Reads = readAll(res.Post, false)
		w.raw = false
	}
	return res
}

// ---------------------------------------------------------------- generators

type gen struct {
	r  *rand.Rand
	id int
}

var alphabet = []byte("abcdefgh")

func (g *gen) key() []byte {
	n := 1 + g.r.Intn(2)
	b := make([]byte, n)
	for i := range b {
		b[i] = alphabet[g.r.Intn(len(alphabet))]
	}
	return b
}
func (g *gen) keys(n int) []string {
	m := map[string]bool{}
	for len(m) < n {
		m[string(g.key())] = true
	}
	l := make([]string, 0, n)
	for k := range m {
		l = append(l, k)
	}
	sort.Strings(l)
	return l
}
func h(k string) string { return hx([]byte(k)) }

func (g *gen) gcCase(class string) *Case {
	g.id++
	c := &Case{ID: g.id, Kind: "gc", Backend: "unistore", Class: class, Mode: "custom", S: "-", E: "-", Conc: 1, RPT: 128}
	keys := g.keys(8 + g.r.Intn(10))
	// initial splits: enough regions for the secondaries of one transaction to spread
	ns := 1 + g.r.Intn(4)
	sp := map[string]bool{}
	for i := 0; i < ns; i++ {
		sp[h(keys[1+g.r.Intn(len(keys)-1)])] = true
	}
	for k := range sp {
		c.Splits = append(c.Splits, k)
	}
	sort.Strings(c.Splits)
	c.Limit = uint32(1 + g.r.Intn(4))
	switch class {
	case "order":
		c.Order = []string{"missing_first", "locked_first"}[g.r.Intn(2)]
		c.Limit = uint32(2 + g.r.Intn(8))
	case "split":
		for i := 0; i < 1+g.r.Intn(3); i++ {
			c.Inj = append(c.Inj, Inject{At: 1 + g.r.Intn(8), Key: h(keys[g.r.Intn(len(keys))])})
		}
	case "fallback":
		c.Limit = uint32(1 + g.r.Intn(6))
		if g.r.Intn(3) == 0 {
			c.Inj = append(c.Inj, Inject{At: 1 + g.r.Intn(6), Key: h(keys[g.r.Intn(len(keys))])})
		}
	case "conc":
		c.Conc = 2 + g.r.Intn(6)
		c.RPT = 1
		c.Order = []string{"", "missing_first", "locked_first"}[g.r.Intn(3)]
	}
	free := append([]string(nil), keys...)
	g.r.Shuffle(len(free), func(a, b int) { free[a], free[b] = free[b], free[a] })
	take := func(n int) []string {
		if n > len(free) {
			n = len(free)
		}
		t := free[:n]
		free = free[n:]
		return t
	}
	ntxn := 2 + g.r.Intn(4)
	spAt := g.r.Intn(ntxn + 1)
	t := 0
	val := func(t int, k string) string { return hx([]byte(fmt.Sprintf("v%d%s", t, k))) }
	kind := func() string {
		if g.r.Intn(4) == 0 {
			return "del"
		}
		return "put"
	}
	for i := 0; i < ntxn; i++ {
		if i == spAt && class != "order" {
			c.Script = append(c.Script, Op{Op: "sp"})
		}
		tk := take(2 + g.r.Intn(4))
		if len(tk) < 2 {
			break
		}
		t++
		c.Script = append(c.Script, Op{Op: "begin", T: t})
		primary := tk[0]
		states := []string{"async-all", "async-missing", "async-missing", "async-rolledback-sec", "async-committed-sec", "async-primary-gone", "2pc-committed", "2pc-pending", "pess", "stale-pess", "stale-pess"}
		if class == "order" {
			states = []string{"async-missing", "async-rolledback-sec", "async-committed-sec", "async-all"}
		}
		if class == "fallback" { // the owner fell back to 2PC: some keys of the transaction carry plain prewrite locks
			states = []string{"async-all", "async-all", "async-missing", "async-rolledback-sec", "async-primary-gone"}
		}
		state := states[g.r.Intn(len(states))]
		var secs []string
		for _, k := range tk[1:] {
			secs = append(secs, h(k))
		}
		pw := func(k string, async bool, withSecs bool) {
			if class == "fallback" && !withSecs && g.r.Intn(2) == 0 {
				async = false
			}
			o := Op{Op: "prewrite", T: t, Key: h(k), Primary: h(primary), Kind: kind(), Val: val(t, k), Async: async}
			if withSecs {
				o.Secs = secs
			}
			c.Script = append(c.Script, o)
		}
		switch state {
		case "async-all":
			pw(primary, true, true)
			for _, k := range tk[1:] {
				pw(k, true, false)
			}
		case "async-missing": // one or more secondaries never prewritten
			pw(primary, true, true)
			miss := 1 + g.r.Intn(len(tk)-1)
			for j, k := range tk[1:] {
				if j+1 == miss || g.r.Intn(4) == 0 {
					continue
				}
				pw(k, true, false)
			}
		case "async-rolledback-sec":
			pw(primary, true, true)
			for _, k := range tk[1:] {
				pw(k, true, false)
			}
			c.Script = append(c.Script, Op{Op: "rollback", T: t, Key: h(tk[1+g.r.Intn(len(tk)-1)])})
		case "async-committed-sec": // the commit was decided and one secondary already committed; the primary is still locked
			pw(primary, true, true)
			for _, k := range tk[1:] {
				pw(k, true, false)
			}
			c.Script = append(c.Script, Op{Op: "commit", T: t, Key: h(tk[1+g.r.Intn(len(tk)-1)])})
		case "async-primary-gone":
			pw(primary, true, true)
			for _, k := range tk[1:] {
				pw(k, true, false)
			}
			if g.r.Intn(2) == 0 {
				c.Script = append(c.Script, Op{Op: "commit", T: t, Key: h(primary)})
			} else {
				c.Script = append(c.Script, Op{Op: "rollback", T: t, Key: h(primary)})
			}
		case "2pc-committed":
			for _, k := range tk {
				pw(k, false, false)
			}
			c.Script = append(c.Script, Op{Op: "commit", T: t, Key: h(primary)})
		case "2pc-pending":
			for _, k := range tk {
				pw(k, false, false)
			}
		case "stale-pess": // tidb#42937: pessimistic leftovers with a stale primary field next to prewrite locks of the same transaction
			npw := 1 + g.r.Intn(len(tk)-1)
			for _, k := range tk[:npw] {
				pw(k, false, false)
			}
			for _, k := range tk[npw:] {
				p := string(g.key()) + "y"
				if len(free) > 0 && g.r.Intn(2) == 0 {
					p = free[g.r.Intn(len(free))] // an existing key outside this transaction (lock-free at this point)
				}
				c.Script = append(c.Script, Op{Op: "pesslock", T: t, Key: h(k), Primary: h(p)})
			}
			if g.r.Intn(3) > 0 {
				c.Script = append(c.Script, Op{Op: "commit", T: t, Key: h(primary)})
			}
		case "pess":
			for _, k := range tk {
				c.Script = append(c.Script, Op{Op: "pesslock", T: t, Key: h(k), Primary: h(primary)})
			}
		}
	}
	for _, k := range keys {
		c.Keys = append(c.Keys, h(k))
	}
	sort.Slice(c.Keys, func(i, j int) bool { return bytes.Compare(unhx(c.Keys[i]), unhx(c.Keys[j])) < 0 })
	return c
}

// DeleteRangeTask over unistore
func (g *gen) delCase() *Case {
	g.id++
	c := &Case{ID: g.id, Kind: "del", Backend: "unistore", Class: "del", Conc: 1 + g.r.Intn(6)}
	keys := g.keys(5 + g.r.Intn(10))
	sp := map[string]bool{}
	for i := 0; i < g.r.Intn(5); i++ {
		sp[h(keys[g.r.Intn(len(keys))])] = true
	}
	for k := range sp {
		c.Splits = append(c.Splits, k)
	}
	sort.Strings(c.Splits)
	a, b := keys[g.r.Intn(len(keys))], keys[g.r.Intn(len(keys))]
	if a > b {
		a, b = b, a
	}
	switch g.r.Intn(4) {
	case 0:
		c.S, c.E = "-", "-"
	case 1:
		c.S, c.E = h(a), "-"
	case 2:
		c.S, c.E = "-", h(b)
	default:
		c.S, c.E = h(a), h(b)
	}
	for i, k := range keys {
		c.Script = append(c.Script, Op{Op: "begin", T: i + 1}, Op{Op: "prewrite", T: i + 1, Key: h(k), Primary: h(k), Kind: "put", Val: hx([]byte("d" + k))},
			Op{Op: "commit", T: i + 1, Key: h(k)})
		c.Keys = append(c.Keys, h(k))
	}
	if g.r.Intn(2) == 0 {
		c.Inj = append(c.Inj, Inject{At: 1 + g.r.Intn(3), Key: h(string(g.key()))})
	}
	sort.Slice(c.Keys, func(i, j int) bool { return bytes.Compare(unhx(c.Keys[i]), unhx(c.Keys[j])) < 0 })
	return c
}

// a pessimistic lock whose primary pointer names a key that holds a SECONDARY prewrite lock of the same transaction
func (g *gen) mismatchCase() *Case {
	g.id++
	c := &Case{ID: g.id, Kind: "gc", Backend: "unistore", Class: "primary-mismatch", Mode: "custom", S: "-", E: "-", Conc: 1, RPT: 128, Limit: uint32(1 + g.r.Intn(4)), Expect: "primary_mismatch"}
	keys := g.keys(4 + g.r.Intn(3))
	a, b, p := keys[0], keys[1], keys[2]
	if g.r.Intn(2) == 0 {
		c.Splits = []string{h(b)}
	}
	c.Script = []Op{{Op: "begin", T: 1},
		{Op: "prewrite", T: 1, Key: h(p), Primary: h(p), Kind: "put", Val: h("vp")},
		{Op: "prewrite", T: 1, Key: h(b), Primary: h(p), Kind: "put", Val: h("vb")},
		{Op: "pesslock", T: 1, Key: h(a), Primary: h(b)},
		{Op: "commit", T: 1, Key: h(p)}}
	for _, k := range keys {
		c.Keys = append(c.Keys, h(k))
	}
	return c
}

func main() {
	log.SetLevel(zapcore.FatalLevel)
	log.ReplaceGlobals(zap.NewNop(), &log.ZapProperties{Level: zap.NewAtomicLevelAt(zapcore.FatalLevel)})
	util.EnableFailpoints()
	if err := failpoint.Enable("tikvclient/fastBackoffBySkipSleep", "return"); err != nil {
		fmt.Fprintln(os.Stderr, "failpoint:", err)
		os.Exit(2)
	}
	out := bufio.NewWriterSize(os.Stdout, 1<<20)
	defer out.Flush()
	emit := func(tag string, v interface{}) {
		b, err := json.Marshal(v)
		if err != nil {
			panic(err)
		}
		fmt.Fprintf(out, "%s\t%s\n", tag, b)
	}
	if len(os.Args) >= 3 && os.Args[1] == "replay" {
		f, err := os.Open(os.Args[2])
		if err != nil {
			panic(err)
		}
		sc := bufio.NewScanner(f)
		sc.Buffer(make([]byte, 1<<20), 1<<26)
		for sc.Scan() {
			line := bytes.TrimSpace(sc.Bytes())
			if len(line) == 0 {
				continue
			}
			var c Case
			if err := json.Unmarshal(line, &c); err != nil {
				panic(err)
			}
			c.SP = 0
			emit("RES", runCase(&c))
		}
		return
	}
	seed, _ := strconv.ParseInt(os.Getenv("VERIF_SEED"), 10, 64)
	if seed == 0 {
		seed = 1
	}
	scale := 1
	if os.Getenv("VERIF_TIER") == "thorough" {
		scale = 8
	}
	g := &gen{r: rand.New(rand.NewSource(seed*104729 + 14))}
	plan := []struct {
		f func() *Case
		n int
	}{
		{func() *Case { return g.gcCase("basic") }, 30},
		{func() *Case { return g.gcCase("order") }, 40},
		{func() *Case { return g.gcCase("split") }, 25},
		{func() *Case { return g.gcCase("conc") }, 20},
		{func() *Case { return g.gcCase("fallback") }, 35},
		{func() *Case { return g.delCase() }, 20},
		{func() *Case { return g.mismatchCase() }, 5},
	}
	for _, p := range plan {
		for i := 0; i < p.n*scale; i++ {
			emit("RES", runCase(p.f()))
		}
	}
}
