//go:build verif

package main

import (
	"bytes"
	"context"
	"errors"
	"github.com/pingcap/kvproto/pkg/kvrpcpb"
	"github.com/tikv/client-go/v2/internal/mockstore/mocktikv"
	"github.com/tikv/client-go/v2/tikv"
	"github.com/tikv/client-go/v2/tikvrpc"
	"github.com/tikv/client-go/v2/util/async"
	"github.com/tikv/client-go/v2/util/codec"
	pd "github.com/tikv/pd/client"
	"github.com/tikv/pd/client/clients/router"
	"github.com/tikv/pd/client/opt"
	"github.com/tikv/pd/client/pkg/caller"
	"math"
	"sort"
	"sync"
	"time"
)

// ---------------------------------------------------------------- world

type world struct {
	cluster *mocktikv.Cluster
	rpc     *mocktikv.RPCClient
	store   *tikv.KVStore
	storeID uint64

	mu     sync.Mutex
	events []Event
	rpcN   int
	pdN    int
	inj    map[int][]string
	pdInj  map[int][]string
	splits map[string]bool
	total  int
	faults []Fault
	faultN map[string]int
	cancel context.CancelFunc
	visOn  bool
	visN   int
	visInj []VisInj
	n1     bool // normalisation N1 active for this case (ScanLock window + limit applied by the gate)
	n2     bool // normalisation N2 active: split ResolveLock{TxnInfos} into single-transaction resolves
	raw    bool // no normalisation at all (probe)
}

func (w *world) logEv(e Event) {
	w.mu.Lock()
	w.events = append(w.events, e)
	w.mu.Unlock()
}

func decKey(enc []byte) []byte {
	if len(enc) == 0 {
		return []byte{}
	}
	_, k, err := codec.DecodeBytes(enc, nil)
	if err != nil {
		panic(err)
	}
	return k
}

// split the region containing key at key (no-op on an existing boundary / the empty key); caller holds no lock
func (w *world) split(key []byte) {
	if len(key) == 0 {
		return
	}
	w.mu.Lock()
	defer w.mu.Unlock()
	if w.splits[string(key)] {
		return
	}
	r, _, _, _ := w.cluster.GetRegionByKey(mocktikv.NewMvccKey(key))
	if r == nil || bytes.Equal(r.StartKey, mocktikv.NewMvccKey(key)) {
		return
	}
	ids := w.cluster.AllocIDs(2)
	w.cluster.Split(r.Id, ids[0], key, []uint64{ids[1]}, ids[1])
	w.splits[string(key)] = true
	w.events = append(w.events, Event{T: "split", S: hx(key)})
}

func (w *world) layout() []string {
	w.mu.Lock()
	defer w.mu.Unlock()
	return w.layoutLocked()
}
func (w *world) layoutLocked() []string {
	l := make([]string, 0, len(w.splits))
	for k := range w.splits {
		l = append(l, k)
	}
	sort.Strings(l)
	r := make([]string, len(l))
	for i, k := range l {
		r[i] = hx([]byte(k))
	}
	return r
}

func (w *world) regionRange(id uint64) (string, string) {
	r, _ := w.cluster.GetRegion(id)
	if r == nil {
		return "?", "?"
	}
	return hx(decKey(r.StartKey)), hx(decKey(r.EndKey))
}

func (w *world) nextRPC() int {
	w.mu.Lock()
	w.rpcN++
	n := w.rpcN
	ks := w.inj[n]
	w.mu.Unlock()
	for _, k := range ks {
		w.change(k)
	}
	return n
}

// change applies one injected layout change: "<hexkey>" = split, "m:<hexkey>" = merge with the right neighbour
func (w *world) change(k string) {
	if len(k) > 2 && k[:2] == "m:" {
		w.merge(unhx(k[2:]))
		return
	}
	w.split(unhx(k))
}

// merge the region containing key with its right neighbour (no-op for the last region)
func (w *world) merge(key []byte) {
	w.mu.Lock()
	defer w.mu.Unlock()
	r1, _, _, _ := w.cluster.GetRegionByKey(mocktikv.NewMvccKey(key))
	if r1 == nil || len(r1.EndKey) == 0 {
		return
	}
	r2, _, _, _ := w.cluster.GetRegionByKey(r1.EndKey)
	if r2 == nil || r2.Id == r1.Id {
		return
	}
	boundary := decKey(r1.EndKey)
	w.cluster.Merge(r1.Id, r2.Id)
	delete(w.splits, string(boundary))
	w.events = append(w.events, Event{T: "merge", S: hx(boundary)})
}

type gate struct {
	tikv.Client
	w *world
}

func regionErrOf(resp *tikvrpc.Response) string {
	if resp == nil {
		return ""
	}
	re, err := resp.GetRegionError()
	if err != nil {
		return "err:" + err.Error()
	}
	if re != nil {
		return "region"
	}
	return ""
}

func (g *gate) SendRequestAsync(ctx context.Context, addr string, req *tikvrpc.Request, cb async.Callback[*tikvrpc.Response]) {
	go func() { cb.Schedule(g.SendRequest(ctx, addr, req, 0)) }()
}

func (g *gate) SendRequest(ctx context.Context, addr string, req *tikvrpc.Request, timeout time.Duration) (*tikvrpc.Response, error) {
	w := g.w
	if w.raw {
		return g.Client.SendRequest(ctx, addr, req, timeout)
	}
	// livelock guard: no case needs more than a few hundred RPCs
	w.mu.Lock()
	w.total++
	over := w.total > rpcBudget
	w.mu.Unlock()
	if over {
		return nil, errors.New("verif: RPC budget exceeded (livelock?)")
	}
	if w.visOn && (req.Type == tikvrpc.CmdGet || req.Type == tikvrpc.CmdBatchGet || req.Type == tikvrpc.CmdScan) {
		w.mu.Lock()
		w.visN++
		n := w.visN
		w.mu.Unlock()
		probe := tikv.StoreProbe{KVStore: w.store}
		apply := func(when string) {
			for _, vi := range w.visInj {
				if vi.At == n && vi.When == when {
					// the cache write and its log entry are one atomic step: several BatchGet RPCs are in flight at
					// once, and the oracle replays the updates in log order
					w.mu.Lock()
					probe.UpdateTxnSafePointCache(vi.SP, time.Now())
					w.events = append(w.events, Event{T: "update", N: n, S: when, SP: vi.SP})
					w.mu.Unlock()
				}
			}
		}
		apply("before")
		w.logEv(Event{T: "send", N: n, Cmd: req.Type.String()})
		resp, err := g.Client.SendRequest(ctx, addr, req, timeout)
		apply("after_inner")
		ev := Event{T: "response", N: n, Cmd: req.Type.String(), Err: regionErrOf(resp)}
		if err != nil {
			ev.Err = "err:" + err.Error()
		} else if ev.Err == "" {
			switch r := resp.Resp.(type) {
			case *kvrpcpb.ScanResponse:
				ev.Pairs = len(r.Pairs)
			case *kvrpcpb.BatchGetResponse:
				ev.Pairs = len(r.Pairs)
			case *kvrpcpb.GetResponse:
				if !r.NotFound {
					ev.Pairs = 1
				}
			}
		}
		w.logEv(ev)
		return resp, err
	}
	if len(w.faults) > 0 {
		if resp := w.fault(req); resp != nil {
			return resp, nil
		}
	}
	switch req.Type {
	case tikvrpc.CmdScanLock:
		n := w.nextRPC()
		r := req.ScanLock()
		resp, err := g.Client.SendRequest(ctx, addr, req, timeout)
		if err != nil {
			return resp, err
		}
		if re := regionErrOf(resp); re != "" {
			w.logEv(Event{T: "scanerr", N: n, S: hx(r.StartKey), E: hx(r.EndKey), Err: re})
			return resp, nil
		}
		sr := resp.Resp.(*kvrpcpb.ScanLockResponse)
		if sr.Error != nil {
			return resp, nil
		}
		raw := len(sr.Locks)
		// N1 (switchable): TiKV's contract
		locks := sr.Locks
		if w.n1 {
			locks = nil
			for _, l := range sr.Locks {
				if bytes.Compare(l.Key, r.StartKey) < 0 {
					continue
				}
				if len(r.EndKey) > 0 && bytes.Compare(l.Key, r.EndKey) >= 0 {
					continue
				}
				locks = append(locks, l)
			}
			sort.Slice(locks, func(i, j int) bool { return bytes.Compare(locks[i].Key, locks[j].Key) < 0 })
			if r.Limit > 0 && len(locks) > int(r.Limit) {
				locks = locks[:r.Limit]
			}
		}
		dbg := w.rpc.MvccStore.(mocktikv.MVCCDebugger)
		keys := make([]string, 0, len(locks))
		for _, l := range locks {
			if n1tActive {
				if info := dbg.MvccGetByKey(l.Key); info != nil && info.Lock != nil && info.Lock.StartTs == l.LockVersion {
					l.LockType = info.Lock.Type
				}
			}
			keys = append(keys, hx(l.Key))
		}
		sr.Locks = locks
		rs, re := w.regionRange(req.Context.RegionId)
		w.logEv(Event{T: "scan", N: n, RS: rs, RE: re, S: hx(r.StartKey), E: hx(r.EndKey), Limit: r.Limit, MaxVer: r.MaxVersion, Keys: keys, Raw: raw})
		return resp, nil
	case tikvrpc.CmdResolveLock:
		n := w.nextRPC()
		r := req.ResolveLock()
		infos := make([][2]uint64, 0, len(r.TxnInfos))
		for _, ti := range r.TxnInfos {
			infos = append(infos, [2]uint64{ti.Txn, ti.Status})
		}
		sort.Slice(infos, func(i, j int) bool { return infos[i][0] < infos[j][0] })
		var resp *tikvrpc.Response
		var err error
		if len(r.TxnInfos) > 0 && w.n2 {
			// N2: one single-transaction resolve per TxnInfo
			for _, ti := range infos {
				sub := tikvrpc.NewRequest(tikvrpc.CmdResolveLock, &kvrpcpb.ResolveLockRequest{StartVersion: ti[0], CommitVersion: ti[1]}, req.Context)
				resp, err = g.Client.SendRequest(ctx, addr, sub, timeout)
				if err != nil || regionErrOf(resp) != "" {
					break
				}
				if rr := resp.Resp.(*kvrpcpb.ResolveLockResponse); rr.Error != nil {
					break
				}
			}
		} else {
			resp, err = g.Client.SendRequest(ctx, addr, req, timeout)
		}
		if err != nil {
			return resp, err
		}
		if re := regionErrOf(resp); re != "" {
			w.logEv(Event{T: "resolveerr", N: n, Infos: infos, Err: re})
			return resp, nil
		}
		rs, re := w.regionRange(req.Context.RegionId)
		ev := Event{T: "resolve", N: n, RS: rs, RE: re, Infos: infos, TS: r.StartVersion, Commit: r.CommitVersion}
		for _, k := range r.Keys {
			ev.Keys = append(ev.Keys, hx(k))
		}
		w.logEv(ev)
		return resp, nil
	case tikvrpc.CmdCheckTxnStatus:
		r := req.CheckTxnStatus()
		resp, err := g.Client.SendRequest(ctx, addr, req, timeout)
		if err == nil && regionErrOf(resp) == "" {
			cr := resp.Resp.(*kvrpcpb.CheckTxnStatusResponse)
			ev := Event{T: "check", S: hx(r.PrimaryKey), TS: r.LockTs, Commit: cr.CommitVersion, TTL: cr.LockTtl}
			if cr.Error != nil {
				ev.Err = cr.Error.String()
			}
			if r.CurrentTs != math.MaxUint64 {
				ev.Err += " current_ts!=max"
			}
			w.logEv(ev)
		}
		return resp, err
	case tikvrpc.CmdPessimisticRollback:
		r := req.PessimisticRollback()
		resp, err := g.Client.SendRequest(ctx, addr, req, timeout)
		if err == nil && regionErrOf(resp) == "" {
			ev := Event{T: "pessrb", TS: r.StartVersion}
			for _, k := range r.Keys {
				ev.Keys = append(ev.Keys, hx(k))
			}
			w.logEv(ev)
		}
		return resp, err
	case tikvrpc.CmdDeleteRange:
		n := w.nextRPC()
		r := req.DeleteRange()
		var resp *tikvrpc.Response
		var err error
		if r.NotifyOnly && n3Active {
			// N3 (switchable): epoch check through a harmless request, then answer ourselves
			probe := tikvrpc.NewRequest(tikvrpc.CmdScanLock, &kvrpcpb.ScanLockRequest{MaxVersion: 0}, req.Context)
			presp, perr := g.Client.SendRequest(ctx, addr, probe, timeout)
			if perr != nil {
				return presp, perr
			}
			if regionErrOf(presp) != "" {
				pr := presp.Resp.(*kvrpcpb.ScanLockResponse)
				resp = &tikvrpc.Response{Resp: &kvrpcpb.DeleteRangeResponse{RegionError: pr.RegionError}}
			} else {
				resp = &tikvrpc.Response{Resp: &kvrpcpb.DeleteRangeResponse{}}
			}
		} else {
			resp, err = g.Client.SendRequest(ctx, addr, req, timeout)
		}
		if err != nil {
			return resp, err
		}
		if re := regionErrOf(resp); re != "" {
			w.logEv(Event{T: "delerr", N: n, S: hx(r.StartKey), E: hx(r.EndKey), Err: re})
			return resp, nil
		}
		rs, re := w.regionRange(req.Context.RegionId)
		w.logEv(Event{T: "delrange", N: n, RS: rs, RE: re, S: hx(r.StartKey), E: hx(r.EndKey), Notify: r.NotifyOnly,
			Err: resp.Resp.(*kvrpcpb.DeleteRangeResponse).Error})
		return resp, nil
	}
	return g.Client.SendRequest(ctx, addr, req, timeout)
}

// fault answers the request with an injected error if one is due (nil = serve normally)
func (w *world) fault(req *tikvrpc.Request) *tikvrpc.Response {
	kind := map[tikvrpc.CmdType]string{tikvrpc.CmdScanLock: "scan", tikvrpc.CmdResolveLock: "resolve", tikvrpc.CmdCheckTxnStatus: "check",
		tikvrpc.CmdPessimisticRollback: "pessrb"}[req.Type]
	if kind == "" {
		return nil
	}
	w.mu.Lock()
	defer w.mu.Unlock()
	if w.faultN == nil {
		w.faultN = map[string]int{}
	}
	w.faultN[kind]++
	if kind == "scan" || kind == "resolve" {
		w.faultN["gated"]++
	}
	ke := &kvrpcpb.KeyError{Abort: "verif: injected key error"}
	for _, f := range w.faults {
		switch {
		case f.Kind == "cancel" && (kind == "scan" || kind == "resolve") && w.faultN["gated"] == f.At:
			w.events = append(w.events, Event{T: "fault", S: "cancel", N: f.At})
			if w.cancel != nil {
				w.cancel()
			}
		case f.Kind == kind+"_keyerr" && w.faultN[kind] == f.At:
			w.events = append(w.events, Event{T: "fault", S: f.Kind, N: f.At})
			switch kind {
			case "scan":
				return &tikvrpc.Response{Resp: &kvrpcpb.ScanLockResponse{Error: ke}}
			case "resolve":
				return &tikvrpc.Response{Resp: &kvrpcpb.ResolveLockResponse{Error: ke}}
			case "check":
				return &tikvrpc.Response{Resp: &kvrpcpb.CheckTxnStatusResponse{Error: ke}}
			case "pessrb":
				return &tikvrpc.Response{Resp: &kvrpcpb.PessimisticRollbackResponse{Errors: []*kvrpcpb.KeyError{ke}}}
			}
		}
	}
	return nil
}

type pdGate struct {
	pd.Client
	w *world
}

func (p *pdGate) ScanRegions(ctx context.Context, startKey, endKey []byte, limit int, opts ...opt.GetRegionOption) ([]*router.Region, error) {
	w := p.w
	w.mu.Lock()
	w.pdN++
	n := w.pdN
	ks := w.pdInj[n]
	w.mu.Unlock()
	for _, k := range ks {
		w.change(k)
	}
	w.mu.Lock()
	w.events = append(w.events, Event{T: "pdscan", N: n, S: hx(decKey(startKey)), Limit: uint32(limit), Layout: w.layoutLocked()})
	w.mu.Unlock()
	return p.Client.ScanRegions(ctx, startKey, endKey, limit, opts...)
}

// the codec client re-wraps the result of WithCallerComponent: stay in the chain
func (p *pdGate) WithCallerComponent(caller.Component) pd.Client { return p }

const rpcBudget = 4000

// N2 mode (env VERIF_C14_N2): off (default) = never; auto = only when the probe finds that the mock ignores
// TxnInfos; on = always.  Since the mock honours TxnInfos (fix 448a517) the default is off, so that a mock that
// regresses is reported by the lock audit instead of being papered over.
var (
	mockHonoursTxnInfos bool
	n2Active            bool
	// N1T (env VERIF_C14_N1T = off (default) | auto | on): fill ScanLock's lock_type from the MVCC debugger. Until fix F41
	// mocktikv's ScanLock returned no lock_type, so BatchResolveLocks could not recognise pessimistic locks; filling it in
	// the harness masked that (a stale-primary pessimistic lock then rolls back a committed transaction's secondary).
	n1tActive bool
	// N1 / N3 (env VERIF_C14_N1, VERIF_C14_N3 = off (default) | auto | on; VERIF_C14_STRICT=1 = everything off): the gate applies
	// ScanLock's window and limit / answers notify-only DeleteRange itself only when the start-up probe finds the store does not
	n1Active          bool
	n3Active          bool
	mockScanLockTyped bool
)

func newWorld(c *Case) (*world, error) {
	rpc, cluster, pdc, err := mocktikv.NewTiKVAndPDClient("", nil)
	if err != nil {
		return nil, err
	}
	storeID, _, _ := mocktikv.BootstrapWithSingleStore(cluster)
	w := &world{cluster: cluster, rpc: rpc, storeID: storeID, inj: map[int][]string{}, pdInj: map[int][]string{}, splits: map[string]bool{}, n2: n2Active, n1: n1Active && !c.Raw, faults: c.Faults}
	for _, s := range c.Splits {
		w.split(unhx(s))
	}
	w.events = nil
	for _, i := range c.Inj {
		k := i.Key
		if i.Kind == "merge" {
			k = "m:" + k
		}
		w.inj[i.At] = append(w.inj[i.At], k)
	}
	for _, i := range c.PdInj {
		k := i.Key
		if i.Kind == "merge" {
			k = "m:" + k
		}
		w.pdInj[i.At] = append(w.pdInj[i.At], k)
	}
	// the PD gate sits below the codec PD client (NewKVStore insists on a *CodecPDClient on top): keys are region-encoded here
	st, err := tikv.NewTestTiKVStore(rpc, &pdGate{Client: pdc, w: w},
		func(cl tikv.Client) tikv.Client { return &gate{Client: cl, w: w} }, nil, 0)
	if err != nil {
		return nil, err
	}
	w.store = st
	return w, nil
}

func (w *world) close() {
	if w.store != nil {
		w.store.Close()
	}
}
