//go:build verif

package main

import (
	"bytes"
	"fmt"
	"math/rand"
	"sort"
)

// ---------------------------------------------------------------- generators

type gen struct {
	r      *rand.Rand
	id     int
	tsBase uint64 // offset of the timestamps of the next population (second pass of a two-pass case)
	tsEnd  uint64 // last timestamp used by the last population
}

var alphabet = []byte("abcdefgh")

func (g *gen) key() []byte {
	n := 1 + g.r.Intn(2)
	if g.r.Intn(8) == 0 {
		n = 3
	}
	b := make([]byte, n)
	for i := range b {
		b[i] = alphabet[g.r.Intn(len(alphabet))]
	}
	return b
}
func (g *gen) keys(n int) []string {
	m := map[string]bool{}
	for len(m) < n {
		m[string(g.key())] = true
	}
	l := make([]string, 0, n)
	for k := range m {
		l = append(l, k)
	}
	sort.Strings(l)
	return l
}
func (g *gen) splits(n int, keys []string) []string {
	m := map[string]bool{}
	for i := 0; i < n; i++ {
		var k string
		switch g.r.Intn(3) {
		case 0:
			k = keys[g.r.Intn(len(keys))] // a boundary that is a data key
		case 1:
			k = keys[g.r.Intn(len(keys))] + string([]byte{alphabet[g.r.Intn(len(alphabet))]})
		default:
			k = string(g.key())
		}
		m[k] = true
	}
	l := make([]string, 0, len(m))
	for k := range m {
		l = append(l, hx([]byte(k)))
	}
	sort.Strings(l)
	return l
}
func (g *gen) rangeOf(keys []string) (string, string) {
	switch g.r.Intn(5) {
	case 0, 1:
		return "-", "-"
	case 2:
		return hx([]byte(keys[g.r.Intn(len(keys))])), "-"
	case 3:
		return "-", hx([]byte(keys[g.r.Intn(len(keys))]))
	}
	a, b := g.key(), g.key()
	if bytes.Compare(a, b) > 0 {
		a, b = b, a
	}
	return hx(a), hx(b)
}

// leftover-lock population
func (g *gen) population(c *Case, keys []string, ntxn int) {
	free := map[string]bool{}
	lastCommit := map[string]uint64{}
	for _, k := range keys {
		free[k] = true
	}
	h := func(k string) string { return hx([]byte(k)) }
	ts := uint64(10) + g.tsBase
	var starts []uint64
	for i := 0; i < ntxn; i++ {
		ts += uint64(3 + g.r.Intn(12))
		start := ts
		var cand []string
		for _, k := range keys {
			if free[k] && lastCommit[k] < start {
				cand = append(cand, k)
			}
		}
		if len(cand) == 0 {
			continue
		}
		g.r.Shuffle(len(cand), func(a, b int) { cand[a], cand[b] = cand[b], cand[a] })
		n := 1 + g.r.Intn(4)
		if g.r.Intn(5) == 0 {
			n = 1 + g.r.Intn(len(cand))
		}
		if n > len(cand) {
			n = len(cand)
		}
		tk := cand[:n]
		primary := tk[0]
		starts = append(starts, start)
		val := func(k string) string { return hx([]byte(fmt.Sprintf("v%d%s", start, k))) }
		kind := func() string {
			if g.r.Intn(4) == 0 {
				return "del"
			}
			return "put"
		}
		commit := start + uint64(1+g.r.Intn(9))
		states := []string{"committed", "committed", "rolledback", "pending", "pending-noprimary", "pess-pending", "pess-mixed", "pess-committed", "done", "stale-pess", "stale-pess"}
		if c.Class == "stalepess" {
			states = []string{"stale-pess", "stale-pess", "stale-pess", "committed", "pending", "pess-pending"}
		}
		if c.Mode != "custom" { // the internal handlers of GCResolveLockPhase / GC cannot be guarded against the client's panics
			states = states[:9]
		}
		state := states[g.r.Intn(len(states))]
		switch state {
		case "done": // fully committed history, no leftovers
			for _, k := range tk {
				c.Script = append(c.Script, Op{Op: "prewrite", Key: h(k), Primary: h(primary), Start: start, Kind: kind(), Val: val(k)})
			}
			for _, k := range tk {
				c.Script = append(c.Script, Op{Op: "commit", Key: h(k), Start: start, Commit: commit})
				lastCommit[k] = commit
			}
			ts = commit
		case "committed", "rolledback":
			for _, k := range tk {
				c.Script = append(c.Script, Op{Op: "prewrite", Key: h(k), Primary: h(primary), Start: start, Kind: kind(), Val: val(k)})
			}
			for j, k := range tk {
				finish := j == 0 || g.r.Intn(3) == 0
				if !finish {
					free[k] = false
					continue
				}
				if state == "committed" {
					c.Script = append(c.Script, Op{Op: "commit", Key: h(k), Start: start, Commit: commit})
					lastCommit[k] = commit
				} else {
					c.Script = append(c.Script, Op{Op: "rollback", Key: h(k), Start: start})
				}
			}
			if state == "committed" {
				ts = commit
			}
		case "pending":
			for _, k := range tk {
				c.Script = append(c.Script, Op{Op: "prewrite", Key: h(k), Primary: h(primary), Start: start, Kind: kind(), Val: val(k)})
				free[k] = false
			}
		case "pending-noprimary": // secondaries prewritten, the primary never was (its key may not even be in the store)
			if g.r.Intn(2) == 0 {
				primary = string(g.key()) + "z"
			}
			for j, k := range tk {
				if j == 0 && k == primary {
					continue
				}
				c.Script = append(c.Script, Op{Op: "prewrite", Key: h(k), Primary: h(primary), Start: start, Kind: kind(), Val: val(k)})
				free[k] = false
			}
		case "stale-pess":
			// tidb#42937: leftover pessimistic locks of T whose primary FIELD is stale (an unlocked key, a key locked by another
			// transaction, a key that does not exist -- in this or another region; never a key holding a prewrite lock of T itself),
			// next to prewrite locks of T under its real primary; T committed (primary committed, secondaries left), pending or rolled back
			if len(tk) < 2 {
				cand2 := []string{}
				for _, k := range keys {
					if free[k] && lastCommit[k] < start && k != tk[0] {
						cand2 = append(cand2, k)
					}
				}
				if len(cand2) == 0 {
					starts = starts[:len(starts)-1]
					continue
				}
				tk = append(tk, cand2[g.r.Intn(len(cand2))])
			}
			npw := 1 + g.r.Intn(len(tk)-1) // tk[:npw] prewritten (tk[0] = real primary), tk[npw:] pessimistic leftovers
			inT := map[string]bool{}
			for _, k := range tk {
				inT[k] = true
			}
			stale := func() string {
				switch g.r.Intn(3) {
				case 0: // a key that exists (maybe locked by another transaction, maybe lock-free), possibly in another region
					for try := 0; try < 8; try++ {
						if k := keys[g.r.Intn(len(keys))]; !inT[k] {
							return k
						}
					}
				case 1:
					return string(g.key()) + "y" // no such key
				}
				return string(g.key()) + "0z"
			}
			for _, k := range tk[:npw] {
				c.Script = append(c.Script, Op{Op: "prewrite", Key: h(k), Primary: h(primary), Start: start, Kind: kind(), Val: val(k)})
				free[k] = false
			}
			for _, k := range tk[npw:] {
				p := stale()
				if g.r.Intn(4) == 0 {
					p = primary // some leftovers still name the real primary
				}
				c.Script = append(c.Script, Op{Op: "pesslock", Key: h(k), Primary: h(p), Start: start})
				free[k] = false
			}
			switch g.r.Intn(3) {
			case 0, 1: // the writer died right after the primary commit
				c.Script = append(c.Script, Op{Op: "commit", Key: h(primary), Start: start, Commit: commit})
				lastCommit[primary] = commit
				free[primary] = true
				ts = commit
			case 2:
				if g.r.Intn(2) == 0 {
					c.Script = append(c.Script, Op{Op: "rollback", Key: h(primary), Start: start})
					free[primary] = true
				}
			}
		case "pess-pending":
			for j, k := range tk {
				p := primary
				if j > 0 && g.r.Intn(4) == 0 {
					p = string(g.key()) + "y" // stale primary pointer (tidb#42937); that key holds no lock of this txn
				}
				c.Script = append(c.Script, Op{Op: "pesslock", Key: h(k), Primary: h(p), Start: start})
				free[k] = false
			}
		case "pess-mixed", "pess-committed":
			for _, k := range tk {
				c.Script = append(c.Script, Op{Op: "pesslock", Key: h(k), Primary: h(primary), Start: start})
				free[k] = false
			}
			for j, k := range tk {
				if (state == "pess-committed" && j == 0) || g.r.Intn(2) == 0 {
					c.Script = append(c.Script, Op{Op: "prewrite", Key: h(k), Primary: h(primary), Start: start, Kind: kind(), Val: val(k), Pess: true})
				}
			}
			if state == "pess-committed" {
				c.Script = append(c.Script, Op{Op: "commit", Key: h(primary), Start: start, Commit: commit})
				lastCommit[primary] = commit
				free[primary] = true
				ts = commit
			}
		}
	}
	// safe point: around the start timestamps, so that some transactions lie above it; boundaries
	// (a leftover lock with start == sp must go, one with start == sp+1 must stay) are favoured
	var leftStarts []uint64
	seenStart := map[uint64]bool{}
	lockedNow := map[string]bool{}
	for k, f := range free {
		if !f {
			lockedNow[hx([]byte(k))] = true
		}
	}
	for _, o := range c.Script {
		if (o.Op == "prewrite" || o.Op == "pesslock") && lockedNow[o.Key] && !seenStart[o.Start] {
			seenStart[o.Start] = true
			leftStarts = append(leftStarts, o.Start)
		}
	}
	pick := g.r.Intn(20)
	switch {
	case len(starts) == 0:
		c.SP = ts
	case len(leftStarts) > 0 && pick < 9:
		c.SP = leftStarts[g.r.Intn(len(leftStarts))]
	case len(leftStarts) > 0 && pick < 12:
		c.SP = leftStarts[g.r.Intn(len(leftStarts))] - 1
	case g.r.Intn(3) == 0:
		c.SP = ts + 20
	default:
		c.SP = starts[g.r.Intn(len(starts))] + uint64(g.r.Intn(3)) - 1
	}
	c.ReadTS = []uint64{c.SP, c.SP + 1, c.SP + 7, ts + 30, 1 << 40}
	g.tsEnd = ts + 30
}

// every transaction: primary committed, every secondary left locked, all below the safe point
func (g *gen) commitSecPopulation(c *Case, keys []string) {
	h := func(k string) string { return hx([]byte(k)) }
	perm := g.r.Perm(len(keys))
	ts := uint64(10)
	for i := 0; i < len(perm); {
		n := 2 + g.r.Intn(3)
		if i+n > len(perm) {
			n = len(perm) - i
		}
		if n < 2 {
			break
		}
		ts += uint64(3 + g.r.Intn(5))
		start, commit := ts, ts+uint64(1+g.r.Intn(4))
		primary := keys[perm[i]]
		for j := 0; j < n; j++ {
			k := keys[perm[i+j]]
			kind := "put"
			if g.r.Intn(4) == 0 {
				kind = "del"
			}
			c.Script = append(c.Script, Op{Op: "prewrite", Key: h(k), Primary: h(primary), Start: start, Kind: kind, Val: hx([]byte(fmt.Sprintf("v%d%s", start, k)))})
		}
		c.Script = append(c.Script, Op{Op: "commit", Key: h(primary), Start: start, Commit: commit})
		ts = commit
		i += n
	}
	c.SP = ts + uint64(g.r.Intn(5))
	c.ReadTS = []uint64{c.SP, c.SP + 3, 1 << 40}
}

func (g *gen) gcCase(class string) *Case {
	g.id++
	c := &Case{ID: g.id, Kind: "gc", Class: class, Mode: "custom"}
	nk := 3 + g.r.Intn(12)
	ntxn := 2 + g.r.Intn(8)
	keys := g.keys(nk)
	c.Splits = g.splits(g.r.Intn(6), keys)
	c.Limit = uint32(1 + g.r.Intn(4))
	c.Conc = 1
	c.RPT = 128
	c.S, c.E = "-", "-"
	switch class {
	case "dense": // many locks per region relative to the limit
		keys = g.keys(10 + g.r.Intn(10))
		ntxn = 6 + g.r.Intn(8)
		c.Splits = g.splits(g.r.Intn(3), keys)
		c.Limit = uint32(1 + g.r.Intn(3))
	case "conc":
		c.Conc = 2 + g.r.Intn(7)
		c.RPT = 1 + g.r.Intn(2)
	case "range":
		c.S, c.E = g.rangeOf(keys)
		c.RPT = 1 + g.r.Intn(3)
	case "split":
		n := 1 + g.r.Intn(3)
		for i := 0; i < n; i++ {
			k := keys[g.r.Intn(len(keys))]
			if g.r.Intn(3) == 0 {
				k += "0"
			}
			c.Inj = append(c.Inj, Inject{At: 1 + g.r.Intn(8), Key: hx([]byte(k))})
		}
		if g.r.Intn(3) == 0 {
			c.Conc = 2 + g.r.Intn(3)
			c.RPT = 1
		}
	case "commitsec": // secondaries of committed primaries below the safe point: only the batch resolve can clear them
		keys = g.keys(6 + g.r.Intn(10))
		c.Splits = g.splits(g.r.Intn(4), keys)
		c.Limit = uint32(1 + g.r.Intn(4))
		g.commitSecPopulation(c, keys)
	case "twopass": // two passes on one store: lock-resolver status cache, region cache and the Runner object survive
		c.Limit = uint32(1 + g.r.Intn(4))
		c.RPT = 1 + g.r.Intn(3)
		if g.r.Intn(3) == 0 {
			c.Conc = 2 + g.r.Intn(3)
		}
	case "fault": // an RPC of the first pass is answered with an error / the context is cancelled; a retry pass follows
		keys = g.keys(6 + g.r.Intn(10))
		ntxn = 4 + g.r.Intn(8)
		c.Splits = g.splits(g.r.Intn(5), keys)
		c.Limit = uint32(1 + g.r.Intn(4))
		c.RPT = 1 + g.r.Intn(3)
		if g.r.Intn(3) == 0 {
			c.Conc = 2 + g.r.Intn(4)
		}
		kinds := []string{"scan_keyerr", "resolve_keyerr", "resolve_keyerr", "check_keyerr", "check_keyerr", "pessrb_keyerr", "cancel", "cancel"}
		c.Faults = []Fault{{At: 1 + g.r.Intn(5), Kind: kinds[g.r.Intn(len(kinds))]}}
	case "rawscan": // the store's own ScanLock answers (no N1): only the property oracles apply
		c.Raw = true
		keys = g.keys(6 + g.r.Intn(12))
		ntxn = 4 + g.r.Intn(8)
		c.Splits = g.splits(g.r.Intn(5), keys)
		c.Limit = uint32(1 + g.r.Intn(4))
		if g.r.Intn(3) == 0 {
			c.S, c.E = g.rangeOf(keys)
			c.RPT = 1 + g.r.Intn(2)
		}
		if g.r.Intn(3) == 0 {
			c.Inj = append(c.Inj, Inject{At: 1 + g.r.Intn(6), Key: hx([]byte(keys[g.r.Intn(len(keys))]))})
		}
	case "merge": // a region is MERGED with its right neighbour between ScanLock and ResolveLock (and splits elsewhere)
		keys = g.keys(8 + g.r.Intn(10))
		ntxn = 6 + g.r.Intn(8)
		c.Splits = g.splits(2+g.r.Intn(4), keys)
		c.Limit = uint32(2 + g.r.Intn(8))
		for _, at := range []int{2, 4, 6, 8} {
			if g.r.Intn(3) == 0 {
				continue
			}
			k := keys[g.r.Intn(len(keys))]
			if g.r.Intn(3) == 0 {
				k = "" // the first region
			}
			kind := "merge"
			if g.r.Intn(4) == 0 {
				kind = ""
			}
			c.Inj = append(c.Inj, Inject{At: at - g.r.Intn(2)*(g.r.Intn(2)), Key: hx([]byte(k)), Kind: kind})
		}
		if g.r.Intn(5) == 0 {
			c.Conc = 2 + g.r.Intn(3)
			c.RPT = 1
		}
	case "stalepess": // stale-primary pessimistic leftovers next to prewrite locks of the same transaction
		keys = g.keys(6 + g.r.Intn(10))
		ntxn = 3 + g.r.Intn(6)
		c.Splits = g.splits(g.r.Intn(4), keys)
		c.Limit = uint32(1 + g.r.Intn(5))
		if g.r.Intn(4) == 0 {
			c.Conc = 2 + g.r.Intn(4)
			c.RPT = 1
		}
	case "midsplit": // a split lands inside the scanned batch between ScanLock and ResolveLock
		keys = g.keys(8 + g.r.Intn(10))
		ntxn = 6 + g.r.Intn(8)
		c.Splits = g.splits(g.r.Intn(2), keys)
		c.Limit = uint32(2 + g.r.Intn(4))
		for i, at := range []int{2, 4, 6} {
			if i > 0 && g.r.Intn(2) == 0 {
				continue
			}
			k := keys[g.r.Intn(len(keys))]
			if g.r.Intn(4) == 0 {
				k += "0"
			}
			c.Inj = append(c.Inj, Inject{At: at + g.r.Intn(2)*(i%2), Key: hx([]byte(k))})
		}
	case "phase":
		c.Mode = "phase"
		c.Limit = 0
		c.Conc = 1 + g.r.Intn(8)
	case "full":
		c.Mode = "full"
		c.Limit = 0
		c.Conc = 1 + g.r.Intn(8)
	}
	if class != "commitsec" {
		g.population(c, keys, ntxn)
	}
	if class == "full" && g.r.Intn(2) == 0 && c.SP > 12 {
		c.Barrier = c.SP - uint64(1+g.r.Intn(10))
		c.ReadTS = append(c.ReadTS, c.Barrier, c.Barrier+1)
	}
	if class == "fault" {
		c.SP2 = c.SP // the retry
	}
	if class == "twopass" {
		// a second population (later timestamps, other keys) written after the first pass; the second pass also meets the
		// first population's locks that lay above the first safe point
		in1 := map[string]bool{}
		for _, k := range keys {
			in1[k] = true
		}
		var keys2 []string
		for _, k := range g.keys(6 + g.r.Intn(8)) {
			if !in1[k] {
				keys2 = append(keys2, k)
			}
		}
		if len(keys2) >= 2 {
			c2 := &Case{Class: class, Mode: "custom"}
			g.tsBase = g.tsEnd + 20
			g.population(c2, keys2, 2+g.r.Intn(6))
			g.tsBase = 0
			c.Script2, c.SP2 = c2.Script, c2.SP
			if c.SP2 < c.SP {
				c.SP2 = c.SP
			}
			keys = append(keys, keys2...)
		}
	}
	ks := map[string]bool{}
	for _, k := range keys {
		ks[hx([]byte(k))] = true
	}
	for _, o := range append(append([]Op{}, c.Script...), c.Script2...) {
		ks[o.Key] = true
		if o.Primary != "" {
			ks[o.Primary] = true
		}
	}
	for k := range ks {
		c.Keys = append(c.Keys, k)
	}
	sort.Slice(c.Keys, func(i, j int) bool { return bytes.Compare(unhx(c.Keys[i]), unhx(c.Keys[j])) < 0 })
	return c
}

func (g *gen) partCase(class string) *Case {
	g.id++
	c := &Case{ID: g.id, Kind: "part", Class: class}
	keys := g.keys(4 + g.r.Intn(8))
	c.Splits = g.splits(g.r.Intn(7), keys)
	c.RPT = 1 + g.r.Intn(3)
	c.Conc = 1 + g.r.Intn(8)
	c.S, c.E = g.rangeOf(keys)
	if g.r.Intn(4) == 0 && len(c.Splits) > 0 { // range ends exactly on region boundaries
		c.E = c.Splits[g.r.Intn(len(c.Splits))]
		if g.r.Intn(2) == 0 {
			c.S = c.Splits[0]
		}
	}
	switch class {
	case "fail":
		c.FailAt = 1 + g.r.Intn(3)
	case "pdsplit":
		n := 1 + g.r.Intn(3)
		for i := 0; i < n; i++ {
			c.PdInj = append(c.PdInj, Inject{At: 1 + g.r.Intn(4), Key: hx(g.key())})
		}
	}
	return c
}

func (g *gen) delCase(class string) *Case {
	g.id++
	c := &Case{ID: g.id, Kind: "del", Class: class}
	keys := g.keys(4 + g.r.Intn(12))
	c.Splits = g.splits(g.r.Intn(6), keys)
	c.Conc = 1 + g.r.Intn(8)
	c.S, c.E = g.rangeOf(keys)
	if g.r.Intn(3) == 0 { // bounds that are data keys: start inclusive, end exclusive
		a, b := keys[g.r.Intn(len(keys))], keys[g.r.Intn(len(keys))]
		if a > b {
			a, b = b, a
		}
		c.S, c.E = hx([]byte(a)), hx([]byte(b))
	}
	c.Notify = class == "notify"
	ts := uint64(10)
	for _, k := range keys {
		n := 1 + g.r.Intn(2)
		for i := 0; i < n; i++ {
			ts += 5
			c.Script = append(c.Script, Op{Op: "prewrite", Key: hx([]byte(k)), Primary: hx([]byte(k)), Start: ts, Kind: "put", Val: hx([]byte(fmt.Sprintf("d%d", ts)))})
			if i < n-1 || g.r.Intn(4) > 0 {
				c.Script = append(c.Script, Op{Op: "commit", Key: hx([]byte(k)), Start: ts, Commit: ts + 2})
			}
		}
		c.Keys = append(c.Keys, hx([]byte(k)))
	}
	if class == "split" {
		n := 1 + g.r.Intn(3)
		for i := 0; i < n; i++ {
			c.Inj = append(c.Inj, Inject{At: 1 + g.r.Intn(4), Key: hx(g.key())})
		}
	}
	return c
}

func (g *gen) visCase() *Case {
	g.id++
	c := &Case{ID: g.id, Kind: "vis", Class: "vis"}
	keys := g.keys(2 + g.r.Intn(4))
	c.Splits = g.splits(g.r.Intn(3), keys)
	ts := uint64(10)
	for _, k := range keys {
		ts += 5
		c.Script = append(c.Script, Op{Op: "prewrite", Key: hx([]byte(k)), Primary: hx([]byte(k)), Start: ts, Kind: "put", Val: hx([]byte(fmt.Sprintf("d%d", ts)))})
		c.Script = append(c.Script, Op{Op: "commit", Key: hx([]byte(k)), Start: ts, Commit: ts + 2})
		c.Keys = append(c.Keys, hx([]byte(k)))
	}
	c.Cached = uint64(20 + g.r.Intn(60))
	c.Stale = g.r.Intn(6) == 0
	c.ReadTS = []uint64{c.Cached - 1, c.Cached, c.Cached + 1, uint64(1 + g.r.Intn(int(c.Cached))), c.Cached + uint64(g.r.Intn(100)), 1 << 40}
	if g.r.Intn(4) == 0 {
		c.Cached = 0
		c.ReadTS = []uint64{0, 1, 50}
	}
	return c
}

// safe point learned at a chosen instant of a read (before send / response in flight / after the call), per access
// path and per batch of a multi-batch scan
func (g *gen) vistCase(path string) *Case {
	g.id++
	c := &Case{ID: g.id, Kind: "vist", Class: "vist-" + path, Path: path, S: "-", E: "-"}
	keys := g.keys(4 + g.r.Intn(8))
	c.Splits = g.splits(g.r.Intn(4), keys)
	if path == "batchget" {
		c.Splits = g.splits(2+g.r.Intn(4), keys)
	}
	ts := uint64(10)
	for _, k := range keys {
		ts += 5
		c.Script = append(c.Script, Op{Op: "prewrite", Key: hx([]byte(k)), Primary: hx([]byte(k)), Start: ts, Kind: "put", Val: hx([]byte(fmt.Sprintf("d%d", ts)))})
		c.Script = append(c.Script, Op{Op: "commit", Key: hx([]byte(k)), Start: ts, Commit: ts + 2})
		c.Keys = append(c.Keys, hx([]byte(k)))
	}
	c.TS = ts + 10 + uint64(g.r.Intn(20))
	c.Cached = c.TS - uint64(g.r.Intn(5))
	if path == "get" {
		c.Keys = []string{c.Keys[g.r.Intn(len(c.Keys))]}
	}
	c.BatchSize = 1 + g.r.Intn(3)
	nrpc := 1
	if path == "scan" || path == "rscan" {
		nrpc = len(keys)/c.BatchSize + len(c.Splits) + 1
	} else if path == "batchget" {
		nrpc = len(c.Splits) + 1
	}
	ninj := g.r.Intn(3)
	if g.r.Intn(4) > 0 && ninj == 0 {
		ninj = 1
	}
	for i := 0; i < ninj; i++ {
		when := []string{"before", "after_inner", "after_inner", "after_call"}[g.r.Intn(4)]
		sp := c.TS + uint64(1+g.r.Intn(3))
		switch g.r.Intn(6) {
		case 0:
			sp = c.TS // equal: still visible
		case 1:
			sp = c.TS - 1
		}
		c.VisInj = append(c.VisInj, VisInj{At: 1 + g.r.Intn(nrpc), When: when, SP: sp})
	}
	if path == "batchget" && g.r.Intn(3) == 0 {
		// several regions => several RPCs in flight at once; one raises the safe point, another lowers it again:
		// the verdict depends on which cache write really came last (update + log entry are atomic in the gate)
		whens := []string{"before", "after_inner"}
		a, b := 1+g.r.Intn(nrpc), 1+g.r.Intn(nrpc)
		c.VisInj = []VisInj{{At: a, When: whens[g.r.Intn(2)], SP: c.TS + 3}, {At: b, When: whens[g.r.Intn(2)], SP: c.TS - uint64(g.r.Intn(2))}}
		if g.r.Intn(2) == 0 {
			c.VisInj[0], c.VisInj[1] = c.VisInj[1], c.VisInj[0]
		}
	}
	if g.r.Intn(6) == 0 { // raised before the send, lowered again while the response is in flight
		at := 1 + g.r.Intn(nrpc)
		c.VisInj = []VisInj{{At: at, When: "before", SP: c.TS + 2}, {At: at, When: "after_inner", SP: c.TS}}
	}
	return c
}
