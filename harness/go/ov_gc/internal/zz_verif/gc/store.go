//go:build verif

package main

import (
	"errors"
	"fmt"
	"github.com/pingcap/kvproto/pkg/kvrpcpb"
	tikverr "github.com/tikv/client-go/v2/error"
	"github.com/tikv/client-go/v2/internal/mockstore/mocktikv"
	"strconv"
)

// ---------------------------------------------------------------- population + audit (directly on the mock's MVCC store)

func firstErr(errs []error) error {
	for _, e := range errs {
		if e != nil {
			return e
		}
	}
	return nil
}

func (w *world) runScript(ops []Op) error {
	ms := w.rpc.MvccStore
	for i, o := range ops {
		var err error
		key := unhx(o.Key)
		switch o.Op {
		case "prewrite":
			m := &kvrpcpb.Mutation{Op: kvrpcpb.Op_Put, Key: key, Value: unhx(o.Val)}
			if o.Kind == "del" {
				m = &kvrpcpb.Mutation{Op: kvrpcpb.Op_Del, Key: key}
			}
			req := &kvrpcpb.PrewriteRequest{Mutations: []*kvrpcpb.Mutation{m}, PrimaryLock: unhx(o.Primary), StartVersion: o.Start, LockTtl: 3000}
			if o.Pess {
				req.ForUpdateTs = o.Start
				req.PessimisticActions = []kvrpcpb.PrewriteRequest_PessimisticAction{kvrpcpb.PrewriteRequest_DO_PESSIMISTIC_CHECK}
			}
			err = firstErr(ms.Prewrite(req))
		case "pesslock":
			resp := ms.PessimisticLock(&kvrpcpb.PessimisticLockRequest{
				Mutations:   []*kvrpcpb.Mutation{{Op: kvrpcpb.Op_PessimisticLock, Key: key}},
				PrimaryLock: unhx(o.Primary), StartVersion: o.Start, ForUpdateTs: o.Start, LockTtl: 3000, WaitTimeout: -1})
			if len(resp.Errors) > 0 {
				err = errors.New(resp.Errors[0].String())
			}
		case "commit":
			err = ms.Commit([][]byte{key}, o.Start, o.Commit)
		case "rollback":
			err = ms.Rollback([][]byte{key}, o.Start)
		default:
			err = fmt.Errorf("unknown op %q", o.Op)
		}
		if err != nil {
			return fmt.Errorf("script op %d %+v: %v", i, o, err)
		}
	}
	return nil
}

func opName(o kvrpcpb.Op) string {
	switch o {
	case kvrpcpb.Op_Put:
		return "put"
	case kvrpcpb.Op_Del:
		return "del"
	case kvrpcpb.Op_Rollback:
		return "rollback"
	case kvrpcpb.Op_Lock:
		return "lock"
	case kvrpcpb.Op_PessimisticLock:
		return "pess"
	}
	return "op" + strconv.Itoa(int(o))
}

func (w *world) dump(keys []string) []Rec {
	dbg := w.rpc.MvccStore.(mocktikv.MVCCDebugger)
	recs := make([]Rec, 0, len(keys))
	for _, k := range keys {
		info := dbg.MvccGetByKey(unhx(k))
		r := Rec{Key: k, Writes: []Write{}}
		if info != nil {
			if info.Lock != nil {
				r.Lock = &Lock{Start: info.Lock.StartTs, Primary: hx(info.Lock.Primary), Kind: opName(info.Lock.Type), Val: hx(info.Lock.ShortValue)}
			}
			vals := map[uint64][]byte{}
			for _, v := range info.Values {
				vals[v.StartTs] = v.Value
			}
			for _, wr := range info.Writes {
				val := wr.ShortValue
				if v, ok := vals[wr.StartTs]; ok && wr.Type == kvrpcpb.Op_Put {
					val = v
				}
				r.Writes = append(r.Writes, Write{Start: wr.StartTs, Commit: wr.CommitTs, Kind: opName(wr.Type), Val: hx(val)})
			}
		}
		recs = append(recs, r)
	}
	return recs
}

func errClass(err error) string {
	if err == nil {
		return ""
	}
	var gcErr *tikverr.ErrTxnAbortedByGC
	if errors.As(err, &gcErr) {
		return "gc"
	}
	var pdErr *tikverr.ErrPDServerTimeout
	if errors.As(err, &pdErr) {
		return "pdtimeout"
	}
	if tikverr.IsErrNotFound(err) {
		return "N"
	}
	return "err:" + err.Error()
}
