//go:build verif

package main

import (
	"context"
	"encoding/hex"
	"errors"
	"fmt"
	"github.com/pingcap/kvproto/pkg/kvrpcpb"
	"github.com/tikv/client-go/v2/kv"
	"github.com/tikv/client-go/v2/tikv"
	"github.com/tikv/client-go/v2/txnkv/rangetask"
	"github.com/tikv/pd/client/constants"
	"math"
	"sort"
	"sync"
	"time"
)

// ---------------------------------------------------------------- running one case

func runCase(c *Case) *Result {
	res := &Result{Case: *c}
	w, err := newWorld(c)
	if err != nil {
		res.SetupErr = err.Error()
		return res
	}
	defer w.close()
	res.Layout0 = w.layout()
	if err := w.runScript(c.Script); err != nil {
		res.SetupErr = err.Error()
		return res
	}
	ctx := context.Background()
	switch c.Kind {
	case "gc":
		res.Pre = w.dump(c.Keys)
		probe := tikv.StoreProbe{KVStore: w.store}
		// snapshot reads BEFORE the pass, lock-free keys only (a reader would resolve the locks it meets)
		for _, ts := range c.ReadTS {
			snap := w.store.GetSnapshot(ts)
			for _, r := range res.Pre {
				if r.Lock != nil {
					continue
				}
				e, err := snap.Get(ctx, unhx(r.Key))
				rd := Read{Key: r.Key, TS: ts}
				if err != nil {
					rd.Res = errClass(err)
				} else {
					rd.Res = "V" + hex.EncodeToString(e.Value)
				}
				res.ReadsBefore = append(res.ReadsBefore, rd)
			}
		}
		var subsMu sync.Mutex
		var runner *rangetask.Runner
		curRes, curSP := res, c.SP
		switch c.Mode {
		case "phase":
			err = probe.GCResolveLockPhase(ctx, c.SP, c.Conc)
		case "full":
			if c.Barrier > 0 {
				if _, berr := probe.GetGCStatesClient().SetGCBarrier(ctx, "verif", c.Barrier, time.Hour); berr != nil {
					res.SetupErr = "barrier: " + berr.Error()
					return res
				}
			}
			res.NewSP, err = w.store.GC(ctx, c.SP, tikv.WithConcurrency(c.Conc))
		default:
			resolver := tikv.NewRegionLockResolver("verif-gc", w.store)
			handler := func(ctx context.Context, r kv.KeyRange) (st rangetask.TaskStat, err error) {
				subsMu.Lock()
				curRes.Subs = append(curRes.Subs, [2]string{hx(r.StartKey), hx(r.EndKey)})
				sp := curSP
				subsMu.Unlock()
				w.logEv(Event{T: "begin", S: hx(r.StartKey), E: hx(r.EndKey)})
				// the client's own consistency panics (e.g. saveResolved: "status not equal to the cached one") must surface as a
				// failed pass with the population as failing input, not kill the driver
				defer func() {
					if p := recover(); p != nil {
						err = fmt.Errorf("panic in ResolveLocksForRange: %v", p)
					}
				}()
				st, err = tikv.ResolveLocksForRange(ctx, resolver, sp, r.StartKey, r.EndKey, tikv.NewGcResolveLockMaxBackoffer, c.Limit)
				w.logEv(Event{T: "end", S: hx(r.StartKey), E: hx(r.EndKey)})
				return st, err
			}
			runner = rangetask.NewRangeTaskRunner("verif-gc", w.store, c.Conc, handler)
			if c.RPT > 0 {
				runner.SetRegionsPerTask(c.RPT)
			}
			pctx, cancel := context.WithCancel(ctx)
			w.mu.Lock()
			w.cancel = cancel
			w.mu.Unlock()
			err = runner.RunOnRange(pctx, unhx(c.S), unhx(c.E))
			cancel()
			res.Done = runner.CompletedRegions()
			w.mu.Lock()
			w.faults = nil // the retry pass below runs without faults
			w.mu.Unlock()
		}
		if err != nil {
			res.Err = err.Error()
		}
		res.Events = w.events
		w.mu.Lock()
		w.inj, w.pdInj = map[int][]string{}, map[int][]string{}
		w.mu.Unlock()
		res.Post = w.dump(c.Keys)
		locks, lerr := probe.ScanLocks(ctx, []byte{}, []byte{0xff, 0xff, 0xff}, math.MaxUint64)
		if lerr != nil {
			res.Locks = []string{"err:" + lerr.Error()}
		}
		for _, l := range locks {
			res.Locks = append(res.Locks, fmt.Sprintf("%s@%d", hx(l.Key), l.TxnID))
		}
		// snapshot reads: only where no remaining lock could block (the check filters with the post state too)
		postLock := map[string]uint64{}
		for _, r := range res.Post {
			if r.Lock != nil && r.Lock.Kind != "pess" {
				postLock[r.Key] = r.Lock.Start
			}
		}
		for _, ts := range c.ReadTS {
			snap := w.store.GetSnapshot(ts)
			for _, k := range c.Keys {
				if ls, ok := postLock[k]; ok && ls <= ts {
					continue
				}
				e, err := snap.Get(ctx, unhx(k))
				rd := Read{Key: k, TS: ts}
				if err != nil {
					rd.Res = errClass(err)
				} else {
					rd.Res = "V" + hex.EncodeToString(e.Value)
				}
				res.Reads = append(res.Reads, rd)
			}
		}
		// rollback markers: a late prewrite of a (key, start ts) the pass rolled back must be refused
		if res.Err == "" {
			n := 0
			for i, r0 := range res.Pre {
				l := r0.Lock
				if l == nil || l.Kind == "pess" || l.Start > c.SP || n >= 3 || res.Post[i].Lock != nil {
					continue
				}
				committed := false
				for _, wr := range res.Post[i].Writes {
					if wr.Start == l.Start && wr.Kind != "rollback" {
						committed = true
					}
				}
				if committed {
					continue
				}
				n++
				errs := w.rpc.MvccStore.Prewrite(&kvrpcpb.PrewriteRequest{Mutations: []*kvrpcpb.Mutation{{Op: kvrpcpb.Op_Put, Key: unhx(r0.Key), Value: []byte("late")}},
					PrimaryLock: unhx(l.Primary), StartVersion: l.Start, LockTtl: 3000})
				rd := Read{Key: r0.Key, TS: l.Start, Res: "accepted"}
				if e := firstErr(errs); e != nil {
					rd.Res = "refused"
				}
				res.Late = append(res.Late, rd)
			}
		}
		// second pass on the same store / lock resolver (status cache) / Runner object, after more leftovers were written
		if runner != nil && (len(c.Script2) > 0 || c.SP2 > 0) && (res.Err == "" || len(c.Faults) > 0) {
			res2 := &Result{Case: *c, Layout0: w.layout()}
			res2.Case.ID += 100000
			res2.Case.Class = "pass2"
			res2.Case.SP, res2.Case.SP2 = c.SP2, 0
			res2.Case.Script = append(append([]Op{}, c.Script...), c.Script2...)
			res2.Case.Script2, res2.Case.Inj, res2.Case.PdInj, res2.Case.ReadTS, res2.Case.Faults = nil, nil, nil, nil, nil
			res.next = res2
			if err := w.runScript(c.Script2); err != nil {
				res2.SetupErr = err.Error()
			} else {
				w.mu.Lock()
				w.events = nil
				w.mu.Unlock()
				res2.Pre = w.dump(c.Keys)
				subsMu.Lock()
				curRes, curSP = res2, c.SP2
				subsMu.Unlock()
				if err := runner.RunOnRange(ctx, unhx(c.S), unhx(c.E)); err != nil {
					res2.Err = err.Error()
				}
				res2.Done = runner.CompletedRegions()
				res2.Events = w.events
				res2.Post = w.dump(c.Keys)
				if locks, lerr := probe.ScanLocks(ctx, []byte{}, []byte{0xff, 0xff, 0xff}, math.MaxUint64); lerr == nil {
					for _, l := range locks {
						res2.Locks = append(res2.Locks, fmt.Sprintf("%s@%d", hx(l.Key), l.TxnID))
					}
				}
			}
		}
	case "part":
		var mu sync.Mutex
		calls := 0
		handler := func(ctx context.Context, r kv.KeyRange) (rangetask.TaskStat, error) {
			mu.Lock()
			calls++
			n := calls
			res.Subs = append(res.Subs, [2]string{hx(r.StartKey), hx(r.EndKey)})
			mu.Unlock()
			if c.FailAt > 0 && n == c.FailAt {
				return rangetask.TaskStat{FailedRegions: 1}, errors.New("verif: injected handler failure")
			}
			return rangetask.TaskStat{CompletedRegions: 1}, nil
		}
		runner := rangetask.NewRangeTaskRunner("verif-part", w.store, c.Conc, handler)
		if c.RPT > 0 {
			runner.SetRegionsPerTask(c.RPT)
		}
		err = runner.RunOnRange(ctx, unhx(c.S), unhx(c.E))
		if err != nil {
			res.Err = err.Error()
		}
		res.Done = runner.CompletedRegions()
		res.Events = w.events
	case "del":
		res.Pre = w.dump(c.Keys)
		var task *rangetask.DeleteRangeTask
		if c.Notify {
			task = rangetask.NewNotifyDeleteRangeTask(w.store, unhx(c.S), unhx(c.E), c.Conc)
		} else {
			task = rangetask.NewDeleteRangeTask(w.store, unhx(c.S), unhx(c.E), c.Conc)
		}
		err = task.Execute(ctx)
		if err != nil {
			res.Err = err.Error()
		}
		res.Done = task.CompletedRegions()
		res.Events = w.events
		res.Post = w.dump(c.Keys)
	case "vist":
		probe := tikv.StoreProbe{KVStore: w.store}
		_, _ = w.store.GetPDClient().GetGCInternalController(constants.NullKeyspaceID).AdvanceTxnSafePoint(ctx, c.Cached)
		probe.UpdateTxnSafePointCache(c.Cached, time.Now())
		w.visInj = c.VisInj
		w.visOn = true
		snap := w.store.GetSnapshot(c.TS)
		if c.BatchSize > 0 {
			snap.SetScanBatchSize(c.BatchSize)
		}
		rd := Read{Key: c.Path, TS: c.TS}
		var got []string
		var rerr error
		switch c.Path {
		case "get":
			var e kv.ValueEntry
			e, rerr = snap.Get(ctx, unhx(c.Keys[0]))
			if rerr == nil {
				got = append(got, c.Keys[0]+"="+hex.EncodeToString(e.Value))
			}
		case "batchget":
			bk := make([][]byte, 0, len(c.Keys))
			for _, k := range c.Keys {
				bk = append(bk, unhx(k))
			}
			var m map[string]kv.ValueEntry
			m, rerr = snap.BatchGet(ctx, bk)
			for k, v := range m {
				got = append(got, hx([]byte(k))+"="+hex.EncodeToString(v.Value))
			}
			sort.Strings(got)
		case "scan", "rscan":
			var it interface {
				Valid() bool
				Key() []byte
				Value() []byte
				Next() error
			}
			if c.Path == "scan" {
				it, rerr = snap.Iter(unhx(c.S), unhx(c.E))
			} else {
				it, rerr = snap.IterReverse(unhx(c.E), unhx(c.S))
			}
			for rerr == nil && it.Valid() {
				got = append(got, hx(it.Key())+"="+hex.EncodeToString(it.Value()))
				rerr = it.Next()
			}
		}
		w.visOn = false
		var reget []Read
		if c.Path == "get" {
			// re-reads on the SAME snapshot object (its cache must hold nothing from a refused read; also covered by C05)
			_, e1 := snap.Get(ctx, unhx(c.Keys[0]))
			reget = append(reget, Read{Key: "reget", TS: c.TS, Res: errClass(e1)})
			_, e2 := snap.BatchGet(ctx, [][]byte{unhx(c.Keys[0])})
			reget = append(reget, Read{Key: "rebatchget", TS: c.TS, Res: errClass(e2)})
		}
		for _, vi := range c.VisInj {
			if vi.When == "after_call" {
				probe.UpdateTxnSafePointCache(vi.SP, time.Now())
				w.logEv(Event{T: "update", S: "after_call", SP: vi.SP})
			}
		}
		rd.Res = errClass(rerr)
		if rerr == nil || rd.Res == "N" {
			rd.Res = "ok"
		}
		res.Vis = []Read{rd}
		res.Late = reget
		res.Locks = got // entries returned before the verdict
		res.Events = w.events
		// a later read of the same snapshot sees the after_call update
		if _, lerr := w.store.GetSnapshot(c.TS).Get(ctx, unhx(c.Keys[0])); true {
			res.Vis = append(res.Vis, Read{Key: "later-get", TS: c.TS, Res: errClass(lerr)})
		}
	case "vis":
		probe := tikv.StoreProbe{KVStore: w.store}
		// keep the background poller consistent with what we put into the cache
		_, _ = w.store.GetPDClient().GetGCInternalController(constants.NullKeyspaceID).AdvanceTxnSafePoint(ctx, c.Cached)
		for _, ts := range c.ReadTS {
			now := time.Now()
			if c.Stale {
				now = now.Add(-(tikv.GcStateCacheInterval - 5*time.Second))
			}
			probe.UpdateTxnSafePointCache(c.Cached, now)
			res.Vis = append(res.Vis, Read{Key: "check", TS: ts, Res: errClass(w.store.CheckVisibility(ts))})
			snap := w.store.GetSnapshot(ts)
			for _, k := range c.Keys {
				e, err := snap.Get(ctx, unhx(k))
				rd := Read{Key: "get:" + k, TS: ts}
				if err != nil {
					rd.Res = errClass(err)
				} else {
					rd.Res = "V" + hex.EncodeToString(e.Value)
				}
				res.Vis = append(res.Vis, rd)
			}
			snap = w.store.GetSnapshot(ts)
			bk := make([][]byte, 0, len(c.Keys))
			for _, k := range c.Keys {
				bk = append(bk, unhx(k))
			}
			m, err := snap.BatchGet(ctx, bk)
			rd := Read{Key: "batchget", TS: ts}
			if err != nil {
				rd.Res = errClass(err)
			} else {
				ks := make([]string, 0, len(m))
				for k, v := range m {
					ks = append(ks, hx([]byte(k))+"="+hex.EncodeToString(v.Value))
				}
				sort.Strings(ks)
				rd.Res = "V" + fmt.Sprint(ks)
			}
			res.Vis = append(res.Vis, rd)
			snap = w.store.GetSnapshot(ts)
			rd = Read{Key: "scan", TS: ts}
			it, err := snap.Iter([]byte{}, nil)
			var ks []string
			for err == nil && it.Valid() {
				ks = append(ks, hx(it.Key())+"="+hex.EncodeToString(it.Value()))
				err = it.Next()
			}
			if err != nil {
				rd.Res = errClass(err)
			} else {
				rd.Res = "V" + fmt.Sprint(ks)
			}
			res.Vis = append(res.Vis, rd)
		}
	}
	return res
}
