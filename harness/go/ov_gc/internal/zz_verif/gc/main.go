//go:build verif

// Driver for property C14 (GC lock resolution, range task, delete range, visibility check).
//
// Every case runs on a fresh mocktikv cluster + tikv.NewTestTiKVStore with
//   - a wrapping tikv.Client (gate) that logs ScanLock / ResolveLock / CheckTxnStatus /
//     PessimisticRollback / DeleteRange, splits regions before the i-th ScanLock/ResolveLock/DeleteRange,
//     and NORMALISES the mock to TiKV's contract where the mock deviates:
//     N1 ScanLock: the mock ignores StartKey/EndKey/Limit and returns no lock type; the gate keeps
//     keys >= start, < end, sorted, first `limit`, and fills lock_type from the MVCC debugger.
//     N2 ResolveLock{TxnInfos}: before fix 448a517 the mock's RPC handler ignored TxnInfos (it resolved
//     StartVersion=0, i.e. nothing).  The gate can issue one mock ResolveLock{start_version,
//     commit_version} per TxnInfo with the same region context; this is OFF by default now
//     (env VERIF_C14_N2=off|auto|on), the start-up probe result and the mode are printed in MOCK.
//     N3 DeleteRange{NotifyOnly}: the mock deletes anyway; the gate answers it itself (after an
//     epoch check through a harmless request).
//   - a wrapping pd.Client that logs the layout at every ScanRegions and splits before the i-th one.
//
// Output: one line `RES <json>` per case (spec echoed, so a case is replayable with
// `gc replay <file-with-json-cases>`), `MOCK <json>` for the probe.
package main

import (
	"bufio"
	"bytes"
	"context"
	"encoding/hex"
	"encoding/json"
	"errors"
	"fmt"
	"math"
	"math/rand"
	"os"
	"sort"
	"strconv"
	"sync"
	"time"

	"github.com/pingcap/failpoint"
	"github.com/pingcap/kvproto/pkg/kvrpcpb"
	"github.com/pingcap/log"
	tikverr "github.com/tikv/client-go/v2/error"
	"github.com/tikv/client-go/v2/internal/mockstore/mocktikv"
	"github.com/tikv/client-go/v2/kv"
	"github.com/tikv/client-go/v2/tikv"
	"github.com/tikv/client-go/v2/tikvrpc"
	"github.com/tikv/client-go/v2/txnkv/rangetask"
	"github.com/tikv/client-go/v2/util"
	"github.com/tikv/client-go/v2/util/async"
	"github.com/tikv/client-go/v2/util/codec"
	pd "github.com/tikv/pd/client"
	"github.com/tikv/pd/client/clients/router"
	"github.com/tikv/pd/client/constants"
	"github.com/tikv/pd/client/opt"
	"github.com/tikv/pd/client/pkg/caller"
	"go.uber.org/zap"
	"go.uber.org/zap/zapcore"
)

// ---------------------------------------------------------------- spec

type Op struct {
	Op      string `json:"op"` // prewrite | pesslock | commit | rollback
	Key     string `json:"key"`
	Primary string `json:"primary,omitempty"`
	Start   uint64 `json:"start"`
	Commit  uint64 `json:"commit,omitempty"`
	Kind    string `json:"kind,omitempty"` // put | del
	Val     string `json:"val,omitempty"`
	Pess    bool   `json:"pess,omitempty"` // prewrite of a pessimistic transaction over its own pessimistic lock
}
type Inject struct {
	At   int    `json:"at"`             // 1-based index of the gated RPC (ScanLock / ResolveLock / DeleteRange) or PD ScanRegions call
	Key  string `json:"key"`            // split the region containing this key at this key
	Kind string `json:"kind,omitempty"` // "" = split; "merge" = merge the region containing Key with its right neighbour
}
type Case struct {
	ID        int      `json:"id"`
	Kind      string   `json:"kind"` // gc | part | del | vis
	Class     string   `json:"class,omitempty"`
	Splits    []string `json:"splits"`
	Script    []Op     `json:"script,omitempty"`
	Keys      []string `json:"keys,omitempty"` // audited key universe
	SP        uint64   `json:"sp,omitempty"`
	Mode      string   `json:"mode,omitempty"` // gc: custom | phase | full
	Limit     uint32   `json:"limit,omitempty"`
	Conc      int      `json:"conc,omitempty"`
	RPT       int      `json:"rpt,omitempty"`
	S         string   `json:"s"`
	E         string   `json:"e"`
	Inj       []Inject `json:"inj,omitempty"`
	PdInj     []Inject `json:"pdinj,omitempty"`
	FailAt    int      `json:"failat,omitempty"`     // part: 1-based index (call order) of the handler call that fails; 0 = none
	Notify    bool     `json:"notify,omitempty"`     // del
	ReadTS    []uint64 `json:"readts,omitempty"`     // gc: snapshot reads after the pass; vis: read timestamps
	Cached    uint64   `json:"cached,omitempty"`     // vis: cached txn safe point
	Stale     bool     `json:"stale,omitempty"`      // vis: cache older than the allowed interval
	Path      string   `json:"path,omitempty"`       // vist: get | batchget | scan | rscan
	BatchSize int      `json:"batch_size,omitempty"` // vist: scan batch size
	TS        uint64   `json:"ts,omitempty"`         // vist: read timestamp
	VisInj    []VisInj `json:"visinj,omitempty"`     // vist: safe-point updates at chosen instants
	Script2   []Op     `json:"script2,omitempty"`    // gc custom mode: more leftovers written after the first pass ...
	SP2       uint64   `json:"sp2,omitempty"`        // ... and a SECOND pass with this safe point on the same store, lock resolver and Runner object
	Raw       bool     `json:"raw,omitempty"`        // gc: no ScanLock normalisation for this case (the store's own answer)
	Barrier   uint64   `json:"barrier,omitempty"`    // gc mode full: a GC barrier that blocks the txn safe point at this ts
}

// VisInj: UpdateTxnSafePointCache(SP) at the At-th data RPC (Get/BatchGet/Scan, 1-based, arrival order) of the read:
// When = before (inside SendRequest, before the inner call) | after_inner (inside SendRequest, after the inner call
// returned, i.e. the response exists but the client has not seen it yet) | after_call (At ignored: after the API call returned)
type VisInj struct {
	At   int    `json:"at"`
	When string `json:"when"`
	SP   uint64 `json:"sp"`
}
type Lock struct {
	Start   uint64 `json:"start"`
	Primary string `json:"primary"`
	Kind    string `json:"kind"` // put | del | pess | lock
	Val     string `json:"val"`
}
type Write struct {
	Start  uint64 `json:"start"`
	Commit uint64 `json:"commit"`
	Kind   string `json:"kind"` // put | del | rollback | lock
	Val    string `json:"val"`
}
type Rec struct {
	Key    string  `json:"key"`
	Lock   *Lock   `json:"lock"`
	Writes []Write `json:"writes"`
}
type Event struct {
	T      string      `json:"t"` // scan | scanerr | resolve | resolveerr | check | pessrb | delrange | delerr | split | pdscan | begin | end
	N      int         `json:"n,omitempty"`
	RS     string      `json:"rs,omitempty"` // serving region
	RE     string      `json:"re,omitempty"`
	S      string      `json:"s,omitempty"`
	E      string      `json:"e,omitempty"`
	Limit  uint32      `json:"limit,omitempty"`
	MaxVer uint64      `json:"maxver,omitempty"`
	Keys   []string    `json:"keys,omitempty"`
	Raw    int         `json:"raw,omitempty"` // locks returned by the mock before normalisation
	Infos  [][2]uint64 `json:"infos,omitempty"`
	TS     uint64      `json:"ts,omitempty"`
	Commit uint64      `json:"commit,omitempty"`
	TTL    uint64      `json:"ttl,omitempty"`
	Notify bool        `json:"notify,omitempty"`
	Layout []string    `json:"layout,omitempty"`
	Cmd    string      `json:"cmd,omitempty"`
	Pairs  int         `json:"pairs,omitempty"`
	SP     uint64      `json:"sp,omitempty"`
	Err    string      `json:"err,omitempty"`
}
type Read struct {
	Key string `json:"key"`
	TS  uint64 `json:"ts"`
	Res string `json:"res"` // V<hex> | N (not exist) | gc | pdtimeout | err:<text>
}
type Result struct {
	next        *Result     // second pass of a two-pass case
	Case        Case        `json:"case"`
	SetupErr    string      `json:"setup_err,omitempty"`
	Pre         []Rec       `json:"pre,omitempty"`
	Post        []Rec       `json:"post,omitempty"`
	Err         string      `json:"err"` // error of the operation under test ("" = success)
	Events      []Event     `json:"events,omitempty"`
	Subs        [][2]string `json:"subs,omitempty"` // sub-ranges received by the handler, call order
	Locks       []string    `json:"locks_after,omitempty"`
	Reads       []Read      `json:"reads,omitempty"`
	Late        []Read      `json:"late,omitempty"` // late prewrite probes of rolled-back (key, start): refused | accepted
	ReadsBefore []Read      `json:"reads_before,omitempty"`
	Vis         []Read      `json:"vis,omitempty"`
	Layout0     []string    `json:"layout0"`
	NewSP       uint64      `json:"new_sp,omitempty"`
	Done        int         `json:"completed_regions,omitempty"`
}

func hx(b []byte) string {
	if len(b) == 0 {
		return "-"
	}
	return hex.EncodeToString(b)
}
func unhx(s string) []byte {
	if s == "-" || s == "" {
		return []byte{}
	}
	b, err := hex.DecodeString(s)
	if err != nil {
		panic(err)
	}
	return b
}

// ---------------------------------------------------------------- world

type world struct {
	cluster *mocktikv.Cluster
	rpc     *mocktikv.RPCClient
	store   *tikv.KVStore
	storeID uint64

	mu     sync.Mutex
	events []Event
	rpcN   int
	pdN    int
	inj    map[int][]string
	pdInj  map[int][]string
	splits map[string]bool
	total  int
	visOn  bool
	visN   int
	visInj []VisInj
	n1     bool // normalisation N1 active for this case (ScanLock window + limit applied by the gate)
	n2     bool // normalisation N2 active: split ResolveLock{TxnInfos} into single-transaction resolves
	raw    bool // no normalisation at all (probe)
}

func (w *world) logEv(e Event) {
	w.mu.Lock()
	w.events = append(w.events, e)
	w.mu.Unlock()
}

func decKey(enc []byte) []byte {
	if len(enc) == 0 {
		return []byte{}
	}
	_, k, err := codec.DecodeBytes(enc, nil)
	if err != nil {
		panic(err)
	}
	return k
}

// split the region containing key at key (no-op on an existing boundary / the empty key); caller holds no lock
func (w *world) split(key []byte) {
	if len(key) == 0 {
		return
	}
	w.mu.Lock()
	defer w.mu.Unlock()
	if w.splits[string(key)] {
		return
	}
	r, _, _, _ := w.cluster.GetRegionByKey(mocktikv.NewMvccKey(key))
	if r == nil || bytes.Equal(r.StartKey, mocktikv.NewMvccKey(key)) {
		return
	}
	ids := w.cluster.AllocIDs(2)
	w.cluster.Split(r.Id, ids[0], key, []uint64{ids[1]}, ids[1])
	w.splits[string(key)] = true
	w.events = append(w.events, Event{T: "split", S: hx(key)})
}

func (w *world) layout() []string {
	w.mu.Lock()
	defer w.mu.Unlock()
	return w.layoutLocked()
}
func (w *world) layoutLocked() []string {
	l := make([]string, 0, len(w.splits))
	for k := range w.splits {
		l = append(l, k)
	}
	sort.Strings(l)
	r := make([]string, len(l))
	for i, k := range l {
		r[i] = hx([]byte(k))
	}
	return r
}

func (w *world) regionRange(id uint64) (string, string) {
	r, _ := w.cluster.GetRegion(id)
	if r == nil {
		return "?", "?"
	}
	return hx(decKey(r.StartKey)), hx(decKey(r.EndKey))
}

func (w *world) nextRPC() int {
	w.mu.Lock()
	w.rpcN++
	n := w.rpcN
	ks := w.inj[n]
	w.mu.Unlock()
	for _, k := range ks {
		w.change(k)
	}
	return n
}

// change applies one injected layout change: "<hexkey>" = split, "m:<hexkey>" = merge with the right neighbour
func (w *world) change(k string) {
	if len(k) > 2 && k[:2] == "m:" {
		w.merge(unhx(k[2:]))
		return
	}
	w.split(unhx(k))
}

// merge the region containing key with its right neighbour (no-op for the last region)
func (w *world) merge(key []byte) {
	w.mu.Lock()
	defer w.mu.Unlock()
	r1, _, _, _ := w.cluster.GetRegionByKey(mocktikv.NewMvccKey(key))
	if r1 == nil || len(r1.EndKey) == 0 {
		return
	}
	r2, _, _, _ := w.cluster.GetRegionByKey(r1.EndKey)
	if r2 == nil || r2.Id == r1.Id {
		return
	}
	boundary := decKey(r1.EndKey)
	w.cluster.Merge(r1.Id, r2.Id)
	delete(w.splits, string(boundary))
	w.events = append(w.events, Event{T: "merge", S: hx(boundary)})
}

type gate struct {
	tikv.Client
	w *world
}

func regionErrOf(resp *tikvrpc.Response) string {
	if resp == nil {
		return ""
	}
	re, err := resp.GetRegionError()
	if err != nil {
		return "err:" + err.Error()
	}
	if re != nil {
		return "region"
	}
	return ""
}

func (g *gate) SendRequestAsync(ctx context.Context, addr string, req *tikvrpc.Request, cb async.Callback[*tikvrpc.Response]) {
	go func() { cb.Schedule(g.SendRequest(ctx, addr, req, 0)) }()
}

func (g *gate) SendRequest(ctx context.Context, addr string, req *tikvrpc.Request, timeout time.Duration) (*tikvrpc.Response, error) {
	w := g.w
	if w.raw {
		return g.Client.SendRequest(ctx, addr, req, timeout)
	}
	// livelock guard: no case needs more than a few hundred RPCs
	w.mu.Lock()
	w.total++
	over := w.total > rpcBudget
	w.mu.Unlock()
	if over {
		return nil, errors.New("verif: RPC budget exceeded (livelock?)")
	}
	if w.visOn && (req.Type == tikvrpc.CmdGet || req.Type == tikvrpc.CmdBatchGet || req.Type == tikvrpc.CmdScan) {
		w.mu.Lock()
		w.visN++
		n := w.visN
		w.mu.Unlock()
		probe := tikv.StoreProbe{KVStore: w.store}
		apply := func(when string) {
			for _, vi := range w.visInj {
				if vi.At == n && vi.When == when {
					// the cache write and its log entry are one atomic step: several BatchGet RPCs are in flight at
					// once, and the oracle replays the updates in log order
					w.mu.Lock()
					probe.UpdateTxnSafePointCache(vi.SP, time.Now())
					w.events = append(w.events, Event{T: "update", N: n, S: when, SP: vi.SP})
					w.mu.Unlock()
				}
			}
		}
		apply("before")
		w.logEv(Event{T: "send", N: n, Cmd: req.Type.String()})
		resp, err := g.Client.SendRequest(ctx, addr, req, timeout)
		apply("after_inner")
		ev := Event{T: "response", N: n, Cmd: req.Type.String(), Err: regionErrOf(resp)}
		if err != nil {
			ev.Err = "err:" + err.Error()
		} else if ev.Err == "" {
			switch r := resp.Resp.(type) {
			case *kvrpcpb.ScanResponse:
				ev.Pairs = len(r.Pairs)
			case *kvrpcpb.BatchGetResponse:
				ev.Pairs = len(r.Pairs)
			case *kvrpcpb.GetResponse:
				if !r.NotFound {
					ev.Pairs = 1
				}
			}
		}
		w.logEv(ev)
		return resp, err
	}
	switch req.Type {
	case tikvrpc.CmdScanLock:
		n := w.nextRPC()
		r := req.ScanLock()
		resp, err := g.Client.SendRequest(ctx, addr, req, timeout)
		if err != nil {
			return resp, err
		}
		if re := regionErrOf(resp); re != "" {
			w.logEv(Event{T: "scanerr", N: n, S: hx(r.StartKey), E: hx(r.EndKey), Err: re})
			return resp, nil
		}
		sr := resp.Resp.(*kvrpcpb.ScanLockResponse)
		if sr.Error != nil {
			return resp, nil
		}
		raw := len(sr.Locks)
		// N1 (switchable): TiKV's contract
		locks := sr.Locks
		if w.n1 {
			locks = nil
			for _, l := range sr.Locks {
				if bytes.Compare(l.Key, r.StartKey) < 0 {
					continue
				}
				if len(r.EndKey) > 0 && bytes.Compare(l.Key, r.EndKey) >= 0 {
					continue
				}
				locks = append(locks, l)
			}
			sort.Slice(locks, func(i, j int) bool { return bytes.Compare(locks[i].Key, locks[j].Key) < 0 })
			if r.Limit > 0 && len(locks) > int(r.Limit) {
				locks = locks[:r.Limit]
			}
		}
		dbg := w.rpc.MvccStore.(mocktikv.MVCCDebugger)
		keys := make([]string, 0, len(locks))
		for _, l := range locks {
			if n1tActive {
				if info := dbg.MvccGetByKey(l.Key); info != nil && info.Lock != nil && info.Lock.StartTs == l.LockVersion {
					l.LockType = info.Lock.Type
				}
			}
			keys = append(keys, hx(l.Key))
		}
		sr.Locks = locks
		rs, re := w.regionRange(req.Context.RegionId)
		w.logEv(Event{T: "scan", N: n, RS: rs, RE: re, S: hx(r.StartKey), E: hx(r.EndKey), Limit: r.Limit, MaxVer: r.MaxVersion, Keys: keys, Raw: raw})
		return resp, nil
	case tikvrpc.CmdResolveLock:
		n := w.nextRPC()
		r := req.ResolveLock()
		infos := make([][2]uint64, 0, len(r.TxnInfos))
		for _, ti := range r.TxnInfos {
			infos = append(infos, [2]uint64{ti.Txn, ti.Status})
		}
		sort.Slice(infos, func(i, j int) bool { return infos[i][0] < infos[j][0] })
		var resp *tikvrpc.Response
		var err error
		if len(r.TxnInfos) > 0 && w.n2 {
			// N2: one single-transaction resolve per TxnInfo
			for _, ti := range infos {
				sub := tikvrpc.NewRequest(tikvrpc.CmdResolveLock, &kvrpcpb.ResolveLockRequest{StartVersion: ti[0], CommitVersion: ti[1]}, req.Context)
				resp, err = g.Client.SendRequest(ctx, addr, sub, timeout)
				if err != nil || regionErrOf(resp) != "" {
					break
				}
				if rr := resp.Resp.(*kvrpcpb.ResolveLockResponse); rr.Error != nil {
					break
				}
			}
		} else {
			resp, err = g.Client.SendRequest(ctx, addr, req, timeout)
		}
		if err != nil {
			return resp, err
		}
		if re := regionErrOf(resp); re != "" {
			w.logEv(Event{T: "resolveerr", N: n, Infos: infos, Err: re})
			return resp, nil
		}
		rs, re := w.regionRange(req.Context.RegionId)
		ev := Event{T: "resolve", N: n, RS: rs, RE: re, Infos: infos, TS: r.StartVersion, Commit: r.CommitVersion}
		for _, k := range r.Keys {
			ev.Keys = append(ev.Keys, hx(k))
		}
		w.logEv(ev)
		return resp, nil
	case tikvrpc.CmdCheckTxnStatus:
		r := req.CheckTxnStatus()
		resp, err := g.Client.SendRequest(ctx, addr, req, timeout)
		if err == nil && regionErrOf(resp) == "" {
			cr := resp.Resp.(*kvrpcpb.CheckTxnStatusResponse)
			ev := Event{T: "check", S: hx(r.PrimaryKey), TS: r.LockTs, Commit: cr.CommitVersion, TTL: cr.LockTtl}
			if cr.Error != nil {
				ev.Err = cr.Error.String()
			}
			if r.CurrentTs != math.MaxUint64 {
				ev.Err += " current_ts!=max"
			}
			w.logEv(ev)
		}
		return resp, err
	case tikvrpc.CmdPessimisticRollback:
		r := req.PessimisticRollback()
		resp, err := g.Client.SendRequest(ctx, addr, req, timeout)
		if err == nil && regionErrOf(resp) == "" {
			ev := Event{T: "pessrb", TS: r.StartVersion}
			for _, k := range r.Keys {
				ev.Keys = append(ev.Keys, hx(k))
			}
			w.logEv(ev)
		}
		return resp, err
	case tikvrpc.CmdDeleteRange:
		n := w.nextRPC()
		r := req.DeleteRange()
		var resp *tikvrpc.Response
		var err error
		if r.NotifyOnly && n3Active {
			// N3 (switchable): epoch check through a harmless request, then answer ourselves
			probe := tikvrpc.NewRequest(tikvrpc.CmdScanLock, &kvrpcpb.ScanLockRequest{MaxVersion: 0}, req.Context)
			presp, perr := g.Client.SendRequest(ctx, addr, probe, timeout)
			if perr != nil {
				return presp, perr
			}
			if regionErrOf(presp) != "" {
				pr := presp.Resp.(*kvrpcpb.ScanLockResponse)
				resp = &tikvrpc.Response{Resp: &kvrpcpb.DeleteRangeResponse{RegionError: pr.RegionError}}
			} else {
				resp = &tikvrpc.Response{Resp: &kvrpcpb.DeleteRangeResponse{}}
			}
		} else {
			resp, err = g.Client.SendRequest(ctx, addr, req, timeout)
		}
		if err != nil {
			return resp, err
		}
		if re := regionErrOf(resp); re != "" {
			w.logEv(Event{T: "delerr", N: n, S: hx(r.StartKey), E: hx(r.EndKey), Err: re})
			return resp, nil
		}
		rs, re := w.regionRange(req.Context.RegionId)
		w.logEv(Event{T: "delrange", N: n, RS: rs, RE: re, S: hx(r.StartKey), E: hx(r.EndKey), Notify: r.NotifyOnly,
			Err: resp.Resp.(*kvrpcpb.DeleteRangeResponse).Error})
		return resp, nil
	}
	return g.Client.SendRequest(ctx, addr, req, timeout)
}

type pdGate struct {
	pd.Client
	w *world
}

func (p *pdGate) ScanRegions(ctx context.Context, startKey, endKey []byte, limit int, opts ...opt.GetRegionOption) ([]*router.Region, error) {
	w := p.w
	w.mu.Lock()
	w.pdN++
	n := w.pdN
	ks := w.pdInj[n]
	w.mu.Unlock()
	for _, k := range ks {
		w.change(k)
	}
	w.mu.Lock()
	w.events = append(w.events, Event{T: "pdscan", N: n, S: hx(decKey(startKey)), Limit: uint32(limit), Layout: w.layoutLocked()})
	w.mu.Unlock()
	return p.Client.ScanRegions(ctx, startKey, endKey, limit, opts...)
}

// the codec client re-wraps the result of WithCallerComponent: stay in the chain
func (p *pdGate) WithCallerComponent(caller.Component) pd.Client { return p }

const rpcBudget = 4000

// N2 mode (env VERIF_C14_N2): off (default) = never; auto = only when the probe finds that the mock ignores
// TxnInfos; on = always.  Since the mock honours TxnInfos (fix 448a517) the default is off, so that a mock that
// regresses is reported by the lock audit instead of being papered over.
var (
	mockHonoursTxnInfos bool
	n2Active            bool
	// N1T (env VERIF_C14_N1T = off (default) | auto | on): fill ScanLock's lock_type from the MVCC debugger. Until fix F41
	// mocktikv's ScanLock returned no lock_type, so BatchResolveLocks could not recognise pessimistic locks; filling it in
	// the harness masked that (a stale-primary pessimistic lock then rolls back a committed transaction's secondary).
	n1tActive bool
	// N1 / N3 (env VERIF_C14_N1, VERIF_C14_N3 = off (default) | auto | on; VERIF_C14_STRICT=1 = everything off): the gate applies
	// ScanLock's window and limit / answers notify-only DeleteRange itself only when the start-up probe finds the store does not
	n1Active          bool
	n3Active          bool
	mockScanLockTyped bool
)

func newWorld(c *Case) (*world, error) {
	rpc, cluster, pdc, err := mocktikv.NewTiKVAndPDClient("", nil)
	if err != nil {
		return nil, err
	}
	storeID, _, _ := mocktikv.BootstrapWithSingleStore(cluster)
	w := &world{cluster: cluster, rpc: rpc, storeID: storeID, inj: map[int][]string{}, pdInj: map[int][]string{}, splits: map[string]bool{}, n2: n2Active, n1: n1Active && !c.Raw}
	for _, s := range c.Splits {
		w.split(unhx(s))
	}
	w.events = nil
	for _, i := range c.Inj {
		k := i.Key
		if i.Kind == "merge" {
			k = "m:" + k
		}
		w.inj[i.At] = append(w.inj[i.At], k)
	}
	for _, i := range c.PdInj {
		k := i.Key
		if i.Kind == "merge" {
			k = "m:" + k
		}
		w.pdInj[i.At] = append(w.pdInj[i.At], k)
	}
	// the PD gate sits below the codec PD client (NewKVStore insists on a *CodecPDClient on top): keys are region-encoded here
	st, err := tikv.NewTestTiKVStore(rpc, &pdGate{Client: pdc, w: w},
		func(cl tikv.Client) tikv.Client { return &gate{Client: cl, w: w} }, nil, 0)
	if err != nil {
		return nil, err
	}
	w.store = st
	return w, nil
}

func (w *world) close() {
	if w.store != nil {
		w.store.Close()
	}
}

// ---------------------------------------------------------------- population + audit (directly on the mock's MVCC store)

func firstErr(errs []error) error {
	for _, e := range errs {
		if e != nil {
			return e
		}
	}
	return nil
}

func (w *world) runScript(ops []Op) error {
	ms := w.rpc.MvccStore
	for i, o := range ops {
		var err error
		key := unhx(o.Key)
		switch o.Op {
		case "prewrite":
			m := &kvrpcpb.Mutation{Op: kvrpcpb.Op_Put, Key: key, Value: unhx(o.Val)}
			if o.Kind == "del" {
				m = &kvrpcpb.Mutation{Op: kvrpcpb.Op_Del, Key: key}
			}
			req := &kvrpcpb.PrewriteRequest{Mutations: []*kvrpcpb.Mutation{m}, PrimaryLock: unhx(o.Primary), StartVersion: o.Start, LockTtl: 3000}
			if o.Pess {
				req.ForUpdateTs = o.Start
				req.PessimisticActions = []kvrpcpb.PrewriteRequest_PessimisticAction{kvrpcpb.PrewriteRequest_DO_PESSIMISTIC_CHECK}
			}
			err = firstErr(ms.Prewrite(req))
		case "pesslock":
			resp := ms.PessimisticLock(&kvrpcpb.PessimisticLockRequest{
				Mutations:   []*kvrpcpb.Mutation{{Op: kvrpcpb.Op_PessimisticLock, Key: key}},
				PrimaryLock: unhx(o.Primary), StartVersion: o.Start, ForUpdateTs: o.Start, LockTtl: 3000, WaitTimeout: -1})
			if len(resp.Errors) > 0 {
				err = errors.New(resp.Errors[0].String())
			}
		case "commit":
			err = ms.Commit([][]byte{key}, o.Start, o.Commit)
		case "rollback":
			err = ms.Rollback([][]byte{key}, o.Start)
		default:
			err = fmt.Errorf("unknown op %q", o.Op)
		}
		if err != nil {
			return fmt.Errorf("script op %d %+v: %v", i, o, err)
		}
	}
	return nil
}

func opName(o kvrpcpb.Op) string {
	switch o {
	case kvrpcpb.Op_Put:
		return "put"
	case kvrpcpb.Op_Del:
		return "del"
	case kvrpcpb.Op_Rollback:
		return "rollback"
	case kvrpcpb.Op_Lock:
		return "lock"
	case kvrpcpb.Op_PessimisticLock:
		return "pess"
	}
	return "op" + strconv.Itoa(int(o))
}

func (w *world) dump(keys []string) []Rec {
	dbg := w.rpc.MvccStore.(mocktikv.MVCCDebugger)
	recs := make([]Rec, 0, len(keys))
	for _, k := range keys {
		info := dbg.MvccGetByKey(unhx(k))
		r := Rec{Key: k, Writes: []Write{}}
		if info != nil {
			if info.Lock != nil {
				r.Lock = &Lock{Start: info.Lock.StartTs, Primary: hx(info.Lock.Primary), Kind: opName(info.Lock.Type), Val: hx(info.Lock.ShortValue)}
			}
			vals := map[uint64][]byte{}
			for _, v := range info.Values {
				vals[v.StartTs] = v.Value
			}
			for _, wr := range info.Writes {
				val := wr.ShortValue
				if v, ok := vals[wr.StartTs]; ok && wr.Type == kvrpcpb.Op_Put {
					val = v
				}
				r.Writes = append(r.Writes, Write{Start: wr.StartTs, Commit: wr.CommitTs, Kind: opName(wr.Type), Val: hx(val)})
			}
		}
		recs = append(recs, r)
	}
	return recs
}

func errClass(err error) string {
	if err == nil {
		return ""
	}
	var gcErr *tikverr.ErrTxnAbortedByGC
	if errors.As(err, &gcErr) {
		return "gc"
	}
	var pdErr *tikverr.ErrPDServerTimeout
	if errors.As(err, &pdErr) {
		return "pdtimeout"
	}
	if tikverr.IsErrNotFound(err) {
		return "N"
	}
	return "err:" + err.Error()
}

// ---------------------------------------------------------------- running one case

func runCase(c *Case) *Result {
	res := &Result{Case: *c}
	w, err := newWorld(c)
	if err != nil {
		res.SetupErr = err.Error()
		return res
	}
	defer w.close()
	res.Layout0 = w.layout()
	if err := w.runScript(c.Script); err != nil {
		res.SetupErr = err.Error()
		return res
	}
	ctx := context.Background()
	switch c.Kind {
	case "gc":
		res.Pre = w.dump(c.Keys)
		probe := tikv.StoreProbe{KVStore: w.store}
		// snapshot reads BEFORE the pass, lock-free keys only (a reader would resolve the locks it meets)
		for _, ts := range c.ReadTS {
			snap := w.store.GetSnapshot(ts)
			for _, r := range res.Pre {
				if r.Lock != nil {
					continue
				}
				e, err := snap.Get(ctx, unhx(r.Key))
				rd := Read{Key: r.Key, TS: ts}
				if err != nil {
					rd.Res = errClass(err)
				} else {
					rd.Res = "V" + hex.EncodeToString(e.Value)
				}
				res.ReadsBefore = append(res.ReadsBefore, rd)
			}
		}
		var subsMu sync.Mutex
		var runner *rangetask.Runner
		curRes, curSP := res, c.SP
		switch c.Mode {
		case "phase":
			err = probe.GCResolveLockPhase(ctx, c.SP, c.Conc)
		case "full":
			if c.Barrier > 0 {
				if _, berr := probe.GetGCStatesClient().SetGCBarrier(ctx, "verif", c.Barrier, time.Hour); berr != nil {
					res.SetupErr = "barrier: " + berr.Error()
					return res
				}
			}
			res.NewSP, err = w.store.GC(ctx, c.SP, tikv.WithConcurrency(c.Conc))
		default:
			resolver := tikv.NewRegionLockResolver("verif-gc", w.store)
			handler := func(ctx context.Context, r kv.KeyRange) (st rangetask.TaskStat, err error) {
				subsMu.Lock()
				curRes.Subs = append(curRes.Subs, [2]string{hx(r.StartKey), hx(r.EndKey)})
				sp := curSP
				subsMu.Unlock()
				w.logEv(Event{T: "begin", S: hx(r.StartKey), E: hx(r.EndKey)})
				// the client's own consistency panics (e.g. saveResolved: "status not equal to the cached one") must surface as a
				// failed pass with the population as failing input, not kill the driver
				defer func() {
					if p := recover(); p != nil {
						err = fmt.Errorf("panic in ResolveLocksForRange: %v", p)
					}
				}()
				st, err = tikv.ResolveLocksForRange(ctx, resolver, sp, r.StartKey, r.EndKey, tikv.NewGcResolveLockMaxBackoffer, c.Limit)
				w.logEv(Event{T: "end", S: hx(r.StartKey), E: hx(r.EndKey)})
				return st, err
			}
			runner = rangetask.NewRangeTaskRunner("verif-gc", w.store, c.Conc, handler)
			if c.RPT > 0 {
				runner.SetRegionsPerTask(c.RPT)
			}
			err = runner.RunOnRange(ctx, unhx(c.S), unhx(c.E))
			res.Done = runner.CompletedRegions()
		}
		if err != nil {
			res.Err = err.Error()
		}
		res.Events = w.events
		w.mu.Lock()
		w.inj, w.pdInj = map[int][]string{}, map[int][]string{}
		w.mu.Unlock()
		res.Post = w.dump(c.Keys)
		locks, lerr := probe.ScanLocks(ctx, []byte{}, []byte{0xff, 0xff, 0xff}, math.MaxUint64)
		if lerr != nil {
			res.Locks = []string{"err:" + lerr.Error()}
		}
		for _, l := range locks {
			res.Locks = append(res.Locks, fmt.Sprintf("%s@%d", hx(l.Key), l.TxnID))
		}
		// snapshot reads: only where no remaining lock could block (the check filters with the post state too)
		postLock := map[string]uint64{}
		for _, r := range res.Post {
			if r.Lock != nil && r.Lock.Kind != "pess" {
				postLock[r.Key] = r.Lock.Start
			}
		}
		for _, ts := range c.ReadTS {
			snap := w.store.GetSnapshot(ts)
			for _, k := range c.Keys {
				if ls, ok := postLock[k]; ok && ls <= ts {
					continue
				}
				e, err := snap.Get(ctx, unhx(k))
				rd := Read{Key: k, TS: ts}
				if err != nil {
					rd.Res = errClass(err)
				} else {
					rd.Res = "V" + hex.EncodeToString(e.Value)
				}
				res.Reads = append(res.Reads, rd)
			}
		}
		// rollback markers: a late prewrite of a (key, start ts) the pass rolled back must be refused
		if res.Err == "" {
			n := 0
			for i, r0 := range res.Pre {
				l := r0.Lock
				if l == nil || l.Kind == "pess" || l.Start > c.SP || n >= 3 || res.Post[i].Lock != nil {
					continue
				}
				committed := false
				for _, wr := range res.Post[i].Writes {
					if wr.Start == l.Start && wr.Kind != "rollback" {
						committed = true
					}
				}
				if committed {
					continue
				}
				n++
				errs := w.rpc.MvccStore.Prewrite(&kvrpcpb.PrewriteRequest{Mutations: []*kvrpcpb.Mutation{{Op: kvrpcpb.Op_Put, Key: unhx(r0.Key), Value: []byte("late")}},
					PrimaryLock: unhx(l.Primary), StartVersion: l.Start, LockTtl: 3000})
				rd := Read{Key: r0.Key, TS: l.Start, Res: "accepted"}
				if e := firstErr(errs); e != nil {
					rd.Res = "refused"
				}
				res.Late = append(res.Late, rd)
			}
		}
		// second pass on the same store / lock resolver (status cache) / Runner object, after more leftovers were written
		if runner != nil && len(c.Script2) > 0 && res.Err == "" {
			res2 := &Result{Case: *c, Layout0: w.layout()}
			res2.Case.ID += 100000
			res2.Case.Class = "pass2"
			res2.Case.SP, res2.Case.SP2 = c.SP2, 0
			res2.Case.Script = append(append([]Op{}, c.Script...), c.Script2...)
			res2.Case.Script2, res2.Case.Inj, res2.Case.PdInj, res2.Case.ReadTS = nil, nil, nil, nil
			res.next = res2
			if err := w.runScript(c.Script2); err != nil {
				res2.SetupErr = err.Error()
			} else {
				w.mu.Lock()
				w.events = nil
				w.mu.Unlock()
				res2.Pre = w.dump(c.Keys)
				subsMu.Lock()
				curRes, curSP = res2, c.SP2
				subsMu.Unlock()
				if err := runner.RunOnRange(ctx, unhx(c.S), unhx(c.E)); err != nil {
					res2.Err = err.Error()
				}
				res2.Done = runner.CompletedRegions()
				res2.Events = w.events
				res2.Post = w.dump(c.Keys)
				if locks, lerr := probe.ScanLocks(ctx, []byte{}, []byte{0xff, 0xff, 0xff}, math.MaxUint64); lerr == nil {
					for _, l := range locks {
						res2.Locks = append(res2.Locks, fmt.Sprintf("%s@%d", hx(l.Key), l.TxnID))
					}
				}
			}
		}
	case "part":
		var mu sync.Mutex
		calls := 0
		handler := func(ctx context.Context, r kv.KeyRange) (rangetask.TaskStat, error) {
			mu.Lock()
			calls++
			n := calls
			res.Subs = append(res.Subs, [2]string{hx(r.StartKey), hx(r.EndKey)})
			mu.Unlock()
			if c.FailAt > 0 && n == c.FailAt {
				return rangetask.TaskStat{FailedRegions: 1}, errors.New("verif: injected handler failure")
			}
			return rangetask.TaskStat{CompletedRegions: 1}, nil
		}
		runner := rangetask.NewRangeTaskRunner("verif-part", w.store, c.Conc, handler)
		if c.RPT > 0 {
			runner.SetRegionsPerTask(c.RPT)
		}
		err = runner.RunOnRange(ctx, unhx(c.S), unhx(c.E))
		if err != nil {
			res.Err = err.Error()
		}
		res.Done = runner.CompletedRegions()
		res.Events = w.events
	case "del":
		res.Pre = w.dump(c.Keys)
		var task *rangetask.DeleteRangeTask
		if c.Notify {
			task = rangetask.NewNotifyDeleteRangeTask(w.store, unhx(c.S), unhx(c.E), c.Conc)
		} else {
			task = rangetask.NewDeleteRangeTask(w.store, unhx(c.S), unhx(c.E), c.Conc)
		}
		err = task.Execute(ctx)
		if err != nil {
			res.Err = err.Error()
		}
		res.Done = task.CompletedRegions()
		res.Events = w.events
		res.Post = w.dump(c.Keys)
	case "vist":
		probe := tikv.StoreProbe{KVStore: w.store}
		_, _ = w.store.GetPDClient().GetGCInternalController(constants.NullKeyspaceID).AdvanceTxnSafePoint(ctx, c.Cached)
		probe.UpdateTxnSafePointCache(c.Cached, time.Now())
		w.visInj = c.VisInj
		w.visOn = true
		snap := w.store.GetSnapshot(c.TS)
		if c.BatchSize > 0 {
			snap.SetScanBatchSize(c.BatchSize)
		}
		rd := Read{Key: c.Path, TS: c.TS}
		var got []string
		var rerr error
		switch c.Path {
		case "get":
			var e kv.ValueEntry
			e, rerr = snap.Get(ctx, unhx(c.Keys[0]))
			if rerr == nil {
				got = append(got, c.Keys[0]+"="+hex.EncodeToString(e.Value))
			}
		case "batchget":
			bk := make([][]byte, 0, len(c.Keys))
			for _, k := range c.Keys {
				bk = append(bk, unhx(k))
			}
			var m map[string]kv.ValueEntry
			m, rerr = snap.BatchGet(ctx, bk)
			for k, v := range m {
				got = append(got, hx([]byte(k))+"="+hex.EncodeToString(v.Value))
			}
			sort.Strings(got)
		case "scan", "rscan":
			var it interface {
				Valid() bool
				Key() []byte
				Value() []byte
				Next() error
			}
			if c.Path == "scan" {
				it, rerr = snap.Iter(unhx(c.S), unhx(c.E))
			} else {
				it, rerr = snap.IterReverse(unhx(c.E), unhx(c.S))
			}
			for rerr == nil && it.Valid() {
				got = append(got, hx(it.Key())+"="+hex.EncodeToString(it.Value()))
				rerr = it.Next()
			}
		}
		w.visOn = false
		var reget []Read
		if c.Path == "get" {
			// re-reads on the SAME snapshot object (its cache must hold nothing from a refused read; also covered by C05)
			_, e1 := snap.Get(ctx, unhx(c.Keys[0]))
			reget = append(reget, Read{Key: "reget", TS: c.TS, Res: errClass(e1)})
			_, e2 := snap.BatchGet(ctx, [][]byte{unhx(c.Keys[0])})
			reget = append(reget, Read{Key: "rebatchget", TS: c.TS, Res: errClass(e2)})
		}
		for _, vi := range c.VisInj {
			if vi.When == "after_call" {
				probe.UpdateTxnSafePointCache(vi.SP, time.Now())
				w.logEv(Event{T: "update", S: "after_call", SP: vi.SP})
			}
		}
		rd.Res = errClass(rerr)
		if rerr == nil || rd.Res == "N" {
			rd.Res = "ok"
		}
		res.Vis = []Read{rd}
		res.Late = reget
		res.Locks = got // entries returned before the verdict
		res.Events = w.events
		// a later read of the same snapshot sees the after_call update
		if _, lerr := w.store.GetSnapshot(c.TS).Get(ctx, unhx(c.Keys[0])); true {
			res.Vis = append(res.Vis, Read{Key: "later-get", TS: c.TS, Res: errClass(lerr)})
		}
	case "vis":
		probe := tikv.StoreProbe{KVStore: w.store}
		// keep the background poller consistent with what we put into the cache
		_, _ = w.store.GetPDClient().GetGCInternalController(constants.NullKeyspaceID).AdvanceTxnSafePoint(ctx, c.Cached)
		for _, ts := range c.ReadTS {
			now := time.Now()
			if c.Stale {
				now = now.Add(-(tikv.GcStateCacheInterval - 5*time.Second))
			}
			probe.UpdateTxnSafePointCache(c.Cached, now)
			res.Vis = append(res.Vis, Read{Key: "check", TS: ts, Res: errClass(w.store.CheckVisibility(ts))})
			snap := w.store.GetSnapshot(ts)
			for _, k := range c.Keys {
				e, err := snap.Get(ctx, unhx(k))
				rd := Read{Key: "get:" + k, TS: ts}
				if err != nil {
					rd.Res = errClass(err)
				} else {
					rd.Res = "V" + hex.EncodeToString(e.Value)
				}
				res.Vis = append(res.Vis, rd)
			}
			snap = w.store.GetSnapshot(ts)
			bk := make([][]byte, 0, len(c.Keys))
			for _, k := range c.Keys {
				bk = append(bk, unhx(k))
			}
			m, err := snap.BatchGet(ctx, bk)
			rd := Read{Key: "batchget", TS: ts}
			if err != nil {
				rd.Res = errClass(err)
			} else {
				ks := make([]string, 0, len(m))
				for k, v := range m {
					ks = append(ks, hx([]byte(k))+"="+hex.EncodeToString(v.Value))
				}
				sort.Strings(ks)
				rd.Res = "V" + fmt.Sprint(ks)
			}
			res.Vis = append(res.Vis, rd)
			snap = w.store.GetSnapshot(ts)
			rd = Read{Key: "scan", TS: ts}
			it, err := snap.Iter([]byte{}, nil)
			var ks []string
			for err == nil && it.Valid() {
				ks = append(ks, hx(it.Key())+"="+hex.EncodeToString(it.Value()))
				err = it.Next()
			}
			if err != nil {
				rd.Res = errClass(err)
			} else {
				rd.Res = "V" + fmt.Sprint(ks)
			}
			res.Vis = append(res.Vis, rd)
		}
	}
	return res
}

// ---------------------------------------------------------------- probe of the mock's ResolveLock{TxnInfos}

func probeMock() map[string]interface{} {
	c := &Case{Kind: "probe"}
	w, err := newWorld(c)
	if err != nil {
		panic(err)
	}
	defer w.close()
	w.raw = true
	must := func(err error) {
		if err != nil {
			panic(err)
		}
	}
	must(w.runScript([]Op{
		{Op: "prewrite", Key: hx([]byte("p")), Primary: hx([]byte("p")), Start: 5, Kind: "put", Val: hx([]byte("v"))},
		{Op: "prewrite", Key: hx([]byte("s")), Primary: hx([]byte("p")), Start: 5, Kind: "put", Val: hx([]byte("v"))},
		{Op: "commit", Key: hx([]byte("p")), Start: 5, Commit: 7},
	}))
	bo := tikv.NewGcResolveLockMaxBackoffer(context.Background())
	loc, err := w.store.GetRegionCache().LocateKey(bo, []byte("s"))
	must(err)
	// ScanLock contract: the only lock (on "s") lies below the start key "t"
	sreq := tikvrpc.NewRequest(tikvrpc.CmdScanLock, &kvrpcpb.ScanLockRequest{MaxVersion: 100, StartKey: []byte("t"), Limit: 1})
	sresp, err := w.store.SendReq(bo, sreq, loc.Region, time.Second)
	must(err)
	scanHonours := len(sresp.Resp.(*kvrpcpb.ScanLockResponse).Locks) == 0
	// does ScanLock report the lock type? (a pessimistic lock on "q")
	must(w.runScript([]Op{{Op: "pesslock", Key: hx([]byte("q")), Primary: hx([]byte("q")), Start: 6}}))
	treq := tikvrpc.NewRequest(tikvrpc.CmdScanLock, &kvrpcpb.ScanLockRequest{MaxVersion: 100})
	tresp, err := w.store.SendReq(bo, treq, loc.Region, time.Second)
	must(err)
	for _, l := range tresp.Resp.(*kvrpcpb.ScanLockResponse).Locks {
		if string(l.Key) == "q" && l.LockType == kvrpcpb.Op_PessimisticLock {
			mockScanLockTyped = true
		}
	}
	_ = w.rpc.MvccStore.PessimisticRollback(nil, nil, [][]byte{[]byte("q")}, 6, 6)
	req := tikvrpc.NewRequest(tikvrpc.CmdResolveLock, &kvrpcpb.ResolveLockRequest{TxnInfos: []*kvrpcpb.TxnInfo{{Txn: 5, Status: 7}}})
	resp, err := w.store.SendReq(bo, req, loc.Region, time.Second)
	must(err)
	out := map[string]interface{}{"resolve_region_error": regionErrOf(resp)}
	after := w.dump([]string{hx([]byte("s"))})
	mockHonoursTxnInfos = after[0].Lock == nil
	out["resolve_lock_txn_infos_honoured"] = mockHonoursTxnInfos
	out["scan_lock_honours_start_key"] = scanHonours
	switch os.Getenv("VERIF_C14_N2") {
	case "on":
		n2Active = true
		out["n2_mode"] = "on"
	case "auto":
		n2Active = !mockHonoursTxnInfos
		out["n2_mode"] = "auto"
	default:
		n2Active = false
		out["n2_mode"] = "off"
	}
	out["n2_active"] = n2Active
	out["scan_lock_returns_lock_type"] = mockScanLockTyped
	switch os.Getenv("VERIF_C14_N1T") {
	case "on":
		n1tActive = true
		out["n1t_mode"] = "on"
	case "auto":
		n1tActive = !mockScanLockTyped
		out["n1t_mode"] = "auto"
	default:
		out["n1t_mode"] = "off"
	}
	out["n1t_active"] = n1tActive
	out["raw_probe_script"] = "prewrite p,s (primary p, start 5, put v); commit p@7; [ResolveLock{TxnInfos:[5->7]} on s's region]; prewrite s2 (primary p, start 5); GCResolveLockPhase(safe point 100, 1 worker)"
	// end to end on the raw mock: GC leaves the committed transaction's secondary locked
	must(w.runScript([]Op{{Op: "prewrite", Key: hx([]byte("s2")), Primary: hx([]byte("p")), Start: 5, Kind: "put", Val: hx([]byte("v"))}}))
	_ = tikv.StoreProbe{KVStore: w.store}.GCResolveLockPhase(context.Background(), 100, 1)
	left := 0
	for _, r := range w.dump([]string{hx([]byte("s")), hx([]byte("s2"))}) {
		if r.Lock != nil {
			left++
		}
	}
	out["raw_mock_gc_locks_left"] = left
	// ScanLock limit: two locks, limit 1
	must(w.runScript([]Op{
		{Op: "prewrite", Key: hx([]byte("x1")), Primary: hx([]byte("x1")), Start: 8, Kind: "put", Val: hx([]byte("v"))},
		{Op: "prewrite", Key: hx([]byte("x2")), Primary: hx([]byte("x1")), Start: 8, Kind: "put", Val: hx([]byte("v"))}}))
	lreq := tikvrpc.NewRequest(tikvrpc.CmdScanLock, &kvrpcpb.ScanLockRequest{MaxVersion: 100, Limit: 1})
	lresp, err := w.store.SendReq(bo, lreq, loc.Region, time.Second)
	must(err)
	limitHonoured := len(lresp.Resp.(*kvrpcpb.ScanLockResponse).Locks) == 1
	out["scan_lock_honours_limit"] = limitHonoured
	// notify-only DeleteRange must delete nothing
	dreq := tikvrpc.NewRequest(tikvrpc.CmdDeleteRange, &kvrpcpb.DeleteRangeRequest{StartKey: []byte("p"), EndKey: []byte("pz"), NotifyOnly: true})
	_, err = w.store.SendReq(bo, dreq, loc.Region, time.Second)
	must(err)
	notifyHonoured := len(w.dump([]string{hx([]byte("p"))})[0].Writes) > 0
	out["delete_range_notify_only_honoured"] = notifyHonoured
	strict := os.Getenv("VERIF_C14_STRICT") == "1"
	mode := func(env string, needed bool) (bool, string) {
		m := os.Getenv(env)
		if strict {
			m = "off"
		}
		switch m {
		case "on":
			return true, "on"
		case "auto":
			return needed, "auto"
		}
		return false, "off" // default since the mock honours the contract (fixes F42 / F43)
	}
	n1Active, out["n1_mode"] = mode("VERIF_C14_N1", !(out["scan_lock_honours_start_key"].(bool) && limitHonoured))
	n3Active, out["n3_mode"] = mode("VERIF_C14_N3", !notifyHonoured)
	out["n1_active"], out["n3_active"] = n1Active, n3Active
	if strict {
		n2Active, n1tActive = false, false
		out["n2_active"], out["n1t_active"] = false, false
	}
	return out
}

// ---------------------------------------------------------------- generators

type gen struct {
	r      *rand.Rand
	id     int
	tsBase uint64 // offset of the timestamps of the next population (second pass of a two-pass case)
	tsEnd  uint64 // last timestamp used by the last population
}

var alphabet = []byte("abcdefgh")

func (g *gen) key() []byte {
	n := 1 + g.r.Intn(2)
	if g.r.Intn(8) == 0 {
		n = 3
	}
	b := make([]byte, n)
	for i := range b {
		b[i] = alphabet[g.r.Intn(len(alphabet))]
	}
	return b
}
func (g *gen) keys(n int) []string {
	m := map[string]bool{}
	for len(m) < n {
		m[string(g.key())] = true
	}
	l := make([]string, 0, n)
	for k := range m {
		l = append(l, k)
	}
	sort.Strings(l)
	return l
}
func (g *gen) splits(n int, keys []string) []string {
	m := map[string]bool{}
	for i := 0; i < n; i++ {
		var k string
		switch g.r.Intn(3) {
		case 0:
			k = keys[g.r.Intn(len(keys))] // a boundary that is a data key
		case 1:
			k = keys[g.r.Intn(len(keys))] + string([]byte{alphabet[g.r.Intn(len(alphabet))]})
		default:
			k = string(g.key())
		}
		m[k] = true
	}
	l := make([]string, 0, len(m))
	for k := range m {
		l = append(l, hx([]byte(k)))
	}
	sort.Strings(l)
	return l
}
func (g *gen) rangeOf(keys []string) (string, string) {
	switch g.r.Intn(5) {
	case 0, 1:
		return "-", "-"
	case 2:
		return hx([]byte(keys[g.r.Intn(len(keys))])), "-"
	case 3:
		return "-", hx([]byte(keys[g.r.Intn(len(keys))]))
	}
	a, b := g.key(), g.key()
	if bytes.Compare(a, b) > 0 {
		a, b = b, a
	}
	return hx(a), hx(b)
}

// leftover-lock population
func (g *gen) population(c *Case, keys []string, ntxn int) {
	free := map[string]bool{}
	lastCommit := map[string]uint64{}
	for _, k := range keys {
		free[k] = true
	}
	h := func(k string) string { return hx([]byte(k)) }
	ts := uint64(10) + g.tsBase
	var starts []uint64
	for i := 0; i < ntxn; i++ {
		ts += uint64(3 + g.r.Intn(12))
		start := ts
		var cand []string
		for _, k := range keys {
			if free[k] && lastCommit[k] < start {
				cand = append(cand, k)
			}
		}
		if len(cand) == 0 {
			continue
		}
		g.r.Shuffle(len(cand), func(a, b int) { cand[a], cand[b] = cand[b], cand[a] })
		n := 1 + g.r.Intn(4)
		if g.r.Intn(5) == 0 {
			n = 1 + g.r.Intn(len(cand))
		}
		if n > len(cand) {
			n = len(cand)
		}
		tk := cand[:n]
		primary := tk[0]
		starts = append(starts, start)
		val := func(k string) string { return hx([]byte(fmt.Sprintf("v%d%s", start, k))) }
		kind := func() string {
			if g.r.Intn(4) == 0 {
				return "del"
			}
			return "put"
		}
		commit := start + uint64(1+g.r.Intn(9))
		states := []string{"committed", "committed", "rolledback", "pending", "pending-noprimary", "pess-pending", "pess-mixed", "pess-committed", "done", "stale-pess", "stale-pess"}
		if c.Class == "stalepess" {
			states = []string{"stale-pess", "stale-pess", "stale-pess", "committed", "pending", "pess-pending"}
		}
		if c.Mode != "custom" { // the internal handlers of GCResolveLockPhase / GC cannot be guarded against the client's panics
			states = states[:9]
		}
		state := states[g.r.Intn(len(states))]
		switch state {
		case "done": // fully committed history, no leftovers
			for _, k := range tk {
				c.Script = append(c.Script, Op{Op: "prewrite", Key: h(k), Primary: h(primary), Start: start, Kind: kind(), Val: val(k)})
			}
			for _, k := range tk {
				c.Script = append(c.Script, Op{Op: "commit", Key: h(k), Start: start, Commit: commit})
				lastCommit[k] = commit
			}
			ts = commit
		case "committed", "rolledback":
			for _, k := range tk {
				c.Script = append(c.Script, Op{Op: "prewrite", Key: h(k), Primary: h(primary), Start: start, Kind: kind(), Val: val(k)})
			}
			for j, k := range tk {
				finish := j == 0 || g.r.Intn(3) == 0
				if !finish {
					free[k] = false
					continue
				}
				if state == "committed" {
					c.Script = append(c.Script, Op{Op: "commit", Key: h(k), Start: start, Commit: commit})
					lastCommit[k] = commit
				} else {
					c.Script = append(c.Script, Op{Op: "rollback", Key: h(k), Start: start})
				}
			}
			if state == "committed" {
				ts = commit
			}
		case "pending":
			for _, k := range tk {
				c.Script = append(c.Script, Op{Op: "prewrite", Key: h(k), Primary: h(primary), Start: start, Kind: kind(), Val: val(k)})
				free[k] = false
			}
		case "pending-noprimary": // secondaries prewritten, the primary never was (its key may not even be in the store)
			if g.r.Intn(2) == 0 {
				primary = string(g.key()) + "z"
			}
			for j, k := range tk {
				if j == 0 && k == primary {
					continue
				}
				c.Script = append(c.Script, Op{Op: "prewrite", Key: h(k), Primary: h(primary), Start: start, Kind: kind(), Val: val(k)})
				free[k] = false
			}
		case "stale-pess":
			// tidb#42937: leftover pessimistic locks of T whose primary FIELD is stale (an unlocked key, a key locked by another
			// transaction, a key that does not exist -- in this or another region; never a key holding a prewrite lock of T itself),
			// next to prewrite locks of T under its real primary; T committed (primary committed, secondaries left), pending or rolled back
			if len(tk) < 2 {
				cand2 := []string{}
				for _, k := range keys {
					if free[k] && lastCommit[k] < start && k != tk[0] {
						cand2 = append(cand2, k)
					}
				}
				if len(cand2) == 0 {
					starts = starts[:len(starts)-1]
					continue
				}
				tk = append(tk, cand2[g.r.Intn(len(cand2))])
			}
			npw := 1 + g.r.Intn(len(tk)-1) // tk[:npw] prewritten (tk[0] = real primary), tk[npw:] pessimistic leftovers
			inT := map[string]bool{}
			for _, k := range tk {
				inT[k] = true
			}
			stale := func() string {
				switch g.r.Intn(3) {
				case 0: // a key that exists (maybe locked by another transaction, maybe lock-free), possibly in another region
					for try := 0; try < 8; try++ {
						if k := keys[g.r.Intn(len(keys))]; !inT[k] {
							return k
						}
					}
				case 1:
					return string(g.key()) + "y" // no such key
				}
				return string(g.key()) + "0z"
			}
			for _, k := range tk[:npw] {
				c.Script = append(c.Script, Op{Op: "prewrite", Key: h(k), Primary: h(primary), Start: start, Kind: kind(), Val: val(k)})
				free[k] = false
			}
			for _, k := range tk[npw:] {
				p := stale()
				if g.r.Intn(4) == 0 {
					p = primary // some leftovers still name the real primary
				}
				c.Script = append(c.Script, Op{Op: "pesslock", Key: h(k), Primary: h(p), Start: start})
				free[k] = false
			}
			switch g.r.Intn(3) {
			case 0, 1: // the writer died right after the primary commit
				c.Script = append(c.Script, Op{Op: "commit", Key: h(primary), Start: start, Commit: commit})
				lastCommit[primary] = commit
				free[primary] = true
				ts = commit
			case 2:
				if g.r.Intn(2) == 0 {
					c.Script = append(c.Script, Op{Op: "rollback", Key: h(primary), Start: start})
					free[primary] = true
				}
			}
		case "pess-pending":
			for j, k := range tk {
				p := primary
				if j > 0 && g.r.Intn(4) == 0 {
					p = string(g.key()) + "y" // stale primary pointer (tidb#42937); that key holds no lock of this txn
				}
				c.Script = append(c.Script, Op{Op: "pesslock", Key: h(k), Primary: h(p), Start: start})
				free[k] = false
			}
		case "pess-mixed", "pess-committed":
			for _, k := range tk {
				c.Script = append(c.Script, Op{Op: "pesslock", Key: h(k), Primary: h(primary), Start: start})
				free[k] = false
			}
			for j, k := range tk {
				if (state == "pess-committed" && j == 0) || g.r.Intn(2) == 0 {
					c.Script = append(c.Script, Op{Op: "prewrite", Key: h(k), Primary: h(primary), Start: start, Kind: kind(), Val: val(k), Pess: true})
				}
			}
			if state == "pess-committed" {
				c.Script = append(c.Script, Op{Op: "commit", Key: h(primary), Start: start, Commit: commit})
				lastCommit[primary] = commit
				free[primary] = true
				ts = commit
			}
		}
	}
	// safe point: around the start timestamps, so that some transactions lie above it; boundaries
	// (a leftover lock with start == sp must go, one with start == sp+1 must stay) are favoured
	var leftStarts []uint64
	seenStart := map[uint64]bool{}
	lockedNow := map[string]bool{}
	for k, f := range free {
		if !f {
			lockedNow[hx([]byte(k))] = true
		}
	}
	for _, o := range c.Script {
		if (o.Op == "prewrite" || o.Op == "pesslock") && lockedNow[o.Key] && !seenStart[o.Start] {
			seenStart[o.Start] = true
			leftStarts = append(leftStarts, o.Start)
		}
	}
	pick := g.r.Intn(20)
	switch {
	case len(starts) == 0:
		c.SP = ts
	case len(leftStarts) > 0 && pick < 9:
		c.SP = leftStarts[g.r.Intn(len(leftStarts))]
	case len(leftStarts) > 0 && pick < 12:
		c.SP = leftStarts[g.r.Intn(len(leftStarts))] - 1
	case g.r.Intn(3) == 0:
		c.SP = ts + 20
	default:
		c.SP = starts[g.r.Intn(len(starts))] + uint64(g.r.Intn(3)) - 1
	}
	c.ReadTS = []uint64{c.SP, c.SP + 1, c.SP + 7, ts + 30, 1 << 40}
	g.tsEnd = ts + 30
}

// every transaction: primary committed, every secondary left locked, all below the safe point
func (g *gen) commitSecPopulation(c *Case, keys []string) {
	h := func(k string) string { return hx([]byte(k)) }
	perm := g.r.Perm(len(keys))
	ts := uint64(10)
	for i := 0; i < len(perm); {
		n := 2 + g.r.Intn(3)
		if i+n > len(perm) {
			n = len(perm) - i
		}
		if n < 2 {
			break
		}
		ts += uint64(3 + g.r.Intn(5))
		start, commit := ts, ts+uint64(1+g.r.Intn(4))
		primary := keys[perm[i]]
		for j := 0; j < n; j++ {
			k := keys[perm[i+j]]
			kind := "put"
			if g.r.Intn(4) == 0 {
				kind = "del"
			}
			c.Script = append(c.Script, Op{Op: "prewrite", Key: h(k), Primary: h(primary), Start: start, Kind: kind, Val: hx([]byte(fmt.Sprintf("v%d%s", start, k)))})
		}
		c.Script = append(c.Script, Op{Op: "commit", Key: h(primary), Start: start, Commit: commit})
		ts = commit
		i += n
	}
	c.SP = ts + uint64(g.r.Intn(5))
	c.ReadTS = []uint64{c.SP, c.SP + 3, 1 << 40}
}

func (g *gen) gcCase(class string) *Case {
	g.id++
	c := &Case{ID: g.id, Kind: "gc", Class: class, Mode: "custom"}
	nk := 3 + g.r.Intn(12)
	ntxn := 2 + g.r.Intn(8)
	keys := g.keys(nk)
	c.Splits = g.splits(g.r.Intn(6), keys)
	c.Limit = uint32(1 + g.r.Intn(4))
	c.Conc = 1
	c.RPT = 128
	c.S, c.E = "-", "-"
	switch class {
	case "dense": // many locks per region relative to the limit
		keys = g.keys(10 + g.r.Intn(10))
		ntxn = 6 + g.r.Intn(8)
		c.Splits = g.splits(g.r.Intn(3), keys)
		c.Limit = uint32(1 + g.r.Intn(3))
	case "conc":
		c.Conc = 2 + g.r.Intn(7)
		c.RPT = 1 + g.r.Intn(2)
	case "range":
		c.S, c.E = g.rangeOf(keys)
		c.RPT = 1 + g.r.Intn(3)
	case "split":
		n := 1 + g.r.Intn(3)
		for i := 0; i < n; i++ {
			k := keys[g.r.Intn(len(keys))]
			if g.r.Intn(3) == 0 {
				k += "0"
			}
			c.Inj = append(c.Inj, Inject{At: 1 + g.r.Intn(8), Key: hx([]byte(k))})
		}
		if g.r.Intn(3) == 0 {
			c.Conc = 2 + g.r.Intn(3)
			c.RPT = 1
		}
	case "commitsec": // secondaries of committed primaries below the safe point: only the batch resolve can clear them
		keys = g.keys(6 + g.r.Intn(10))
		c.Splits = g.splits(g.r.Intn(4), keys)
		c.Limit = uint32(1 + g.r.Intn(4))
		g.commitSecPopulation(c, keys)
	case "twopass": // two passes on one store: lock-resolver status cache, region cache and the Runner object survive
		c.Limit = uint32(1 + g.r.Intn(4))
		c.RPT = 1 + g.r.Intn(3)
		if g.r.Intn(3) == 0 {
			c.Conc = 2 + g.r.Intn(3)
		}
	case "rawscan": // the store's own ScanLock answers (no N1): only the property oracles apply
		c.Raw = true
		keys = g.keys(6 + g.r.Intn(12))
		ntxn = 4 + g.r.Intn(8)
		c.Splits = g.splits(g.r.Intn(5), keys)
		c.Limit = uint32(1 + g.r.Intn(4))
		if g.r.Intn(3) == 0 {
			c.S, c.E = g.rangeOf(keys)
			c.RPT = 1 + g.r.Intn(2)
		}
		if g.r.Intn(3) == 0 {
			c.Inj = append(c.Inj, Inject{At: 1 + g.r.Intn(6), Key: hx([]byte(keys[g.r.Intn(len(keys))]))})
		}
	case "merge": // a region is MERGED with its right neighbour between ScanLock and ResolveLock (and splits elsewhere)
		keys = g.keys(8 + g.r.Intn(10))
		ntxn = 6 + g.r.Intn(8)
		c.Splits = g.splits(2+g.r.Intn(4), keys)
		c.Limit = uint32(2 + g.r.Intn(8))
		for _, at := range []int{2, 4, 6, 8} {
			if g.r.Intn(3) == 0 {
				continue
			}
			k := keys[g.r.Intn(len(keys))]
			if g.r.Intn(3) == 0 {
				k = "" // the first region
			}
			kind := "merge"
			if g.r.Intn(4) == 0 {
				kind = ""
			}
			c.Inj = append(c.Inj, Inject{At: at - g.r.Intn(2)*(g.r.Intn(2)), Key: hx([]byte(k)), Kind: kind})
		}
		if g.r.Intn(5) == 0 {
			c.Conc = 2 + g.r.Intn(3)
			c.RPT = 1
		}
	case "stalepess": // stale-primary pessimistic leftovers next to prewrite locks of the same transaction
		keys = g.keys(6 + g.r.Intn(10))
		ntxn = 3 + g.r.Intn(6)
		c.Splits = g.splits(g.r.Intn(4), keys)
		c.Limit = uint32(1 + g.r.Intn(5))
		if g.r.Intn(4) == 0 {
			c.Conc = 2 + g.r.Intn(4)
			c.RPT = 1
		}
	case "midsplit": // a split lands inside the scanned batch between ScanLock and ResolveLock
		keys = g.keys(8 + g.r.Intn(10))
		ntxn = 6 + g.r.Intn(8)
		c.Splits = g.splits(g.r.Intn(2), keys)
		c.Limit = uint32(2 + g.r.Intn(4))
		for i, at := range []int{2, 4, 6} {
			if i > 0 && g.r.Intn(2) == 0 {
				continue
			}
			k := keys[g.r.Intn(len(keys))]
			if g.r.Intn(4) == 0 {
				k += "0"
			}
			c.Inj = append(c.Inj, Inject{At: at + g.r.Intn(2)*(i%2), Key: hx([]byte(k))})
		}
	case "phase":
		c.Mode = "phase"
		c.Limit = 0
		c.Conc = 1 + g.r.Intn(8)
	case "full":
		c.Mode = "full"
		c.Limit = 0
		c.Conc = 1 + g.r.Intn(8)
	}
	if class != "commitsec" {
		g.population(c, keys, ntxn)
	}
	if class == "full" && g.r.Intn(2) == 0 && c.SP > 12 {
		c.Barrier = c.SP - uint64(1+g.r.Intn(10))
		c.ReadTS = append(c.ReadTS, c.Barrier, c.Barrier+1)
	}
	if class == "twopass" {
		// a second population (later timestamps, other keys) written after the first pass; the second pass also meets the
		// first population's locks that lay above the first safe point
		in1 := map[string]bool{}
		for _, k := range keys {
			in1[k] = true
		}
		var keys2 []string
		for _, k := range g.keys(6 + g.r.Intn(8)) {
			if !in1[k] {
				keys2 = append(keys2, k)
			}
		}
		if len(keys2) >= 2 {
			c2 := &Case{Class: class, Mode: "custom"}
			g.tsBase = g.tsEnd + 20
			g.population(c2, keys2, 2+g.r.Intn(6))
			g.tsBase = 0
			c.Script2, c.SP2 = c2.Script, c2.SP
			if c.SP2 < c.SP {
				c.SP2 = c.SP
			}
			keys = append(keys, keys2...)
		}
	}
	ks := map[string]bool{}
	for _, k := range keys {
		ks[hx([]byte(k))] = true
	}
	for _, o := range append(append([]Op{}, c.Script...), c.Script2...) {
		ks[o.Key] = true
		if o.Primary != "" {
			ks[o.Primary] = true
		}
	}
	for k := range ks {
		c.Keys = append(c.Keys, k)
	}
	sort.Slice(c.Keys, func(i, j int) bool { return bytes.Compare(unhx(c.Keys[i]), unhx(c.Keys[j])) < 0 })
	return c
}

func (g *gen) partCase(class string) *Case {
	g.id++
	c := &Case{ID: g.id, Kind: "part", Class: class}
	keys := g.keys(4 + g.r.Intn(8))
	c.Splits = g.splits(g.r.Intn(7), keys)
	c.RPT = 1 + g.r.Intn(3)
	c.Conc = 1 + g.r.Intn(8)
	c.S, c.E = g.rangeOf(keys)
	if g.r.Intn(4) == 0 && len(c.Splits) > 0 { // range ends exactly on region boundaries
		c.E = c.Splits[g.r.Intn(len(c.Splits))]
		if g.r.Intn(2) == 0 {
			c.S = c.Splits[0]
		}
	}
	switch class {
	case "fail":
		c.FailAt = 1 + g.r.Intn(3)
	case "pdsplit":
		n := 1 + g.r.Intn(3)
		for i := 0; i < n; i++ {
			c.PdInj = append(c.PdInj, Inject{At: 1 + g.r.Intn(4), Key: hx(g.key())})
		}
	}
	return c
}

func (g *gen) delCase(class string) *Case {
	g.id++
	c := &Case{ID: g.id, Kind: "del", Class: class}
	keys := g.keys(4 + g.r.Intn(12))
	c.Splits = g.splits(g.r.Intn(6), keys)
	c.Conc = 1 + g.r.Intn(8)
	c.S, c.E = g.rangeOf(keys)
	if g.r.Intn(3) == 0 { // bounds that are data keys: start inclusive, end exclusive
		a, b := keys[g.r.Intn(len(keys))], keys[g.r.Intn(len(keys))]
		if a > b {
			a, b = b, a
		}
		c.S, c.E = hx([]byte(a)), hx([]byte(b))
	}
	c.Notify = class == "notify"
	ts := uint64(10)
	for _, k := range keys {
		n := 1 + g.r.Intn(2)
		for i := 0; i < n; i++ {
			ts += 5
			c.Script = append(c.Script, Op{Op: "prewrite", Key: hx([]byte(k)), Primary: hx([]byte(k)), Start: ts, Kind: "put", Val: hx([]byte(fmt.Sprintf("d%d", ts)))})
			if i < n-1 || g.r.Intn(4) > 0 {
				c.Script = append(c.Script, Op{Op: "commit", Key: hx([]byte(k)), Start: ts, Commit: ts + 2})
			}
		}
		c.Keys = append(c.Keys, hx([]byte(k)))
	}
	if class == "split" {
		n := 1 + g.r.Intn(3)
		for i := 0; i < n; i++ {
			c.Inj = append(c.Inj, Inject{At: 1 + g.r.Intn(4), Key: hx(g.key())})
		}
	}
	return c
}

func (g *gen) visCase() *Case {
	g.id++
	c := &Case{ID: g.id, Kind: "vis", Class: "vis"}
	keys := g.keys(2 + g.r.Intn(4))
	c.Splits = g.splits(g.r.Intn(3), keys)
	ts := uint64(10)
	for _, k := range keys {
		ts += 5
		c.Script = append(c.Script, Op{Op: "prewrite", Key: hx([]byte(k)), Primary: hx([]byte(k)), Start: ts, Kind: "put", Val: hx([]byte(fmt.Sprintf("d%d", ts)))})
		c.Script = append(c.Script, Op{Op: "commit", Key: hx([]byte(k)), Start: ts, Commit: ts + 2})
		c.Keys = append(c.Keys, hx([]byte(k)))
	}
	c.Cached = uint64(20 + g.r.Intn(60))
	c.Stale = g.r.Intn(6) == 0
	c.ReadTS = []uint64{c.Cached - 1, c.Cached, c.Cached + 1, uint64(1 + g.r.Intn(int(c.Cached))), c.Cached + uint64(g.r.Intn(100)), 1 << 40}
	if g.r.Intn(4) == 0 {
		c.Cached = 0
		c.ReadTS = []uint64{0, 1, 50}
	}
	return c
}

// safe point learned at a chosen instant of a read (before send / response in flight / after the call), per access
// path and per batch of a multi-batch scan
func (g *gen) vistCase(path string) *Case {
	g.id++
	c := &Case{ID: g.id, Kind: "vist", Class: "vist-" + path, Path: path, S: "-", E: "-"}
	keys := g.keys(4 + g.r.Intn(8))
	c.Splits = g.splits(g.r.Intn(4), keys)
	if path == "batchget" {
		c.Splits = g.splits(2+g.r.Intn(4), keys)
	}
	ts := uint64(10)
	for _, k := range keys {
		ts += 5
		c.Script = append(c.Script, Op{Op: "prewrite", Key: hx([]byte(k)), Primary: hx([]byte(k)), Start: ts, Kind: "put", Val: hx([]byte(fmt.Sprintf("d%d", ts)))})
		c.Script = append(c.Script, Op{Op: "commit", Key: hx([]byte(k)), Start: ts, Commit: ts + 2})
		c.Keys = append(c.Keys, hx([]byte(k)))
	}
	c.TS = ts + 10 + uint64(g.r.Intn(20))
	c.Cached = c.TS - uint64(g.r.Intn(5))
	if path == "get" {
		c.Keys = []string{c.Keys[g.r.Intn(len(c.Keys))]}
	}
	c.BatchSize = 1 + g.r.Intn(3)
	nrpc := 1
	if path == "scan" || path == "rscan" {
		nrpc = len(keys)/c.BatchSize + len(c.Splits) + 1
	} else if path == "batchget" {
		nrpc = len(c.Splits) + 1
	}
	ninj := g.r.Intn(3)
	if g.r.Intn(4) > 0 && ninj == 0 {
		ninj = 1
	}
	for i := 0; i < ninj; i++ {
		when := []string{"before", "after_inner", "after_inner", "after_call"}[g.r.Intn(4)]
		sp := c.TS + uint64(1+g.r.Intn(3))
		switch g.r.Intn(6) {
		case 0:
			sp = c.TS // equal: still visible
		case 1:
			sp = c.TS - 1
		}
		c.VisInj = append(c.VisInj, VisInj{At: 1 + g.r.Intn(nrpc), When: when, SP: sp})
	}
	if path == "batchget" && g.r.Intn(3) == 0 {
		// several regions => several RPCs in flight at once; one raises the safe point, another lowers it again:
		// the verdict depends on which cache write really came last (update + log entry are atomic in the gate)
		whens := []string{"before", "after_inner"}
		a, b := 1+g.r.Intn(nrpc), 1+g.r.Intn(nrpc)
		c.VisInj = []VisInj{{At: a, When: whens[g.r.Intn(2)], SP: c.TS + 3}, {At: b, When: whens[g.r.Intn(2)], SP: c.TS - uint64(g.r.Intn(2))}}
		if g.r.Intn(2) == 0 {
			c.VisInj[0], c.VisInj[1] = c.VisInj[1], c.VisInj[0]
		}
	}
	if g.r.Intn(6) == 0 { // raised before the send, lowered again while the response is in flight
		at := 1 + g.r.Intn(nrpc)
		c.VisInj = []VisInj{{At: at, When: "before", SP: c.TS + 2}, {At: at, When: "after_inner", SP: c.TS}}
	}
	return c
}

// ---------------------------------------------------------------- main

func main() {
	log.SetLevel(zapcore.FatalLevel)
	log.ReplaceGlobals(zap.NewNop(), &log.ZapProperties{Level: zap.NewAtomicLevelAt(zapcore.FatalLevel)})
	util.EnableFailpoints()
	if err := failpoint.Enable("tikvclient/fastBackoffBySkipSleep", "return"); err != nil {
		fmt.Fprintln(os.Stderr, "failpoint:", err)
		os.Exit(2)
	}
	out := bufio.NewWriterSize(os.Stdout, 1<<20)
	defer out.Flush()
	emit := func(tag string, v interface{}) {
		b, err := json.Marshal(v)
		if err != nil {
			panic(err)
		}
		fmt.Fprintf(out, "%s\t%s\n", tag, b)
	}
	emit("MOCK", probeMock())
	if len(os.Args) >= 3 && os.Args[1] == "replay" {
		f, err := os.Open(os.Args[2])
		if err != nil {
			panic(err)
		}
		sc := bufio.NewScanner(f)
		sc.Buffer(make([]byte, 1<<20), 1<<26)
		for sc.Scan() {
			line := bytes.TrimSpace(sc.Bytes())
			if len(line) == 0 {
				continue
			}
			var c Case
			if err := json.Unmarshal(line, &c); err != nil {
				panic(err)
			}
			for r := runCase(&c); r != nil; r = r.next {
				emit("RES", r)
			}
		}
		return
	}
	seed, _ := strconv.ParseInt(os.Getenv("VERIF_SEED"), 10, 64)
	if seed == 0 {
		seed = 1
	}
	scale := 1
	if os.Getenv("VERIF_TIER") == "thorough" {
		scale = 60
	}
	g := &gen{r: rand.New(rand.NewSource(seed*7919 + 14))}
	plan := []struct {
		f func() *Case
		n int
	}{
		{func() *Case { return g.gcCase("basic") }, 40},
		{func() *Case { return g.gcCase("dense") }, 40},
		{func() *Case { return g.gcCase("range") }, 30},
		{func() *Case { return g.gcCase("split") }, 50},
		{func() *Case { return g.gcCase("midsplit") }, 40},
		{func() *Case { return g.gcCase("merge") }, 45},
		{func() *Case { return g.gcCase("rawscan") }, 30},
		{func() *Case { return g.gcCase("twopass") }, 30},
		{func() *Case { return g.gcCase("commitsec") }, 25},
		{func() *Case { return g.gcCase("stalepess") }, 45},
		{func() *Case { return g.gcCase("conc") }, 30},
		{func() *Case { return g.gcCase("phase") }, 15},
		{func() *Case { return g.gcCase("full") }, 25},
		{func() *Case { return g.partCase("plain") }, 60},
		{func() *Case { return g.partCase("fail") }, 30},
		{func() *Case { return g.partCase("pdsplit") }, 30},
		{func() *Case { return g.delCase("plain") }, 40},
		{func() *Case { return g.delCase("split") }, 30},
		{func() *Case { return g.delCase("notify") }, 15},
		{func() *Case { return g.visCase() }, 25},
		{func() *Case { return g.vistCase("get") }, 20},
		{func() *Case { return g.vistCase("batchget") }, 40},
		{func() *Case { return g.vistCase("scan") }, 45},
		{func() *Case { return g.vistCase("rscan") }, 35},
	}
	for _, p := range plan {
		for i := 0; i < p.n*scale; i++ {
			for r := runCase(p.f()); r != nil; r = r.next {
				emit("RES", r)
			}
		}
	}
}
