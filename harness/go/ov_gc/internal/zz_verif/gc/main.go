//go:build verif

// Driver for property C14 (GC lock resolution, range task, delete range, visibility check).
//
// Every case runs on a fresh mocktikv cluster + tikv.NewTestTiKVStore with
//   - a wrapping tikv.Client (gate) that logs ScanLock / ResolveLock / CheckTxnStatus /
//     PessimisticRollback / DeleteRange, splits regions before the i-th ScanLock/ResolveLock/DeleteRange,
//     and NORMALISES the mock to TiKV's contract where the mock deviates:
//     N1 ScanLock: the mock ignores StartKey/EndKey/Limit and returns no lock type; the gate keeps
//     keys >= start, < end, sorted, first `limit`, and fills lock_type from the MVCC debugger.
//     N2 ResolveLock{TxnInfos}: before fix 448a517 the mock's RPC handler ignored TxnInfos (it resolved
//     StartVersion=0, i.e. nothing).  The gate can issue one mock ResolveLock{start_version,
//     commit_version} per TxnInfo with the same region context; this is OFF by default now
//     (env VERIF_C14_N2=off|auto|on), the start-up probe result and the mode are printed in MOCK.
//     N3 DeleteRange{NotifyOnly}: the mock deletes anyway; the gate answers it itself (after an
//     epoch check through a harmless request).
//   - a wrapping pd.Client that logs the layout at every ScanRegions and splits before the i-th one.
//
// Output: one line `RES <json>` per case (spec echoed, so a case is replayable with
// `gc replay <file-with-json-cases>`), `MOCK <json>` for the probe.
package main

import (
	"bufio"
	"bytes"
	"encoding/json"
	"fmt"
	"github.com/pingcap/failpoint"
	"github.com/pingcap/log"
	"github.com/tikv/client-go/v2/util"
	"go.uber.org/zap"
	"go.uber.org/zap/zapcore"
	"math/rand"
	"os"
	"strconv"
)

// ---------------------------------------------------------------- main

func main() {
	log.SetLevel(zapcore.FatalLevel)
	log.ReplaceGlobals(zap.NewNop(), &log.ZapProperties{Level: zap.NewAtomicLevelAt(zapcore.FatalLevel)})
	util.EnableFailpoints()
	if err := failpoint.Enable("tikvclient/fastBackoffBySkipSleep", "return"); err != nil {
		fmt.Fprintln(os.Stderr, "failpoint:", err)
		os.Exit(2)
	}
	out := bufio.NewWriterSize(os.Stdout, 1<<20)
	defer out.Flush()
	emit := func(tag string, v interface{}) {
		b, err := json.Marshal(v)
		if err != nil {
			panic(err)
		}
		fmt.Fprintf(out, "%s\t%s\n", tag, b)
	}
	emit("MOCK", probeMock())
	if len(os.Args) >= 3 && os.Args[1] == "replay" {
		f, err := os.Open(os.Args[2])
		if err != nil {
			panic(err)
		}
		sc := bufio.NewScanner(f)
		sc.Buffer(make([]byte, 1<<20), 1<<26)
		for sc.Scan() {
			line := bytes.TrimSpace(sc.Bytes())
			if len(line) == 0 {
				continue
			}
			var c Case
			if err := json.Unmarshal(line, &c); err != nil {
				panic(err)
			}
			for r := runCase(&c); r != nil; r = r.next {
				emit("RES", r)
			}
		}
		return
	}
	seed, _ := strconv.ParseInt(os.Getenv("VERIF_SEED"), 10, 64)
	if seed == 0 {
		seed = 1
	}
	scale := 1
	if os.Getenv("VERIF_TIER") == "thorough" {
		scale = 60
	}
	g := &gen{r: rand.New(rand.NewSource(seed*7919 + 14))}
	plan := []struct {
		f func() *Case
		n int
	}{
		{func() *Case { return g.gcCase("basic") }, 40},
		{func() *Case { return g.gcCase("dense") }, 40},
		{func() *Case { return g.gcCase("range") }, 30},
		{func() *Case { return g.gcCase("split") }, 50},
		{func() *Case { return g.gcCase("midsplit") }, 40},
		{func() *Case { return g.gcCase("merge") }, 45},
		{func() *Case { return g.gcCase("rawscan") }, 30},
		{func() *Case { return g.gcCase("twopass") }, 30},
		{func() *Case { return g.gcCase("fault") }, 40},
		{func() *Case { return g.gcCase("commitsec") }, 25},
		{func() *Case { return g.gcCase("stalepess") }, 45},
		{func() *Case { return g.gcCase("conc") }, 30},
		{func() *Case { return g.gcCase("phase") }, 15},
		{func() *Case { return g.gcCase("full") }, 25},
		{func() *Case { return g.partCase("plain") }, 60},
		{func() *Case { return g.partCase("fail") }, 30},
		{func() *Case { return g.partCase("pdsplit") }, 30},
		{func() *Case { return g.delCase("plain") }, 40},
		{func() *Case { return g.delCase("split") }, 30},
		{func() *Case { return g.delCase("notify") }, 15},
		{func() *Case { return g.visCase() }, 25},
		{func() *Case { return g.vistCase("get") }, 20},
		{func() *Case { return g.vistCase("batchget") }, 40},
		{func() *Case { return g.vistCase("scan") }, 45},
		{func() *Case { return g.vistCase("rscan") }, 35},
	}
	for _, p := range plan {
		for i := 0; i < p.n*scale; i++ {
			for r := runCase(p.f()); r != nil; r = r.next {
				emit("RES", r)
			}
		}
	}
}
