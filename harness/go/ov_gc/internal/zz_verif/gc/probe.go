//go:build verif

package main

import (
	"context"
	"github.com/pingcap/kvproto/pkg/kvrpcpb"
	"github.com/tikv/client-go/v2/tikv"
	"github.com/tikv/client-go/v2/tikvrpc"
	"os"
	"time"
)

// ---------------------------------------------------------------- probe of the mock's ResolveLock{TxnInfos}

func probeMock() map[string]interface{} {
	c := &Case{Kind: "probe"}
	w, err := newWorld(c)
	if err != nil {
		panic(err)
	}
	defer w.close()
	w.raw = true
	must := func(err error) {
		if err != nil {
			panic(err)
		}
	}
	must(w.runScript([]Op{
		{Op: "prewrite", Key: hx([]byte("p")), Primary: hx([]byte("p")), Start: 5, Kind: "put", Val: hx([]byte("v"))},
		{Op: "prewrite", Key: hx([]byte("s")), Primary: hx([]byte("p")), Start: 5, Kind: "put", Val: hx([]byte("v"))},
		{Op: "commit", Key: hx([]byte("p")), Start: 5, Commit: 7},
	}))
	bo := tikv.NewGcResolveLockMaxBackoffer(context.Background())
	loc, err := w.store.GetRegionCache().LocateKey(bo, []byte("s"))
	must(err)
	// ScanLock contract: the only lock (on "s") lies below the start key "t"
	sreq := tikvrpc.NewRequest(tikvrpc.CmdScanLock, &kvrpcpb.ScanLockRequest{MaxVersion: 100, StartKey: []byte("t"), Limit: 1})
	sresp, err := w.store.SendReq(bo, sreq, loc.Region, time.Second)
	must(err)
	scanHonours := len(sresp.Resp.(*kvrpcpb.ScanLockResponse).Locks) == 0
	// does ScanLock report the lock type? (a pessimistic lock on "q")
	must(w.runScript([]Op{{Op: "pesslock", Key: hx([]byte("q")), Primary: hx([]byte("q")), Start: 6}}))
	treq := tikvrpc.NewRequest(tikvrpc.CmdScanLock, &kvrpcpb.ScanLockRequest{MaxVersion: 100})
	tresp, err := w.store.SendReq(bo, treq, loc.Region, time.Second)
	must(err)
	for _, l := range tresp.Resp.(*kvrpcpb.ScanLockResponse).Locks {
		if string(l.Key) == "q" && l.LockType == kvrpcpb.Op_PessimisticLock {
			mockScanLockTyped = true
		}
	}
	_ = w.rpc.MvccStore.PessimisticRollback(nil, nil, [][]byte{[]byte("q")}, 6, 6)
	req := tikvrpc.NewRequest(tikvrpc.CmdResolveLock, &kvrpcpb.ResolveLockRequest{TxnInfos: []*kvrpcpb.TxnInfo{{Txn: 5, Status: 7}}})
	resp, err := w.store.SendReq(bo, req, loc.Region, time.Second)
	must(err)
	out := map[string]interface{}{"resolve_region_error": regionErrOf(resp)}
	after := w.dump([]string{hx([]byte("s"))})
	mockHonoursTxnInfos = after[0].Lock == nil
	out["resolve_lock_txn_infos_honoured"] = mockHonoursTxnInfos
	out["scan_lock_honours_start_key"] = scanHonours
	switch os.Getenv("VERIF_C14_N2") {
	case "on":
		n2Active = true
		out["n2_mode"] = "on"
	case "auto":
		n2Active = !mockHonoursTxnInfos
		out["n2_mode"] = "auto"
	default:
		n2Active = false
		out["n2_mode"] = "off"
	}
	out["n2_active"] = n2Active
	out["scan_lock_returns_lock_type"] = mockScanLockTyped
	switch os.Getenv("VERIF_C14_N1T") {
	case "on":
		n1tActive = true
		out["n1t_mode"] = "on"
	case "auto":
		n1tActive = !mockScanLockTyped
		out["n1t_mode"] = "auto"
	default:
		out["n1t_mode"] = "off"
	}
	out["n1t_active"] = n1tActive
	out["raw_probe_script"] = "prewrite p,s (primary p, start 5, put v); commit p@7; [ResolveLock{TxnInfos:[5->7]} on s's region]; prewrite s2 (primary p, start 5); GCResolveLockPhase(safe point 100, 1 worker)"
	// end to end on the raw mock: GC leaves the committed transaction's secondary locked
	must(w.runScript([]Op{{Op: "prewrite", Key: hx([]byte("s2")), Primary: hx([]byte("p")), Start: 5, Kind: "put", Val: hx([]byte("v"))}}))
	_ = tikv.StoreProbe{KVStore: w.store}.GCResolveLockPhase(context.Background(), 100, 1)
	left := 0
	for _, r := range w.dump([]string{hx([]byte("s")), hx([]byte("s2"))}) {
		if r.Lock != nil {
			left++
		}
	}
	out["raw_mock_gc_locks_left"] = left
	// ScanLock limit: two locks, limit 1
	must(w.runScript([]Op{
		{Op: "prewrite", Key: hx([]byte("x1")), Primary: hx([]byte("x1")), Start: 8, Kind: "put", Val: hx([]byte("v"))},
		{Op: "prewrite", Key: hx([]byte("x2")), Primary: hx([]byte("x1")), Start: 8, Kind: "put", Val: hx([]byte("v"))}}))
	lreq := tikvrpc.NewRequest(tikvrpc.CmdScanLock, &kvrpcpb.ScanLockRequest{MaxVersion: 100, Limit: 1})
	lresp, err := w.store.SendReq(bo, lreq, loc.Region, time.Second)
	must(err)
	limitHonoured := len(lresp.Resp.(*kvrpcpb.ScanLockResponse).Locks) == 1
	out["scan_lock_honours_limit"] = limitHonoured
	// notify-only DeleteRange must delete nothing
	dreq := tikvrpc.NewRequest(tikvrpc.CmdDeleteRange, &kvrpcpb.DeleteRangeRequest{StartKey: []byte("p"), EndKey: []byte("pz"), NotifyOnly: true})
	_, err = w.store.SendReq(bo, dreq, loc.Region, time.Second)
	must(err)
	notifyHonoured := len(w.dump([]string{hx([]byte("p"))})[0].Writes) > 0
	out["delete_range_notify_only_honoured"] = notifyHonoured
	strict := os.Getenv("VERIF_C14_STRICT") == "1"
	mode := func(env string, needed bool) (bool, string) {
		m := os.Getenv(env)
		if strict {
			m = "off"
		}
		switch m {
		case "on":
			return true, "on"
		case "auto":
			return needed, "auto"
		}
		return false, "off" // default since the mock honours the contract (fixes F42 / F43)
	}
	n1Active, out["n1_mode"] = mode("VERIF_C14_N1", !(out["scan_lock_honours_start_key"].(bool) && limitHonoured))
	n3Active, out["n3_mode"] = mode("VERIF_C14_N3", !notifyHonoured)
	out["n1_active"], out["n3_active"] = n1Active, n3Active
	if strict {
		n2Active, n1tActive = false, false
		out["n2_active"], out["n1t_active"] = false, false
	}
	return out
}
