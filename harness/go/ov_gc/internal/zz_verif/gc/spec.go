//go:build verif

package main

import (
	"encoding/hex"
)

// ---------------------------------------------------------------- spec

type Op struct {
	Op      string `json:"op"` // prewrite | pesslock | commit | rollback
	Key     string `json:"key"`
	Primary string `json:"primary,omitempty"`
	Start   uint64 `json:"start"`
	Commit  uint64 `json:"commit,omitempty"`
	Kind    string `json:"kind,omitempty"` // put | del
	Val     string `json:"val,omitempty"`
	Pess    bool   `json:"pess,omitempty"` // prewrite of a pessimistic transaction over its own pessimistic lock
}
type Inject struct {
	At   int    `json:"at"`             // 1-based index of the gated RPC (ScanLock / ResolveLock / DeleteRange) or PD ScanRegions call
	Key  string `json:"key"`            // split the region containing this key at this key
	Kind string `json:"kind,omitempty"` // "" = split; "merge" = merge the region containing Key with its right neighbour
}
type Case struct {
	ID        int      `json:"id"`
	Kind      string   `json:"kind"` // gc | part | del | vis
	Class     string   `json:"class,omitempty"`
	Splits    []string `json:"splits"`
	Script    []Op     `json:"script,omitempty"`
	Keys      []string `json:"keys,omitempty"` // audited key universe
	SP        uint64   `json:"sp,omitempty"`
	Mode      string   `json:"mode,omitempty"` // gc: custom | phase | full
	Limit     uint32   `json:"limit,omitempty"`
	Conc      int      `json:"conc,omitempty"`
	RPT       int      `json:"rpt,omitempty"`
	S         string   `json:"s"`
	E         string   `json:"e"`
	Inj       []Inject `json:"inj,omitempty"`
	PdInj     []Inject `json:"pdinj,omitempty"`
	FailAt    int      `json:"failat,omitempty"`     // part: 1-based index (call order) of the handler call that fails; 0 = none
	Notify    bool     `json:"notify,omitempty"`     // del
	ReadTS    []uint64 `json:"readts,omitempty"`     // gc: snapshot reads after the pass; vis: read timestamps
	Cached    uint64   `json:"cached,omitempty"`     // vis: cached txn safe point
	Stale     bool     `json:"stale,omitempty"`      // vis: cache older than the allowed interval
	Path      string   `json:"path,omitempty"`       // vist: get | batchget | scan | rscan
	BatchSize int      `json:"batch_size,omitempty"` // vist: scan batch size
	TS        uint64   `json:"ts,omitempty"`         // vist: read timestamp
	VisInj    []VisInj `json:"visinj,omitempty"`     // vist: safe-point updates at chosen instants
	Faults    []Fault  `json:"faults,omitempty"`     // gc custom mode: RPC errors / cancellation during the FIRST pass
	Script2   []Op     `json:"script2,omitempty"`    // gc custom mode: more leftovers written after the first pass ...
	SP2       uint64   `json:"sp2,omitempty"`        // ... and a SECOND pass with this safe point on the same store, lock resolver and Runner object
	Raw       bool     `json:"raw,omitempty"`        // gc: no ScanLock normalisation for this case (the store's own answer)
	Barrier   uint64   `json:"barrier,omitempty"`    // gc mode full: a GC barrier that blocks the txn safe point at this ts
}

// VisInj: UpdateTxnSafePointCache(SP) at the At-th data RPC (Get/BatchGet/Scan, 1-based, arrival order) of the read:
// When = before (inside SendRequest, before the inner call) | after_inner (inside SendRequest, after the inner call
// returned, i.e. the response exists but the client has not seen it yet) | after_call (At ignored: after the API call returned)
// Fault: the At-th RPC of that kind (1-based, arrival order) is answered with an error instead of being served:
// scan_keyerr / resolve_keyerr / check_keyerr / pessrb_keyerr = a KeyError in the response body; cancel = the pass's context
// is cancelled right before the At-th ScanLock/ResolveLock is served
type Fault struct {
	At   int    `json:"at"`
	Kind string `json:"kind"`
}
type VisInj struct {
	At   int    `json:"at"`
	When string `json:"when"`
	SP   uint64 `json:"sp"`
}
type Lock struct {
	Start   uint64 `json:"start"`
	Primary string `json:"primary"`
	Kind    string `json:"kind"` // put | del | pess | lock
	Val     string `json:"val"`
}
type Write struct {
	Start  uint64 `json:"start"`
	Commit uint64 `json:"commit"`
	Kind   string `json:"kind"` // put | del | rollback | lock
	Val    string `json:"val"`
}
type Rec struct {
	Key    string  `json:"key"`
	Lock   *Lock   `json:"lock"`
	Writes []Write `json:"writes"`
}
type Event struct {
	T      string      `json:"t"` // scan | scanerr | resolve | resolveerr | check | pessrb | delrange | delerr | split | pdscan | begin | end
	N      int         `json:"n,omitempty"`
	RS     string      `json:"rs,omitempty"` // serving region
	RE     string      `json:"re,omitempty"`
	S      string      `json:"s,omitempty"`
	E      string      `json:"e,omitempty"`
	Limit  uint32      `json:"limit,omitempty"`
	MaxVer uint64      `json:"maxver,omitempty"`
	Keys   []string    `json:"keys,omitempty"`
	Raw    int         `json:"raw,omitempty"` // locks returned by the mock before normalisation
	Infos  [][2]uint64 `json:"infos,omitempty"`
	TS     uint64      `json:"ts,omitempty"`
	Commit uint64      `json:"commit,omitempty"`
	TTL    uint64      `json:"ttl,omitempty"`
	Notify bool        `json:"notify,omitempty"`
	Layout []string    `json:"layout,omitempty"`
	Cmd    string      `json:"cmd,omitempty"`
	Pairs  int         `json:"pairs,omitempty"`
	SP     uint64      `json:"sp,omitempty"`
	Err    string      `json:"err,omitempty"`
}
type Read struct {
	Key string `json:"key"`
	TS  uint64 `json:"ts"`
	Res string `json:"res"` // V<hex> | N (not exist) | gc | pdtimeout | err:<text>
}
type Result struct {
	next        *Result     // second pass of a two-pass case
	Case        Case        `json:"case"`
	SetupErr    string      `json:"setup_err,omitempty"`
	Pre         []Rec       `json:"pre,omitempty"`
	Post        []Rec       `json:"post,omitempty"`
	Err         string      `json:"err"` // error of the operation under test ("" = success)
	Events      []Event     `json:"events,omitempty"`
	Subs        [][2]string `json:"subs,omitempty"` // sub-ranges received by the handler, call order
	Locks       []string    `json:"locks_after,omitempty"`
	Reads       []Read      `json:"reads,omitempty"`
	Late        []Read      `json:"late,omitempty"` // late prewrite probes of rolled-back (key, start): refused | accepted
	ReadsBefore []Read      `json:"reads_before,omitempty"`
	Vis         []Read      `json:"vis,omitempty"`
	Layout0     []string    `json:"layout0"`
	NewSP       uint64      `json:"new_sp,omitempty"`
	Done        int         `json:"completed_regions,omitempty"`
}

func hx(b []byte) string {
	if len(b) == 0 {
		return "-"
	}
	return hex.EncodeToString(b)
}
func unhx(s string) []byte {
	if s == "-" || s == "" {
		return []byte{}
	}
	b, err := hex.DecodeString(s)
	if err != nil {
		panic(err)
	}
	return b
}
