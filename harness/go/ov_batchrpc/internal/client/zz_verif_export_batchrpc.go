//go:build verif

// Add-only white-box accessors for the C18 (BatchRPC) harness. Nothing here changes behaviour:
// the functions only read the in-flight tables (`batchCommandsClient.batched`), the `sent`
// counters and the id source (`batchCommandsBuilder.idAlloc`) of the pool serving `addr`.
package client

import (
	"sync/atomic"
	"time"

	"google.golang.org/grpc"
)

// VerifTabEntry is one entry of a batchCommandsClient.batched table.
type VerifTabEntry struct {
	Conn     string
	ID       uint64
	Host     string
	Canceled bool
}

// VerifBatchSnapshot is a point-in-time view of the batch state of one connPool.
type VerifBatchSnapshot struct {
	Found   bool
	Entries []VerifTabEntry
	Sent    []int64 // per batchCommandsClient
	Epoch   []uint64
	IDAlloc uint64 // racy read; only meaningful at quiescence
}

// VerifSnapshot reads the in-flight tables of the pool serving addr.
func VerifSnapshot(c *RPCClient, addr string) VerifBatchSnapshot {
	c.RLock()
	pool, ok := c.connPools[addr]
	c.RUnlock()
	return verifSnapshotPool(pool, ok)
}

// VerifPool returns an opaque handle to the pool serving addr (so that it can still be inspected
// after RPCClient.CloseAddr removed it from the map).
func VerifPool(c *RPCClient, addr string) interface{} {
	c.RLock()
	defer c.RUnlock()
	p, ok := c.connPools[addr]
	if !ok {
		return nil
	}
	return p
}

// VerifSnapshotPool is VerifSnapshot on a handle returned by VerifPool.
func VerifSnapshotPool(h interface{}) VerifBatchSnapshot {
	p, ok := h.(*connPool)
	return verifSnapshotPool(p, ok && p != nil)
}

func verifSnapshotPool(pool *connPool, ok bool) VerifBatchSnapshot {
	var s VerifBatchSnapshot
	if !ok || pool == nil || pool.batchConn == nil {
		return s
	}
	s.Found = true
	for _, bc := range pool.batchCommandsClients {
		bc.batched.Range(func(k, v interface{}) bool {
			e := v.(*batchCommandsEntry)
			s.Entries = append(s.Entries, VerifTabEntry{Conn: bc.connIdx, ID: k.(uint64), Host: e.forwardedHost,
				Canceled: atomic.LoadInt32(&e.canceled) == 1})
			return true
		})
		s.Sent = append(s.Sent, bc.sent.Load())
		s.Epoch = append(s.Epoch, atomic.LoadUint64(&bc.epoch))
	}
	s.IDAlloc = pool.batchConn.reqBuilder.idAlloc
	return s
}

// VerifEntryRef is an opaque reference to an in-flight entry (so that its completion channel can be looked at
// after the entry left the table).
type VerifEntryRef struct {
	Conn string
	ID   uint64
	e    *batchCommandsEntry
}

// VerifEntryRefs lists the entries currently in the tables of the pool behind handle h.
func VerifEntryRefs(h interface{}) []VerifEntryRef {
	p, ok := h.(*connPool)
	if !ok || p == nil || p.batchConn == nil {
		return nil
	}
	var out []VerifEntryRef
	for _, bc := range p.batchCommandsClients {
		bc.batched.Range(func(k, v interface{}) bool {
			out = append(out, VerifEntryRef{Conn: bc.connIdx, ID: k.(uint64), e: v.(*batchCommandsEntry)})
			return true
		})
	}
	return out
}

// State reads the canceled flag and the number of values buffered in the entry's completion channel.
func (r VerifEntryRef) State() (canceled bool, buffered int) {
	return atomic.LoadInt32(&r.e.canceled) == 1, len(r.e.res)
}

// VerifForwardKey / VerifConnIdxKey expose the metadata keys used on BatchCommands streams.
const (
	VerifForwardKey = forwardMetadataKey
	VerifConnIdxKey = batchConnIdxMetadataKey
)

// VerifCallerKey is the context key under which the harness stores the caller number of a request; the batch
// entries keep the caller's context (entry.ctx), so white-box dumps can name the caller of every entry.
type VerifCallerKey struct{}

func verifCaller(e *batchCommandsEntry) int64 {
	if e == nil || e.ctx == nil {
		return -1
	}
	if v, ok := e.ctx.Value(VerifCallerKey{}).(int64); ok {
		return v
	}
	return -1
}

// VerifRoundItem is one entry of a builder dump.
type VerifRoundItem struct {
	ID       uint64 // 0 for entries still in the priority queue
	Host     string
	Caller   int64
	Pri      uint64
	Canceled bool
}

// VerifRound is the state of batchConn.reqBuilder right after buildWithLimit: the groups built in this round (direct +
// forwarding), the entries left in the priority queue and the id source.
type VerifRound struct {
	IDAlloc uint64
	Built   []VerifRoundItem
	Left    []VerifRoundItem
}

// VerifRoundDump reads the builder. It MUST be called from the batchSendLoop goroutine (the harness calls it from
// the gRPC stream interceptor inside batchCommandsClient.send: SendMsg, or stream creation by initBatchClient),
// which is the only goroutine that touches the builder.
func VerifRoundDump(h interface{}) VerifRound {
	var r VerifRound
	p, ok := h.(*connPool)
	if !ok || p == nil || p.batchConn == nil {
		return r
	}
	b := p.batchConn.reqBuilder
	r.IDAlloc = b.idAlloc
	add := func(g *batchCommandsRequestGroup, host string) {
		if g == nil || g.req == nil {
			return
		}
		for i, id := range g.req.RequestIds {
			if i < len(g.entries) && g.entries[i] != nil {
				e := g.entries[i]
				r.Built = append(r.Built, VerifRoundItem{ID: id, Host: host, Caller: verifCaller(e), Pri: e.pri, Canceled: atomic.LoadInt32(&e.canceled) == 1})
			}
		}
	}
	add(&b.directGroup, "")
	for host, g := range b.forwardingGroups {
		add(g, host)
	}
	for _, it := range b.entries.all() {
		e := it.(*batchCommandsEntry)
		r.Left = append(r.Left, VerifRoundItem{Host: e.forwardedHost, Caller: verifCaller(e), Pri: e.pri, Canceled: atomic.LoadInt32(&e.canceled) == 1})
	}
	return r
}

// VerifStreamExists tells whether the batch client of connection conn already has a stream for host. Called from the
// stream interceptor: false means the stream is being created by initBatchClient (send loop goroutine), true means
// it is being re-created by a recv loop (which holds the re-create lock, so the maps are stable).
func VerifStreamExists(h interface{}, conn string, host string) bool {
	p, ok := h.(*connPool)
	if !ok || p == nil || p.batchConn == nil {
		return true
	}
	for _, bc := range p.batchCommandsClients {
		if bc.connIdx != conn {
			continue
		}
		if host == "" {
			return bc.client != nil
		}
		_, ok := bc.forwardedClients[host]
		return ok
	}
	return true
}

// VerifFireIdleTimer makes the idle timer of the pool serving addr expire after d, as if no request had arrived for
// idleTimeout (a constant of 3 minutes that cannot be configured). This is fault injection like a failpoint: it does
// not change what the code does when the timer fires (batchSendLoop marks the batchConn idle, notifies the RPCClient
// and returns; the next request triggers recycleIdleConnArray).
func VerifFireIdleTimer(c *RPCClient, addr string, d time.Duration) bool {
	c.RLock()
	pool, ok := c.connPools[addr]
	c.RUnlock()
	if !ok || pool == nil || pool.batchConn == nil {
		return false
	}
	pool.batchConn.idleDetect.Reset(d)
	return true
}

// VerifPoolHasConn tells whether cc is one of the gRPC connections of the pool behind the handle (so that the events of
// a stream can be attributed to the right GENERATION of the pool of an address after CloseAddr re-created it).
func VerifPoolHasConn(h interface{}, cc *grpc.ClientConn) bool {
	p, ok := h.(*connPool)
	if !ok || p == nil {
		return false
	}
	for _, c := range p.conns {
		if c != nil && c.ClientConn == cc {
			return true
		}
	}
	return false
}
