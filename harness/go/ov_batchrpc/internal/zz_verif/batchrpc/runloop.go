//go:build verif

package main

import (
	"context"
	"fmt"
	"math/rand"
	"sort"
	"strings"
	"sync"
	"time"

	"github.com/tikv/client-go/v2/util/async"
)

// ---------------------------------------------------------------- direct differential on util/async.RunLoop
// Random scripts: callbacks 0..n-1, some appended up front, the others appended by a running callback (re-entrant Append,
// one call or several) -- mode "seq" (one goroutine: the execution order is determined) -- or, mode "conc", additionally by
// a second goroutine while Exec is running.  Line: RL <mode> <init> <spawn t:a,b|..> <observed order>.
func runLoopDifferential(r *rand.Rand, n int) {
	for k := 0; k < n; k++ {
		mode := "seq"
		if k%3 == 2 {
			mode = "conc"
		}
		total := 3 + r.Intn(20)
		ninit := 1 + r.Intn(minInt(total, 6))
		spawn := map[int][]int{}
		next := ninit
		for t := 0; t < next && next < total; t++ { // t < next: only callbacks that exist spawn others
			m := r.Intn(4)
			for j := 0; j < m && next < total; j++ {
				spawn[t] = append(spawn[t], next)
				next++
			}
		}
		for next < total { // whoever is left is spawned by the last callback that spawns anything (or callback 0)
			spawn[0] = append(spawn[0], next)
			next++
		}
		extra := 0
		if mode == "conc" {
			extra = 1 + r.Intn(6)
		}
		loop := async.NewRunLoop()
		var mu sync.Mutex
		var order []int
		var mk func(t int) func()
		oneByOne := r.Intn(2) == 0
		mk = func(t int) func() {
			return func() {
				mu.Lock()
				order = append(order, t)
				mu.Unlock()
				if mode == "conc" {
					time.Sleep(time.Duration(r.Intn(150)) * time.Microsecond)
				}
				var fs []func()
				for _, c := range spawn[t] {
					fs = append(fs, mk(c))
				}
				if oneByOne {
					for _, f := range fs {
						loop.Append(f)
					}
				} else {
					loop.Append(fs...)
				}
			}
		}
		var init []func()
		for t := 0; t < ninit; t++ {
			init = append(init, mk(t))
		}
		loop.Append(init...)
		ctx, cancel := context.WithTimeout(context.Background(), 2*time.Second)
		var wg sync.WaitGroup
		if extra > 0 {
			wg.Add(1)
			go func() {
				defer wg.Done()
				for j := 0; j < extra; j++ {
					time.Sleep(time.Duration(50+j*40) * time.Microsecond)
					loop.Append(mk(1000 + j))
				}
			}()
		}
		done := func() bool { mu.Lock(); defer mu.Unlock(); return len(order) >= total+extra }
		for !done() && ctx.Err() == nil {
			loop.Exec(ctx)
		}
		cancel()
		wg.Wait()
		var ib, sb, ob strings.Builder
		for t := 0; t < ninit; t++ {
			fmt.Fprintf(&ib, "%d,", t)
		}
		keys := make([]int, 0, len(spawn))
		for t := range spawn {
			keys = append(keys, t)
		}
		sort.Ints(keys)
		for _, t := range keys {
			fmt.Fprintf(&sb, "%d:", t)
			for _, c := range spawn[t] {
				fmt.Fprintf(&sb, "%d,", c)
			}
			sb.WriteByte('|')
		}
		mu.Lock()
		for _, t := range order {
			fmt.Fprintf(&ob, "%d,", t)
		}
		mu.Unlock()
		outMu.Lock()
		fmt.Fprintf(out, "RL\t%s\t%s\t%s\t%d\t%s\n", mode, ib.String(), sb.String(), extra, ob.String())
		outMu.Unlock()
	}
}

func minInt(a, b int) int {
	if a < b {
		return a
	}
	return b
}
