//go:build verif

package main

import (
	"math/rand"
	"os"

	"github.com/tikv/client-go/v2/config"
)

// ---------------------------------------------------------------- scenario generation

func genScenario(r *rand.Rand, id int, class string) *Scenario {
	sc := &Scenario{ID: id, Class: class, Seed: r.Int63(), Conns: 1, NHosts: 1, MaxBatch: 128}
	n := []int{1, 2, 3, 5, 8, 13, 24, 40, 64}[r.Intn(9)]
	normalTo := 3000
	addCallers := func(n int, f func(i int, cs *CallerSpec)) {
		for i := 0; i < n; i++ {
			cs := CallerSpec{Host: r.Intn(sc.NHosts), Kind: r.Intn(4), TimeoutMs: normalTo, CancelUs: -1, StartUs: r.Int63n(20000)}
			if r.Intn(4) == 0 {
				cs.Pri = []int{1, 5, 9, 10, 11, 16}[r.Intn(6)]
			}
			if f != nil {
				f(i, &cs)
			}
			sc.Callers = append(sc.Callers, cs)
		}
	}
	sc.DelayUs = []int64{0, 200, 2000, 10000}[r.Intn(4)]
	sc.Reorder = []float64{0, 0.5, 1}[r.Intn(3)]
	switch class {
	case "plain": // concurrency, priorities, request mixes, reordering, duplicates, unknown ids
		sc.Dup = []float64{0, 0.3}[r.Intn(2)]
		sc.Unknown = []float64{0, 0.3}[r.Intn(2)]
		sc.Policy = []string{"", config.BatchPolicyBasic, config.BatchPolicyPositive}[r.Intn(3)]
		if r.Intn(3) == 0 {
			sc.Limit = int64(1 + r.Intn(6))
		}
		if r.Intn(3) == 0 {
			sc.WaitUs = 500
		}
		if r.Intn(3) == 0 {
			sc.MaxBatch = uint(1 + r.Intn(8))
		}
		addCallers(n, nil)
	case "forward": // several forwarded hosts share one table; one stream is killed while the others carry traffic
		sc.NHosts = 2 + r.Intn(3)
		sc.DelayUs = 3000 + r.Int63n(15000)
		sc.Dup = []float64{0, 0.2}[r.Intn(2)]
		if r.Intn(3) == 0 {
			sc.Limit = int64(2 + r.Intn(6))
		}
		addCallers(n+4, nil)
		nf := 1 + r.Intn(4)
		for i := 0; i < nf; i++ {
			sc.Faults = append(sc.Faults, Fault{AtUs: 3000 + r.Int63n(30000), Kind: []string{"kill", "kill", "recvfail", "sendfail"}[r.Intn(4)], Host: r.Intn(sc.NHosts), N: 1 + r.Intn(2)})
		}
	case "streamfail": // the stream breaks (server kill, injected recv/send/create failures, connection restart) during traffic
		sc.NHosts = 1 + r.Intn(2)
		sc.DelayUs = 2000 + r.Int63n(10000)
		addCallers(n+2, func(i int, cs *CallerSpec) { cs.StartUs = r.Int63n(60000) })
		nf := 1 + r.Intn(5)
		for i := 0; i < nf; i++ {
			k := []string{"kill", "killall", "recvfail", "sendfail", "initfail", "restart"}[r.Intn(6)]
			f := Fault{AtUs: r.Int63n(60000), Kind: k, Host: r.Intn(sc.NHosts), N: 1 + r.Intn(3)}
			if k == "restart" {
				f.N = 5 + r.Intn(40)
			}
			if k == "initfail" && r.Intn(2) == 0 {
				f.AtUs = 0
			}
			sc.Faults = append(sc.Faults, f)
		}
	case "cancel": // cancellation points and time-outs, unanswered requests
		sc.NHosts = 1 + r.Intn(2)
		sc.DelayUs = 5000 + r.Int63n(30000)
		sc.Blackhole = []float64{0, 0.2, 0.5}[r.Intn(3)]
		addCallers(n+2, func(i int, cs *CallerSpec) {
			switch r.Intn(3) {
			case 0:
				cs.CancelUs = r.Int63n(40000)
			case 1:
				cs.TimeoutMs = 5 + r.Intn(60)
			default:
				if sc.Blackhole > 0 {
					cs.TimeoutMs = 100 + r.Intn(200)
				}
			}
		})
		if r.Intn(2) == 0 {
			sc.Faults = append(sc.Faults, Fault{AtUs: 10000 + r.Int63n(40000), Kind: "kill", Host: r.Intn(sc.NHosts)})
		}
	case "close": // the pool / client is closed during traffic
		sc.NHosts = 1 + r.Intn(2)
		sc.DelayUs = 3000 + r.Int63n(20000)
		addCallers(n+2, func(i int, cs *CallerSpec) { cs.StartUs = r.Int63n(40000); cs.TimeoutMs = 400 })
		sc.Faults = append(sc.Faults, Fault{AtUs: 2000 + r.Int63n(30000), Kind: []string{"close", "closeaddr"}[r.Intn(2)]})
	case "staleepoch": // a forwarded and the direct stream fail one after the other (per-loop epoch)
		sc.NHosts = 2
		sc.DelayUs = 60000
		sc.Reorder = 0
		addCallers(4+r.Intn(6), func(i int, cs *CallerSpec) {
			cs.Host = i % 2
			cs.StartUs = r.Int63n(3000)
			cs.TimeoutMs = 300
			cs.Pri = 0
		})
		a, b := r.Intn(2), 0
		b = 1 - a
		sc.Faults = append(sc.Faults, Fault{AtUs: 15000, Kind: "kill", Host: a}, Fault{AtUs: 30000, Kind: "kill", Host: b})
	case "rebreak": // a stream breaks repeatedly: first with nothing pending (one loop loses the epoch CAS), later with
		// requests pending on it -- sync calls with a normal / a 30 s time-out and async calls without deadline
		sc.NHosts = 2 + r.Intn(2)
		sc.DelayUs, sc.Reorder = 200, 0
		a := r.Intn(sc.NHosts)
		b := (a + 1 + r.Intn(sc.NHosts-1)) % sc.NHosts
		for h := 0; h < sc.NHosts; h++ { // phase 1: create every stream, nothing stays pending
			for k := 0; k < 1+r.Intn(2); k++ {
				sc.Callers = append(sc.Callers, CallerSpec{Host: h, Kind: r.Intn(4), TimeoutMs: normalTo, CancelUs: -1, StartUs: r.Int63n(4000)})
			}
		}
		// phase 2: both streams break with nothing pending; a's loop wins the CAS, b's loses (and refreshes)
		sc.Faults = append(sc.Faults, Fault{AtUs: 40000, Kind: "kill", Host: a}, Fault{AtUs: 55000, Kind: "kill", Host: b})
		target := b
		if r.Intn(2) == 0 { // b breaks once more, still with nothing pending
			sc.Faults = append(sc.Faults, Fault{AtUs: 70000, Kind: "kill", Host: b})
		} else if r.Intn(4) == 0 {
			target = a
		}
		// phase 3: slow requests pending on the target stream (and quick ones elsewhere), then it breaks again
		np := 1 + r.Intn(5)
		for k := 0; k < np; k++ {
			cs := CallerSpec{Host: target, Kind: r.Intn(4), TimeoutMs: normalTo, CancelUs: -1, StartUs: 100000 + r.Int63n(15000), SlowMs: 400}
			switch r.Intn(3) {
			case 0:
				cs.Long = true
			case 1:
				cs.Long, cs.Async = true, true
			}
			if k == 0 && !cs.Long {
				cs.Long, cs.Async = true, r.Intn(2) == 0
			}
			sc.Callers = append(sc.Callers, cs)
		}
		for k := 0; k < r.Intn(3); k++ {
			h := r.Intn(sc.NHosts)
			if h == target {
				continue
			}
			sc.Callers = append(sc.Callers, CallerSpec{Host: h, Kind: r.Intn(4), TimeoutMs: normalTo, CancelUs: -1, StartUs: 100000 + r.Int63n(15000), SlowMs: 20, Async: r.Intn(2) == 0})
		}
		sc.Faults = append(sc.Faults, Fault{AtUs: 140000, Kind: "kill", Host: target})
		if r.Intn(3) == 0 { // and once more, with new requests pending
			for k := 0; k < 1+r.Intn(2); k++ {
				sc.Callers = append(sc.Callers, CallerSpec{Host: target, Kind: r.Intn(4), TimeoutMs: normalTo, CancelUs: -1, StartUs: 170000 + r.Int63n(5000), SlowMs: 400, Long: true, Async: r.Intn(2) == 0})
			}
			sc.Faults = append(sc.Faults, Fault{AtUs: 200000, Kind: "kill", Host: target})
		}
	case "staleasync": // calls without deadline (sync 30 s / async) pending on the stream whose loop LOSES the epoch CAS:
		// they must be failed by the stream error like the winner's (fix a827fda), not left in flight
		sc.NHosts = 2
		sc.DelayUs, sc.Reorder = 200, 0
		a := r.Intn(2)
		for i := 0; i < 2+r.Intn(3); i++ {
			sc.Callers = append(sc.Callers, CallerSpec{Host: 1 - a, Kind: r.Intn(4), TimeoutMs: normalTo, CancelUs: -1, StartUs: r.Int63n(3000), SlowMs: 400, Long: true, Async: i%2 == 0})
		}
		sc.Callers = append(sc.Callers, CallerSpec{Host: a, Kind: r.Intn(4), TimeoutMs: normalTo, CancelUs: -1, StartUs: r.Int63n(3000), SlowMs: 400})
		sc.Faults = append(sc.Faults, Fault{AtUs: 15000, Kind: "kill", Host: a}, Fault{AtUs: 30000, Kind: "kill", Host: 1 - a})
	case "limitbatch": // a finite MaxConcurrencyRequestLimit and whole batches of mixed priorities built at once: the failpoint
		// holds every batch before buildWithLimit, so the requests of a wave land in ONE build; high-priority (>= 10) and
		// already cancelled entries use up the first Take without counting, more normal requests are queued than slots
		// remain -> second Take round; most normal requests are long / no-deadline calls (must complete in the drain phase)
		sc.NHosts = 1 + r.Intn(2)
		sc.Limit = int64(1 + r.Intn(3))
		sc.DelayUs, sc.Reorder = 200, 0
		hold := 8 + r.Intn(10)
		sc.Faults = append(sc.Faults, Fault{AtUs: 0, Kind: "senddelay", N: hold})
		sc.Callers = append(sc.Callers, CallerSpec{Kind: 0, TimeoutMs: normalTo, CancelUs: -1, StartUs: 500}) // opens the first hold
		waves := 1 + r.Intn(3)
		for w := 0; w < waves; w++ {
			base := int64(2000 + w*(hold+6)*1000)
			nhi := r.Intn(3)
			ncanc := r.Intn(3)
			nnorm := int(sc.Limit) + 1 + r.Intn(4)
			for i := 0; i < nhi; i++ {
				sc.Callers = append(sc.Callers, CallerSpec{Host: r.Intn(sc.NHosts), Pri: []int{10, 12, 16}[r.Intn(3)], Kind: r.Intn(4), TimeoutMs: normalTo, CancelUs: -1, StartUs: base + r.Int63n(2000)})
			}
			for i := 0; i < ncanc; i++ { // gives up while it sits in the channel / builder
				sc.Callers = append(sc.Callers, CallerSpec{Host: r.Intn(sc.NHosts), Pri: []int{0, 5, 12}[r.Intn(3)], Kind: r.Intn(4), TimeoutMs: normalTo, CancelUs: base + 2500 + r.Int63n(2000), StartUs: base + r.Int63n(2000)})
			}
			for i := 0; i < nnorm; i++ {
				cs := CallerSpec{Host: r.Intn(sc.NHosts), Pri: []int{0, 0, 1, 9}[r.Intn(4)], Kind: r.Intn(4), TimeoutMs: normalTo, CancelUs: -1, StartUs: base + r.Int63n(2000), SlowMs: []int{0, 0, 30}[r.Intn(3)]}
				switch r.Intn(4) {
				case 0:
					cs.Long = true
				case 1, 2:
					cs.Long, cs.Async = true, true
				default:
					cs.TimeoutMs = 300 // may be left in the builder until its time-out when nothing else arrives
				}
				sc.Callers = append(sc.Callers, cs)
			}
		}
	case "runloop": // several SendRequestAsync calls whose callbacks run on ONE shared async.RunLoop; the responses arrive 1 ms
		// apart while a callback keeps the loop in its round for a few ms, so callbacks are appended to the loop while a
		// round with several queued callbacks is executing; every callback must run exactly once
		sc.NHosts = 1 + r.Intn(2)
		sc.RunLoop = true
		sc.DelayUs, sc.Reorder = 100, 0
		k := 8 + r.Intn(10)
		for i := 0; i < k; i++ {
			sc.Callers = append(sc.Callers, CallerSpec{Host: r.Intn(sc.NHosts), Kind: r.Intn(4), TimeoutMs: normalTo, CancelUs: -1, StartUs: r.Int63n(2000),
				SlowMs: 15 + i + r.Intn(2), Async: true, Long: r.Intn(4) != 0, CbMs: 2 + r.Intn(4)})
		}
	case "collapse": // ResolveLock through the wrapper stack of tikv/kv.go: callers with the same (region, start version) share one
		// flight; the caller that started it is often cancelled / times out while the server still holds the request: every
		// other caller must get the shared response, not the leader's error; different keys are never collapsed
		sc.NHosts = 1
		sc.Collapse = true
		sc.HoldMs = 30 + r.Intn(30)
		sc.DelayUs, sc.Reorder = 200, 0
		nkeys := 1 + r.Intn(3)
		for kx := 0; kx < nkeys; kx++ {
			key := 100*(id%90) + 10*(kx+1) // unique per scenario: the singleflight group is a package global
			m := 2 + r.Intn(3)
			// request pairs on one (region, start version) that are equal or differ in exactly ONE component of the command --
			// TxnInfos (batch resolve), Keys (resolve lock lite), region -- overlapping in time, through the sync and the async
			// entry of the wrapper: only equal plain full-region requests may share a flight
			pair := [][2]int{{0, 0}, {0, 1}, {1, 2}, {1, 1}, {0, 3}, {0, 5}, {2, 1}, {3, 3}, {1, 0}}[r.Intn(9)]
			if os.Getenv("VERIF_C18_COMMITVAR") == "1" && r.Intn(3) == 0 {
				pair = [2]int{0, 4}
			}
			allAsync := r.Intn(2) == 0
			if r.Intn(2) == 0 {
				// LEADER ABORT (seed C18-6): equal plain requests, so the followers join the flight of the first caller; that
				// caller -- a sync call -- is cancelled, or its own context's deadline passes, at a random point of the
				// server's hold; every follower (sync or async, own context alive, own time-out 3 s >= 50x the hold) must
				// get the shared RESPONSE, never the leader's cancellation / deadline error
				at := 8000 + r.Int63n(int64(sc.HoldMs)*1000-13000)
				for i := 0; i < m; i++ {
					cs := CallerSpec{Kind: 4, Key: key, Var: 0, TimeoutMs: normalTo, CancelUs: -1, StartUs: int64(i)*1500 + r.Int63n(500), Async: i > 0 && r.Intn(2) == 0}
					if i == 0 {
						if r.Intn(2) == 0 {
							cs.CancelUs = at
						} else {
							cs.CtxUs = at
						}
					}
					sc.Callers = append(sc.Callers, cs)
				}
				continue
			}
			for i := 0; i < m; i++ {
				cs := CallerSpec{Kind: 4, Key: key, Var: pair[i%2], TimeoutMs: normalTo, CancelUs: -1, StartUs: int64(i)*1500 + r.Int63n(500), Async: allAsync || r.Intn(3) == 0}
				if i == 0 { // the caller that starts the shared request
					switch r.Intn(3) {
					case 0:
						cs.CancelUs = 5000 + r.Int63n(10000)
					case 1:
						cs.TimeoutMs = 8 + r.Intn(10)
					}
				} else if r.Intn(5) == 0 {
					cs.CancelUs = 6000 + r.Int63n(10000)
				}
				sc.Callers = append(sc.Callers, cs)
			}
		}
	case "idle": // idle recycling: the idle timer of the pool is made to expire (read-only export hook: idleTimeout is a 3 min
		// constant) while a trickle of calls is running: batchSendLoop marks the conn idle and returns, calls get
		// "rpcClient is idle", the next call triggers recycleIdleConnArray (CloseAddrVer), later calls use a new pool. Every
		// call must return exactly once, also async calls without deadline that are enqueued just when the send loop exits on
		// the idle timer (regression class for fix F40).
		sc.NHosts = 1 + r.Intn(2)
		sc.DelayUs, sc.Reorder = 200, 0
		k := 40 + r.Intn(60)
		for i := 0; i < k; i++ {
			cs := CallerSpec{Host: r.Intn(sc.NHosts), Kind: r.Intn(4), TimeoutMs: 250, CancelUs: -1, StartUs: int64(i)*300 + r.Int63n(200), Async: r.Intn(2) == 0}
			if cs.Async && r.Intn(3) != 0 {
				cs.Long = true // no deadline: must be failed ("rpcClient is idle" / "batchConn closed") or answered, never orphaned
			}
			sc.Callers = append(sc.Callers, cs)
		}
		for i := 0; i < 2+r.Intn(4); i++ {
			sc.Faults = append(sc.Faults, Fault{AtUs: 2000 + r.Int63n(int64(k)*300), Kind: "idle", N: 1})
		}
	case "mixedexit": // the contents of batchCommandsCh when the send loop EXITS: while the loop is held in getClientAndSend
		// (repo failpoint mockBatchClientSendDelay) a MIXED sequence of sync calls and async calls without deadline piles up
		// in the channel -- a sync entry ahead of async ones, async ones between sync ones -- and the pool is closed (Close /
		// CloseAddr) or its idle timer fires; when the loop comes back its select picks the exit or a queued entry at random.
		// Every queued async entry must be failed by the drain whatever stands in front of it (seed C18-10).
		sc.NHosts = 1
		sc.DelayUs, sc.Reorder = 200, 0
		hold := 25 + r.Intn(15)
		sc.Callers = append(sc.Callers, CallerSpec{Kind: 0, TimeoutMs: normalTo, CancelUs: -1, StartUs: 0}) // establishes the stream
		sc.Faults = append(sc.Faults, Fault{AtUs: 6000, Kind: "senddelay", N: hold})
		sc.Callers = append(sc.Callers, CallerSpec{Kind: r.Intn(4), TimeoutMs: 400, CancelUs: -1, StartUs: 8000}) // keeps the loop busy
		t := int64(11000)
		k := 2 + r.Intn(7)
		first := r.Intn(4) // mostly a sync entry at the head of the queue
		for i := 0; i < k; i++ {
			as := r.Intn(2) == 0
			if i == 0 {
				as = first == 0
			}
			if i == 1 && first != 0 {
				as = true
			}
			cs := CallerSpec{Kind: r.Intn(4), TimeoutMs: 400, CancelUs: -1, StartUs: t, Async: as, Long: as}
			if as && r.Intn(6) == 0 {
				cs.Long = false // an async call with a deadline
			}
			sc.Callers = append(sc.Callers, cs)
			t += 600 + r.Int63n(900) // spaced: the order in the channel is the order of the starts
		}
		at := t + 1000 + r.Int63n(3000)
		switch r.Intn(3) {
		case 0:
			sc.Faults = append(sc.Faults, Fault{AtUs: at, Kind: "close"})
		case 1:
			sc.Faults = append(sc.Faults, Fault{AtUs: at, Kind: "closeaddr"})
		default:
			sc.Faults = append(sc.Faults, Fault{AtUs: at, Kind: "idle", N: 1})
		}
	case "regen": // the pool of the address is closed by CloseAddr and re-created by the next call, two or three times, during
		// traffic: every GENERATION of the pool is followed white-box (each starts its ids at 1 again); sync calls, async
		// calls with deadline and (when nothing is killed) async calls without deadline
		sc.NHosts = 1 + r.Intn(2)
		sc.DelayUs = 500 + r.Int63n(6000)
		k := 12 + r.Intn(40)
		span := int64(60000)
		for i := 0; i < k; i++ {
			cs := CallerSpec{Host: r.Intn(sc.NHosts), Kind: r.Intn(4), TimeoutMs: 400, CancelUs: -1, StartUs: r.Int63n(span), Async: r.Intn(3) == 0}
			switch r.Intn(8) {
			case 0:
				cs.CancelUs = r.Int63n(20000)
			case 1:
				cs.TimeoutMs = 5 + r.Intn(40)
			}
			if cs.Async && cs.CancelUs < 0 && r.Intn(2) == 0 {
				cs.Long = true
			}
			sc.Callers = append(sc.Callers, cs)
		}
		for i, m := 0, 2+r.Intn(2); i < m; i++ {
			sc.Faults = append(sc.Faults, Fault{AtUs: 3000 + int64(i)*span/int64(m) + r.Int63n(span/int64(m)-4000), Kind: "closeaddr"})
		}
	case "rcglue": // the resource-control / RPC-interceptor wrapper (NewInterceptedClient): a scripted resource-group controller gives
		// groups a priority (used only when the request sets no override priority), lets OnRequestWait / OnResponseWait fail
		// for some calls, treats one group as background; RPC interceptors on some contexts; sync and async calls, small limit
		// so that priorities matter
		sc.RC = true
		sc.NHosts = 1 + r.Intn(2)
		sc.DelayUs = 500 + r.Int63n(3000)
		if r.Intn(2) == 0 {
			sc.Limit = int64(1 + r.Intn(3))
		}
		addCallers(n+4, func(i int, cs *CallerSpec) {
			cs.StartUs = r.Int63n(6000)
			cs.Pri = []int{0, 0, 0, 3, 11}[r.Intn(5)]
			cs.Group = []int{0, 1, 2, 3, 9}[r.Intn(5)]
			cs.Async = r.Intn(3) == 0
			cs.Icpt = r.Intn(2) == 0
			if r.Intn(6) == 0 {
				cs.Gate = 1 + r.Intn(2)
			}
			if r.Intn(5) == 0 {
				cs.Long = true
			}
		})
	case "limitstarve": // regression class for fix 7ad2a8a: a finite limit, one wave built at once, NO further traffic: the
		// requests left in the builder must be sent as soon as capacity is released (retry timer), not only when another
		// request happens to arrive
		sc.NHosts = 1
		sc.Limit = int64(1 + r.Intn(3))
		sc.DelayUs, sc.Reorder = 200, 0
		sc.Faults = append(sc.Faults, Fault{AtUs: 0, Kind: "senddelay", N: 10 + r.Intn(8)})
		sc.Callers = append(sc.Callers, CallerSpec{Kind: 0, TimeoutMs: normalTo, CancelUs: -1, StartUs: 0})
		for i := 0; i < int(sc.Limit)+1+r.Intn(4); i++ {
			sc.Callers = append(sc.Callers, CallerSpec{Pri: []int{0, 0, 5}[r.Intn(3)], Kind: r.Intn(4), TimeoutMs: normalTo, CancelUs: -1, StartUs: 3000 + r.Int63n(1500), SlowMs: []int{0, 20}[r.Intn(2)], Long: true, Async: r.Intn(2) == 0})
		}
	case "builder": // the builder: mixed priorities (high ones bypass the limit), a small concurrency limit so that entries
		// stay in the priority queue across rounds, callers that give up while still queued, forwarding buckets
		sc.NHosts = 1 + r.Intn(3)
		sc.DelayUs = 1000 + r.Int63n(6000)
		sc.Limit = int64(1 + r.Intn(4))
		sc.Reorder = 0.5
		if r.Intn(2) == 0 {
			sc.MaxBatch = uint(2 + r.Intn(6))
		}
		addCallers(n+6, func(i int, cs *CallerSpec) {
			cs.Pri = []int{0, 0, 1, 5, 9, 10, 12, 16}[r.Intn(8)]
			cs.StartUs = r.Int63n(8000)
			cs.Async = r.Intn(4) == 0
			if r.Intn(5) == 0 {
				cs.Long = true
				return
			}
			switch r.Intn(4) {
			case 0:
				cs.CancelUs = r.Int63n(6000) // often before the entry is built
			case 1:
				cs.TimeoutMs = 1 + r.Intn(8)
			}
		})
	case "recvpanic": // response batches with an id that lacks its response: batchRecvLoop panics between Load and deliver,
		// restarts on the same stream; the proper response follows; sometimes the stream breaks afterwards
		sc.NHosts = 1 + r.Intn(2)
		sc.DelayUs = 1000 + r.Int63n(4000)
		sc.Reorder = 0.5
		addCallers(n+3, func(i int, cs *CallerSpec) {
			cs.StartUs = r.Int63n(30000)
			cs.Async = r.Intn(3) == 0
			cs.Long = r.Intn(3) == 0 // must still be answered by the restarted loop (drain phase)
		})
		for k := 0; k < 1+r.Intn(3); k++ {
			sc.Faults = append(sc.Faults, Fault{AtUs: r.Int63n(25000), Kind: "recvpanic", N: 1 + r.Intn(2)})
		}
		if r.Intn(2) == 0 {
			sc.Faults = append(sc.Faults, Fault{AtUs: 10000 + r.Int63n(20000), Kind: "kill", Host: r.Intn(sc.NHosts)})
		}
	case "failpanic": // panic at the start of failPendingRequests (repo failpoint) while requests are pending on the broken
		// stream: nothing may be lost, the restarted loop fails them on the next Recv error
		sc.NHosts = 1 + r.Intn(2)
		sc.DelayUs, sc.Reorder = 200, 0
		tgt := r.Intn(sc.NHosts)
		addCallers(2+r.Intn(5), func(i int, cs *CallerSpec) {
			cs.StartUs = r.Int63n(5000)
			cs.SlowMs = 300
			if i%2 == 0 {
				cs.Host = tgt
			}
			switch r.Intn(3) {
			case 0:
				cs.Long = true
			case 1:
				cs.Long, cs.Async = true, true
			}
		})
		sc.Faults = append(sc.Faults, Fault{AtUs: 15000, Kind: "failpanic", N: 1}, Fault{AtUs: 20000, Kind: "kill", Host: tgt})
	case "twopools": // two stores (own server, address, pool, id source) used concurrently: both hand out ids 1,2,3,... and use
		// the same forwarded-host names; a response must never cross over
		sc.Pools = 2
		sc.NHosts = 1 + r.Intn(3)
		sc.DelayUs = 1000 + r.Int63n(8000)
		sc.Dup = []float64{0, 0.2}[r.Intn(2)]
		addCallers(n+6, func(i int, cs *CallerSpec) { cs.Pool = i % 2; cs.StartUs = r.Int63n(6000); cs.Async = r.Intn(4) == 0 })
		for k := 0; k < r.Intn(3); k++ {
			sc.Faults = append(sc.Faults, Fault{AtUs: 2000 + r.Int63n(10000), Kind: []string{"kill", "recvfail", "sendfail"}[r.Intn(3)], Host: r.Intn(sc.NHosts), Pool: r.Intn(2), N: 1})
		}
	case "nonbatch": // MaxBatchSize = 0: sendRequest takes the unary path (tikvrpc.CallRPC with a time-out context); time-outs,
		// cancellation, server restart and Close while calls are pending; SendRequestAsync must fail at once
		sc.NoBatch = true
		sc.NHosts = 1 + r.Intn(2)
		addCallers(n+4, func(i int, cs *CallerSpec) {
			cs.Kind = []int{0, 1, 3}[r.Intn(3)]
			cs.StartUs = r.Int63n(20000)
			cs.SlowMs = []int{0, 5, 40, 200}[r.Intn(4)]
			cs.Async = r.Intn(6) == 0
			switch r.Intn(4) {
			case 0:
				cs.CancelUs = r.Int63n(30000)
			case 1:
				cs.TimeoutMs = 5 + r.Intn(60)
			default:
				cs.TimeoutMs = 400
			}
			if r.Intn(8) == 0 { // the server sits on the call far beyond its time-out
				cs.SlowMs, cs.TimeoutMs, cs.CancelUs, cs.Async = 7000, 40+r.Intn(80), -1, false
			}
		})
		switch r.Intn(3) {
		case 0:
			sc.Faults = append(sc.Faults, Fault{AtUs: 5000 + r.Int63n(20000), Kind: []string{"close", "closeaddr"}[r.Intn(2)]})
		case 1:
			sc.Faults = append(sc.Faults, Fault{AtUs: 5000 + r.Int63n(20000), Kind: "restart", N: 5 + r.Intn(30)})
		}
	case "asyncclose": // regression class for fix 000f10e: SendRequestAsync calls without deadline racing with RPCClient.Close --
		// an entry on batchCommandsCh when batchSendLoop returns (or enqueued afterwards) must be failed, not orphaned
		sc.Callers = append(sc.Callers, CallerSpec{Kind: 0, TimeoutMs: normalTo, CancelUs: -1, StartUs: 1000})
		for i := 0; i < 300; i++ {
			sc.Callers = append(sc.Callers, CallerSpec{Kind: i % 4, TimeoutMs: normalTo, CancelUs: -1, StartUs: 29500 + r.Int63n(1200), Async: true, Long: true})
		}
		sc.Faults = append(sc.Faults, Fault{AtUs: 30000, Kind: "close"})
	case "sendpanic": // the send loop panics and restarts while slow requests with small ids are in flight; later
		// requests stay in flight long enough to meet the responses of the earlier ones
		sc.NHosts = 1 + r.Intn(2)
		sc.DelayUs, sc.Reorder = 200, 0
		k := 1 + r.Intn(4)
		for i := 0; i < k; i++ {
			sc.Callers = append(sc.Callers, CallerSpec{Host: r.Intn(sc.NHosts), Kind: r.Intn(4), TimeoutMs: normalTo, CancelUs: -1, StartUs: r.Int63n(3000), SlowMs: 60 + r.Intn(30)})
		}
		sc.Faults = append(sc.Faults, Fault{AtUs: 10000, Kind: "sendpanic", N: 1})
		m := k + 2 + r.Intn(4)
		for i := 0; i < m; i++ {
			sc.Callers = append(sc.Callers, CallerSpec{Host: r.Intn(sc.NHosts), Kind: r.Intn(4), TimeoutMs: normalTo, CancelUs: -1, StartUs: 15000 + r.Int63n(20000), SlowMs: 120 + r.Intn(40), Async: r.Intn(3) == 0})
		}
		if r.Intn(3) == 0 { // a second panic later
			sc.Faults = append(sc.Faults, Fault{AtUs: 45000, Kind: "sendpanic", N: 1})
		}
		for i := 0; i < 3; i++ { // late quick requests: they also push out whatever a panicking round left in the builder
			sc.Callers = append(sc.Callers, CallerSpec{Host: r.Intn(sc.NHosts), Kind: r.Intn(4), TimeoutMs: normalTo, CancelUs: -1, StartUs: 50000 + int64(i)*6000})
		}
	case "multiconn": // several connections share the id source (black-box oracles only)
		sc.Conns = uint(2 + r.Intn(3))
		sc.NHosts = 1 + r.Intn(3)
		sc.DelayUs = 1000 + r.Int63n(8000)
		sc.Dup = 0.2
		addCallers(n+8, nil)
		nf := r.Intn(4)
		for i := 0; i < nf; i++ {
			sc.Faults = append(sc.Faults, Fault{AtUs: 3000 + r.Int63n(30000), Kind: []string{"kill", "killall", "recvfail", "sendfail"}[r.Intn(4)], Host: r.Intn(sc.NHosts), N: 1})
		}
	}
	return sc
}
