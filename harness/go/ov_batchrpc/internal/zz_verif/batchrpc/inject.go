//go:build verif

package main

import (
	"context"
	"fmt"
	"sort"
	"strings"
	"sync"
	"sync/atomic"

	"github.com/pingcap/kvproto/pkg/tikvpb"
	"github.com/pkg/errors"
	"github.com/tikv/client-go/v2/internal/client"
	"google.golang.org/grpc"
	"google.golang.org/grpc/metadata"
)

// ---------------------------------------------------------------- client side interceptor

type injector struct {
	suffix   string // "" for store 0, "@k" for store k, then "#g" for generation g > 0 of the pool: appended to the tag of every event of this pool
	root     *injector   // the injector of generation 0 of this store (itself for generation 0)
	genMu    sync.Mutex  // root only
	gens     []*injector // root only: one injector per pool generation seen (CloseAddr re-creates the pool), gens[0] = root
	genUnk   atomic.Bool // root only: an event could not be attributed to a generation
	roundMu  sync.Mutex
	lastRnd  string
	srv      *server
	refMu    sync.Mutex
	refs     map[string]client.VerifEntryRef
	sc       int64
	hosts    []string
	hostIdx  map[string]int
	rpc      *client.RPCClient
	addr     string
	pool     atomic.Value // pool handle
	incs     atomic.Int64
	sendFail []atomic.Int64
	recvFail []atomic.Int64
	initFail []atomic.Int64
	rvCount  atomic.Int64
}

// ev logs an event of this pool.
func (in *injector) ev(f string, a ...interface{}) {
	if i := strings.IndexByte(f, '\t'); i > 0 {
		f = f[:i] + in.suffix + f[i:]
	} else {
		f += in.suffix
	}
	evs(in.sc, f, a...)
}

// evf logs an event whose text (a table snapshot) is computed while the log is locked, so that the snapshot is
// ordered with the other events.
func (in *injector) evf(mk func() string) {
	outMu.Lock()
	if activeSc == in.sc {
		f := mk()
		if i := strings.IndexByte(f, '\t'); i > 0 {
			f = f[:i] + in.suffix + f[i:]
		}
		out.WriteString(f)
		out.WriteByte('\n')
	}
	outMu.Unlock()
}

// forHandle returns the injector of the pool generation behind handle p, creating it if p is new.
func (in *injector) forHandle(p interface{}) *injector {
	r := in.root
	r.genMu.Lock()
	defer r.genMu.Unlock()
	for _, g := range r.gens {
		if h := g.pool.Load(); h != nil && h == p {
			return g
		}
	}
	if r.pool.Load() == nil {
		r.pool.Store(p)
		return r
	}
	g := &injector{suffix: fmt.Sprintf("%s#%d", r.suffix, len(r.gens)), root: r, srv: r.srv, refs: map[string]client.VerifEntryRef{}, sc: r.sc,
		hosts: r.hosts, hostIdx: r.hostIdx, rpc: r.rpc, addr: r.addr, sendFail: r.sendFail, recvFail: r.recvFail, initFail: r.initFail}
	g.pool.Store(p)
	r.gens = append(r.gens, g)
	return g
}

// forConn returns the injector of the pool generation that owns the gRPC connection cc.
func (in *injector) forConn(cc *grpc.ClientConn) *injector {
	r := in.root
	r.genMu.Lock()
	for _, g := range r.gens {
		if h := g.pool.Load(); h != nil && client.VerifPoolHasConn(h, cc) {
			r.genMu.Unlock()
			return g
		}
	}
	r.genMu.Unlock()
	if p := client.VerifPool(r.rpc, r.addr); p != nil && client.VerifPoolHasConn(p, cc) {
		return r.forHandle(p)
	}
	if !r.genUnk.Swap(true) {
		r.ev("GENUNK")
	}
	return r
}

// allGens lists the injectors of all generations of this store.
func (in *injector) allGens() []*injector {
	r := in.root
	r.genMu.Lock()
	defer r.genMu.Unlock()
	return append([]*injector(nil), r.gens...)
}

func (in *injector) handle() interface{} {
	h := in.pool.Load()
	if h == nil && in == in.root {
		if p := client.VerifPool(in.rpc, in.addr); p != nil {
			in.forHandle(p)
			h = in.pool.Load()
		}
	}
	return h
}

// dumpRound logs the builder state of the current buildWithLimit round once (send loop goroutine only).
func (in *injector) dumpRound() {
	h := in.handle()
	if h == nil {
		return
	}
	r := client.VerifRoundDump(h)
	if len(r.Built) == 0 {
		return
	}
	sort.Slice(r.Built, func(i, j int) bool { return r.Built[i].ID < r.Built[j].ID })
	key := fmt.Sprintf("%d/%d", r.IDAlloc, r.Built[0].ID)
	in.roundMu.Lock()
	dup := key == in.lastRnd
	in.lastRnd = key
	in.roundMu.Unlock()
	if dup {
		return
	}
	var b, l strings.Builder
	for i, it := range r.Built {
		if i > 0 {
			b.WriteByte(',')
		}
		fmt.Fprintf(&b, "%d:%d:%d:%d", it.ID, it.Caller, in.hostIdx[it.Host], it.Pri)
	}
	for i, it := range r.Left {
		if i > 0 {
			l.WriteByte(',')
		}
		c := 0
		if it.Canceled {
			c = 1
		}
		fmt.Fprintf(&l, "%d:%d:%d", it.Caller, it.Pri, c)
	}
	in.ev("ROUND\t%d\tbuilt=%s\tleft=%s", r.IDAlloc, b.String(), l.String())
}

func (in *injector) tabOf(conn string, host string) string {
	h := in.handle()
	if h == nil {
		return "?"
	}
	snap := client.VerifSnapshotPool(h)
	var ids []uint64
	for _, e := range snap.Entries {
		if e.Conn == conn && e.Host == host {
			ids = append(ids, e.ID)
		}
	}
	sort.Slice(ids, func(i, j int) bool { return ids[i] < ids[j] })
	var sb strings.Builder
	sb.WriteString("-")
	for _, id := range ids {
		fmt.Fprintf(&sb, ",%d", id)
	}
	return sb.String()
}

// capture remembers the entries that are in flight right now (called from SendMsg: send() has just stored them).
func (in *injector) capture() {
	h := in.handle()
	if h == nil {
		return
	}
	in.refMu.Lock()
	for _, r := range client.VerifEntryRefs(h) {
		in.refs[fmt.Sprintf("%s:%d", r.Conn, r.ID)] = r
	}
	in.refMu.Unlock()
}

// canceledWithValue lists conn:id:canceled:buffered for every entry that was ever seen in flight.
func (in *injector) canceledWithValue() string {
	in.refMu.Lock()
	defer in.refMu.Unlock()
	var l []string
	for k, r := range in.refs {
		c, n := r.State()
		ci := 0
		if c {
			ci = 1
		}
		l = append(l, fmt.Sprintf("%s:%d:%d", k, ci, n))
	}
	sort.Strings(l)
	return "cres=" + strings.Join(l, ",")
}

type wrapStream struct {
	grpc.ClientStream
	in   *injector
	conn string
	host int
	inc  int64
}

func (in *injector) intercept(ctx context.Context, desc *grpc.StreamDesc, cc *grpc.ClientConn, method string, streamer grpc.Streamer, opts ...grpc.CallOption) (grpc.ClientStream, error) {
	if !strings.HasSuffix(method, "/BatchCommands") {
		return streamer(ctx, desc, cc, method, opts...)
	}
	in = in.forConn(cc) // the generation of the pool this connection belongs to
	md, _ := metadata.FromOutgoingContext(ctx)
	host, conn := "", "?"
	if v := md.Get(client.VerifForwardKey); len(v) > 0 {
		host = v[0]
	}
	if v := md.Get(client.VerifConnIdxKey); len(v) > 0 {
		conn = v[0]
	}
	hi := in.hostIdx[host]
	if h := in.handle(); h != nil && !client.VerifStreamExists(h, conn, host) {
		in.dumpRound() // initBatchClient inside send(): we are on the send loop goroutine
	}
	if in.initFail[hi].Load() > 0 && in.initFail[hi].Add(-1) >= 0 {
		in.ev("NSF\t%s\t%d\tinjected", conn, hi)
		return nil, errors.New("verif-initfail")
	}
	cs, err := streamer(ctx, desc, cc, method, opts...)
	if err != nil {
		in.ev("NSF\t%s\t%d\treal", conn, hi)
		return nil, err
	}
	inc := in.incs.Add(1)
	in.evf(func() string { return fmt.Sprintf("NS\t%s\t%d\t%d\t%s", conn, hi, inc, in.tabOf(conn, host)) })
	return &wrapStream{ClientStream: cs, in: in, conn: conn, host: hi, inc: inc}, nil
}

func (w *wrapStream) SendMsg(m interface{}) error {
	req, ok := m.(*tikvpb.BatchCommandsRequest)
	if !ok {
		return w.ClientStream.SendMsg(m)
	}
	// the commands are pre-encoded (encodedBatchCmd): decode a marshalled copy to read the payloads
	var sb strings.Builder
	if b, err := req.Marshal(); err == nil {
		var dec tikvpb.BatchCommandsRequest
		if dec.Unmarshal(b) == nil {
			for i, id := range dec.RequestIds {
				p := int64(-4)
				if i < len(dec.Requests) {
					p = reqPayload(dec.Requests[i])
				}
				if i > 0 {
					sb.WriteByte(',')
				}
				fmt.Fprintf(&sb, "%d:%d", id, p)
			}
		}
	}
	w.in.capture()
	w.in.dumpRound()
	w.in.ev("SB\t%s\t%d\t%d\t%s", w.conn, w.host, w.inc, sb.String())
	if w.in.sendFail[w.host].Load() > 0 && w.in.sendFail[w.host].Add(-1) >= 0 {
		w.in.ev("SE\t%s\t%d\t%d\terr", w.conn, w.host, w.inc)
		return errors.New("verif-sendfail")
	}
	err := w.ClientStream.SendMsg(m)
	if err != nil {
		w.in.ev("SE\t%s\t%d\t%d\terr", w.conn, w.host, w.inc)
	} else {
		w.in.ev("SE\t%s\t%d\t%d\tok", w.conn, w.host, w.inc)
	}
	return err
}

func (w *wrapStream) RecvMsg(m interface{}) error {
	// the recv loop is back for the next message: everything it dispatched is out of the table by now
	w.in.evf(func() string {
		return fmt.Sprintf("RD\t%s\t%d\t%d\t%s", w.conn, w.host, w.inc, w.in.tabOf(w.conn, hostName(w.host)))
	})
	err := w.ClientStream.RecvMsg(m)
	if err == nil && w.in.recvFail[w.host].Load() > 0 && w.in.recvFail[w.host].Add(-1) >= 0 {
		err = errors.New("verif-recvfail") // the received message is dropped
	}
	if err != nil {
		w.in.ev("RE\t%s\t%d\t%d", w.conn, w.host, w.inc)
		return err
	}
	if resp, ok := m.(*tikvpb.BatchCommandsResponse); ok {
		var sb strings.Builder
		for i, id := range resp.RequestIds {
			p := int64(-9) // an id without a response: batchRecvLoop panics on it if the id is in the table
			if i < len(resp.Responses) {
				p = respPayload(resp.Responses[i])
			}
			if i > 0 {
				sb.WriteByte(',')
			}
			fmt.Fprintf(&sb, "%d:%d", id, p)
		}
		w.in.rvCount.Add(1)
		w.in.ev("RV\t%s\t%d\t%d\t%s", w.conn, w.host, w.inc, sb.String())
	}
	return nil
}
