//go:build verif

package main

import (
	"context"
	"fmt"
	"strings"
	"sync/atomic"
	"time"

	"github.com/pingcap/kvproto/pkg/coprocessor"
	"github.com/pingcap/kvproto/pkg/kvrpcpb"
	rmpb "github.com/pingcap/kvproto/pkg/resource_manager"
	"github.com/pingcap/kvproto/pkg/tikvpb"
	"github.com/pkg/errors"
	dto "github.com/prometheus/client_model/go"
	"github.com/tikv/client-go/v2/internal/client"
	"github.com/tikv/client-go/v2/metrics"
	"github.com/tikv/client-go/v2/tikvrpc"
	"github.com/tikv/pd/client/resource_group/controller"
)

// ---------------------------------------------------------------- running one scenario

func hostName(i int) string {
	if i == 0 {
		return ""
	}
	return fmt.Sprintf("fwd-store-%d", i)
}

func mkReq(c int, cs CallerSpec) *tikvrpc.Request {
	pay := []byte(fmt.Sprintf("c%d", c))
	var req *tikvrpc.Request
	switch cs.Kind {
	case 1:
		req = tikvrpc.NewRequest(tikvrpc.CmdGet, &kvrpcpb.GetRequest{Key: pay})
	case 2:
		req = tikvrpc.NewRequest(tikvrpc.CmdEmpty, &tikvpb.BatchCommandsEmptyRequest{TestId: uint64(c)})
	case 3:
		req = tikvrpc.NewRequest(tikvrpc.CmdCop, &coprocessor.Request{Data: pay})
	case 4:
		// full-region ResolveLock (no keys, no txn infos): what reqCollapse collapses by (region, start version, async)
		rl := &kvrpcpb.ResolveLockRequest{StartVersion: uint64(cs.Key), CommitVersion: uint64(cs.Key) + 1}
		region := uint64(7)
		switch cs.Var {
		case 1:
			rl.TxnInfos = []*kvrpcpb.TxnInfo{{Txn: uint64(cs.Key), Status: 1}}
		case 2:
			rl.TxnInfos = []*kvrpcpb.TxnInfo{{Txn: uint64(cs.Key), Status: 2}}
		case 3:
			rl.Keys = [][]byte{[]byte("k")}
		case 4:
			rl.CommitVersion++
		case 5:
			region = 8
		}
		req = tikvrpc.NewRequest(tikvrpc.CmdResolveLock, rl)
		req.Context.RegionId = region
	default:
		req = tikvrpc.NewRequest(tikvrpc.CmdRawGet, &kvrpcpb.RawGetRequest{Key: pay})
	}
	req.StoreTp = tikvrpc.TiKV
	req.ForwardedHost = hostName(cs.Host)
	if cs.Pri > 0 {
		req.ResourceControlContext = &kvrpcpb.ResourceControlContext{OverridePriority: uint64(cs.Pri)}
	}
	if cs.Group > 0 {
		if req.ResourceControlContext == nil {
			req.ResourceControlContext = &kvrpcpb.ResourceControlContext{}
		}
		req.ResourceControlContext.ResourceGroupName = fmt.Sprintf("g%d", cs.Group)
	}
	return req
}

func respPay(resp *tikvrpc.Response) (int64, string) {
	if resp == nil || resp.Resp == nil {
		return -1, "nil"
	}
	switch r := resp.Resp.(type) {
	case *kvrpcpb.RawGetResponse:
		return parsePay(r.GetValue()), "rawget"
	case *kvrpcpb.GetResponse:
		return parsePay(r.GetValue()), "get"
	case *tikvpb.BatchCommandsEmptyResponse:
		return int64(r.GetTestId()), "empty"
	case *coprocessor.Response:
		return parsePay([]byte(r.Data)), "cop"
	case *kvrpcpb.ResolveLockResponse:
		return parsePay([]byte(r.GetError().GetAbort())), "resolvelock"
	}
	return -2, fmt.Sprintf("%T", resp.Resp)
}

var kindNames = []string{"rawget", "get", "empty", "cop", "resolvelock"}

var injectedPanics, injectedRecvPanics atomic.Int64

// fakeRC is a scripted resource-group controller (pd client's ResourceGroupKVInterceptor): group gN has priority
// groupPri[N]; g9 is a background group (not controlled); a call's gates fail as its CallerSpec says.
type fakeRC struct{ sc *Scenario }

var groupPri = map[int]uint32{1: 1, 2: 8, 3: 12}

func (f *fakeRC) spec(ctx context.Context) (CallerSpec, bool) {
	if c, ok := ctx.Value(client.VerifCallerKey{}).(int64); ok && c >= 0 && int(c) < len(f.sc.Callers) {
		return f.sc.Callers[c], true
	}
	return CallerSpec{}, false
}

func (f *fakeRC) OnRequestWait(ctx context.Context, group string, info controller.RequestInfo) (*rmpb.Consumption, *rmpb.Consumption, time.Duration, uint32, error) {
	cs, ok := f.spec(ctx)
	if ok && cs.Gate == 1 {
		return nil, nil, 0, 0, errors.New("verif-gate-req")
	}
	return &rmpb.Consumption{}, &rmpb.Consumption{}, 0, groupPri[cs.Group], nil
}

func (f *fakeRC) OnResponse(group string, req controller.RequestInfo, resp controller.ResponseInfo) (*rmpb.Consumption, error) {
	return &rmpb.Consumption{}, nil
}

func (f *fakeRC) OnResponseWait(ctx context.Context, group string, req controller.RequestInfo, resp controller.ResponseInfo) (*rmpb.Consumption, time.Duration, error) {
	cs, ok := f.spec(ctx)
	if ok && cs.Gate == 2 {
		return nil, 0, errors.New("verif-gate-resp")
	}
	return &rmpb.Consumption{}, 0, nil
}

func (f *fakeRC) IsBackgroundRequest(ctx context.Context, group, requestResource string) bool {
	return group == "g9"
}

func (f *fakeRC) GetRUVersion() controller.RUVersion { return controller.RUVersionV1 }

// goExecutor runs scheduled callbacks on their own goroutine.
type goExecutor struct{}

func (goExecutor) Go(f func()) { go f() }
func (goExecutor) Append(fs ...func()) {
	for _, f := range fs {
		go f()
	}
}

func errClass(err error) string {
	cause := errors.Cause(err)
	msg := err.Error()
	switch {
	case cause == context.Canceled:
		return "ctx"
	case cause == context.DeadlineExceeded:
		return "timeout"
	case strings.Contains(msg, "batchConn closed") || strings.Contains(msg, "rpcClient is closed") || strings.Contains(msg, "batch client closed"):
		return "closed"
	case strings.Contains(msg, "verif-gate-req"):
		return "fail:gatereq"
	case strings.Contains(msg, "verif-gate-resp"):
		return "fail:gateresp"
	case strings.Contains(msg, "verif-initfail"):
		return "fail:init"
	case strings.Contains(msg, "no available connections"):
		return "fail:noconn"
	case strings.Contains(msg, "rpcClient is idle"):
		return "fail:idle"
	}
	return "fail:other"
}

func counterVal(label string) float64 {
	m := &dto.Metric{}
	if err := metrics.TiKVPanicCounter.WithLabelValues(label).Write(m); err != nil {
		return -1
	}
	return m.GetCounter().GetValue()
}
