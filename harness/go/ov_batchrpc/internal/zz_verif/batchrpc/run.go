//go:build verif

package main

import (
	"context"
	"encoding/json"
	"fmt"
	"math/rand"
	"net"
	"os"
	"sort"
	"strconv"
	"strings"
	"sync"
	"sync/atomic"
	"time"

	"github.com/pingcap/failpoint"
	dto "github.com/prometheus/client_model/go"
	"github.com/tikv/client-go/v2/config"
	"github.com/tikv/client-go/v2/internal/client"
	"github.com/tikv/client-go/v2/metrics"
	"github.com/tikv/client-go/v2/tikvrpc"
	"github.com/tikv/client-go/v2/tikvrpc/interceptor"
	"github.com/tikv/client-go/v2/util/async"
	"github.com/tikv/pd/client/resource_group/controller"
	"google.golang.org/grpc"
)

func runScenario(sc *Scenario) {
	js, _ := json.Marshal(sc)
	outMu.Lock()
	activeSc = int64(sc.ID)
	outMu.Unlock()
	defer func() { outMu.Lock(); activeSc = 0; outMu.Unlock() }()
	ev("SC\t%d\t%s", sc.ID, js)
	restore := config.UpdateGlobal(func(conf *config.Config) {
		conf.TiKVClient.GrpcConnectionCount = sc.Conns
		if sc.Limit > 0 {
			conf.TiKVClient.MaxConcurrencyRequestLimit = sc.Limit
		}
		if sc.MaxBatch > 0 {
			conf.TiKVClient.MaxBatchSize = sc.MaxBatch
		}
		if sc.NoBatch {
			conf.TiKVClient.MaxBatchSize = 0
		}
		if sc.Policy != "" {
			conf.TiKVClient.BatchPolicy = sc.Policy
		}
		if sc.WaitUs > 0 {
			conf.TiKVClient.MaxBatchWaitTime = time.Duration(sc.WaitUs) * time.Microsecond
			conf.TiKVClient.OverloadThreshold = 0
		}
	})
	defer restore()
	npools := sc.Pools
	if npools <= 0 {
		npools = 1
	}
	var srvs []*server
	var ins []*injector
	byTarget := map[string]*injector{}
	for k := 0; k < npools; k++ {
		sv := &server{sc: sc, rng: rand.New(rand.NewSource(sc.Seed + int64(k))), streams: map[*srvStream]bool{}}
		if err := sv.start(); err != nil {
			ev("HARNESS\tserver start failed: %v", err)
			return
		}
		defer sv.stop()
		inj := &injector{sc: int64(sc.ID), hostIdx: map[string]int{}, addr: sv.addr, refs: map[string]client.VerifEntryRef{}, srv: sv}
		inj.root, inj.gens = inj, []*injector{inj}
		if k > 0 {
			inj.suffix = fmt.Sprintf("@%d", k)
		}
		for i := 0; i < sc.NHosts; i++ {
			inj.hosts = append(inj.hosts, hostName(i))
			inj.hostIdx[hostName(i)] = i
		}
		inj.sendFail = make([]atomic.Int64, sc.NHosts)
		inj.recvFail = make([]atomic.Int64, sc.NHosts)
		inj.initFail = make([]atomic.Int64, sc.NHosts)
		srvs, ins = append(srvs, sv), append(ins, inj)
		byTarget[sv.addr] = inj
	}
	in := ins[0]
	dispatch := func(ctx context.Context, desc *grpc.StreamDesc, cc *grpc.ClientConn, method string, streamer grpc.Streamer, opts ...grpc.CallOption) (grpc.ClientStream, error) {
		if inj, ok := byTarget[cc.Target()]; ok {
			return inj.intercept(ctx, desc, cc, method, streamer, opts...)
		}
		return in.intercept(ctx, desc, cc, method, streamer, opts...)
	}
	dialOpts := []grpc.DialOption{grpc.WithStreamInterceptor(dispatch)}
	if sc.DialMs > 0 {
		dialOpts = append(dialOpts, grpc.WithContextDialer(func(ctx context.Context, addr string) (net.Conn, error) {
			select {
			case <-time.After(time.Duration(sc.DialMs) * time.Millisecond):
			case <-ctx.Done():
				return nil, ctx.Err()
			}
			return (&net.Dialer{}).DialContext(ctx, "tcp", addr)
		}))
	}
	rpc := client.NewRPCClient(client.WithGRPCDialOptions(dialOpts...))
	for _, inj := range ins {
		inj.rpc = rpc
	}
	defer rpc.Close()
	var cl client.Client = rpc
	if sc.RC {
		// the resource-control / RPC-interceptor wrapper of tikv/kv.go with a scripted resource-group controller
		cl = client.NewInterceptedClient(rpc)
		var rci controller.ResourceGroupKVInterceptor = &fakeRC{sc: sc}
		client.ResourceControlInterceptor.Store(&rci)
		client.ResourceControlSwitch.Store(true)
		defer func() { client.ResourceControlSwitch.Store(false); client.ResourceControlInterceptor.Store(nil) }()
	}
	if sc.Collapse {
		cl = client.NewReqCollapse(client.NewInterceptedClient(rpc)) // the stack tikv/kv.go puts on top of the batched client
	}
	var loop *async.RunLoop
	if sc.RunLoop {
		// one run loop for all asynchronous calls of the scenario, driven by one goroutine (like a txn's run loop)
		loop = async.NewRunLoop()
		lctx, lcancel := context.WithCancel(context.Background())
		loopDone := make(chan struct{})
		go func() {
			defer close(loopDone)
			for lctx.Err() == nil {
				loop.Exec(lctx)
			}
		}()
		defer func() { lcancel(); <-loopDone }()
	}
	p0recv, p0send := counterVal(metrics.LabelBatchRecvLoop), counterVal(metrics.LabelBatchSendLoop)
	sp0 := atomic.LoadInt64(&client.BatchSendLoopPanicCounter)
	inj0 := injectedPanics.Load()
	noconn0 := 0.0
	{
		m := &dto.Metric{}
		if metrics.TiKVNoAvailableConnectionCounter.Write(m) == nil {
			noconn0 = m.GetCounter().GetValue()
		}
	}
	injr0 := injectedRecvPanics.Load()

	t0 := time.Now()
	var wg sync.WaitGroup
	returned := make([]atomic.Bool, len(sc.Callers))
	cancels := make([]atomic.Value, len(sc.Callers))
	var wgLong sync.WaitGroup
	nLong := 0
	maxTo := 0
	for c := range sc.Callers {
		cs := sc.Callers[c]
		if cs.TimeoutMs > maxTo && !cs.Long {
			maxTo = cs.TimeoutMs
		}
		wg.Add(1)
		if cs.Long {
			nLong++
			wgLong.Add(1)
		}
		go func(c int, cs CallerSpec) {
			defer wg.Done()
			if cs.Long {
				defer wgLong.Done()
			}
			if d := time.Duration(cs.StartUs)*time.Microsecond - time.Since(t0); d > 0 {
				time.Sleep(d)
			}
			ctx, cancel := context.WithCancel(context.WithValue(context.Background(), client.VerifCallerKey{}, int64(c)))
			defer cancel()
			if cs.Icpt {
				// an RPC interceptor on the call's context: it must see this call once, with this call's own response
				ctx = interceptor.WithRPCInterceptor(ctx, interceptor.NewRPCInterceptor("verif", func(next interceptor.RPCInterceptorFunc) interceptor.RPCInterceptorFunc {
					return func(target string, r *tikvrpc.Request) (*tikvrpc.Response, error) {
						evs(int64(sc.ID), "ICB\t%d", c)
						resp, err := next(target, r)
						if err != nil {
							evs(int64(sc.ID), "ICA\t%d\t%s\t-1", c, errClass(err))
						} else {
							p, _ := respPay(resp)
							evs(int64(sc.ID), "ICA\t%d\tok\t%d", c, p)
						}
						return resp, err
					}
				}))
			}
			if cs.CtxUs > 0 {
				var c3 context.CancelFunc
				ctx, c3 = context.WithTimeout(ctx, time.Duration(cs.CtxUs)*time.Microsecond)
				defer c3()
			}
			cancels[c].Store(cancel)
			addr := srvs[cs.Pool%npools].addr
			timeout := time.Duration(cs.TimeoutMs) * time.Millisecond
			if cs.Long {
				timeout = 30 * time.Second
			}
			if cs.CancelUs >= 0 {
				tm := time.AfterFunc(time.Duration(cs.CancelUs)*time.Microsecond, cancel)
				defer tm.Stop()
			}
			req := mkReq(c, cs)
			mode := "sync"
			if cs.Async {
				mode = "async"
			}
			if cs.Long {
				mode += "-long"
			}
			exp, willCancel := int64(c), 0
			if cs.Kind == 4 {
				exp = int64(cs.Key + cs.Var) // the fingerprint of its own command (shared by everybody it may be collapsed with)
			}
			if cs.CancelUs >= 0 {
				willCancel = 1
			}
			rcOn := 0
			if sc.RC {
				rcOn = 1
			}
			ic := 0
			if cs.Icpt {
				ic = 1
			}
			evs(int64(sc.ID), "SUB\t%d\t%d\t%d\t%s\t%d\t%s\t%d\t%d\t%d\tg=%d:%d:%d:%d\tdl=%d", c, cs.Host, cs.Pri, kindNames[cs.Kind%5], cs.TimeoutMs, mode, cs.Pool%npools, exp, willCancel, rcOn, cs.Group, cs.Gate, ic, cs.CtxUs/1000)
			st := time.Now()
			var resp *tikvrpc.Response
			var err error
			func() {
				defer func() {
					if r := recover(); r != nil {
						err = fmt.Errorf("verif-panic: %v", r)
						evs(int64(sc.ID), "PANIC\t%d\t%v", c, r)
					}
				}()
				if !cs.Async {
					resp, err = cl.SendRequest(ctx, addr, req, timeout)
					return
				}
				// asynchronous API: the call is over when the callback ran; a second invocation is a second return
				actx := ctx
				if !cs.Long {
					var c2 context.CancelFunc
					actx, c2 = context.WithTimeout(ctx, timeout)
					defer c2()
				}
				type res struct {
					r *tikvrpc.Response
					e error
				}
				ch := make(chan res, 4)
				var calls atomic.Int32
				var ex async.Executor = goExecutor{}
				if loop != nil {
					ex = loop
				}
				cb := async.NewCallback(ex, func(r *tikvrpc.Response, e error) {
					if calls.Add(1) > 1 {
						evs(int64(sc.ID), "RET\t%d\tfail:second-callback\t-1\t0\t0\t-", c)
						return
					}
					ch <- res{r, e}
					if cs.CbMs > 0 {
						time.Sleep(time.Duration(cs.CbMs) * time.Millisecond) // the run loop stays in this round meanwhile
					}
				})
				cl.SendRequestAsync(actx, addr, req, cb)
				got := <-ch
				resp, err = got.r, got.e
			}()
			el := time.Since(st)
			returned[c].Store(true)
			late := 0
			if !cs.Long && el > time.Duration(20*cs.TimeoutMs)*time.Millisecond+2*time.Second {
				late = 1
			}
			if err != nil {
				evs(int64(sc.ID), "RET\t%d\t%s\t-1\t%d\t%d\t%s", c, errClass(err), late, el.Milliseconds(), strings.ReplaceAll(strings.ReplaceAll(firstN(err.Error(), 120), "\t", " "), "\n", " "))
			} else {
				p, ty := respPay(resp)
				cls := "ok"
				if ty != kindNames[cs.Kind%5] {
					cls = "ok-wrongtype:" + ty
				}
				evs(int64(sc.ID), "RET\t%d\t%s\t%d\t%d\t%d\t-", c, cls, p, late, el.Milliseconds())
			}
		}(c, cs)
	}
	// fault schedule
	faultsDone := make(chan struct{})
	go func() {
		defer close(faultsDone)
		fs := append([]Fault(nil), sc.Faults...)
		sort.SliceStable(fs, func(i, j int) bool { return fs[i].AtUs < fs[j].AtUs })
		for _, f := range fs {
			if d := time.Duration(f.AtUs)*time.Microsecond - time.Since(t0); d > 0 {
				time.Sleep(d)
			}
			n := int64(f.N)
			if n <= 0 {
				n = 1
			}
			srv, in := srvs[f.Pool%npools], ins[f.Pool%npools]
			switch f.Kind {
			case "recvpanic":
				// the next n response batches of this store carry one id without its response: batchRecvLoop
				// panics on it (index out of range), recovers and restarts itself on the same stream
				srv.bad.Store(n)
				ev("INJ\trecvpanic\t%d", n)
			case "failpanic":
				// the repo's own failpoint at the top of failPendingRequests
				injectedRecvPanics.Add(n)
				ev("INJ\tfailpanic\t%d", n)
				if err := failpoint.Enable("tikvclient/panicInFailPendingRequests", fmt.Sprintf("%d*panic(\"verif fail-pending panic\")", n)); err != nil {
					ev("HARNESS\tfailpoint enable failed: %v", err)
				}
			case "kill":
				srv.killStreams(hostName(f.Host), false)
			case "killall":
				srv.killStreams("", true)
			case "restart":
				srv.stop()
				time.Sleep(time.Duration(n) * time.Millisecond)
				if err := srv.start(); err != nil {
					ev("HARNESS\tserver restart failed: %v", err)
				}
			case "sendpanic":
				// the repo's own failpoint at the top of getClientAndSend: the next n batches panic inside
				// batchSendLoop, which recovers and restarts itself
				injectedPanics.Add(n)
				ev("INJ\tsendpanic\t%d", n)
				if err := failpoint.Enable("tikvclient/mockBatchClientSendDelay", fmt.Sprintf("%d*panic(\"verif send loop panic\")", n)); err != nil {
					ev("HARNESS\tfailpoint enable failed: %v", err)
				}
			case "idle":
				// the idle timer of the pool expires now: batchSendLoop marks the conn idle and returns
				ev("INJ\tidle\t%d", n)
				client.VerifFireIdleTimer(rpc, srv.addr, time.Duration(n)*time.Microsecond)
			case "senddelay":
				// the repo's failpoint at the top of getClientAndSend with an int value: every batch is held for n ms
				// before buildWithLimit, so the requests arriving meanwhile land in ONE later build
				ev("INJ\tsenddelay\t%d", n)
				if err := failpoint.Enable("tikvclient/mockBatchClientSendDelay", fmt.Sprintf("return(%d)", n)); err != nil {
					ev("HARNESS\tfailpoint enable failed: %v", err)
				}
			case "recvfail":
				in.recvFail[f.Host].Store(n)
			case "sendfail":
				in.sendFail[f.Host].Store(n)
			case "initfail":
				in.initFail[f.Host].Store(n)
			case "close":
				for _, inj := range ins {
					inj.tabOf("0", "") // make sure the pool handles are captured before they are dropped
				}
				ev("CLOSE\tclient")
				rpc.Close()
			case "closeaddr":
				// which generation of the pool is closed: the one in the map right now (-1: none there at this instant)
				g := -1
				if p := client.VerifPool(rpc, srv.addr); p != nil {
					gi := in.forHandle(p)
					for k, x := range in.allGens() {
						if x == gi {
							g = k
						}
					}
				}
				in.ev("CLOSE\taddr\t%d", g)
				rpc.CloseAddr(srv.addr)
			}
		}
	}()
	allDone := make(chan struct{})
	go func() { wg.Wait(); close(allDone) }()
	if nLong > 0 {
		// calls without a (short) deadline: once the last fault is over the server is healthy and answers
		// everything it holds, so every such call must complete (answered, or failed by the stream error) within
		// the drain window; the ones that do not are reported and then cancelled
		<-faultsDone
		lastStart := time.Duration(0)
		for _, cs := range sc.Callers {
			if d := time.Duration(cs.StartUs) * time.Microsecond; d > lastStart {
				lastStart = d
			}
		}
		if d := lastStart + 20*time.Millisecond - time.Since(t0); d > 0 {
			time.Sleep(d)
		}
		for _, sv := range srvs {
			sv.drain.Store(true)
		}
		longDone := make(chan struct{})
		go func() { wgLong.Wait(); close(longDone) }()
		// 4 s normally.  After a Close the send loop may sit in waitConnReady on a conn that is already SHUTDOWN: it
		// only gives up after the dial timeout (5 s), and the queued async requests are failed after that, possibly one
		// more dial timeout later (a delay, not a loss) -- so the window covers two dial timeouts there.
		drainWindow := 4 * time.Second
		for _, f := range sc.Faults {
			if f.Kind == "close" || f.Kind == "closeaddr" {
				drainWindow = 12 * time.Second
			}
		}
		if v, err := strconv.Atoi(os.Getenv("VERIF_C18_DRAINMS")); err == nil && v > 0 {
			drainWindow = time.Duration(v) * time.Millisecond
		}
		select {
		case <-longDone:
		case <-time.After(drainWindow):
			for c := range returned {
				if sc.Callers[c].Long && !returned[c].Load() {
					ev("HANG\t%d\t%d\tno-deadline call not completed in the drain phase", c, drainWindow.Milliseconds())
				}
			}
			for c := range returned {
				if sc.Callers[c].Long && !returned[c].Load() {
					if f, ok := cancels[c].Load().(context.CancelFunc); ok {
						f()
					}
				}
			}
		}
	}
	limit := time.Duration(25*maxTo)*time.Millisecond + 5*time.Second
	select {
	case <-allDone:
	case <-time.After(limit):
		for c := range returned {
			if !returned[c].Load() {
				ev("HANG\t%d\t%d", c, limit.Milliseconds())
			}
		}
	}
	<-faultsDone
	failpoint.Disable("tikvclient/mockBatchClientSendDelay")
	failpoint.Disable("tikvclient/panicInFailPendingRequests")
	// quiescence: let the servers answer what they still hold, wait until nothing moves any more
	for k := range srvs {
		srvs[k].drain.Store(true)
		ins[k].tabOf("0", "")
	}
	stable, last := 0, ""
	for i := 0; i < 200 && stable < 4; i++ {
		time.Sleep(5 * time.Millisecond)
		cur := ""
		for _, inj := range ins {
			for _, g := range inj.allGens() {
				cur += fmt.Sprintf("%d|%s;", g.rvCount.Load(), snapString(g))
			}
		}
		if cur == last {
			stable++
		} else {
			stable, last = 0, cur
		}
	}
	{
		m := &dto.Metric{}
		if metrics.TiKVNoAvailableConnectionCounter.Write(m) == nil {
			ev("STAT\tnoconn=%g", m.GetCounter().GetValue()-noconn0)
		}
	}
	for k := len(ins) - 1; k >= 0; k-- { // store 0 last, generation 0 last: its END line closes the scenario
		gs := ins[k].allGens()
		for j := len(gs) - 1; j >= 0; j-- {
			gs[j].ev("CRES\t%s", gs[j].canceledWithValue())
			gs[j].ev("END\t%s\t%g\t%g\t%d\t%d\t%d", snapString(gs[j]), counterVal(metrics.LabelBatchRecvLoop)-p0recv, counterVal(metrics.LabelBatchSendLoop)-p0send,
				atomic.LoadInt64(&client.BatchSendLoopPanicCounter)-sp0, injectedPanics.Load()-inj0, injectedRecvPanics.Load()-injr0)
		}
	}
}

func snapString(in *injector) string {
	h := in.pool.Load()
	if h == nil {
		return "nopool"
	}
	s := client.VerifSnapshotPool(h)
	sort.Slice(s.Entries, func(i, j int) bool {
		if s.Entries[i].Conn != s.Entries[j].Conn {
			return s.Entries[i].Conn < s.Entries[j].Conn
		}
		return s.Entries[i].ID < s.Entries[j].ID
	})
	var sb strings.Builder
	sb.WriteString("tab=")
	for i, e := range s.Entries {
		if i > 0 {
			sb.WriteByte(',')
		}
		c := 0
		if e.Canceled {
			c = 1
		}
		fmt.Fprintf(&sb, "%s:%d:%d:%d", e.Conn, e.ID, in.hostIdx[e.Host], c)
	}
	sb.WriteString("\tsent=")
	for i, v := range s.Sent {
		if i > 0 {
			sb.WriteByte(',')
		}
		fmt.Fprintf(&sb, "%d", v)
	}
	fmt.Fprintf(&sb, "\tidalloc=%d", s.IDAlloc)
	return sb.String()
}

func firstN(s string, n int) string {
	if len(s) > n {
		return s[:n]
	}
	return s
}
