//go:build verif

package main

import (
	"context"
	"fmt"
	"math/rand"
	"net"
	"strconv"
	"strings"
	"sync"
	"sync/atomic"
	"time"

	"github.com/pingcap/kvproto/pkg/coprocessor"
	"github.com/pingcap/kvproto/pkg/kvrpcpb"
	"github.com/pingcap/kvproto/pkg/tikvpb"
	"github.com/tikv/client-go/v2/internal/client"
	"google.golang.org/grpc"
	"google.golang.org/grpc/codes"
	"google.golang.org/grpc/metadata"
	"google.golang.org/grpc/status"
)

// ---------------------------------------------------------------- echo server

type item struct {
	id   uint64
	resp *tikvpb.BatchCommandsResponse_Response
}

type srvStream struct {
	host string
	conn string
	kill chan struct{}
	once sync.Once
	mu   sync.Mutex
	pend []item
	held []heldItem // slow requests: answered only after their hold time (or when the scenario drains)
	wake chan struct{}
}

type heldItem struct {
	it item
	at time.Time
}

func (s *srvStream) doKill() { s.once.Do(func() { close(s.kill) }) }

type server struct {
	tikvpb.UnimplementedTikvServer
	sc      *Scenario
	mu      sync.Mutex
	rng     *rand.Rand
	streams map[*srvStream]bool
	g       *grpc.Server
	addr    string
	drain   atomic.Bool  // answer everything immediately, no faults (end of scenario)
	bad     atomic.Int64 // number of response batches still to be sent with one id lacking its response
}

func (s *server) rnd(f func(r *rand.Rand)) { s.mu.Lock(); f(s.rng); s.mu.Unlock() }

func echo(r *tikvpb.BatchCommandsRequest_Request) *tikvpb.BatchCommandsResponse_Response {
	switch c := r.Cmd.(type) {
	case *tikvpb.BatchCommandsRequest_Request_RawGet:
		return &tikvpb.BatchCommandsResponse_Response{Cmd: &tikvpb.BatchCommandsResponse_Response_RawGet{RawGet: &kvrpcpb.RawGetResponse{Value: c.RawGet.Key}}}
	case *tikvpb.BatchCommandsRequest_Request_Get:
		return &tikvpb.BatchCommandsResponse_Response{Cmd: &tikvpb.BatchCommandsResponse_Response_Get{Get: &kvrpcpb.GetResponse{Value: c.Get.Key}}}
	case *tikvpb.BatchCommandsRequest_Request_Empty:
		return &tikvpb.BatchCommandsResponse_Response{Cmd: &tikvpb.BatchCommandsResponse_Response_Empty{Empty: &tikvpb.BatchCommandsEmptyResponse{TestId: c.Empty.TestId}}}
	case *tikvpb.BatchCommandsRequest_Request_ResolveLock:
		// no payload field in the response: the start version travels back in the (otherwise unused) Abort text
		return &tikvpb.BatchCommandsResponse_Response{Cmd: &tikvpb.BatchCommandsResponse_Response_ResolveLock{ResolveLock: &kvrpcpb.ResolveLockResponse{
			Error: &kvrpcpb.KeyError{Abort: fmt.Sprintf("c%d", resolveLockFingerprint(c.ResolveLock))}}}}
	case *tikvpb.BatchCommandsRequest_Request_Coprocessor:
		return &tikvpb.BatchCommandsResponse_Response{Cmd: &tikvpb.BatchCommandsResponse_Response_Coprocessor{Coprocessor: &coprocessor.Response{Data: append([]byte(nil), c.Coprocessor.Data...)}}}
	}
	return &tikvpb.BatchCommandsResponse_Response{Cmd: &tikvpb.BatchCommandsResponse_Response_Empty{Empty: &tikvpb.BatchCommandsEmptyResponse{TestId: 1 << 62}}}
}

// resolveLockFingerprint identifies the COMMAND the server executed: start version (a multiple of 10) plus a digit for
// the component in which it differs from the plain full-region request (see CallerSpec.Var).
func resolveLockFingerprint(r *kvrpcpb.ResolveLockRequest) uint64 {
	fp := r.GetStartVersion()
	for _, t := range r.GetTxnInfos() {
		fp += t.GetStatus()
	}
	fp += 3 * uint64(len(r.GetKeys()))
	if r.GetCommitVersion() > r.GetStartVersion()+1 {
		fp += 4 * (r.GetCommitVersion() - r.GetStartVersion() - 1)
	}
	if reg := r.GetContext().GetRegionId(); reg > 7 {
		fp += 5 * (reg - 7)
	}
	return fp
}

func respPayload(r *tikvpb.BatchCommandsResponse_Response) int64 {
	switch c := r.GetCmd().(type) {
	case *tikvpb.BatchCommandsResponse_Response_RawGet:
		return parsePay(c.RawGet.GetValue())
	case *tikvpb.BatchCommandsResponse_Response_Get:
		return parsePay(c.Get.GetValue())
	case *tikvpb.BatchCommandsResponse_Response_Empty:
		return int64(c.Empty.GetTestId())
	case *tikvpb.BatchCommandsResponse_Response_Coprocessor:
		return parsePay([]byte(c.Coprocessor.Data))
	case *tikvpb.BatchCommandsResponse_Response_ResolveLock:
		return parsePay([]byte(c.ResolveLock.GetError().GetAbort()))
	}
	return -2
}

func reqPayload(r *tikvpb.BatchCommandsRequest_Request) int64 {
	switch c := r.GetCmd().(type) {
	case *tikvpb.BatchCommandsRequest_Request_RawGet:
		return parsePay(c.RawGet.GetKey())
	case *tikvpb.BatchCommandsRequest_Request_Get:
		return parsePay(c.Get.GetKey())
	case *tikvpb.BatchCommandsRequest_Request_Empty:
		return int64(c.Empty.GetTestId())
	case *tikvpb.BatchCommandsRequest_Request_Coprocessor:
		return parsePay(c.Coprocessor.GetData())
	}
	return -2
}

func parsePay(b []byte) int64 {
	s := string(b)
	if !strings.HasPrefix(s, "c") {
		return -3
	}
	v, err := strconv.ParseInt(s[1:], 10, 64)
	if err != nil {
		return -3
	}
	return v
}

// unary handlers (non-batch path): echo after the caller's hold time, or fail when the call is cancelled
func (s *server) hold(ctx context.Context, pay int64) error {
	slow := 0
	if pay >= 0 && int(pay) < len(s.sc.Callers) {
		slow = s.sc.Callers[pay].SlowMs
	}
	if slow <= 0 || s.drain.Load() {
		return nil
	}
	t := time.NewTimer(time.Duration(slow) * time.Millisecond)
	defer t.Stop()
	for {
		select {
		case <-t.C:
			return nil
		case <-ctx.Done():
			return ctx.Err()
		case <-time.After(5 * time.Millisecond):
			if s.drain.Load() {
				return nil
			}
		}
	}
}

func (s *server) RawGet(ctx context.Context, req *kvrpcpb.RawGetRequest) (*kvrpcpb.RawGetResponse, error) {
	if err := s.hold(ctx, parsePay(req.GetKey())); err != nil {
		return nil, err
	}
	return &kvrpcpb.RawGetResponse{Value: req.GetKey()}, nil
}

func (s *server) KvGet(ctx context.Context, req *kvrpcpb.GetRequest) (*kvrpcpb.GetResponse, error) {
	if err := s.hold(ctx, parsePay(req.GetKey())); err != nil {
		return nil, err
	}
	return &kvrpcpb.GetResponse{Value: req.GetKey()}, nil
}

func (s *server) Coprocessor(ctx context.Context, req *coprocessor.Request) (*coprocessor.Response, error) {
	if err := s.hold(ctx, parsePay(req.GetData())); err != nil {
		return nil, err
	}
	return &coprocessor.Response{Data: append([]byte(nil), req.GetData()...)}, nil
}

func (s *server) BatchCommands(ss tikvpb.Tikv_BatchCommandsServer) error {
	md, _ := metadata.FromIncomingContext(ss.Context())
	st := &srvStream{kill: make(chan struct{}), wake: make(chan struct{}, 1)}
	if v := md.Get(client.VerifForwardKey); len(v) > 0 {
		st.host = v[0]
	}
	if v := md.Get(client.VerifConnIdxKey); len(v) > 0 {
		st.conn = v[0]
	}
	s.mu.Lock()
	s.streams[st] = true
	s.mu.Unlock()
	defer func() { s.mu.Lock(); delete(s.streams, st); s.mu.Unlock() }()
	rdErr := make(chan error, 1)
	go func() {
		for {
			req, err := ss.Recv()
			if err != nil {
				rdErr <- err
				return
			}
			st.mu.Lock()
			for i, id := range req.GetRequestIds() {
				it := item{id, echo(req.Requests[i])}
				slow := 0
				if c := reqPayload(req.Requests[i]); c >= 0 && int(c) < len(s.sc.Callers) {
					slow = s.sc.Callers[c].SlowMs
				}
				if _, ok := req.Requests[i].GetCmd().(*tikvpb.BatchCommandsRequest_Request_ResolveLock); ok {
					slow = s.sc.HoldMs
				}
				if slow > 0 && !s.drain.Load() {
					st.held = append(st.held, heldItem{it, time.Now().Add(time.Duration(slow) * time.Millisecond)})
				} else {
					st.pend = append(st.pend, it)
				}
			}
			st.mu.Unlock()
			select {
			case st.wake <- struct{}{}:
			default:
			}
		}
	}()
	done := make(chan struct{})
	defer close(done)
	go s.responder(ss, st, done)
	select {
	case <-st.kill:
		return status.Error(codes.Unavailable, "verif: stream killed")
	case err := <-rdErr:
		return err
	}
}

func (s *server) responder(ss tikvpb.Tikv_BatchCommandsServer, st *srvStream, done chan struct{}) {
	sc := s.sc
	for {
		select {
		case <-done:
			return
		case <-st.wake:
		case <-time.After(2 * time.Millisecond):
		}
		draining := s.drain.Load()
		st.mu.Lock()
		if len(st.held) > 0 {
			now := time.Now()
			keep := st.held[:0]
			for _, h := range st.held {
				if draining || !now.Before(h.at) {
					st.pend = append(st.pend, h.it)
				} else {
					keep = append(keep, h)
				}
			}
			st.held = keep
		}
		n := len(st.pend)
		st.mu.Unlock()
		if n == 0 {
			continue
		}
		var delay time.Duration
		var reorder, dup, unknown bool
		var k int
		var bh []bool
		s.rnd(func(r *rand.Rand) {
			if sc.DelayUs > 0 {
				delay = time.Duration(r.Int63n(sc.DelayUs+1)) * time.Microsecond
			}
			reorder = r.Float64() < sc.Reorder
			dup = r.Float64() < sc.Dup
			unknown = r.Float64() < sc.Unknown
			k = 1 + r.Intn(n)
			bh = make([]bool, n)
			for i := range bh {
				bh[i] = r.Float64() < sc.Blackhole
			}
		})
		if draining {
			delay, reorder, dup, unknown = 0, false, false, false
		}
		if delay > 0 {
			select {
			case <-done:
				return
			case <-time.After(delay):
			}
		}
		st.mu.Lock()
		var take []item
		if reorder && !draining {
			s.rnd(func(r *rand.Rand) {
				r.Shuffle(len(st.pend), func(i, j int) { st.pend[i], st.pend[j] = st.pend[j], st.pend[i] })
			})
			if k > len(st.pend) {
				k = len(st.pend)
			}
			take = append(take, st.pend[:k]...)
			st.pend = append([]item(nil), st.pend[k:]...)
		} else {
			take = st.pend
			st.pend = nil
		}
		st.mu.Unlock()
		resp := &tikvpb.BatchCommandsResponse{}
		for i, it := range take {
			if !draining && i < len(bh) && bh[i] {
				continue // never answered
			}
			resp.RequestIds = append(resp.RequestIds, it.id)
			resp.Responses = append(resp.Responses, it.resp)
		}
		if dup && len(resp.RequestIds) > 0 {
			resp.RequestIds = append(resp.RequestIds, resp.RequestIds[0])
			resp.Responses = append(resp.Responses, resp.Responses[0])
		}
		if unknown && len(take) > 0 {
			resp.RequestIds = append(resp.RequestIds, take[0].id+(1<<40))
			resp.Responses = append(resp.Responses, take[0].resp)
		}
		if len(resp.RequestIds) == 0 {
			continue
		}
		if !draining && len(resp.RequestIds) == len(resp.Responses) && s.bad.Load() > 0 && s.bad.Add(-1) >= 0 {
			// malformed batch: the last id comes without its response; the proper response follows later
			n := len(resp.RequestIds) - 1
			st.mu.Lock()
			st.pend = append(st.pend, item{resp.RequestIds[n], resp.Responses[n]})
			st.mu.Unlock()
			resp.Responses = resp.Responses[:n]
		}
		if err := ss.Send(resp); err != nil {
			return
		}
	}
}

func (s *server) start() error {
	lc := net.ListenConfig{}
	var lis net.Listener
	var err error
	for i := 0; i < 50; i++ {
		a := s.addr
		if a == "" {
			a = "127.0.0.1:0"
		}
		lis, err = lc.Listen(context.Background(), "tcp", a)
		if err == nil {
			break
		}
		time.Sleep(10 * time.Millisecond)
	}
	if err != nil {
		return err
	}
	s.addr = lis.Addr().String()
	g := grpc.NewServer()
	tikvpb.RegisterTikvServer(g, s)
	s.mu.Lock()
	s.g = g
	s.mu.Unlock()
	go g.Serve(lis)
	return nil
}

func (s *server) stop() {
	s.mu.Lock()
	g := s.g
	s.mu.Unlock()
	if g != nil {
		g.Stop()
	}
}

func (s *server) killStreams(host string, all bool) {
	s.mu.Lock()
	var l []*srvStream
	for st := range s.streams {
		if all || st.host == host {
			l = append(l, st)
		}
	}
	s.mu.Unlock()
	for _, st := range l {
		st.doKill()
	}
}
