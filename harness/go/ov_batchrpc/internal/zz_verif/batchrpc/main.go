//go:build verif

// Driver for property C18 (batched RPC multiplexing). It runs seeded scenarios against the real
// internal/client.RPCClient talking to an in-process echoing gRPC server, and prints one event per
// line (tab separated). The events come from three vantage points, serialised by one mutex:
//   * the caller goroutines (SUB before SendRequest, RET after it returned),
//   * a gRPC stream interceptor on the client side of every BatchCommands stream (NS = stream
//     created, SB/SE = batch handed to Send / Send returned, RV = response batch about to be
//     dispatched by batchRecvLoop, RE = Recv failed), which is also where send/recv/create faults
//     are injected,
//   * read-only snapshots of batchCommandsClient.batched (zz_verif_export_batchrpc.go).
// The extracted Coq model (ocaml/batchrpc/driver.ml) replays the events and evaluates the oracles.
//
// usage: batchrpc            -- scenarios from VERIF_SEED / VERIF_TIER
//        batchrpc replay F   -- F holds one scenario spec (JSON); it is run VERIF_REPEAT (default 5) times
package main

import (
	"bufio"
	"context"
	"encoding/json"
	"fmt"
	"io"
	"math/rand"
	"net"
	"os"
	"path/filepath"
	"sort"
	"strconv"
	"strings"
	"sync"
	"sync/atomic"
	"time"

	"github.com/pingcap/failpoint"
	"github.com/pingcap/kvproto/pkg/coprocessor"
	"github.com/pingcap/kvproto/pkg/kvrpcpb"
	"github.com/pingcap/kvproto/pkg/tikvpb"
	"github.com/pingcap/log"
	"github.com/pkg/errors"
	dto "github.com/prometheus/client_model/go"
	"github.com/tikv/client-go/v2/config"
	"github.com/tikv/client-go/v2/internal/client"
	"github.com/tikv/client-go/v2/metrics"
	"github.com/tikv/client-go/v2/tikvrpc"
	"github.com/tikv/client-go/v2/util"
	"github.com/tikv/client-go/v2/util/async"
	"go.uber.org/zap/zapcore"
	"google.golang.org/grpc"
	"google.golang.org/grpc/codes"
	"google.golang.org/grpc/metadata"
	"google.golang.org/grpc/status"
)

// ---------------------------------------------------------------- scenario description

type CallerSpec struct {
	Host      int   `json:"h"`  // index into hosts; 0 = not forwarded
	Pri       int   `json:"p"`  // override priority (>= 10 is "high")
	Kind      int   `json:"k"`  // 0 RawGet, 1 Get, 2 Empty, 3 Coprocessor
	TimeoutMs int   `json:"to"` // SendRequest time-out
	CancelUs  int64 `json:"cu"` // cancel the context after this many microseconds; <0 never
	StartUs   int64 `json:"su"` // start delay
	SlowMs    int   `json:"sl"` // the server holds the response of this request for so long
	Async     bool  `json:"as"` // use SendRequestAsync (no timer of its own: bounded by the context only)
	CbMs      int   `json:"cb"`  // an async callback keeps the shared run loop busy for so long
	Key       int   `json:"key"` // Kind 4 (ResolveLock through reqCollapse): start version (multiple of 10)
	Var       int   `json:"var"` // Kind 4: which component differs from the plain full-region request: 0 none, 1 / 2 two different
	// TxnInfos (batch resolve), 3 Keys (resolve lock lite), 5 another region, 4 another commit version
	Pool      int   `json:"pl"` // which store (connection pool) the call goes to
	Long      bool  `json:"lg"` // "no deadline": sync calls get a 30 s time-out, async calls a context without deadline;
	// such a call must complete in the scenario's drain phase (finite watchdog)
}

type Fault struct {
	AtUs int64  `json:"at"`
	Kind string `json:"k"` // kill (one stream of host), killall, restart, recvfail, sendfail, initfail, close, closeaddr, sendpanic
	Host int    `json:"h"`
	Pool int    `json:"pl"`
	N    int    `json:"n"` // how many times (recvfail/sendfail/initfail) or down time in ms (restart)
}

type Scenario struct {
	ID        int          `json:"id"`
	Class     string       `json:"class"`
	Seed      int64        `json:"seed"`
	Conns     uint         `json:"conns"`
	Limit     int64        `json:"limit"` // MaxConcurrencyRequestLimit, 0 = default
	MaxBatch  uint         `json:"maxbatch"`
	Policy    string       `json:"policy"`
	WaitUs    int64        `json:"waitus"` // MaxBatchWaitTime
	NHosts    int          `json:"nhosts"`
	Callers   []CallerSpec `json:"callers"`
	Faults    []Fault      `json:"faults"`
	DelayUs   int64        `json:"delayus"` // max server side delay per response batch
	Reorder   float64      `json:"reorder"`
	Dup       float64      `json:"dup"`
	Unknown   float64      `json:"unknown"`
	Blackhole float64      `json:"blackhole"`
	Pools     int          `json:"pools"`   // number of stores (each its own server, address and connection pool); 0 = 1
	RunLoop   bool         `json:"runloop"`  // all async callbacks of the scenario share ONE async.RunLoop driven by one goroutine
	Collapse  bool         `json:"collapse"` // calls go through NewReqCollapse(NewInterceptedClient(rpc)), like tikv/kv.go
	HoldMs    int          `json:"holdms"`   // the server holds every ResolveLock request for so long
	NoBatch   bool         `json:"nobatch"` // MaxBatchSize = 0: the non-batch path (one unary call per request)
}

// ---------------------------------------------------------------- event log

var (
	outMu sync.Mutex
	out   *bufio.Writer
)

var activeSc int64 // guarded by outMu

// ev logs one event of the active scenario.
func ev(f string, a ...interface{}) {
	outMu.Lock()
	fmt.Fprintf(out, f, a...)
	out.WriteByte('\n')
	outMu.Unlock()
}

// evs logs an event on behalf of scenario sc; late events of a finished scenario (background loops of a
// closed client) are dropped.
func evs(sc int64, f string, a ...interface{}) {
	outMu.Lock()
	if activeSc == sc {
		fmt.Fprintf(out, f, a...)
		out.WriteByte('\n')
	}
	outMu.Unlock()
}

// ---------------------------------------------------------------- echo server

type item struct {
	id   uint64
	resp *tikvpb.BatchCommandsResponse_Response
}

type srvStream struct {
	host string
	conn string
	kill chan struct{}
	once sync.Once
	mu   sync.Mutex
	pend []item
	held []heldItem // slow requests: answered only after their hold time (or when the scenario drains)
	wake chan struct{}
}

type heldItem struct {
	it item
	at time.Time
}

func (s *srvStream) doKill() { s.once.Do(func() { close(s.kill) }) }

type server struct {
	tikvpb.UnimplementedTikvServer
	sc      *Scenario
	mu      sync.Mutex
	rng     *rand.Rand
	streams map[*srvStream]bool
	g       *grpc.Server
	addr    string
	drain   atomic.Bool // answer everything immediately, no faults (end of scenario)
	bad     atomic.Int64 // number of response batches still to be sent with one id lacking its response
}

func (s *server) rnd(f func(r *rand.Rand)) { s.mu.Lock(); f(s.rng); s.mu.Unlock() }

func echo(r *tikvpb.BatchCommandsRequest_Request) *tikvpb.BatchCommandsResponse_Response {
	switch c := r.Cmd.(type) {
	case *tikvpb.BatchCommandsRequest_Request_RawGet:
		return &tikvpb.BatchCommandsResponse_Response{Cmd: &tikvpb.BatchCommandsResponse_Response_RawGet{RawGet: &kvrpcpb.RawGetResponse{Value: c.RawGet.Key}}}
	case *tikvpb.BatchCommandsRequest_Request_Get:
		return &tikvpb.BatchCommandsResponse_Response{Cmd: &tikvpb.BatchCommandsResponse_Response_Get{Get: &kvrpcpb.GetResponse{Value: c.Get.Key}}}
	case *tikvpb.BatchCommandsRequest_Request_Empty:
		return &tikvpb.BatchCommandsResponse_Response{Cmd: &tikvpb.BatchCommandsResponse_Response_Empty{Empty: &tikvpb.BatchCommandsEmptyResponse{TestId: c.Empty.TestId}}}
	case *tikvpb.BatchCommandsRequest_Request_ResolveLock:
		// no payload field in the response: the start version travels back in the (otherwise unused) Abort text
		return &tikvpb.BatchCommandsResponse_Response{Cmd: &tikvpb.BatchCommandsResponse_Response_ResolveLock{ResolveLock: &kvrpcpb.ResolveLockResponse{
			Error: &kvrpcpb.KeyError{Abort: fmt.Sprintf("c%d", resolveLockFingerprint(c.ResolveLock))}}}}
	case *tikvpb.BatchCommandsRequest_Request_Coprocessor:
		return &tikvpb.BatchCommandsResponse_Response{Cmd: &tikvpb.BatchCommandsResponse_Response_Coprocessor{Coprocessor: &coprocessor.Response{Data: append([]byte(nil), c.Coprocessor.Data...)}}}
	}
	return &tikvpb.BatchCommandsResponse_Response{Cmd: &tikvpb.BatchCommandsResponse_Response_Empty{Empty: &tikvpb.BatchCommandsEmptyResponse{TestId: 1 << 62}}}
}

// resolveLockFingerprint identifies the COMMAND the server executed: start version (a multiple of 10) plus a digit for
// the component in which it differs from the plain full-region request (see CallerSpec.Var).
func resolveLockFingerprint(r *kvrpcpb.ResolveLockRequest) uint64 {
	fp := r.GetStartVersion()
	for _, t := range r.GetTxnInfos() {
		fp += t.GetStatus()
	}
	fp += 3 * uint64(len(r.GetKeys()))
	if r.GetCommitVersion() > r.GetStartVersion()+1 {
		fp += 4 * (r.GetCommitVersion() - r.GetStartVersion() - 1)
	}
	if reg := r.GetContext().GetRegionId(); reg > 7 {
		fp += 5 * (reg - 7)
	}
	return fp
}

func respPayload(r *tikvpb.BatchCommandsResponse_Response) int64 {
	switch c := r.GetCmd().(type) {
	case *tikvpb.BatchCommandsResponse_Response_RawGet:
		return parsePay(c.RawGet.GetValue())
	case *tikvpb.BatchCommandsResponse_Response_Get:
		return parsePay(c.Get.GetValue())
	case *tikvpb.BatchCommandsResponse_Response_Empty:
		return int64(c.Empty.GetTestId())
	case *tikvpb.BatchCommandsResponse_Response_Coprocessor:
		return parsePay([]byte(c.Coprocessor.Data))
	case *tikvpb.BatchCommandsResponse_Response_ResolveLock:
		return parsePay([]byte(c.ResolveLock.GetError().GetAbort()))
	}
	return -2
}

func reqPayload(r *tikvpb.BatchCommandsRequest_Request) int64 {
	switch c := r.GetCmd().(type) {
	case *tikvpb.BatchCommandsRequest_Request_RawGet:
		return parsePay(c.RawGet.GetKey())
	case *tikvpb.BatchCommandsRequest_Request_Get:
		return parsePay(c.Get.GetKey())
	case *tikvpb.BatchCommandsRequest_Request_Empty:
		return int64(c.Empty.GetTestId())
	case *tikvpb.BatchCommandsRequest_Request_Coprocessor:
		return parsePay(c.Coprocessor.GetData())
	}
	return -2
}

func parsePay(b []byte) int64 {
	s := string(b)
	if !strings.HasPrefix(s, "c") {
		return -3
	}
	v, err := strconv.ParseInt(s[1:], 10, 64)
	if err != nil {
		return -3
	}
	return v
}

// unary handlers (non-batch path): echo after the caller's hold time, or fail when the call is cancelled
func (s *server) hold(ctx context.Context, pay int64) error {
	slow := 0
	if pay >= 0 && int(pay) < len(s.sc.Callers) {
		slow = s.sc.Callers[pay].SlowMs
	}
	if slow <= 0 || s.drain.Load() {
		return nil
	}
	t := time.NewTimer(time.Duration(slow) * time.Millisecond)
	defer t.Stop()
	for {
		select {
		case <-t.C:
			return nil
		case <-ctx.Done():
			return ctx.Err()
		case <-time.After(5 * time.Millisecond):
			if s.drain.Load() {
				return nil
			}
		}
	}
}

func (s *server) RawGet(ctx context.Context, req *kvrpcpb.RawGetRequest) (*kvrpcpb.RawGetResponse, error) {
	if err := s.hold(ctx, parsePay(req.GetKey())); err != nil {
		return nil, err
	}
	return &kvrpcpb.RawGetResponse{Value: req.GetKey()}, nil
}

func (s *server) KvGet(ctx context.Context, req *kvrpcpb.GetRequest) (*kvrpcpb.GetResponse, error) {
	if err := s.hold(ctx, parsePay(req.GetKey())); err != nil {
		return nil, err
	}
	return &kvrpcpb.GetResponse{Value: req.GetKey()}, nil
}

func (s *server) Coprocessor(ctx context.Context, req *coprocessor.Request) (*coprocessor.Response, error) {
	if err := s.hold(ctx, parsePay(req.GetData())); err != nil {
		return nil, err
	}
	return &coprocessor.Response{Data: append([]byte(nil), req.GetData()...)}, nil
}

func (s *server) BatchCommands(ss tikvpb.Tikv_BatchCommandsServer) error {
	md, _ := metadata.FromIncomingContext(ss.Context())
	st := &srvStream{kill: make(chan struct{}), wake: make(chan struct{}, 1)}
	if v := md.Get(client.VerifForwardKey); len(v) > 0 {
		st.host = v[0]
	}
	if v := md.Get(client.VerifConnIdxKey); len(v) > 0 {
		st.conn = v[0]
	}
	s.mu.Lock()
	s.streams[st] = true
	s.mu.Unlock()
	defer func() { s.mu.Lock(); delete(s.streams, st); s.mu.Unlock() }()
	rdErr := make(chan error, 1)
	go func() {
		for {
			req, err := ss.Recv()
			if err != nil {
				rdErr <- err
				return
			}
			st.mu.Lock()
			for i, id := range req.GetRequestIds() {
				it := item{id, echo(req.Requests[i])}
				slow := 0
				if c := reqPayload(req.Requests[i]); c >= 0 && int(c) < len(s.sc.Callers) {
					slow = s.sc.Callers[c].SlowMs
				}
				if _, ok := req.Requests[i].GetCmd().(*tikvpb.BatchCommandsRequest_Request_ResolveLock); ok {
					slow = s.sc.HoldMs
				}
				if slow > 0 && !s.drain.Load() {
					st.held = append(st.held, heldItem{it, time.Now().Add(time.Duration(slow) * time.Millisecond)})
				} else {
					st.pend = append(st.pend, it)
				}
			}
			st.mu.Unlock()
			select {
			case st.wake <- struct{}{}:
			default:
			}
		}
	}()
	done := make(chan struct{})
	defer close(done)
	go s.responder(ss, st, done)
	select {
	case <-st.kill:
		return status.Error(codes.Unavailable, "verif: stream killed")
	case err := <-rdErr:
		return err
	}
}

func (s *server) responder(ss tikvpb.Tikv_BatchCommandsServer, st *srvStream, done chan struct{}) {
	sc := s.sc
	for {
		select {
		case <-done:
			return
		case <-st.wake:
		case <-time.After(2 * time.Millisecond):
		}
		draining := s.drain.Load()
		st.mu.Lock()
		if len(st.held) > 0 {
			now := time.Now()
			keep := st.held[:0]
			for _, h := range st.held {
				if draining || !now.Before(h.at) {
					st.pend = append(st.pend, h.it)
				} else {
					keep = append(keep, h)
				}
			}
			st.held = keep
		}
		n := len(st.pend)
		st.mu.Unlock()
		if n == 0 {
			continue
		}
		var delay time.Duration
		var reorder, dup, unknown bool
		var k int
		var bh []bool
		s.rnd(func(r *rand.Rand) {
			if sc.DelayUs > 0 {
				delay = time.Duration(r.Int63n(sc.DelayUs+1)) * time.Microsecond
			}
			reorder = r.Float64() < sc.Reorder
			dup = r.Float64() < sc.Dup
			unknown = r.Float64() < sc.Unknown
			k = 1 + r.Intn(n)
			bh = make([]bool, n)
			for i := range bh {
				bh[i] = r.Float64() < sc.Blackhole
			}
		})
		if draining {
			delay, reorder, dup, unknown = 0, false, false, false
		}
		if delay > 0 {
			select {
			case <-done:
				return
			case <-time.After(delay):
			}
		}
		st.mu.Lock()
		var take []item
		if reorder && !draining {
			s.rnd(func(r *rand.Rand) { r.Shuffle(len(st.pend), func(i, j int) { st.pend[i], st.pend[j] = st.pend[j], st.pend[i] }) })
			if k > len(st.pend) {
				k = len(st.pend)
			}
			take = append(take, st.pend[:k]...)
			st.pend = append([]item(nil), st.pend[k:]...)
		} else {
			take = st.pend
			st.pend = nil
		}
		st.mu.Unlock()
		resp := &tikvpb.BatchCommandsResponse{}
		for i, it := range take {
			if !draining && i < len(bh) && bh[i] {
				continue // never answered
			}
			resp.RequestIds = append(resp.RequestIds, it.id)
			resp.Responses = append(resp.Responses, it.resp)
		}
		if dup && len(resp.RequestIds) > 0 {
			resp.RequestIds = append(resp.RequestIds, resp.RequestIds[0])
			resp.Responses = append(resp.Responses, resp.Responses[0])
		}
		if unknown && len(take) > 0 {
			resp.RequestIds = append(resp.RequestIds, take[0].id+(1<<40))
			resp.Responses = append(resp.Responses, take[0].resp)
		}
		if len(resp.RequestIds) == 0 {
			continue
		}
		if !draining && len(resp.RequestIds) == len(resp.Responses) && s.bad.Load() > 0 && s.bad.Add(-1) >= 0 {
			// malformed batch: the last id comes without its response; the proper response follows later
			n := len(resp.RequestIds) - 1
			st.mu.Lock()
			st.pend = append(st.pend, item{resp.RequestIds[n], resp.Responses[n]})
			st.mu.Unlock()
			resp.Responses = resp.Responses[:n]
		}
		if err := ss.Send(resp); err != nil {
			return
		}
	}
}

func (s *server) start() error {
	lc := net.ListenConfig{}
	var lis net.Listener
	var err error
	for i := 0; i < 50; i++ {
		a := s.addr
		if a == "" {
			a = "127.0.0.1:0"
		}
		lis, err = lc.Listen(context.Background(), "tcp", a)
		if err == nil {
			break
		}
		time.Sleep(10 * time.Millisecond)
	}
	if err != nil {
		return err
	}
	s.addr = lis.Addr().String()
	g := grpc.NewServer()
	tikvpb.RegisterTikvServer(g, s)
	s.mu.Lock()
	s.g = g
	s.mu.Unlock()
	go g.Serve(lis)
	return nil
}

func (s *server) stop() {
	s.mu.Lock()
	g := s.g
	s.mu.Unlock()
	if g != nil {
		g.Stop()
	}
}

func (s *server) killStreams(host string, all bool) {
	s.mu.Lock()
	var l []*srvStream
	for st := range s.streams {
		if all || st.host == host {
			l = append(l, st)
		}
	}
	s.mu.Unlock()
	for _, st := range l {
		st.doKill()
	}
}

// ---------------------------------------------------------------- client side interceptor

type injector struct {
	suffix   string // "" for store 0, "@k" for store k: appended to the tag of every event of this pool
	roundMu  sync.Mutex
	lastRnd  string
	srv      *server
	refMu    sync.Mutex
	refs     map[string]client.VerifEntryRef
	sc       int64
	hosts    []string
	hostIdx  map[string]int
	rpc      *client.RPCClient
	addr     string
	pool     atomic.Value // pool handle
	incs     atomic.Int64
	sendFail []atomic.Int64
	recvFail []atomic.Int64
	initFail []atomic.Int64
	rvCount  atomic.Int64
}

// ev logs an event of this pool.
func (in *injector) ev(f string, a ...interface{}) {
	if i := strings.IndexByte(f, '\t'); i > 0 {
		f = f[:i] + in.suffix + f[i:]
	} else {
		f += in.suffix
	}
	evs(in.sc, f, a...)
}

// evf logs an event whose text (a table snapshot) is computed while the log is locked, so that the snapshot is
// ordered with the other events.
func (in *injector) evf(mk func() string) {
	outMu.Lock()
	if activeSc == in.sc {
		f := mk()
		if i := strings.IndexByte(f, '\t'); i > 0 {
			f = f[:i] + in.suffix + f[i:]
		}
		out.WriteString(f)
		out.WriteByte('\n')
	}
	outMu.Unlock()
}

func (in *injector) handle() interface{} {
	h := in.pool.Load()
	if h == nil {
		if p := client.VerifPool(in.rpc, in.addr); p != nil {
			in.pool.Store(p)
			h = p
		}
	}
	return h
}

// dumpRound logs the builder state of the current buildWithLimit round once (send loop goroutine only).
func (in *injector) dumpRound() {
	h := in.handle()
	if h == nil {
		return
	}
	r := client.VerifRoundDump(h)
	if len(r.Built) == 0 {
		return
	}
	sort.Slice(r.Built, func(i, j int) bool { return r.Built[i].ID < r.Built[j].ID })
	key := fmt.Sprintf("%d/%d", r.IDAlloc, r.Built[0].ID)
	in.roundMu.Lock()
	dup := key == in.lastRnd
	in.lastRnd = key
	in.roundMu.Unlock()
	if dup {
		return
	}
	var b, l strings.Builder
	for i, it := range r.Built {
		if i > 0 {
			b.WriteByte(',')
		}
		fmt.Fprintf(&b, "%d:%d:%d", it.ID, it.Caller, in.hostIdx[it.Host])
	}
	for i, it := range r.Left {
		if i > 0 {
			l.WriteByte(',')
		}
		c := 0
		if it.Canceled {
			c = 1
		}
		fmt.Fprintf(&l, "%d:%d:%d", it.Caller, it.Pri, c)
	}
	in.ev("ROUND\t%d\tbuilt=%s\tleft=%s", r.IDAlloc, b.String(), l.String())
}

func (in *injector) tabOf(conn string, host string) string {
	h := in.pool.Load()
	if h == nil {
		if p := client.VerifPool(in.rpc, in.addr); p != nil {
			in.pool.Store(p)
			h = p
		}
	}
	if h == nil {
		return "?"
	}
	snap := client.VerifSnapshotPool(h)
	var ids []uint64
	for _, e := range snap.Entries {
		if e.Conn == conn && e.Host == host {
			ids = append(ids, e.ID)
		}
	}
	sort.Slice(ids, func(i, j int) bool { return ids[i] < ids[j] })
	var sb strings.Builder
	sb.WriteString("-")
	for _, id := range ids {
		fmt.Fprintf(&sb, ",%d", id)
	}
	return sb.String()
}

// capture remembers the entries that are in flight right now (called from SendMsg: send() has just stored them).
func (in *injector) capture() {
	h := in.pool.Load()
	if h == nil {
		in.tabOf("0", "")
		if h = in.pool.Load(); h == nil {
			return
		}
	}
	in.refMu.Lock()
	for _, r := range client.VerifEntryRefs(h) {
		in.refs[fmt.Sprintf("%s:%d", r.Conn, r.ID)] = r
	}
	in.refMu.Unlock()
}

// canceledWithValue lists conn:id:canceled:buffered for every entry that was ever seen in flight.
func (in *injector) canceledWithValue() string {
	in.refMu.Lock()
	defer in.refMu.Unlock()
	var l []string
	for k, r := range in.refs {
		c, n := r.State()
		ci := 0
		if c {
			ci = 1
		}
		l = append(l, fmt.Sprintf("%s:%d:%d", k, ci, n))
	}
	sort.Strings(l)
	return "cres=" + strings.Join(l, ",")
}

type wrapStream struct {
	grpc.ClientStream
	in   *injector
	conn string
	host int
	inc  int64
}

func (in *injector) intercept(ctx context.Context, desc *grpc.StreamDesc, cc *grpc.ClientConn, method string, streamer grpc.Streamer, opts ...grpc.CallOption) (grpc.ClientStream, error) {
	if !strings.HasSuffix(method, "/BatchCommands") {
		return streamer(ctx, desc, cc, method, opts...)
	}
	md, _ := metadata.FromOutgoingContext(ctx)
	host, conn := "", "?"
	if v := md.Get(client.VerifForwardKey); len(v) > 0 {
		host = v[0]
	}
	if v := md.Get(client.VerifConnIdxKey); len(v) > 0 {
		conn = v[0]
	}
	hi := in.hostIdx[host]
	if h := in.handle(); h != nil && !client.VerifStreamExists(h, conn, host) {
		in.dumpRound() // initBatchClient inside send(): we are on the send loop goroutine
	}
	if in.initFail[hi].Load() > 0 && in.initFail[hi].Add(-1) >= 0 {
		in.ev("NSF\t%s\t%d\tinjected", conn, hi)
		return nil, errors.New("verif-initfail")
	}
	cs, err := streamer(ctx, desc, cc, method, opts...)
	if err != nil {
		in.ev("NSF\t%s\t%d\treal", conn, hi)
		return nil, err
	}
	inc := in.incs.Add(1)
	in.evf(func() string { return fmt.Sprintf("NS\t%s\t%d\t%d\t%s", conn, hi, inc, in.tabOf(conn, host)) })
	return &wrapStream{ClientStream: cs, in: in, conn: conn, host: hi, inc: inc}, nil
}

func (w *wrapStream) SendMsg(m interface{}) error {
	req, ok := m.(*tikvpb.BatchCommandsRequest)
	if !ok {
		return w.ClientStream.SendMsg(m)
	}
	// the commands are pre-encoded (encodedBatchCmd): decode a marshalled copy to read the payloads
	var sb strings.Builder
	if b, err := req.Marshal(); err == nil {
		var dec tikvpb.BatchCommandsRequest
		if dec.Unmarshal(b) == nil {
			for i, id := range dec.RequestIds {
				p := int64(-4)
				if i < len(dec.Requests) {
					p = reqPayload(dec.Requests[i])
				}
				if i > 0 {
					sb.WriteByte(',')
				}
				fmt.Fprintf(&sb, "%d:%d", id, p)
			}
		}
	}
	w.in.capture()
	w.in.dumpRound()
	w.in.ev("SB\t%s\t%d\t%d\t%s", w.conn, w.host, w.inc, sb.String())
	if w.in.sendFail[w.host].Load() > 0 && w.in.sendFail[w.host].Add(-1) >= 0 {
		w.in.ev("SE\t%s\t%d\t%d\terr", w.conn, w.host, w.inc)
		return errors.New("verif-sendfail")
	}
	err := w.ClientStream.SendMsg(m)
	if err != nil {
		w.in.ev("SE\t%s\t%d\t%d\terr", w.conn, w.host, w.inc)
	} else {
		w.in.ev("SE\t%s\t%d\t%d\tok", w.conn, w.host, w.inc)
	}
	return err
}

func (w *wrapStream) RecvMsg(m interface{}) error {
	// the recv loop is back for the next message: everything it dispatched is out of the table by now
	w.in.evf(func() string { return fmt.Sprintf("RD\t%s\t%d\t%d\t%s", w.conn, w.host, w.inc, w.in.tabOf(w.conn, hostName(w.host))) })
	err := w.ClientStream.RecvMsg(m)
	if err == nil && w.in.recvFail[w.host].Load() > 0 && w.in.recvFail[w.host].Add(-1) >= 0 {
		err = errors.New("verif-recvfail") // the received message is dropped
	}
	if err != nil {
		w.in.ev("RE\t%s\t%d\t%d", w.conn, w.host, w.inc)
		return err
	}
	if resp, ok := m.(*tikvpb.BatchCommandsResponse); ok {
		var sb strings.Builder
		for i, id := range resp.RequestIds {
			p := int64(-9) // an id without a response: batchRecvLoop panics on it if the id is in the table
			if i < len(resp.Responses) {
				p = respPayload(resp.Responses[i])
			}
			if i > 0 {
				sb.WriteByte(',')
			}
			fmt.Fprintf(&sb, "%d:%d", id, p)
		}
		w.in.rvCount.Add(1)
		w.in.ev("RV\t%s\t%d\t%d\t%s", w.conn, w.host, w.inc, sb.String())
	}
	return nil
}

// ---------------------------------------------------------------- running one scenario

func hostName(i int) string {
	if i == 0 {
		return ""
	}
	return fmt.Sprintf("fwd-store-%d", i)
}

func mkReq(c int, cs CallerSpec) *tikvrpc.Request {
	pay := []byte(fmt.Sprintf("c%d", c))
	var req *tikvrpc.Request
	switch cs.Kind {
	case 1:
		req = tikvrpc.NewRequest(tikvrpc.CmdGet, &kvrpcpb.GetRequest{Key: pay})
	case 2:
		req = tikvrpc.NewRequest(tikvrpc.CmdEmpty, &tikvpb.BatchCommandsEmptyRequest{TestId: uint64(c)})
	case 3:
		req = tikvrpc.NewRequest(tikvrpc.CmdCop, &coprocessor.Request{Data: pay})
	case 4:
		// full-region ResolveLock (no keys, no txn infos): what reqCollapse collapses by (region, start version, async)
		rl := &kvrpcpb.ResolveLockRequest{StartVersion: uint64(cs.Key), CommitVersion: uint64(cs.Key) + 1}
		region := uint64(7)
		switch cs.Var {
		case 1:
			rl.TxnInfos = []*kvrpcpb.TxnInfo{{Txn: uint64(cs.Key), Status: 1}}
		case 2:
			rl.TxnInfos = []*kvrpcpb.TxnInfo{{Txn: uint64(cs.Key), Status: 2}}
		case 3:
			rl.Keys = [][]byte{[]byte("k")}
		case 4:
			rl.CommitVersion++
		case 5:
			region = 8
		}
		req = tikvrpc.NewRequest(tikvrpc.CmdResolveLock, rl)
		req.Context.RegionId = region
	default:
		req = tikvrpc.NewRequest(tikvrpc.CmdRawGet, &kvrpcpb.RawGetRequest{Key: pay})
	}
	req.StoreTp = tikvrpc.TiKV
	req.ForwardedHost = hostName(cs.Host)
	if cs.Pri > 0 {
		req.ResourceControlContext = &kvrpcpb.ResourceControlContext{OverridePriority: uint64(cs.Pri)}
	}
	return req
}

func respPay(resp *tikvrpc.Response) (int64, string) {
	if resp == nil || resp.Resp == nil {
		return -1, "nil"
	}
	switch r := resp.Resp.(type) {
	case *kvrpcpb.RawGetResponse:
		return parsePay(r.GetValue()), "rawget"
	case *kvrpcpb.GetResponse:
		return parsePay(r.GetValue()), "get"
	case *tikvpb.BatchCommandsEmptyResponse:
		return int64(r.GetTestId()), "empty"
	case *coprocessor.Response:
		return parsePay([]byte(r.Data)), "cop"
	case *kvrpcpb.ResolveLockResponse:
		return parsePay([]byte(r.GetError().GetAbort())), "resolvelock"
	}
	return -2, fmt.Sprintf("%T", resp.Resp)
}

var kindNames = []string{"rawget", "get", "empty", "cop", "resolvelock"}

var injectedPanics, injectedRecvPanics atomic.Int64

// goExecutor runs scheduled callbacks on their own goroutine.
type goExecutor struct{}

func (goExecutor) Go(f func()) { go f() }
func (goExecutor) Append(fs ...func()) {
	for _, f := range fs {
		go f()
	}
}

func errClass(err error) string {
	cause := errors.Cause(err)
	msg := err.Error()
	switch {
	case cause == context.Canceled:
		return "ctx"
	case cause == context.DeadlineExceeded:
		return "timeout"
	case strings.Contains(msg, "batchConn closed") || strings.Contains(msg, "rpcClient is closed") || strings.Contains(msg, "batch client closed"):
		return "closed"
	case strings.Contains(msg, "verif-initfail"):
		return "fail:init"
	case strings.Contains(msg, "no available connections"):
		return "fail:noconn"
	case strings.Contains(msg, "rpcClient is idle"):
		return "fail:idle"
	}
	return "fail:other"
}

func counterVal(label string) float64 {
	m := &dto.Metric{}
	if err := metrics.TiKVPanicCounter.WithLabelValues(label).Write(m); err != nil {
		return -1
	}
	return m.GetCounter().GetValue()
}

func runScenario(sc *Scenario) {
	js, _ := json.Marshal(sc)
	outMu.Lock()
	activeSc = int64(sc.ID)
	outMu.Unlock()
	defer func() { outMu.Lock(); activeSc = 0; outMu.Unlock() }()
	ev("SC\t%d\t%s", sc.ID, js)
	restore := config.UpdateGlobal(func(conf *config.Config) {
		conf.TiKVClient.GrpcConnectionCount = sc.Conns
		if sc.Limit > 0 {
			conf.TiKVClient.MaxConcurrencyRequestLimit = sc.Limit
		}
		if sc.MaxBatch > 0 {
			conf.TiKVClient.MaxBatchSize = sc.MaxBatch
		}
		if sc.NoBatch {
			conf.TiKVClient.MaxBatchSize = 0
		}
		if sc.Policy != "" {
			conf.TiKVClient.BatchPolicy = sc.Policy
		}
		if sc.WaitUs > 0 {
			conf.TiKVClient.MaxBatchWaitTime = time.Duration(sc.WaitUs) * time.Microsecond
			conf.TiKVClient.OverloadThreshold = 0
		}
	})
	defer restore()
	npools := sc.Pools
	if npools <= 0 {
		npools = 1
	}
	var srvs []*server
	var ins []*injector
	byTarget := map[string]*injector{}
	for k := 0; k < npools; k++ {
		sv := &server{sc: sc, rng: rand.New(rand.NewSource(sc.Seed + int64(k))), streams: map[*srvStream]bool{}}
		if err := sv.start(); err != nil {
			ev("HARNESS\tserver start failed: %v", err)
			return
		}
		defer sv.stop()
		inj := &injector{sc: int64(sc.ID), hostIdx: map[string]int{}, addr: sv.addr, refs: map[string]client.VerifEntryRef{}, srv: sv}
		if k > 0 {
			inj.suffix = fmt.Sprintf("@%d", k)
		}
		for i := 0; i < sc.NHosts; i++ {
			inj.hosts = append(inj.hosts, hostName(i))
			inj.hostIdx[hostName(i)] = i
		}
		inj.sendFail = make([]atomic.Int64, sc.NHosts)
		inj.recvFail = make([]atomic.Int64, sc.NHosts)
		inj.initFail = make([]atomic.Int64, sc.NHosts)
		srvs, ins = append(srvs, sv), append(ins, inj)
		byTarget[sv.addr] = inj
	}
	in := ins[0]
	dispatch := func(ctx context.Context, desc *grpc.StreamDesc, cc *grpc.ClientConn, method string, streamer grpc.Streamer, opts ...grpc.CallOption) (grpc.ClientStream, error) {
		if inj, ok := byTarget[cc.Target()]; ok {
			return inj.intercept(ctx, desc, cc, method, streamer, opts...)
		}
		return in.intercept(ctx, desc, cc, method, streamer, opts...)
	}
	rpc := client.NewRPCClient(client.WithGRPCDialOptions(grpc.WithStreamInterceptor(dispatch)))
	for _, inj := range ins {
		inj.rpc = rpc
	}
	defer rpc.Close()
	var cl client.Client = rpc
	if sc.Collapse {
		cl = client.NewReqCollapse(client.NewInterceptedClient(rpc)) // the stack tikv/kv.go puts on top of the batched client
	}
	var loop *async.RunLoop
	if sc.RunLoop {
		// one run loop for all asynchronous calls of the scenario, driven by one goroutine (like a txn's run loop)
		loop = async.NewRunLoop()
		lctx, lcancel := context.WithCancel(context.Background())
		loopDone := make(chan struct{})
		go func() {
			defer close(loopDone)
			for lctx.Err() == nil {
				loop.Exec(lctx)
			}
		}()
		defer func() { lcancel(); <-loopDone }()
	}
	p0recv, p0send := counterVal(metrics.LabelBatchRecvLoop), counterVal(metrics.LabelBatchSendLoop)
	sp0 := atomic.LoadInt64(&client.BatchSendLoopPanicCounter)
	inj0 := injectedPanics.Load()
	noconn0 := 0.0
	{
		m := &dto.Metric{}
		if metrics.TiKVNoAvailableConnectionCounter.Write(m) == nil {
			noconn0 = m.GetCounter().GetValue()
		}
	}
	injr0 := injectedRecvPanics.Load()

	t0 := time.Now()
	var wg sync.WaitGroup
	returned := make([]atomic.Bool, len(sc.Callers))
	cancels := make([]atomic.Value, len(sc.Callers))
	var wgLong sync.WaitGroup
	nLong := 0
	maxTo := 0
	for c := range sc.Callers {
		cs := sc.Callers[c]
		if cs.TimeoutMs > maxTo && !cs.Long {
			maxTo = cs.TimeoutMs
		}
		wg.Add(1)
		if cs.Long {
			nLong++
			wgLong.Add(1)
		}
		go func(c int, cs CallerSpec) {
			defer wg.Done()
			if cs.Long {
				defer wgLong.Done()
			}
			if d := time.Duration(cs.StartUs)*time.Microsecond - time.Since(t0); d > 0 {
				time.Sleep(d)
			}
			ctx, cancel := context.WithCancel(context.WithValue(context.Background(), client.VerifCallerKey{}, int64(c)))
			defer cancel()
			cancels[c].Store(cancel)
			addr := srvs[cs.Pool%npools].addr
			timeout := time.Duration(cs.TimeoutMs) * time.Millisecond
			if cs.Long {
				timeout = 30 * time.Second
			}
			if cs.CancelUs >= 0 {
				tm := time.AfterFunc(time.Duration(cs.CancelUs)*time.Microsecond, cancel)
				defer tm.Stop()
			}
			req := mkReq(c, cs)
			mode := "sync"
			if cs.Async {
				mode = "async"
			}
			if cs.Long {
				mode += "-long"
			}
			exp, willCancel := int64(c), 0
			if cs.Kind == 4 {
				exp = int64(cs.Key + cs.Var) // the fingerprint of its own command (shared by everybody it may be collapsed with)
			}
			if cs.CancelUs >= 0 {
				willCancel = 1
			}
			evs(int64(sc.ID), "SUB\t%d\t%d\t%d\t%s\t%d\t%s\t%d\t%d\t%d", c, cs.Host, cs.Pri, kindNames[cs.Kind%5], cs.TimeoutMs, mode, cs.Pool%npools, exp, willCancel)
			st := time.Now()
			var resp *tikvrpc.Response
			var err error
			func() {
				defer func() {
					if r := recover(); r != nil {
						err = fmt.Errorf("verif-panic: %v", r)
						evs(int64(sc.ID), "PANIC\t%d\t%v", c, r)
					}
				}()
				if !cs.Async {
					resp, err = cl.SendRequest(ctx, addr, req, timeout)
					return
				}
				// asynchronous API: the call is over when the callback ran; a second invocation is a second return
				actx := ctx
				if !cs.Long {
					var c2 context.CancelFunc
					actx, c2 = context.WithTimeout(ctx, timeout)
					defer c2()
				}
				type res struct {
					r *tikvrpc.Response
					e error
				}
				ch := make(chan res, 4)
				var calls atomic.Int32
				var ex async.Executor = goExecutor{}
				if loop != nil {
					ex = loop
				}
				cb := async.NewCallback(ex, func(r *tikvrpc.Response, e error) {
					if calls.Add(1) > 1 {
						evs(int64(sc.ID), "RET\t%d\tfail:second-callback\t-1\t0\t0\t-", c)
						return
					}
					ch <- res{r, e}
					if cs.CbMs > 0 {
						time.Sleep(time.Duration(cs.CbMs) * time.Millisecond) // the run loop stays in this round meanwhile
					}
				})
				cl.SendRequestAsync(actx, addr, req, cb)
				got := <-ch
				resp, err = got.r, got.e
			}()
			el := time.Since(st)
			returned[c].Store(true)
			late := 0
			if !cs.Long && el > time.Duration(20*cs.TimeoutMs)*time.Millisecond+2*time.Second {
				late = 1
			}
			if err != nil {
				evs(int64(sc.ID), "RET\t%d\t%s\t-1\t%d\t%d\t%s", c, errClass(err), late, el.Milliseconds(), strings.ReplaceAll(strings.ReplaceAll(firstN(err.Error(), 120), "\t", " "), "\n", " "))
			} else {
				p, ty := respPay(resp)
				cls := "ok"
				if ty != kindNames[cs.Kind%5] {
					cls = "ok-wrongtype:" + ty
				}
				evs(int64(sc.ID), "RET\t%d\t%s\t%d\t%d\t%d\t-", c, cls, p, late, el.Milliseconds())
			}
		}(c, cs)
	}
	// fault schedule
	faultsDone := make(chan struct{})
	go func() {
		defer close(faultsDone)
		fs := append([]Fault(nil), sc.Faults...)
		sort.SliceStable(fs, func(i, j int) bool { return fs[i].AtUs < fs[j].AtUs })
		for _, f := range fs {
			if d := time.Duration(f.AtUs)*time.Microsecond - time.Since(t0); d > 0 {
				time.Sleep(d)
			}
			n := int64(f.N)
			if n <= 0 {
				n = 1
			}
			srv, in := srvs[f.Pool%npools], ins[f.Pool%npools]
			switch f.Kind {
			case "recvpanic":
				// the next n response batches of this store carry one id without its response: batchRecvLoop
				// panics on it (index out of range), recovers and restarts itself on the same stream
				srv.bad.Store(n)
				ev("INJ\trecvpanic\t%d", n)
			case "failpanic":
				// the repo's own failpoint at the top of failPendingRequests
				injectedRecvPanics.Add(n)
				ev("INJ\tfailpanic\t%d", n)
				if err := failpoint.Enable("tikvclient/panicInFailPendingRequests", fmt.Sprintf("%d*panic(\"verif fail-pending panic\")", n)); err != nil {
					ev("HARNESS\tfailpoint enable failed: %v", err)
				}
			case "kill":
				srv.killStreams(hostName(f.Host), false)
			case "killall":
				srv.killStreams("", true)
			case "restart":
				srv.stop()
				time.Sleep(time.Duration(n) * time.Millisecond)
				if err := srv.start(); err != nil {
					ev("HARNESS\tserver restart failed: %v", err)
				}
			case "sendpanic":
				// the repo's own failpoint at the top of getClientAndSend: the next n batches panic inside
				// batchSendLoop, which recovers and restarts itself
				injectedPanics.Add(n)
				ev("INJ\tsendpanic\t%d", n)
				if err := failpoint.Enable("tikvclient/mockBatchClientSendDelay", fmt.Sprintf("%d*panic(\"verif send loop panic\")", n)); err != nil {
					ev("HARNESS\tfailpoint enable failed: %v", err)
				}
			case "idle":
				// the idle timer of the pool expires now: batchSendLoop marks the conn idle and returns
				ev("INJ\tidle\t%d", n)
				client.VerifFireIdleTimer(rpc, srv.addr, time.Duration(n)*time.Microsecond)
			case "senddelay":
				// the repo's failpoint at the top of getClientAndSend with an int value: every batch is held for n ms
				// before buildWithLimit, so the requests arriving meanwhile land in ONE later build
				ev("INJ\tsenddelay\t%d", n)
				if err := failpoint.Enable("tikvclient/mockBatchClientSendDelay", fmt.Sprintf("return(%d)", n)); err != nil {
					ev("HARNESS\tfailpoint enable failed: %v", err)
				}
			case "recvfail":
				in.recvFail[f.Host].Store(n)
			case "sendfail":
				in.sendFail[f.Host].Store(n)
			case "initfail":
				in.initFail[f.Host].Store(n)
			case "close":
				for _, inj := range ins {
					inj.tabOf("0", "") // make sure the pool handles are captured before they are dropped
				}
				ev("CLOSE\tclient")
				rpc.Close()
			case "closeaddr":
				in.tabOf("0", "")
				ev("CLOSE\taddr")
				rpc.CloseAddr(srv.addr)
			}
		}
	}()
	allDone := make(chan struct{})
	go func() { wg.Wait(); close(allDone) }()
	if nLong > 0 {
		// calls without a (short) deadline: once the last fault is over the server is healthy and answers
		// everything it holds, so every such call must complete (answered, or failed by the stream error) within
		// the drain window; the ones that do not are reported and then cancelled
		<-faultsDone
		lastStart := time.Duration(0)
		for _, cs := range sc.Callers {
			if d := time.Duration(cs.StartUs) * time.Microsecond; d > lastStart {
				lastStart = d
			}
		}
		if d := lastStart + 20*time.Millisecond - time.Since(t0); d > 0 {
			time.Sleep(d)
		}
		for _, sv := range srvs {
			sv.drain.Store(true)
		}
		longDone := make(chan struct{})
		go func() { wgLong.Wait(); close(longDone) }()
		const drainWindow = 4 * time.Second
		select {
		case <-longDone:
		case <-time.After(drainWindow):
			for c := range returned {
				if sc.Callers[c].Long && !returned[c].Load() {
					ev("HANG\t%d\t%d\tno-deadline call not completed in the drain phase", c, drainWindow.Milliseconds())
				}
			}
			for c := range returned {
				if sc.Callers[c].Long && !returned[c].Load() {
					if f, ok := cancels[c].Load().(context.CancelFunc); ok {
						f()
					}
				}
			}
		}
	}
	limit := time.Duration(25*maxTo)*time.Millisecond + 5*time.Second
	select {
	case <-allDone:
	case <-time.After(limit):
		for c := range returned {
			if !returned[c].Load() {
				ev("HANG\t%d\t%d", c, limit.Milliseconds())
			}
		}
	}
	<-faultsDone
	failpoint.Disable("tikvclient/mockBatchClientSendDelay")
	failpoint.Disable("tikvclient/panicInFailPendingRequests")
	// quiescence: let the servers answer what they still hold, wait until nothing moves any more
	for k := range srvs {
		srvs[k].drain.Store(true)
		ins[k].tabOf("0", "")
	}
	stable, last := 0, ""
	for i := 0; i < 200 && stable < 4; i++ {
		time.Sleep(5 * time.Millisecond)
		cur := ""
		for _, inj := range ins {
			cur += fmt.Sprintf("%d|%s;", inj.rvCount.Load(), snapString(inj))
		}
		if cur == last {
			stable++
		} else {
			stable, last = 0, cur
		}
	}
	{
		m := &dto.Metric{}
		if metrics.TiKVNoAvailableConnectionCounter.Write(m) == nil {
			ev("STAT\tnoconn=%g", m.GetCounter().GetValue()-noconn0)
		}
	}
	for k := len(ins) - 1; k >= 0; k-- { // store 0 last: its END line closes the scenario
		ins[k].ev("CRES\t%s", ins[k].canceledWithValue())
		ins[k].ev("END\t%s\t%g\t%g\t%d\t%d\t%d", snapString(ins[k]), counterVal(metrics.LabelBatchRecvLoop)-p0recv, counterVal(metrics.LabelBatchSendLoop)-p0send,
			atomic.LoadInt64(&client.BatchSendLoopPanicCounter)-sp0, injectedPanics.Load()-inj0, injectedRecvPanics.Load()-injr0)
	}
}

func snapString(in *injector) string {
	h := in.pool.Load()
	if h == nil {
		return "nopool"
	}
	s := client.VerifSnapshotPool(h)
	sort.Slice(s.Entries, func(i, j int) bool {
		if s.Entries[i].Conn != s.Entries[j].Conn {
			return s.Entries[i].Conn < s.Entries[j].Conn
		}
		return s.Entries[i].ID < s.Entries[j].ID
	})
	var sb strings.Builder
	sb.WriteString("tab=")
	for i, e := range s.Entries {
		if i > 0 {
			sb.WriteByte(',')
		}
		c := 0
		if e.Canceled {
			c = 1
		}
		fmt.Fprintf(&sb, "%s:%d:%d:%d", e.Conn, e.ID, in.hostIdx[e.Host], c)
	}
	sb.WriteString("\tsent=")
	for i, v := range s.Sent {
		if i > 0 {
			sb.WriteByte(',')
		}
		fmt.Fprintf(&sb, "%d", v)
	}
	fmt.Fprintf(&sb, "\tidalloc=%d", s.IDAlloc)
	return sb.String()
}

func firstN(s string, n int) string {
	if len(s) > n {
		return s[:n]
	}
	return s
}

// ---------------------------------------------------------------- direct differential on util/async.RunLoop
// Random scripts: callbacks 0..n-1, some appended up front, the others appended by a running callback (re-entrant Append,
// one call or several) -- mode "seq" (one goroutine: the execution order is determined) -- or, mode "conc", additionally by
// a second goroutine while Exec is running.  Line: RL <mode> <init> <spawn t:a,b|..> <observed order>.
func runLoopDifferential(r *rand.Rand, n int) {
	for k := 0; k < n; k++ {
		mode := "seq"
		if k%3 == 2 {
			mode = "conc"
		}
		total := 3 + r.Intn(20)
		ninit := 1 + r.Intn(minInt(total, 6))
		spawn := map[int][]int{}
		next := ninit
		for t := 0; t < next && next < total; t++ { // t < next: only callbacks that exist spawn others
			m := r.Intn(4)
			for j := 0; j < m && next < total; j++ {
				spawn[t] = append(spawn[t], next)
				next++
			}
		}
		for next < total { // whoever is left is spawned by the last callback that spawns anything (or callback 0)
			spawn[0] = append(spawn[0], next)
			next++
		}
		extra := 0
		if mode == "conc" {
			extra = 1 + r.Intn(6)
		}
		loop := async.NewRunLoop()
		var mu sync.Mutex
		var order []int
		var mk func(t int) func()
		oneByOne := r.Intn(2) == 0
		mk = func(t int) func() {
			return func() {
				mu.Lock()
				order = append(order, t)
				mu.Unlock()
				if mode == "conc" {
					time.Sleep(time.Duration(r.Intn(150)) * time.Microsecond)
				}
				var fs []func()
				for _, c := range spawn[t] {
					fs = append(fs, mk(c))
				}
				if oneByOne {
					for _, f := range fs {
						loop.Append(f)
					}
				} else {
					loop.Append(fs...)
				}
			}
		}
		var init []func()
		for t := 0; t < ninit; t++ {
			init = append(init, mk(t))
		}
		loop.Append(init...)
		ctx, cancel := context.WithTimeout(context.Background(), 2*time.Second)
		var wg sync.WaitGroup
		if extra > 0 {
			wg.Add(1)
			go func() {
				defer wg.Done()
				for j := 0; j < extra; j++ {
					time.Sleep(time.Duration(50+j*40) * time.Microsecond)
					loop.Append(mk(1000 + j))
				}
			}()
		}
		done := func() bool { mu.Lock(); defer mu.Unlock(); return len(order) >= total+extra }
		for !done() && ctx.Err() == nil {
			loop.Exec(ctx)
		}
		cancel()
		wg.Wait()
		var ib, sb, ob strings.Builder
		for t := 0; t < ninit; t++ {
			fmt.Fprintf(&ib, "%d,", t)
		}
		keys := make([]int, 0, len(spawn))
		for t := range spawn {
			keys = append(keys, t)
		}
		sort.Ints(keys)
		for _, t := range keys {
			fmt.Fprintf(&sb, "%d:", t)
			for _, c := range spawn[t] {
				fmt.Fprintf(&sb, "%d,", c)
			}
			sb.WriteByte('|')
		}
		mu.Lock()
		for _, t := range order {
			fmt.Fprintf(&ob, "%d,", t)
		}
		mu.Unlock()
		outMu.Lock()
		fmt.Fprintf(out, "RL\t%s\t%s\t%s\t%d\t%s\n", mode, ib.String(), sb.String(), extra, ob.String())
		outMu.Unlock()
	}
}

func minInt(a, b int) int {
	if a < b {
		return a
	}
	return b
}

// ---------------------------------------------------------------- scenario generation

func genScenario(r *rand.Rand, id int, class string) *Scenario {
	sc := &Scenario{ID: id, Class: class, Seed: r.Int63(), Conns: 1, NHosts: 1, MaxBatch: 128}
	n := []int{1, 2, 3, 5, 8, 13, 24, 40, 64}[r.Intn(9)]
	normalTo := 3000
	addCallers := func(n int, f func(i int, cs *CallerSpec)) {
		for i := 0; i < n; i++ {
			cs := CallerSpec{Host: r.Intn(sc.NHosts), Kind: r.Intn(4), TimeoutMs: normalTo, CancelUs: -1, StartUs: r.Int63n(20000)}
			if r.Intn(4) == 0 {
				cs.Pri = []int{1, 5, 9, 10, 11, 16}[r.Intn(6)]
			}
			if f != nil {
				f(i, &cs)
			}
			sc.Callers = append(sc.Callers, cs)
		}
	}
	sc.DelayUs = []int64{0, 200, 2000, 10000}[r.Intn(4)]
	sc.Reorder = []float64{0, 0.5, 1}[r.Intn(3)]
	switch class {
	case "plain": // concurrency, priorities, request mixes, reordering, duplicates, unknown ids
		sc.Dup = []float64{0, 0.3}[r.Intn(2)]
		sc.Unknown = []float64{0, 0.3}[r.Intn(2)]
		sc.Policy = []string{"", config.BatchPolicyBasic, config.BatchPolicyPositive}[r.Intn(3)]
		if r.Intn(3) == 0 {
			sc.Limit = int64(1 + r.Intn(6))
		}
		if r.Intn(3) == 0 {
			sc.WaitUs = 500
		}
		if r.Intn(3) == 0 {
			sc.MaxBatch = uint(1 + r.Intn(8))
		}
		addCallers(n, nil)
	case "forward": // several forwarded hosts share one table; one stream is killed while the others carry traffic
		sc.NHosts = 2 + r.Intn(3)
		sc.DelayUs = 3000 + r.Int63n(15000)
		sc.Dup = []float64{0, 0.2}[r.Intn(2)]
		if r.Intn(3) == 0 {
			sc.Limit = int64(2 + r.Intn(6))
		}
		addCallers(n+4, nil)
		nf := 1 + r.Intn(4)
		for i := 0; i < nf; i++ {
			sc.Faults = append(sc.Faults, Fault{AtUs: 3000 + r.Int63n(30000), Kind: []string{"kill", "kill", "recvfail", "sendfail"}[r.Intn(4)], Host: r.Intn(sc.NHosts), N: 1 + r.Intn(2)})
		}
	case "streamfail": // the stream breaks (server kill, injected recv/send/create failures, connection restart) during traffic
		sc.NHosts = 1 + r.Intn(2)
		sc.DelayUs = 2000 + r.Int63n(10000)
		addCallers(n+2, func(i int, cs *CallerSpec) { cs.StartUs = r.Int63n(60000) })
		nf := 1 + r.Intn(5)
		for i := 0; i < nf; i++ {
			k := []string{"kill", "killall", "recvfail", "sendfail", "initfail", "restart"}[r.Intn(6)]
			f := Fault{AtUs: r.Int63n(60000), Kind: k, Host: r.Intn(sc.NHosts), N: 1 + r.Intn(3)}
			if k == "restart" {
				f.N = 5 + r.Intn(40)
			}
			if k == "initfail" && r.Intn(2) == 0 {
				f.AtUs = 0
			}
			sc.Faults = append(sc.Faults, f)
		}
	case "cancel": // cancellation points and time-outs, unanswered requests
		sc.NHosts = 1 + r.Intn(2)
		sc.DelayUs = 5000 + r.Int63n(30000)
		sc.Blackhole = []float64{0, 0.2, 0.5}[r.Intn(3)]
		addCallers(n+2, func(i int, cs *CallerSpec) {
			switch r.Intn(3) {
			case 0:
				cs.CancelUs = r.Int63n(40000)
			case 1:
				cs.TimeoutMs = 5 + r.Intn(60)
			default:
				if sc.Blackhole > 0 {
					cs.TimeoutMs = 100 + r.Intn(200)
				}
			}
		})
		if r.Intn(2) == 0 {
			sc.Faults = append(sc.Faults, Fault{AtUs: 10000 + r.Int63n(40000), Kind: "kill", Host: r.Intn(sc.NHosts)})
		}
	case "close": // the pool / client is closed during traffic
		sc.NHosts = 1 + r.Intn(2)
		sc.DelayUs = 3000 + r.Int63n(20000)
		addCallers(n+2, func(i int, cs *CallerSpec) { cs.StartUs = r.Int63n(40000); cs.TimeoutMs = 400 })
		sc.Faults = append(sc.Faults, Fault{AtUs: 2000 + r.Int63n(30000), Kind: []string{"close", "closeaddr"}[r.Intn(2)]})
	case "staleepoch": // a forwarded and the direct stream fail one after the other (per-loop epoch)
		sc.NHosts = 2
		sc.DelayUs = 60000
		sc.Reorder = 0
		addCallers(4+r.Intn(6), func(i int, cs *CallerSpec) { cs.Host = i % 2; cs.StartUs = r.Int63n(3000); cs.TimeoutMs = 300; cs.Pri = 0 })
		a, b := r.Intn(2), 0
		b = 1 - a
		sc.Faults = append(sc.Faults, Fault{AtUs: 15000, Kind: "kill", Host: a}, Fault{AtUs: 30000, Kind: "kill", Host: b})
	case "rebreak": // a stream breaks repeatedly: first with nothing pending (one loop loses the epoch CAS), later with
		// requests pending on it -- sync calls with a normal / a 30 s time-out and async calls without deadline
		sc.NHosts = 2 + r.Intn(2)
		sc.DelayUs, sc.Reorder = 200, 0
		a := r.Intn(sc.NHosts)
		b := (a + 1 + r.Intn(sc.NHosts-1)) % sc.NHosts
		for h := 0; h < sc.NHosts; h++ { // phase 1: create every stream, nothing stays pending
			for k := 0; k < 1+r.Intn(2); k++ {
				sc.Callers = append(sc.Callers, CallerSpec{Host: h, Kind: r.Intn(4), TimeoutMs: normalTo, CancelUs: -1, StartUs: r.Int63n(4000)})
			}
		}
		// phase 2: both streams break with nothing pending; a's loop wins the CAS, b's loses (and refreshes)
		sc.Faults = append(sc.Faults, Fault{AtUs: 40000, Kind: "kill", Host: a}, Fault{AtUs: 55000, Kind: "kill", Host: b})
		target := b
		if r.Intn(2) == 0 { // b breaks once more, still with nothing pending
			sc.Faults = append(sc.Faults, Fault{AtUs: 70000, Kind: "kill", Host: b})
		} else if r.Intn(4) == 0 {
			target = a
		}
		// phase 3: slow requests pending on the target stream (and quick ones elsewhere), then it breaks again
		np := 1 + r.Intn(5)
		for k := 0; k < np; k++ {
			cs := CallerSpec{Host: target, Kind: r.Intn(4), TimeoutMs: normalTo, CancelUs: -1, StartUs: 100000 + r.Int63n(15000), SlowMs: 400}
			switch r.Intn(3) {
			case 0:
				cs.Long = true
			case 1:
				cs.Long, cs.Async = true, true
			}
			if k == 0 && !cs.Long {
				cs.Long, cs.Async = true, r.Intn(2) == 0
			}
			sc.Callers = append(sc.Callers, cs)
		}
		for k := 0; k < r.Intn(3); k++ {
			h := r.Intn(sc.NHosts)
			if h == target {
				continue
			}
			sc.Callers = append(sc.Callers, CallerSpec{Host: h, Kind: r.Intn(4), TimeoutMs: normalTo, CancelUs: -1, StartUs: 100000 + r.Int63n(15000), SlowMs: 20, Async: r.Intn(2) == 0})
		}
		sc.Faults = append(sc.Faults, Fault{AtUs: 140000, Kind: "kill", Host: target})
		if r.Intn(3) == 0 { // and once more, with new requests pending
			for k := 0; k < 1+r.Intn(2); k++ {
				sc.Callers = append(sc.Callers, CallerSpec{Host: target, Kind: r.Intn(4), TimeoutMs: normalTo, CancelUs: -1, StartUs: 170000 + r.Int63n(5000), SlowMs: 400, Long: true, Async: r.Intn(2) == 0})
			}
			sc.Faults = append(sc.Faults, Fault{AtUs: 200000, Kind: "kill", Host: target})
		}
	case "staleasync": // calls without deadline (sync 30 s / async) pending on the stream whose loop LOSES the epoch CAS:
		// they must be failed by the stream error like the winner's (fix a827fda), not left in flight
		sc.NHosts = 2
		sc.DelayUs, sc.Reorder = 200, 0
		a := r.Intn(2)
		for i := 0; i < 2+r.Intn(3); i++ {
			sc.Callers = append(sc.Callers, CallerSpec{Host: 1 - a, Kind: r.Intn(4), TimeoutMs: normalTo, CancelUs: -1, StartUs: r.Int63n(3000), SlowMs: 400, Long: true, Async: i%2 == 0})
		}
		sc.Callers = append(sc.Callers, CallerSpec{Host: a, Kind: r.Intn(4), TimeoutMs: normalTo, CancelUs: -1, StartUs: r.Int63n(3000), SlowMs: 400})
		sc.Faults = append(sc.Faults, Fault{AtUs: 15000, Kind: "kill", Host: a}, Fault{AtUs: 30000, Kind: "kill", Host: 1 - a})
	case "limitbatch": // a finite MaxConcurrencyRequestLimit and whole batches of mixed priorities built at once: the failpoint
		// holds every batch before buildWithLimit, so the requests of a wave land in ONE build; high-priority (>= 10) and
		// already cancelled entries use up the first Take without counting, more normal requests are queued than slots
		// remain -> second Take round; most normal requests are long / no-deadline calls (must complete in the drain phase)
		sc.NHosts = 1 + r.Intn(2)
		sc.Limit = int64(1 + r.Intn(3))
		sc.DelayUs, sc.Reorder = 200, 0
		hold := 8 + r.Intn(10)
		sc.Faults = append(sc.Faults, Fault{AtUs: 0, Kind: "senddelay", N: hold})
		sc.Callers = append(sc.Callers, CallerSpec{Kind: 0, TimeoutMs: normalTo, CancelUs: -1, StartUs: 500}) // opens the first hold
		waves := 1 + r.Intn(3)
		for w := 0; w < waves; w++ {
			base := int64(2000 + w*(hold+6)*1000)
			nhi := r.Intn(3)
			ncanc := r.Intn(3)
			nnorm := int(sc.Limit) + 1 + r.Intn(4)
			for i := 0; i < nhi; i++ {
				sc.Callers = append(sc.Callers, CallerSpec{Host: r.Intn(sc.NHosts), Pri: []int{10, 12, 16}[r.Intn(3)], Kind: r.Intn(4), TimeoutMs: normalTo, CancelUs: -1, StartUs: base + r.Int63n(2000)})
			}
			for i := 0; i < ncanc; i++ { // gives up while it sits in the channel / builder
				sc.Callers = append(sc.Callers, CallerSpec{Host: r.Intn(sc.NHosts), Pri: []int{0, 5, 12}[r.Intn(3)], Kind: r.Intn(4), TimeoutMs: normalTo, CancelUs: base + 2500 + r.Int63n(2000), StartUs: base + r.Int63n(2000)})
			}
			for i := 0; i < nnorm; i++ {
				cs := CallerSpec{Host: r.Intn(sc.NHosts), Pri: []int{0, 0, 1, 9}[r.Intn(4)], Kind: r.Intn(4), TimeoutMs: normalTo, CancelUs: -1, StartUs: base + r.Int63n(2000), SlowMs: []int{0, 0, 30}[r.Intn(3)]}
				switch r.Intn(4) {
				case 0:
					cs.Long = true
				case 1, 2:
					cs.Long, cs.Async = true, true
				default:
					cs.TimeoutMs = 300 // may be left in the builder until its time-out when nothing else arrives
				}
				sc.Callers = append(sc.Callers, cs)
			}
		}
	case "runloop": // several SendRequestAsync calls whose callbacks run on ONE shared async.RunLoop; the responses arrive 1 ms
		// apart while a callback keeps the loop in its round for a few ms, so callbacks are appended to the loop while a
		// round with several queued callbacks is executing; every callback must run exactly once
		sc.NHosts = 1 + r.Intn(2)
		sc.RunLoop = true
		sc.DelayUs, sc.Reorder = 100, 0
		k := 8 + r.Intn(10)
		for i := 0; i < k; i++ {
			sc.Callers = append(sc.Callers, CallerSpec{Host: r.Intn(sc.NHosts), Kind: r.Intn(4), TimeoutMs: normalTo, CancelUs: -1, StartUs: r.Int63n(2000),
				SlowMs: 15 + i + r.Intn(2), Async: true, Long: r.Intn(4) != 0, CbMs: 2 + r.Intn(4)})
		}
	case "collapse": // ResolveLock through the wrapper stack of tikv/kv.go: callers with the same (region, start version) share one
		// flight; the caller that started it is often cancelled / times out while the server still holds the request: every
		// other caller must get the shared response, not the leader's error; different keys are never collapsed
		sc.NHosts = 1
		sc.Collapse = true
		sc.HoldMs = 30 + r.Intn(30)
		sc.DelayUs, sc.Reorder = 200, 0
		nkeys := 1 + r.Intn(3)
		for kx := 0; kx < nkeys; kx++ {
			key := 100*(id%90) + 10*(kx+1) // unique per scenario: the singleflight group is a package global
			m := 2 + r.Intn(3)
			// request pairs on one (region, start version) that are equal or differ in exactly ONE component of the command --
			// TxnInfos (batch resolve), Keys (resolve lock lite), region -- overlapping in time, through the sync and the async
			// entry of the wrapper: only equal plain full-region requests may share a flight
			pair := [][2]int{{0, 0}, {0, 1}, {1, 2}, {1, 1}, {0, 3}, {0, 5}, {2, 1}, {3, 3}, {1, 0}}[r.Intn(9)]
			if os.Getenv("VERIF_C18_COMMITVAR") == "1" && r.Intn(3) == 0 {
				pair = [2]int{0, 4}
			}
			allAsync := r.Intn(2) == 0
			for i := 0; i < m; i++ {
				cs := CallerSpec{Kind: 4, Key: key, Var: pair[i%2], TimeoutMs: normalTo, CancelUs: -1, StartUs: int64(i)*1500 + r.Int63n(500), Async: allAsync || r.Intn(3) == 0}
				if i == 0 { // the caller that starts the shared request
					switch r.Intn(3) {
					case 0:
						cs.CancelUs = 5000 + r.Int63n(10000)
					case 1:
						cs.TimeoutMs = 8 + r.Intn(10)
					}
				} else if r.Intn(5) == 0 {
					cs.CancelUs = 6000 + r.Int63n(10000)
				}
				sc.Callers = append(sc.Callers, cs)
			}
		}
	case "idle": // idle recycling: the idle timer of the pool is made to expire (read-only export hook: idleTimeout is a 3 min
		// constant) while a trickle of calls is running: batchSendLoop marks the conn idle and returns, calls get
		// "rpcClient is idle", the next call triggers recycleIdleConnArray (CloseAddrVer), later calls use a new pool. Every
		// call must return exactly once, also async calls without deadline that are enqueued just when the send loop exits on
		// the idle timer (regression class for fix F40).
		sc.NHosts = 1 + r.Intn(2)
		sc.DelayUs, sc.Reorder = 200, 0
		k := 40 + r.Intn(60)
		for i := 0; i < k; i++ {
			cs := CallerSpec{Host: r.Intn(sc.NHosts), Kind: r.Intn(4), TimeoutMs: 250, CancelUs: -1, StartUs: int64(i)*300 + r.Int63n(200), Async: r.Intn(2) == 0}
			if cs.Async && r.Intn(3) != 0 {
				cs.Long = true // no deadline: must be failed ("rpcClient is idle" / "batchConn closed") or answered, never orphaned
			}
			sc.Callers = append(sc.Callers, cs)
		}
		for i := 0; i < 2+r.Intn(4); i++ {
			sc.Faults = append(sc.Faults, Fault{AtUs: 2000 + r.Int63n(int64(k)*300), Kind: "idle", N: 1})
		}
	case "limitstarve": // regression class for fix 7ad2a8a: a finite limit, one wave built at once, NO further traffic: the
		// requests left in the builder must be sent as soon as capacity is released (retry timer), not only when another
		// request happens to arrive
		sc.NHosts = 1
		sc.Limit = int64(1 + r.Intn(3))
		sc.DelayUs, sc.Reorder = 200, 0
		sc.Faults = append(sc.Faults, Fault{AtUs: 0, Kind: "senddelay", N: 10 + r.Intn(8)})
		sc.Callers = append(sc.Callers, CallerSpec{Kind: 0, TimeoutMs: normalTo, CancelUs: -1, StartUs: 0})
		for i := 0; i < int(sc.Limit)+1+r.Intn(4); i++ {
			sc.Callers = append(sc.Callers, CallerSpec{Pri: []int{0, 0, 5}[r.Intn(3)], Kind: r.Intn(4), TimeoutMs: normalTo, CancelUs: -1, StartUs: 3000 + r.Int63n(1500), SlowMs: []int{0, 20}[r.Intn(2)], Long: true, Async: r.Intn(2) == 0})
		}
	case "builder": // the builder: mixed priorities (high ones bypass the limit), a small concurrency limit so that entries
		// stay in the priority queue across rounds, callers that give up while still queued, forwarding buckets
		sc.NHosts = 1 + r.Intn(3)
		sc.DelayUs = 1000 + r.Int63n(6000)
		sc.Limit = int64(1 + r.Intn(4))
		sc.Reorder = 0.5
		if r.Intn(2) == 0 {
			sc.MaxBatch = uint(2 + r.Intn(6))
		}
		addCallers(n+6, func(i int, cs *CallerSpec) {
			cs.Pri = []int{0, 0, 1, 5, 9, 10, 12, 16}[r.Intn(8)]
			cs.StartUs = r.Int63n(8000)
			cs.Async = r.Intn(4) == 0
			if r.Intn(5) == 0 {
				cs.Long = true
				return
			}
			switch r.Intn(4) {
			case 0:
				cs.CancelUs = r.Int63n(6000) // often before the entry is built
			case 1:
				cs.TimeoutMs = 1 + r.Intn(8)
			}
		})
	case "recvpanic": // response batches with an id that lacks its response: batchRecvLoop panics between Load and deliver,
		// restarts on the same stream; the proper response follows; sometimes the stream breaks afterwards
		sc.NHosts = 1 + r.Intn(2)
		sc.DelayUs = 1000 + r.Int63n(4000)
		sc.Reorder = 0.5
		addCallers(n+3, func(i int, cs *CallerSpec) {
			cs.StartUs = r.Int63n(30000)
			cs.Async = r.Intn(3) == 0
			cs.Long = r.Intn(3) == 0 // must still be answered by the restarted loop (drain phase)
		})
		for k := 0; k < 1+r.Intn(3); k++ {
			sc.Faults = append(sc.Faults, Fault{AtUs: r.Int63n(25000), Kind: "recvpanic", N: 1 + r.Intn(2)})
		}
		if r.Intn(2) == 0 {
			sc.Faults = append(sc.Faults, Fault{AtUs: 10000 + r.Int63n(20000), Kind: "kill", Host: r.Intn(sc.NHosts)})
		}
	case "failpanic": // panic at the start of failPendingRequests (repo failpoint) while requests are pending on the broken
		// stream: nothing may be lost, the restarted loop fails them on the next Recv error
		sc.NHosts = 1 + r.Intn(2)
		sc.DelayUs, sc.Reorder = 200, 0
		tgt := r.Intn(sc.NHosts)
		addCallers(2+r.Intn(5), func(i int, cs *CallerSpec) {
			cs.StartUs = r.Int63n(5000)
			cs.SlowMs = 300
			if i%2 == 0 {
				cs.Host = tgt
			}
			switch r.Intn(3) {
			case 0:
				cs.Long = true
			case 1:
				cs.Long, cs.Async = true, true
			}
		})
		sc.Faults = append(sc.Faults, Fault{AtUs: 15000, Kind: "failpanic", N: 1}, Fault{AtUs: 20000, Kind: "kill", Host: tgt})
	case "twopools": // two stores (own server, address, pool, id source) used concurrently: both hand out ids 1,2,3,... and use
		// the same forwarded-host names; a response must never cross over
		sc.Pools = 2
		sc.NHosts = 1 + r.Intn(3)
		sc.DelayUs = 1000 + r.Int63n(8000)
		sc.Dup = []float64{0, 0.2}[r.Intn(2)]
		addCallers(n+6, func(i int, cs *CallerSpec) { cs.Pool = i % 2; cs.StartUs = r.Int63n(6000); cs.Async = r.Intn(4) == 0 })
		for k := 0; k < r.Intn(3); k++ {
			sc.Faults = append(sc.Faults, Fault{AtUs: 2000 + r.Int63n(10000), Kind: []string{"kill", "recvfail", "sendfail"}[r.Intn(3)], Host: r.Intn(sc.NHosts), Pool: r.Intn(2), N: 1})
		}
	case "nonbatch": // MaxBatchSize = 0: sendRequest takes the unary path (tikvrpc.CallRPC with a time-out context); time-outs,
		// cancellation, server restart and Close while calls are pending; SendRequestAsync must fail at once
		sc.NoBatch = true
		sc.NHosts = 1 + r.Intn(2)
		addCallers(n+4, func(i int, cs *CallerSpec) {
			cs.Kind = []int{0, 1, 3}[r.Intn(3)]
			cs.StartUs = r.Int63n(20000)
			cs.SlowMs = []int{0, 5, 40, 200}[r.Intn(4)]
			cs.Async = r.Intn(6) == 0
			switch r.Intn(4) {
			case 0:
				cs.CancelUs = r.Int63n(30000)
			case 1:
				cs.TimeoutMs = 5 + r.Intn(60)
			default:
				cs.TimeoutMs = 400
			}
			if r.Intn(8) == 0 { // the server sits on the call far beyond its time-out
				cs.SlowMs, cs.TimeoutMs, cs.CancelUs, cs.Async = 7000, 40+r.Intn(80), -1, false
			}
		})
		switch r.Intn(3) {
		case 0:
			sc.Faults = append(sc.Faults, Fault{AtUs: 5000 + r.Int63n(20000), Kind: []string{"close", "closeaddr"}[r.Intn(2)]})
		case 1:
			sc.Faults = append(sc.Faults, Fault{AtUs: 5000 + r.Int63n(20000), Kind: "restart", N: 5 + r.Intn(30)})
		}
	case "asyncclose": // regression class for fix 000f10e: SendRequestAsync calls without deadline racing with RPCClient.Close --
		// an entry on batchCommandsCh when batchSendLoop returns (or enqueued afterwards) must be failed, not orphaned
		sc.Callers = append(sc.Callers, CallerSpec{Kind: 0, TimeoutMs: normalTo, CancelUs: -1, StartUs: 1000})
		for i := 0; i < 300; i++ {
			sc.Callers = append(sc.Callers, CallerSpec{Kind: i % 4, TimeoutMs: normalTo, CancelUs: -1, StartUs: 29500 + r.Int63n(1200), Async: true, Long: true})
		}
		sc.Faults = append(sc.Faults, Fault{AtUs: 30000, Kind: "close"})
	case "sendpanic": // the send loop panics and restarts while slow requests with small ids are in flight; later
		// requests stay in flight long enough to meet the responses of the earlier ones
		sc.NHosts = 1 + r.Intn(2)
		sc.DelayUs, sc.Reorder = 200, 0
		k := 1 + r.Intn(4)
		for i := 0; i < k; i++ {
			sc.Callers = append(sc.Callers, CallerSpec{Host: r.Intn(sc.NHosts), Kind: r.Intn(4), TimeoutMs: normalTo, CancelUs: -1, StartUs: r.Int63n(3000), SlowMs: 60 + r.Intn(30)})
		}
		sc.Faults = append(sc.Faults, Fault{AtUs: 10000, Kind: "sendpanic", N: 1})
		m := k + 2 + r.Intn(4)
		for i := 0; i < m; i++ {
			sc.Callers = append(sc.Callers, CallerSpec{Host: r.Intn(sc.NHosts), Kind: r.Intn(4), TimeoutMs: normalTo, CancelUs: -1, StartUs: 15000 + r.Int63n(20000), SlowMs: 120 + r.Intn(40), Async: r.Intn(3) == 0})
		}
		if r.Intn(3) == 0 { // a second panic later
			sc.Faults = append(sc.Faults, Fault{AtUs: 45000, Kind: "sendpanic", N: 1})
		}
		for i := 0; i < 3; i++ { // late quick requests: they also push out whatever a panicking round left in the builder
			sc.Callers = append(sc.Callers, CallerSpec{Host: r.Intn(sc.NHosts), Kind: r.Intn(4), TimeoutMs: normalTo, CancelUs: -1, StartUs: 50000 + int64(i)*6000})
		}
	case "multiconn": // several connections share the id source (black-box oracles only)
		sc.Conns = uint(2 + r.Intn(3))
		sc.NHosts = 1 + r.Intn(3)
		sc.DelayUs = 1000 + r.Int63n(8000)
		sc.Dup = 0.2
		addCallers(n+8, nil)
		nf := r.Intn(4)
		for i := 0; i < nf; i++ {
			sc.Faults = append(sc.Faults, Fault{AtUs: 3000 + r.Int63n(30000), Kind: []string{"kill", "killall", "recvfail", "sendfail"}[r.Intn(4)], Host: r.Intn(sc.NHosts), N: 1})
		}
	}
	return sc
}

func main() {
	out = bufio.NewWriterSize(os.Stdout, 1<<20)
	defer func() { outMu.Lock(); out.Flush(); outMu.Unlock() }()
	util.EnableFailpoints()
	if os.Getenv("VERIF_LOG") == "" {
		log.SetLevel(zapcore.FatalLevel)
	}
	if len(os.Args) >= 3 && os.Args[1] == "replay" {
		b, err := os.ReadFile(os.Args[2])
		if err != nil {
			panic(err)
		}
		var sc Scenario
		if err := json.Unmarshal(b, &sc); err != nil {
			panic(err)
		}
		rep, _ := strconv.Atoi(os.Getenv("VERIF_REPEAT"))
		if rep <= 0 {
			rep = 5
		}
		for i := 0; i < rep; i++ {
			s2 := sc
			s2.ID = sc.ID*1000 + i
			runScenario(&s2)
		}
		return
	}
	seed, _ := strconv.ParseInt(os.Getenv("VERIF_SEED"), 10, 64)
	if seed == 0 {
		seed = 1
	}
	tier := os.Getenv("VERIF_TIER")
	r := rand.New(rand.NewSource(seed*7919 + 17))
	classes := []string{"plain", "forward", "streamfail", "cancel", "close", "staleepoch", "multiconn", "rebreak", "sendpanic", "staleasync",
		"builder", "recvpanic", "failpanic", "twopools", "nonbatch", "asyncclose", "limitbatch", "limitstarve", "runloop", "collapse", "idle"}
	rounds := 8
	if tier == "thorough" {
		rounds = 100
	}
	if v, _ := strconv.Atoi(os.Getenv("VERIF_ROUNDS")); v > 0 {
		rounds = v
	}
	only := os.Getenv("VERIF_CLASS")
	if only == "" || only == "rl" {
		nrl := 150
		if tier == "thorough" {
			nrl = 3000
		}
		runLoopDifferential(r, nrl)
	}
	id := 0
	// directed regression scenarios (JSON specs kept in the repository of the checks, /verif/corpus/C18/*.json)
	if dir := os.Getenv("VERIF_C18_CORPUS"); dir != "" && (only == "" || only == "corpus") {
		files, _ := filepath.Glob(filepath.Join(dir, "*.json"))
		sort.Strings(files)
		for _, f := range files {
			b, err := os.ReadFile(f)
			if err != nil {
				continue
			}
			var sc Scenario
			if json.Unmarshal(b, &sc) != nil {
				continue
			}
			for rep := 0; rep < 3; rep++ {
				id++
				s2 := sc
				s2.ID, s2.Class = id, "corpus"
				runScenario(&s2)
			}
		}
	}
	for i := 0; i < rounds; i++ {
		for _, cl := range classes {
			if only != "" && only != cl {
				continue
			}
			id++
			runScenario(genScenario(r, id, cl))
			outMu.Lock()
			out.Flush()
			outMu.Unlock()
		}
	}
	_ = io.EOF
}
