//go:build verif

// Driver for property C18 (batched RPC multiplexing). It runs seeded scenarios against the real
// internal/client.RPCClient talking to an in-process echoing gRPC server, and prints one event per
// line (tab separated). The events come from three vantage points, serialised by one mutex:
//   - the caller goroutines (SUB before SendRequest, RET after it returned),
//   - a gRPC stream interceptor on the client side of every BatchCommands stream (NS = stream
//     created, SB/SE = batch handed to Send / Send returned, RV = response batch about to be
//     dispatched by batchRecvLoop, RE = Recv failed), which is also where send/recv/create faults
//     are injected,
//   - read-only snapshots of batchCommandsClient.batched (zz_verif_export_batchrpc.go).
//
// The extracted Coq model (ocaml/batchrpc/driver.ml) replays the events and evaluates the oracles.
//
// usage: batchrpc            -- scenarios from VERIF_SEED / VERIF_TIER
//
//	batchrpc replay F   -- F holds one scenario spec (JSON); it is run VERIF_REPEAT (default 5) times
package main

import (
	"bufio"
	"encoding/json"
	"fmt"
	"io"
	"math/rand"
	"os"
	"path/filepath"
	"sort"
	"strconv"
	"sync"

	"github.com/pingcap/log"
	"github.com/tikv/client-go/v2/util"
	"go.uber.org/zap/zapcore"
)

// ---------------------------------------------------------------- scenario description

type CallerSpec struct {
	Host      int   `json:"h"`   // index into hosts; 0 = not forwarded
	Pri       int   `json:"p"`   // override priority (>= 10 is "high")
	Kind      int   `json:"k"`   // 0 RawGet, 1 Get, 2 Empty, 3 Coprocessor
	TimeoutMs int   `json:"to"`  // SendRequest time-out
	CancelUs  int64 `json:"cu"`  // cancel the context after this many microseconds; <0 never
	CtxUs     int64 `json:"dl"`  // the call's own context carries a deadline this many microseconds after its start; 0 none
	StartUs   int64 `json:"su"`  // start delay
	SlowMs    int   `json:"sl"`  // the server holds the response of this request for so long
	Async     bool  `json:"as"`  // use SendRequestAsync (no timer of its own: bounded by the context only)
	CbMs      int   `json:"cb"`  // an async callback keeps the shared run loop busy for so long
	Key       int   `json:"key"` // Kind 4 (ResolveLock through reqCollapse): start version (multiple of 10)
	Var       int   `json:"var"` // Kind 4: which component differs from the plain full-region request: 0 none, 1 / 2 two different
	// TxnInfos (batch resolve), 3 Keys (resolve lock lite), 5 another region, 4 another commit version
	Group int  `json:"grp"`  // resource group of the request: 0 none, 1..3 groups with priorities 1 / 8 / 12, 9 a background group
	Gate  int  `json:"gate"` // resource-control gate of this call: 1 OnRequestWait fails, 2 OnResponseWait fails
	Icpt  bool `json:"ic"`   // an RPC interceptor is attached to the call's context
	Pool  int  `json:"pl"`   // which store (connection pool) the call goes to
	Long  bool `json:"lg"`   // "no deadline": sync calls get a 30 s time-out, async calls a context without deadline;
	// such a call must complete in the scenario's drain phase (finite watchdog)
}

type Fault struct {
	AtUs int64  `json:"at"`
	Kind string `json:"k"` // kill (one stream of host), killall, restart, recvfail, sendfail, initfail, close, closeaddr, sendpanic
	Host int    `json:"h"`
	Pool int    `json:"pl"`
	N    int    `json:"n"` // how many times (recvfail/sendfail/initfail) or down time in ms (restart)
}

type Scenario struct {
	ID        int          `json:"id"`
	Class     string       `json:"class"`
	Seed      int64        `json:"seed"`
	Conns     uint         `json:"conns"`
	Limit     int64        `json:"limit"` // MaxConcurrencyRequestLimit, 0 = default
	MaxBatch  uint         `json:"maxbatch"`
	Policy    string       `json:"policy"`
	WaitUs    int64        `json:"waitus"` // MaxBatchWaitTime
	NHosts    int          `json:"nhosts"`
	Callers   []CallerSpec `json:"callers"`
	Faults    []Fault      `json:"faults"`
	DelayUs   int64        `json:"delayus"` // max server side delay per response batch
	Reorder   float64      `json:"reorder"`
	Dup       float64      `json:"dup"`
	Unknown   float64      `json:"unknown"`
	Blackhole float64      `json:"blackhole"`
	Pools     int          `json:"pools"`    // number of stores (each its own server, address and connection pool); 0 = 1
	RunLoop   bool         `json:"runloop"`  // all async callbacks of the scenario share ONE async.RunLoop driven by one goroutine
	Collapse  bool         `json:"collapse"` // calls go through NewReqCollapse(NewInterceptedClient(rpc)), like tikv/kv.go
	HoldMs    int          `json:"holdms"`   // the server holds every ResolveLock request for so long
	RC        bool         `json:"rc"`       // calls go through NewInterceptedClient(rpc) with a resource-control interceptor installed
	DialMs    int          `json:"dialms"`   // every TCP connect of the client takes so long (the conn stays CONNECTING meanwhile)
	NoBatch   bool         `json:"nobatch"`  // MaxBatchSize = 0: the non-batch path (one unary call per request)
}

// ---------------------------------------------------------------- event log

var (
	outMu sync.Mutex
	out   *bufio.Writer
)

var activeSc int64 // guarded by outMu

// ev logs one event of the active scenario.
func ev(f string, a ...interface{}) {
	outMu.Lock()
	fmt.Fprintf(out, f, a...)
	out.WriteByte('\n')
	outMu.Unlock()
}

// evs logs an event on behalf of scenario sc; late events of a finished scenario (background loops of a
// closed client) are dropped.
func evs(sc int64, f string, a ...interface{}) {
	outMu.Lock()
	if activeSc == sc {
		fmt.Fprintf(out, f, a...)
		out.WriteByte('\n')
	}
	outMu.Unlock()
}

func main() {
	out = bufio.NewWriterSize(os.Stdout, 1<<20)
	defer func() { outMu.Lock(); out.Flush(); outMu.Unlock() }()
	util.EnableFailpoints()
	if os.Getenv("VERIF_LOG") == "" {
		log.SetLevel(zapcore.FatalLevel)
	}
	if len(os.Args) >= 3 && os.Args[1] == "replay" {
		b, err := os.ReadFile(os.Args[2])
		if err != nil {
			panic(err)
		}
		var sc Scenario
		if err := json.Unmarshal(b, &sc); err != nil {
			panic(err)
		}
		rep, _ := strconv.Atoi(os.Getenv("VERIF_REPEAT"))
		if rep <= 0 {
			rep = 5
		}
		for i := 0; i < rep; i++ {
			s2 := sc
			s2.ID = sc.ID*1000 + i
			runScenario(&s2)
		}
		return
	}
	seed, _ := strconv.ParseInt(os.Getenv("VERIF_SEED"), 10, 64)
	if seed == 0 {
		seed = 1
	}
	tier := os.Getenv("VERIF_TIER")
	r := rand.New(rand.NewSource(seed*7919 + 17))
	classes := []string{"plain", "forward", "streamfail", "cancel", "close", "staleepoch", "multiconn", "rebreak", "sendpanic", "staleasync",
		"builder", "recvpanic", "failpanic", "twopools", "nonbatch", "asyncclose", "limitbatch", "limitstarve", "runloop", "collapse", "idle", "rcglue", "regen", "mixedexit"}
	rounds := 8
	if tier == "thorough" {
		rounds = 100
	}
	if v, _ := strconv.Atoi(os.Getenv("VERIF_ROUNDS")); v > 0 {
		rounds = v
	}
	only := os.Getenv("VERIF_CLASS")
	if only == "" || only == "rl" {
		nrl := 150
		if tier == "thorough" {
			nrl = 3000
		}
		runLoopDifferential(r, nrl)
	}
	id := 0
	// directed regression scenarios (JSON specs kept in the repository of the checks, /verif/corpus/C18/*.json)
	if dir := os.Getenv("VERIF_C18_CORPUS"); dir != "" && (only == "" || only == "corpus") {
		files, _ := filepath.Glob(filepath.Join(dir, "*.json"))
		sort.Strings(files)
		nfast := len(files)
		if os.Getenv("VERIF_TIER") == "thorough" {
			// scenarios that take seconds by construction (they wait for a dial timeout of the repo): once, thorough only
			slow, _ := filepath.Glob(filepath.Join(dir, "slow", "*.json"))
			sort.Strings(slow)
			files = append(files, slow...)
		}
		for fi, f := range files {
			b, err := os.ReadFile(f)
			if err != nil {
				continue
			}
			var sc Scenario
			if json.Unmarshal(b, &sc) != nil {
				continue
			}
			reps := 3
			if fi >= nfast {
				reps = 1
			}
			for rep := 0; rep < reps; rep++ {
				id++
				s2 := sc
				s2.ID, s2.Class = id, "corpus"
				runScenario(&s2)
			}
		}
	}
	for i := 0; i < rounds; i++ {
		for _, cl := range classes {
			if only != "" && only != cl {
				continue
			}
			id++
			runScenario(genScenario(r, id, cl))
			outMu.Lock()
			out.Flush()
			outMu.Unlock()
		}
	}
	_ = io.EOF
}
