//go:build verif

// Add-only export file for the C12 driver (mapped into the package by go build -overlay).
package mocktikv

import (
	"github.com/pingcap/goleveldb/leveldb/util"
	"github.com/pingcap/kvproto/pkg/kvrpcpb"
	"github.com/tikv/client-go/v2/internal/mockstore/deadlock"
)

// ZZLock / ZZWrite are the full decoded records of one key.
type ZZLock struct {
	StartTS, TTL, ForUpdateTS, TxnSize, MinCommitTS uint64
	Primary, Value                                  []byte
	Op                                              kvrpcpb.Op
}
type ZZWrite struct {
	Type              int // 0 put 1 delete 2 rollback 3 lock
	StartTS, CommitTS uint64
	Value             []byte
}

// ZZResetDeadlockDetector neutralises the (unmodelled) wait-for graph.
func (mvcc *MVCCLevelDB) ZZResetDeadlockDetector() { mvcc.deadlockDetector = deadlock.NewDetector() }

// ZZDumpKey returns the lock record and all write records (descending version) of key.
func (mvcc *MVCCLevelDB) ZZDumpKey(key []byte) (*ZZLock, []ZZWrite, error) {
	mvcc.mu.RLock()
	defer mvcc.mu.RUnlock()
	iter := newIterator(mvcc.getDB(""), &util.Range{Start: mvccEncode(key, lockVer)})
	defer iter.Release()
	var lk *ZZLock
	dec1 := lockDecoder{expectKey: key}
	ok, err := dec1.Decode(iter)
	if err != nil {
		return nil, nil, err
	}
	if ok {
		l := dec1.lock
		lk = &ZZLock{StartTS: l.startTS, TTL: l.ttl, ForUpdateTS: l.forUpdateTS, TxnSize: l.txnSize, MinCommitTS: l.minCommitTS,
			Primary: l.primary, Value: l.value, Op: l.op}
	}
	var ws []ZZWrite
	dec2 := valueDecoder{expectKey: key}
	for iter.Valid() {
		ok, err := dec2.Decode(iter)
		if err != nil {
			return nil, nil, err
		}
		if !ok {
			break
		}
		v := dec2.value
		ws = append(ws, ZZWrite{Type: int(v.valueType), StartTS: v.startTS, CommitTS: v.commitTS, Value: v.value})
	}
	return lk, ws, nil
}

// ZZVersions lists the raw (key, version) rows of the store: checks the layout assumption
// "version of a write row = its commit ts".
func (mvcc *MVCCLevelDB) ZZVersions(key []byte) []uint64 {
	mvcc.mu.RLock()
	defer mvcc.mu.RUnlock()
	iter := newIterator(mvcc.getDB(""), &util.Range{Start: mvccEncode(key, lockVer)})
	defer iter.Release()
	var vs []uint64
	for iter.Valid() {
		k, ver, err := mvccDecode(iter.Key())
		if err != nil || string(k) != string(key) {
			break
		}
		vs = append(vs, ver)
		iter.Next()
	}
	return vs
}

func ZZConvertToKeyError(err error) *kvrpcpb.KeyError { return convertToKeyError(err) }

// ZZWipe deletes every row of the store (cheaper than opening a new leveldb per sequence).
func (mvcc *MVCCLevelDB) ZZWipe() error {
	mvcc.deadlockDetector = deadlock.NewDetector()
	return mvcc.doRawDeleteRange("", nil, nil)
}

// ZZDetector exposes the deadlock detector (its wait-for graph is dumped after every command).
func (mvcc *MVCCLevelDB) ZZDetector() *deadlock.Detector { return mvcc.deadlockDetector }
