//go:build verif

// Add-only export for the C12 driver: the wait-for graph of the detector (hidden state that survives across calls).
package deadlock

import "sort"

// ZZEdge is one wait-for edge of a transaction.
type ZZEdge struct{ Txn, KeyHash uint64 }

// ZZDump returns the transactions with edges (ascending) and their edges in registration order.
func (d *Detector) ZZDump() ([]uint64, map[uint64][]ZZEdge) {
	d.lock.Lock()
	defer d.lock.Unlock()
	var txns []uint64
	m := map[uint64][]ZZEdge{}
	for t, l := range d.waitForMap {
		txns = append(txns, t)
		for _, p := range l.txns {
			m[t] = append(m[t], ZZEdge{p.txn, p.keyHash})
		}
	}
	sort.Slice(txns, func(i, j int) bool { return txns[i] < txns[j] })
	return txns, m
}
