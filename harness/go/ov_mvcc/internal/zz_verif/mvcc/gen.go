//go:build verif

package main

import (
	"fmt"
	"math/rand"
	"os"
	"strconv"
	"strings"
)

// timestamps: rank << 18, so that the physical part (ExtractPhysical) is the rank and TTLs are small numbers
func tsOf(rank int) uint64 { return uint64(rank) << 18 }

const maxTS = ^uint64(0)

// txn = the timestamps one transaction uses
type txn struct {
	s, c, f, f2 uint64
	primary     uint64
	pess        bool
}

type world struct {
	rng   *rand.Rand
	txns  []txn
	other []uint64 // current / read / safepoint timestamps
	nkeys int
}

// newWorld draws a random permutation of ranks for all timestamps (pairwise distinct), s < c, s <= f < f2
func newWorld(rng *rand.Rand, ntxn, nkeys, nother int) *world {
	n := ntxn*4 + nother
	perm := rng.Perm(n)
	w := &world{rng: rng, nkeys: nkeys}
	for i := 0; i < ntxn; i++ {
		v := []int{perm[4*i] + 1, perm[4*i+1] + 1, perm[4*i+2] + 1, perm[4*i+3] + 1}
		// smallest is the start ts; the commit ts is one of the others
		for a := 0; a < 4; a++ {
			for b := a + 1; b < 4; b++ {
				if v[b] < v[a] {
					v[a], v[b] = v[b], v[a]
				}
			}
		}
		t := txn{s: tsOf(v[0]), primary: uint64(1 + rng.Intn(nkeys)), pess: rng.Intn(2) == 0}
		rest := []int{v[1], v[2], v[3]}
		ci := rng.Intn(3)
		t.c = tsOf(rest[ci])
		rest = append(rest[:ci], rest[ci+1:]...)
		t.f, t.f2 = tsOf(rest[0]), tsOf(rest[1])
		w.txns = append(w.txns, t)
	}
	for i := 0; i < nother; i++ {
		w.other = append(w.other, tsOf(perm[4*ntxn+i]+1))
	}
	return w
}

func (w *world) key() uint64 { return uint64(1 + w.rng.Intn(w.nkeys)) }
func (w *world) oth() uint64 { return w.other[w.rng.Intn(len(w.other))] }

// ttl: small values around the rank distances, now and then a value at which physical(start)+ttl wraps around 2^64
func (w *world) ttl() uint64 {
	if w.rng.Intn(25) == 0 {
		return []uint64{^uint64(0), ^uint64(0) - 2, 1 << 63, ^uint64(0) - 40}[w.rng.Intn(4)]
	}
	return []uint64{0, 1, 3, 40}[w.rng.Intn(4)]
}
func (w *world) b(p int) string { return b01(w.rng.Intn(100) < p) }
func b01(b bool) string {
	if b {
		return "1"
	}
	return "0"
}
func (w *world) keyset(max int) []uint64 {
	n := 1 + w.rng.Intn(max)
	p := w.rng.Perm(w.nkeys)
	var r []uint64
	for i := 0; i < n && i < len(p); i++ {
		r = append(r, uint64(p[i]+1))
	}
	return r
}
func joinU(v []uint64) string {
	if len(v) == 0 {
		return "-"
	}
	p := make([]string, len(v))
	for i, x := range v {
		p[i] = hx(x)
	}
	return strings.Join(p, ",")
}
func (w *world) rng2() (uint64, uint64) {
	switch w.rng.Intn(4) {
	case 0:
		a, b := w.key(), w.key()
		if a > b {
			a, b = b, a
		}
		return a, b + uint64(w.rng.Intn(2))
	case 1:
		return w.key(), 0
	}
	return 0, 0
}
func (w *world) readTS() uint64 {
	if w.rng.Intn(8) == 0 {
		return maxTS
	}
	if w.rng.Intn(3) == 0 {
		t := w.txns[w.rng.Intn(len(w.txns))]
		return []uint64{t.s, t.c, t.f}[w.rng.Intn(3)]
	}
	return w.oth()
}
func (w *world) resolved() string {
	if w.rng.Intn(3) != 0 {
		return "-"
	}
	var r []uint64
	for _, t := range w.txns {
		if w.rng.Intn(2) == 0 {
			r = append(r, t.s)
		}
	}
	return joinU(r)
}

// fin = (key,start) pairs on which a finishing command has been issued (the discipline forbids later lock requests)
type fin map[[2]uint64]bool

// one random command; disciplined = respect the property's discipline syntactically
func (w *world) randomCmd(fn fin, disciplined bool) string {
	ti := w.rng.Intn(len(w.txns))
	t := w.txns[ti]
	val := func(k uint64) uint64 { return uint64(ti+1)*16 + k }
	markAll := func(s uint64) {
		for k := 1; k <= w.nkeys; k++ {
			fn[[2]uint64{uint64(k), s}] = true
		}
	}
	switch x := w.rng.Intn(100); {
	case x < 18: // prewrite
		ks := w.keyset(2)
		var ms []string
		fu := uint64(0)
		if t.pess {
			fu = t.f
		}
		for _, k := range ks {
			op := "P"
			v := val(k)
			switch y := w.rng.Intn(20); {
			case y < 3:
				op, v = "D", 0
			case y < 5:
				op, v = "L", 0
			case y < 7:
				op = "I"
			case y < 8:
				op, v = "C", 0
			case y < 10:
				v = 0 // Put of an empty value (present, unlike a Delete)
			}
			as := "n"
			switch w.rng.Intn(8) {
			case 0:
				as = "e"
			case 1:
				as = "x"
			}
			pc := "0"
			if t.pess && w.rng.Intn(4) != 0 {
				pc = "1"
			}
			ms = append(ms, fmt.Sprintf("%s:%s:%s:%s:%s", op, hx(k), hx(v), as, pc))
		}
		mc := []uint64{0, 0, 0, t.s + 1, t.c, t.c + 1}[w.rng.Intn(6)]
		return fmt.Sprintf("pw %s %s %s %s %s %s %s", hx(t.primary), hx(t.s), hx(fu), hx(w.ttl()), hx(mc), w.b(30), strings.Join(ms, ";"))
	case x < 30: // pessimistic lock
		var ks []string
		force := w.rng.Intn(6) == 0
		n := 2
		if force && w.rng.Intn(3) != 0 {
			n = 1 // the client sends single-key ForceLock requests; multi-key ones (incl. the result-count panic) are exercised too
		}
		for _, k := range w.keyset(n) {
			if disciplined && fn[[2]uint64{k, t.s}] {
				continue
			}
			ks = append(ks, hx(k)+":"+w.b(15))
		}
		if len(ks) == 0 {
			return fmt.Sprintf("get %s %s -", hx(w.key()), hx(w.readTS()))
		}
		fu := t.f
		if w.rng.Intn(3) == 0 {
			fu = t.f2
		}
		rv := w.rng.Intn(3) == 0
		loie := rv && w.rng.Intn(3) == 0 || w.rng.Intn(25) == 0
		nowait := "1"
		if w.rng.Intn(40) == 0 {
			nowait = "0"
		}
		mc := uint64(0)
		if w.rng.Intn(4) == 0 {
			mc = t.s + 1
		}
		return fmt.Sprintf("pl %s %s %s %s %s %s %s %s %s %s %s", hx(t.primary), hx(t.s), hx(fu), hx(w.ttl()), hx(mc), b01(rv), w.b(30), b01(loie), b01(force), nowait, strings.Join(ks, ","))
	case x < 34: // pessimistic rollback
		s, e := w.rng2()
		ks := "-"
		if w.rng.Intn(2) == 0 {
			ks = joinU(w.keyset(2))
		}
		fu := t.f
		if w.rng.Intn(2) == 0 {
			fu = t.f2
		}
		return fmt.Sprintf("pr %s %s %s %s %s", hx(s), hx(e), ks, hx(t.s), hx(fu))
	case x < 46: // commit
		ks := w.keyset(2)
		for _, k := range ks {
			fn[[2]uint64{k, t.s}] = true
		}
		c := t.c
		if !disciplined && w.rng.Intn(4) == 0 {
			c = w.oth()
		}
		return fmt.Sprintf("cm %s %s %s", joinU(ks), hx(t.s), hx(c))
	case x < 54: // batch rollback
		ks := w.keyset(2)
		for _, k := range ks {
			fn[[2]uint64{k, t.s}] = true
		}
		return fmt.Sprintf("rb %s %s", joinU(ks), hx(t.s))
	case x < 59: // cleanup
		k := w.key()
		fn[[2]uint64{k, t.s}] = true
		cur := uint64(0)
		if w.rng.Intn(2) == 0 {
			cur = w.oth()
		}
		return fmt.Sprintf("cl %s %s %s", hx(k), hx(t.s), hx(cur))
	case x < 68: // check txn status
		k := t.primary
		if w.rng.Intn(4) == 0 {
			k = w.key()
		}
		fn[[2]uint64{k, t.s}] = true
		caller := w.oth()
		if w.rng.Intn(8) == 0 {
			caller = maxTS
		}
		cur := w.oth()
		switch w.rng.Intn(8) {
		case 0:
			cur = 0
		case 1:
			cur = t.c
		case 2:
			cur = t.c + 1
		}
		return fmt.Sprintf("cs %s %s %s %s %s %s", hx(k), hx(t.s), hx(caller), hx(cur), w.b(60), w.b(25))
	case x < 71: // heartbeat
		k := t.primary
		if w.rng.Intn(4) == 0 {
			k = w.key()
		}
		return fmt.Sprintf("hb %s %s %s", hx(k), hx(t.s), hx(w.ttl()+uint64(w.rng.Intn(3))))
	case x < 77: // resolve lock
		s, e := w.rng2()
		markAll(t.s)
		c := t.c
		if w.rng.Intn(2) == 0 {
			c = 0
		}
		return fmt.Sprintf("rl %s %s %s %s", hx(s), hx(e), hx(t.s), hx(c))
	case x < 80: // batch resolve
		s, e := w.rng2()
		var inf []string
		for _, u := range w.txns {
			if w.rng.Intn(2) == 0 {
				markAll(u.s)
				c := u.c
				if w.rng.Intn(2) == 0 {
					c = 0
				}
				inf = append(inf, hx(u.s)+":"+hx(c))
			}
		}
		is := "-"
		if len(inf) > 0 {
			is = strings.Join(inf, ",")
		}
		return fmt.Sprintf("br %s %s %s", hx(s), hx(e), is)
	case x < 82: // scan lock: the MVCCStore call, or the handler-level request with start key / end key / limit
		s, e := w.rng2()
		if w.rng.Intn(2) == 0 {
			return fmt.Sprintf("slh %s %s %s %s", hx(s), hx(e), hx(uint64(w.rng.Intn(4))), hx(w.readTS()))
		}
		return fmt.Sprintf("sl %s %s %s", hx(s), hx(e), hx(w.readTS()))
	case x < 85: // gc
		s, e := w.rng2()
		return fmt.Sprintf("gc %s %s %s", hx(s), hx(e), hx(w.readTS()))
	case x < 88 && w.rng.Intn(2) == 0:
		s, e := w.rng2()
		if w.rng.Intn(2) == 0 {
			return fmt.Sprintf("ms %s", hx(t.s))
		}
		if s == 0 && e == 0 && w.rng.Intn(3) != 0 {
			s = w.key()
			e = s + 1
		}
		return fmt.Sprintf("dr %s %s", hx(s), hx(e))
	case x < 91 && w.rng.Intn(4) == 0:
		s, e := w.rng2()
		switch w.rng.Intn(4) {
		case 0:
			return fmt.Sprintf("rcget %s %s", hx(w.key()), hx(w.readTS()))
		case 1:
			return fmt.Sprintf("rcbg %s %s", joinU(w.keyset(3)), hx(w.readTS()))
		case 2:
			return fmt.Sprintf("rcsc %s %s %s %s", hx(s), hx(e), hx(uint64(w.rng.Intn(5))), hx(w.readTS()))
		}
		return fmt.Sprintf("rcrs %s %s %s %s", hx(s), hx(e), hx(uint64(w.rng.Intn(5))), hx(w.readTS()))
	case x < 91:
		return fmt.Sprintf("get %s %s %s", hx(w.key()), hx(w.readTS()), w.resolved())
	case x < 94:
		return fmt.Sprintf("bg %s %s %s", joinU(w.keyset(3)), hx(w.readTS()), w.resolved())
	case x < 97:
		s, e := w.rng2()
		return fmt.Sprintf("sc %s %s %s %s %s", hx(s), hx(e), hx(uint64(w.rng.Intn(5))), hx(w.readTS()), w.resolved())
	default:
		s, e := w.rng2()
		return fmt.Sprintf("rs %s %s %s %s %s", hx(s), hx(e), hx(uint64(w.rng.Intn(5))), hx(w.readTS()), w.resolved())
	}
}

// the reduced alphabet of the exhaustive sweep: 2 keys, 2 transactions
func alphabet(w *world, small bool) []string {
	var a []string
	cur, rts, sp := w.other[0], w.other[1], w.other[2]
	for ti, t := range w.txns {
		for k := uint64(1); k <= 2; k++ {
			v := uint64(ti+1)*16 + k
			a = append(a,
				fmt.Sprintf("pw 1 %s 0 1 0 0 P:%s:%s:n:0", hx(t.s), hx(k), hx(v)),
				fmt.Sprintf("pw 1 %s %s 1 0 0 P:%s:%s:n:1", hx(t.s), hx(t.f), hx(k), hx(v)),
				fmt.Sprintf("pl 1 %s %s 1 0 0 0 0 0 1 %s:0", hx(t.s), hx(t.f), hx(k)),
				fmt.Sprintf("cm %s %s %s", hx(k), hx(t.s), hx(t.c)),
				fmt.Sprintf("rb %s %s", hx(k), hx(t.s)),
				fmt.Sprintf("cl %s %s 0", hx(k), hx(t.s)),
			)
			if !small {
				a = append(a, fmt.Sprintf("cs %s %s %s %s 1 0", hx(k), hx(t.s), hx(rts), hx(cur)))
			}
		}
		a = append(a, fmt.Sprintf("rl 0 0 %s %s", hx(t.s), hx(t.c)), fmt.Sprintf("rl 0 0 %s 0", hx(t.s)))
		if small {
			a = append(a, fmt.Sprintf("cs 1 %s %s %s 1 0", hx(t.s), hx(rts), hx(cur)))
		}
	}
	a = append(a, fmt.Sprintf("gc 0 0 %s", hx(sp)), fmt.Sprintf("get 1 %s -", hx(rts)))
	if !small {
		a = append(a, fmt.Sprintf("get 2 %s -", hx(rts)))
	}
	return a
}

func exhaustive(r *runner, w *world, depth int, small bool, tag string) {
	al := alphabet(w, small)
	idx := make([]int, depth)
	cmds := make([]string, depth)
	n := 0
	for {
		for i := range idx {
			cmds[i] = al[idx[i]]
		}
		r.seq(tag+strconv.Itoa(n), "exhaustive", cmds)
		n++
		i := depth - 1
		for i >= 0 {
			idx[i]++
			if idx[i] < len(al) {
				break
			}
			idx[i] = 0
			i--
		}
		if i < 0 {
			return
		}
	}
}

// directed classes: one per repaired defect of the mock (kept enabled for good) + idempotence probes
func directed(r *runner, rng *rand.Rand, n int) {
	for i := 0; i < n; i++ {
		w := newWorld(rng, 3, 3, 6)
		a, b := w.txns[0], w.txns[1]
		k := w.key()
		noise := func() string { return w.randomCmd(fin{}, false) }
		var cmds []string
		add := func(c ...string) { cmds = append(cmds, c...) }
		maybeNoise := func() {
			if rng.Intn(3) == 0 {
				// noise from the third transaction only, so that the scenario stays intact most of the time
				save := w.txns
				w.txns = w.txns[2:]
				add(noise())
				w.txns = save
			}
		}
		class := ""
		switch i % 9 {
		case 0: // e9c2bca: prewrite over the own pessimistic lock, another commit between start ts and for-update ts
			class = "own-pess-prewrite"
			// b commits k with a.s < b.c < a.f (ranks arranged by construction below)
			lo, mid, hi := tsOf(10+rng.Intn(3)), tsOf(20+rng.Intn(3)), tsOf(30+rng.Intn(3))
			bs := tsOf(15 + rng.Intn(3))
			add(fmt.Sprintf("pw %s %s 0 1 0 0 P:%s:21:n:0", hx(k), hx(bs), hx(k)))
			maybeNoise()
			add(fmt.Sprintf("cm %s %s %s", hx(k), hx(bs), hx(mid)))
			add(fmt.Sprintf("pl %s %s %s 3 0 %s 0 0 0 1 %s:0", hx(k), hx(lo), hx(hi), w.b(50), hx(k)))
			maybeNoise()
			add(fmt.Sprintf("pw %s %s %s 1 0 %s P:%s:11:n:1", hx(k), hx(lo), hx(hi), w.b(30), hx(k)))
			add(fmt.Sprintf("cm %s %s %s", hx(k), hx(lo), hx(tsOf(40))))
			add(fmt.Sprintf("get %s %s -", hx(k), hx(tsOf(50))))
		case 1: // 9e5ee0f: commit of a leftover pessimistic lock must not hide the value
			class = "commit-pess-lock"
			add(fmt.Sprintf("pw %s %s 0 1 0 0 P:%s:21:n:0", hx(k), hx(b.s), hx(k)))
			add(fmt.Sprintf("cm %s %s %s", hx(k), hx(b.s), hx(b.c)))
			maybeNoise()
			big := tsOf(100)
			add(fmt.Sprintf("pl %s %s %s 3 0 0 0 0 0 1 %s:0", hx(k), hx(tsOf(90)), hx(big), hx(k)))
			if rng.Intn(2) == 0 {
				add(fmt.Sprintf("cm %s %s %s", hx(k), hx(tsOf(90)), hx(tsOf(110))))
			} else {
				add(fmt.Sprintf("rl 0 0 %s %s", hx(tsOf(90)), hx(tsOf(110))))
			}
			add(fmt.Sprintf("get %s %s -", hx(k), hx(tsOf(120))), fmt.Sprintf("sc 0 0 4 %s -", hx(tsOf(120))))
		case 2: // 4975b36: Cleanup on a key without the lock persists its rollback record
			class = "cleanup-no-lock"
			maybeNoise()
			cur := uint64(0)
			if rng.Intn(2) == 0 {
				cur = w.oth()
			}
			add(fmt.Sprintf("cl %s %s %s", hx(k), hx(a.s), hx(cur)))
			maybeNoise()
			add(fmt.Sprintf("pw %s %s 0 1 0 0 P:%s:11:n:0", hx(k), hx(a.s), hx(k)))
			add(fmt.Sprintf("cm %s %s %s", hx(k), hx(a.s), hx(a.c)))
		case 3: // d1c259a: pessimistic lock over the own prewrite lock is refused
			class = "pess-over-prewrite"
			add(fmt.Sprintf("pw %s %s 0 1 0 0 P:%s:11:n:0", hx(k), hx(a.s), hx(k)))
			maybeNoise()
			add(fmt.Sprintf("pl %s %s %s 3 0 %s 0 0 %s 1 %s:0", hx(k), hx(a.s), hx(a.f), w.b(50), w.b(20), hx(k)))
			add(fmt.Sprintf("cm %s %s %s", hx(k), hx(a.s), hx(a.c)))
			add(fmt.Sprintf("get %s %s -", hx(k), hx(maxTS)))
		case 6: // a799b8b: a repeated optimistic prewrite of an Insert / CheckNotExists over the own lock answers ok
			class = "insert-twice"
			maybeNoise()
			op := []string{"I", "I", "C"}[rng.Intn(3)]
			pw := fmt.Sprintf("pw %s %s 0 1 0 %s %s:%s:11:n:0", hx(k), hx(a.s), w.b(30), op, hx(k))
			if op == "C" {
				pw += fmt.Sprintf(";P:%s:11:n:0", hx(k))
			}
			add(pw, pw)
			maybeNoise()
			add(pw, fmt.Sprintf("cm %s %s %s", hx(k), hx(a.s), hx(a.c)), fmt.Sprintf("get %s %s -", hx(k), hx(maxTS)))
		case 7: // nested interleaving: an older-started transaction commits ABOVE a younger transaction's record on the same key
			// (start_old < start_T <= record_T < commit_old): the record of T is not the first row of the key
			class = "nested"
			base := 40 + rng.Intn(3)
			so, st, ct, fo, co := tsOf(base), tsOf(base+2), tsOf(base+4), tsOf(base+6), tsOf(base+8)
			cur := tsOf(base + 20)
			finishOld := func() {
				if rng.Intn(2) == 0 {
					add(fmt.Sprintf("cm %s %s %s", hx(k), hx(so), hx(co)))
				} else {
					add(fmt.Sprintf("rl 0 0 %s %s", hx(so), hx(co)))
				}
			}
			pessOld := func() { // pessimistic T_old, for-update ts above T's record
				add(fmt.Sprintf("pl %s %s %s 3 0 0 0 0 0 1 %s:0", hx(k), hx(so), hx(fo), hx(k)))
				if rng.Intn(3) != 0 { // else: the leftover pessimistic lock itself is committed
					add(fmt.Sprintf("pw %s %s %s 1 0 0 %s:%s:21:n:1", hx(k), hx(so), hx(fo), []string{"P", "D", "L"}[rng.Intn(3)], hx(k)))
				}
			}
			switch rng.Intn(4) {
			case 0, 1: // T commits first
				add(fmt.Sprintf("pw %s %s 0 1 0 0 P:%s:11:n:0", hx(k), hx(st), hx(k)))
				if rng.Intn(2) == 0 {
					add(fmt.Sprintf("cm %s %s %s", hx(k), hx(st), hx(ct)))
				} else {
					add(fmt.Sprintf("rl 0 0 %s %s", hx(st), hx(ct)))
				}
				maybeNoise()
				pessOld()
				finishOld()
			case 2: // T is rolled back while the optimistic T_old holds the lock
				add(fmt.Sprintf("pw %s %s 0 9 0 0 P:%s:21:n:0", hx(k), hx(so), hx(k)))
				switch rng.Intn(3) {
				case 0:
					add(fmt.Sprintf("rb %s %s", hx(k), hx(st)))
				case 1:
					add(fmt.Sprintf("cl %s %s 0", hx(k), hx(st)))
				case 2:
					add(fmt.Sprintf("cs %s %s %s %s 1 0", hx(k), hx(st), hx(cur), hx(cur)))
				}
				maybeNoise()
				finishOld()
			case 3: // T is rolled back first, pessimistic T_old above
				add(fmt.Sprintf("rb %s %s", hx(k), hx(st)))
				pessOld()
				finishOld()
			}
			probes := []string{
				fmt.Sprintf("cm %s %s %s", hx(k), hx(st), hx(ct)),
				fmt.Sprintf("rb %s %s", hx(k), hx(st)),
				fmt.Sprintf("cl %s %s %s", hx(k), hx(st), hx(uint64(rng.Intn(2))*cur)),
				fmt.Sprintf("cs %s %s %s %s %s 0", hx(k), hx(st), hx(cur), hx(cur), w.b(50)),
				fmt.Sprintf("pw %s %s 0 1 0 0 P:%s:12:n:0", hx(k), hx(st), hx(k)),
				fmt.Sprintf("cm %s %s %s", hx(k), hx(so), hx(co)),
				fmt.Sprintf("rb %s %s", hx(k), hx(so)),
				fmt.Sprintf("cs %s %s %s %s 1 0", hx(k), hx(so), hx(cur), hx(cur)),
			}
			for j := 0; j < 3; j++ {
				p := probes[rng.Intn(len(probes))]
				add(p)
				if rng.Intn(2) == 0 {
					add(p)
				}
			}
			add(fmt.Sprintf("get %s %s -", hx(k), hx(cur)))
		case 8: // the deadlock detector: wait-for edges survive across calls until commit / rollback / cleanup of the waiter
			class = "deadlock"
			n := 2 + rng.Intn(2) // a cycle of 2 or 3 transactions over as many keys
			ts := []uint64{tsOf(40), tsOf(42), tsOf(44)}
			rng.Shuffle(3, func(x, y int) { ts[x], ts[y] = ts[y], ts[x] })
			lock := func(t uint64, key int, nowait bool) string {
				nw := "1"
				if !nowait {
					nw = "0"
				}
				return fmt.Sprintf("pl 1 %s %s 3 0 0 0 0 %s %s %d:0", hx(t), hx(tsOf(50)), w.b(15), nw, key)
			}
			for j := 0; j < n; j++ { // txn j holds key j+1
				add(lock(ts[j], j+1, true))
			}
			for j := 0; j < n-1; j++ { // txn j waits for txn j+1
				add(lock(ts[j], j+2, rng.Intn(8) != 0))
				if rng.Intn(4) == 0 {
					add(lock(ts[j], j+2, true)) // the same edge again
				}
			}
			switch rng.Intn(6) { // now and then the waiter's edges are dropped first: no deadlock any more
			case 0:
				add(fmt.Sprintf("cm 4 %s %s", hx(ts[0]), hx(tsOf(60))))
			case 1:
				add(fmt.Sprintf("rb 4 %s", hx(ts[rng.Intn(n)])))
			case 2:
				add(fmt.Sprintf("cl 4 %s 0", hx(ts[rng.Intn(n)])))
			}
			maybeNoise()
			add(lock(ts[n-1], 1, true))                                                     // closes the cycle
			add(fmt.Sprintf("pl 1 %s %s 3 0 0 0 0 0 1 1:0,2:0", hx(ts[n-1]), hx(tsOf(50)))) // two keys, both held by others
			add(fmt.Sprintf("pr 0 0 - %s %s", hx(ts[0]), hx(tsOf(50))))                     // releasing the locks does not clear edges
			add(lock(ts[1], 1, true))
			add(fmt.Sprintf("rb 1,2,3 %s", hx(ts[0])), lock(ts[n-1], 1, true))
		case 4: // every command twice in a row (idempotence)
			class = "repeat"
			f := fin{}
			for j := 0; j < 10; j++ {
				c := w.randomCmd(f, true)
				add(c, c)
			}
		case 5: // finish (commit / rollback by each path) then a late prewrite, then GC, then the prewrite again
			class = "late-prewrite"
			if rng.Intn(2) == 0 {
				add(fmt.Sprintf("pw %s %s 0 0 0 0 P:%s:11:n:0", hx(k), hx(a.s), hx(k)))
			}
			switch rng.Intn(5) {
			case 0:
				add(fmt.Sprintf("cm %s %s %s", hx(k), hx(a.s), hx(a.c)))
			case 1:
				add(fmt.Sprintf("rb %s %s", hx(k), hx(a.s)))
			case 2:
				add(fmt.Sprintf("cl %s %s %s", hx(k), hx(a.s), hx(w.oth())))
			case 3:
				add(fmt.Sprintf("cs %s %s %s %s 1 0", hx(k), hx(a.s), hx(w.oth()), hx(w.oth())))
			case 4:
				add(fmt.Sprintf("rl 0 0 %s 0", hx(a.s)))
			}
			maybeNoise()
			pw := fmt.Sprintf("pw %s %s 0 1 0 0 %s:%s:11:n:0", hx(k), hx(a.s), []string{"P", "D", "L", "I"}[rng.Intn(4)], hx(k))
			add(pw)
			add(fmt.Sprintf("gc 0 0 %s", hx(w.oth())))
			add(pw)
		}
		r.seq("d"+strconv.Itoa(i), "directed-"+class, cmds)
	}
}

func randomDeep(r *runner, rng *rand.Rand, n, depth int, disciplined bool) {
	for i := 0; i < n; i++ {
		nk := 2 + rng.Intn(3)
		w := newWorld(rng, 2+rng.Intn(3), nk, 6)
		if !disciplined {
			// small colliding timestamp domain: model = code differential only
			for j := range w.txns {
				t := &w.txns[j]
				t.s, t.c, t.f, t.f2 = tsOf(1+rng.Intn(6)), tsOf(1+rng.Intn(8)), tsOf(1+rng.Intn(8)), tsOf(1+rng.Intn(8))
			}
			for j := range w.other {
				w.other[j] = tsOf(1 + rng.Intn(9))
			}
		}
		f := fin{}
		d := depth/2 + rng.Intn(depth)
		cmds := make([]string, 0, d)
		for j := 0; j < d; j++ {
			cmds = append(cmds, w.randomCmd(f, disciplined))
		}
		cl := "random-free"
		if disciplined {
			cl = "random-oracle"
		}
		r.seq(cl[7:8]+strconv.Itoa(i), cl, cmds)
	}
}

// directed regression for F39 (390bcd2): on a split cluster a pessimistic lock sits on a key next to the region border;
// the scan form of PessimisticRollback (no keys) addressed to either region must remove exactly the locks of that region.
// The addressed region depends on the command text, so several for-update timestamps are tried.
func directedRPC(r *runner, rng *rand.Rand) {
	n := 0
	for _, k := range []uint64{2, 3, 4} {
		for j := 0; j < 6; j++ {
			s := tsOf(2 + rng.Intn(3))
			fu := tsOf(7 + j)
			cmds := []string{
				fmt.Sprintf("pl 2 %s %s 0 0 0 1 0 1 1 %s:1", hx(s), hx(tsOf(6)), hx(k)),
				fmt.Sprintf("pr 0 0 - %s %s", hx(s), hx(fu)),
				fmt.Sprintf("pr 0 0 - %s %s", hx(s), hx(fu+tsOf(1))),
				fmt.Sprintf("get %s %s -", hx(k), hx(tsOf(20))),
			}
			id := "p" + strconv.Itoa(n)
			n++
			r.begin(id, "directed-rpc-pess-rollback-scan")
			for _, c := range cmds {
				r.cmd(c)
			}
			runRPC(id, cmds, true)
		}
	}
}

func generate(r *runner, seed int64, tier string) {
	rng := rand.New(rand.NewSource(seed*7919 + 17))
	thorough := tier == "thorough"
	envInt := func(name string, def int) int {
		if v, err := strconv.Atoi(os.Getenv(name)); err == nil {
			return v
		}
		return def
	}
	nd, nr, nf := 600, 1500, 800
	if thorough {
		nd, nr, nf = 6000, 20000, 10000
	}
	directed(r, rng, envInt("VERIF_C12_DIRECTED", nd))
	directedRPC(r, rng)
	randomDeep(r, rng, envInt("VERIF_C12_RANDOM", nr), 40, true)
	randomDeep(r, rng, envInt("VERIF_C12_FREE", nf), 40, false)
	if envInt("VERIF_C12_EXH", 1) == 0 {
		return
	}
	// exhaustive sweeps: timestamps = one random permutation per sweep
	w := newWorld(rng, 2, 2, 3)
	if thorough {
		exhaustive(r, w, 3, false, "x3-")
		exhaustive(r, newWorld(rng, 2, 2, 3), 4, true, "x4-")
	} else {
		exhaustive(r, w, 3, false, "x3-")
	}
}
