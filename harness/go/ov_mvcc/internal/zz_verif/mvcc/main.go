//go:build verif

// Driver for property C12: runs command sequences against a fresh mocktikv.MVCCLevelDB.
//
//	mvcc gen            generate sequences (VERIF_SEED, VERIF_TIER), execute, print
//	mvcc run FILE|-     execute the sequences of FILE ("S\t.." starts a fresh store, "C\t<cmd>" one command)
//
// Output, tab separated:  S \t id \t class        O \t <cmd> \t <canonical response> \t <dump of all keys>
// All numbers are hexadecimal. Keys are small ids (0 = empty key), values small ids (0 = empty).
package main

import (
	"bufio"
	"fmt"
	"os"
	"strconv"
	"strings"

	"github.com/dgryski/go-farm"
	"github.com/pingcap/kvproto/pkg/kvrpcpb"
	"github.com/pingcap/log"
	"github.com/pkg/errors"
	"github.com/tikv/client-go/v2/internal/mockstore/mocktikv"
	"go.uber.org/zap"
)

var out *bufio.Writer

const nKeysDump = 4

func kb(id uint64) []byte {
	if id == 0 {
		return nil
	}
	return []byte{'k', byte('0' + id)}
}
func kid(b []byte) string {
	if len(b) == 0 {
		return "0"
	}
	if len(b) == 2 && b[0] == 'k' {
		return hx(uint64(b[1] - '0'))
	}
	return "?" + string(b)
}
func vb(id uint64) []byte {
	if id == 0 {
		return nil
	}
	return []byte("v" + strconv.FormatUint(id, 16))
}
func vid(b []byte) string {
	if len(b) == 0 {
		return "0"
	}
	if b[0] == 'v' {
		return string(b[1:])
	}
	return "?" + string(b)
}
func hx(v uint64) string { return strconv.FormatUint(v, 16) }
func pu(s string) uint64 {
	v, err := strconv.ParseUint(s, 16, 64)
	if err != nil {
		panic("bad number " + s)
	}
	return v
}
func pb(s string) bool { return s == "1" }
func plist(s string) []uint64 {
	if s == "-" || s == "" {
		return nil
	}
	var r []uint64
	for _, x := range strings.Split(s, ",") {
		r = append(r, pu(x))
	}
	return r
}
func keys(s string) [][]byte {
	var r [][]byte
	for _, k := range plist(s) {
		r = append(r, kb(k))
	}
	return r
}

func opc(o kvrpcpb.Op) string {
	switch o {
	case kvrpcpb.Op_Put:
		return "P"
	case kvrpcpb.Op_Del:
		return "D"
	case kvrpcpb.Op_Lock:
		return "L"
	case kvrpcpb.Op_PessimisticLock:
		return "S"
	}
	return "?" + o.String()
}

func abortKind(m string) string {
	switch {
	case strings.Contains(m, "already rolled back"):
		return "ARB"
	case strings.Contains(m, "pessimistic lock not found"):
		return "AB:plnf"
	case strings.Contains(m, "lock type not match"):
		return "AB:ltnm"
	case strings.Contains(m, "LockOnlyIfExists is set"):
		return "AB:loie"
	case strings.Contains(m, "non-primary key"):
		return "AB:hbnp"
	case strings.Contains(m, "lock doesn't exist"):
		return "AB:lne"
	case strings.Contains(m, "which is under safePoint"):
		return "AB:gclock"
	}
	return "AB:?" + strings.ReplaceAll(strings.ReplaceAll(m, "\t", " "), "\n", " ")
}

func keyErr(e *kvrpcpb.KeyError) string {
	switch {
	case e == nil:
		return "ok"
	case e.Locked != nil:
		l := e.Locked
		return fmt.Sprintf("L(%s,%s,%s,%s,%s,%s)", kid(l.Key), kid(l.PrimaryLock), hx(l.LockVersion), hx(l.LockForUpdateTs), hx(l.LockTtl), opc(l.LockType))
	case e.Conflict != nil:
		c := e.Conflict
		return fmt.Sprintf("WC(%s,%s,%s,%s)", hx(c.StartTs), hx(c.ConflictTs), hx(c.ConflictCommitTs), kid(c.Key))
	case e.AlreadyExist != nil:
		return "AE(" + kid(e.AlreadyExist.Key) + ")"
	case e.Deadlock != nil:
		return fmt.Sprintf("DL(%s,%s,%s)", hx(e.Deadlock.LockTs), kid(e.Deadlock.LockKey), hashKey(e.Deadlock.DeadlockKeyHash))
	case e.Retryable != "":
		return "RT"
	case e.CommitTsExpired != nil:
		return "CTE(" + hx(e.CommitTsExpired.MinCommitTs) + ")"
	case e.TxnNotFound != nil:
		return "TNF"
	case e.AssertionFailed != nil:
		return fmt.Sprintf("AF(%s,%s)", hx(e.AssertionFailed.ExistingStartTs), hx(e.AssertionFailed.ExistingCommitTs))
	}
	return abortKind(e.Abort)
}
func errc(err error) string {
	if err == nil {
		return "ok"
	}
	if c, ok := errors.Cause(err).(mocktikv.ErrAlreadyCommitted); ok {
		return "AC(" + hx(uint64(c)) + ")"
	}
	return keyErr(mocktikv.ZZConvertToKeyError(err))
}
func errsc(errs []error) string {
	p := make([]string, len(errs))
	for i, e := range errs {
		p[i] = errc(e)
	}
	return "[" + strings.Join(p, ";") + "]"
}
func pairs(ps []mocktikv.Pair) string {
	p := make([]string, len(ps))
	for i, x := range ps {
		if x.Err != nil {
			p[i] = kid(x.Key) + "!" + errc(x.Err)
		} else {
			p[i] = kid(x.Key) + "=" + vid(x.Value) + "@" + hx(x.CommitTS)
		}
	}
	return "[" + strings.Join(p, ";") + "]"
}
func actionName(a kvrpcpb.Action) string {
	switch a {
	case kvrpcpb.Action_NoAction:
		return "none"
	case kvrpcpb.Action_TTLExpireRollback:
		return "ttlrb"
	case kvrpcpb.Action_LockNotExistRollback:
		return "lnerb"
	case kvrpcpb.Action_MinCommitTSPushed:
		return "pushed"
	case kvrpcpb.Action_TTLExpirePessimisticRollback:
		return "ttlprb"
	case kvrpcpb.Action_LockNotExistDoNothing:
		return "lnenop"
	}
	return "?" + a.String()
}

func dump(st *mocktikv.MVCCLevelDB) string {
	var sb strings.Builder
	for k := uint64(1); k <= nKeysDump; k++ {
		l, ws, err := st.ZZDumpKey(kb(k))
		if err != nil {
			return "dump-error " + err.Error()
		}
		if k > 1 {
			sb.WriteByte(' ')
		}
		if l == nil {
			sb.WriteString("-")
		} else {
			fmt.Fprintf(&sb, "L(%s,%s,%s,%s,%s,%s,%s)", hx(l.StartTS), kid(l.Primary), opc(l.Op), vid(l.Value), hx(l.TTL), hx(l.ForUpdateTS), hx(l.MinCommitTS))
		}
		sb.WriteByte('/')
		vers := st.ZZVersions(kb(k))
		if l != nil {
			vers = vers[1:]
		}
		for i, w := range ws {
			if i > 0 {
				sb.WriteByte(',')
			}
			fmt.Fprintf(&sb, "W(%c,%s,%s,%s)", "PDRL"[w.Type], hx(w.StartTS), hx(w.CommitTS), vid(w.Value))
			if i >= len(vers) || vers[i] != w.CommitTS {
				sb.WriteString("!version-mismatch")
			}
		}
	}
	return sb.String()
}

// lockInfo: one ScanLock entry. key, primary, start ts, lock type, ttl, for-update ts are compared with the model;
// TxnSize (not in the model's lock record) is checked against the stored lock by the caller; MinCommitTs is
// deliberately not filled by the mock's ScanLock and not compared.
func lockInfo(l *kvrpcpb.LockInfo) string {
	return kid(l.Key) + "," + kid(l.PrimaryLock) + "," + hx(l.LockVersion) + "," + opc(l.LockType) + "," + hx(l.LockTtl) + "," + hx(l.LockForUpdateTs)
}

// hashKey maps farm.Fingerprint64(key) back to the key id (the model uses the key itself as "hash")
func hashKey(h uint64) string {
	for k := uint64(1); k <= nKeysDump; k++ {
		if farm.Fingerprint64(kb(k)) == h {
			return hx(k)
		}
	}
	return "?" + hx(h)
}

// detectorDump: the wait-for graph, "txn>waitfor:key,waitfor:key txn>..." in ascending transaction order
func detectorDump(st *mocktikv.MVCCLevelDB) string {
	txns, m := st.ZZDetector().ZZDump()
	if len(txns) == 0 {
		return "-"
	}
	p := make([]string, len(txns))
	for i, t := range txns {
		e := make([]string, len(m[t]))
		for j, x := range m[t] {
			e[j] = hx(x.Txn) + ":" + hashKey(x.KeyHash)
		}
		p[i] = hx(t) + ">" + strings.Join(e, ",")
	}
	return strings.Join(p, " ")
}

func buildPrewrite(f []string) *kvrpcpb.PrewriteRequest {
	req := &kvrpcpb.PrewriteRequest{PrimaryLock: kb(pu(f[1])), StartVersion: pu(f[2]), ForUpdateTs: pu(f[3]), LockTtl: pu(f[4]),
		MinCommitTs: pu(f[5]), Context: &kvrpcpb.Context{}, TxnSize: 1}
	if pb(f[6]) {
		req.AssertionLevel = kvrpcpb.AssertionLevel_Strict
	}
	anyAct := false
	var acts []kvrpcpb.PrewriteRequest_PessimisticAction
	for _, ms := range strings.Split(f[7], ";") {
		p := strings.Split(ms, ":")
		m := &kvrpcpb.Mutation{Key: kb(pu(p[1])), Value: vb(pu(p[2]))}
		switch p[0] {
		case "P":
			m.Op = kvrpcpb.Op_Put
		case "D":
			m.Op = kvrpcpb.Op_Del
		case "L":
			m.Op = kvrpcpb.Op_Lock
		case "I":
			m.Op = kvrpcpb.Op_Insert
		case "C":
			m.Op = kvrpcpb.Op_CheckNotExists
		}
		switch p[3] {
		case "e":
			m.Assertion = kvrpcpb.Assertion_Exist
		case "x":
			m.Assertion = kvrpcpb.Assertion_NotExist
		}
		req.Mutations = append(req.Mutations, m)
		if pb(p[4]) {
			anyAct = true
			acts = append(acts, kvrpcpb.PrewriteRequest_DO_PESSIMISTIC_CHECK)
		} else {
			acts = append(acts, kvrpcpb.PrewriteRequest_SKIP_PESSIMISTIC_CHECK)
		}
	}
	if anyAct {
		req.PessimisticActions = acts
	}
	return req
}

func buildPessLock(f []string) (*kvrpcpb.PessimisticLockRequest, bool) {
	req := &kvrpcpb.PessimisticLockRequest{PrimaryLock: kb(pu(f[1])), StartVersion: pu(f[2]), ForUpdateTs: pu(f[3]), LockTtl: pu(f[4]),
		MinCommitTs: pu(f[5]), ReturnValues: pb(f[6]), CheckExistence: pb(f[7]), LockOnlyIfExists: pb(f[8]), Context: &kvrpcpb.Context{}}
	force := pb(f[9])
	if force {
		req.WakeUpMode = kvrpcpb.PessimisticLockWakeUpMode_WakeUpModeForceLock
	}
	req.WaitTimeout = 1
	if pb(f[10]) {
		req.WaitTimeout = mocktikv.LockNoWait
	}
	for _, ks := range strings.Split(f[11], ",") {
		p := strings.Split(ks, ":")
		m := &kvrpcpb.Mutation{Op: kvrpcpb.Op_PessimisticLock, Key: kb(pu(p[0]))}
		if pb(p[1]) {
			m.Assertion = kvrpcpb.Assertion_NotExist
		}
		req.Mutations = append(req.Mutations, m)
	}
	return req, force
}

func canonPessLock(req *kvrpcpb.PessimisticLockRequest, resp *kvrpcpb.PessimisticLockResponse, force bool) string {
	es := make([]string, len(resp.Errors))
	for i, e := range resp.Errors {
		es[i] = keyErr(e)
	}
	var rs []string
	val := func(b []byte) string {
		if len(b) == 0 {
			return "-"
		}
		return vid(b)
	}
	b01 := func(b bool) string {
		if b {
			return "1"
		}
		return "0"
	}
	if force {
		for _, r := range resp.Results {
			switch r.Type {
			case kvrpcpb.PessimisticLockKeyResultType_LockResultNormal:
				rs = append(rs, "N("+val(r.Value)+","+b01(r.Existence)+")")
			case kvrpcpb.PessimisticLockKeyResultType_LockResultLockedWithConflict:
				rs = append(rs, "C("+val(r.Value)+","+b01(r.Existence)+","+hx(r.LockedWithConflictTs)+")")
			default:
				rs = append(rs, "F")
			}
		}
	} else if len(resp.Errors) == 0 {
		if req.ReturnValues {
			for i := range resp.Values {
				rs = append(rs, "N("+val(resp.Values[i])+","+b01(!resp.NotFounds[i])+")")
			}
		} else if req.CheckExistence {
			for i := range resp.NotFounds {
				rs = append(rs, "N(-,"+b01(!resp.NotFounds[i])+")")
			}
		}
	}
	return "E[" + strings.Join(es, ";") + "]R[" + strings.Join(rs, ";") + "]"
}

func canonMvcc(info *kvrpcpb.MvccInfo, key []byte) string {
	var sb strings.Builder
	sb.WriteString("M(" + kid(key) + ";")
	if info == nil {
		return "M(nil)"
	}
	if info.Lock == nil {
		sb.WriteString("-")
	} else {
		fmt.Fprintf(&sb, "L(%s,%s,%s,%s)", hx(info.Lock.StartTs), kid(info.Lock.Primary), opc(info.Lock.Type), vid(info.Lock.ShortValue))
	}
	sb.WriteString("/")
	for i, w := range info.Writes {
		if i > 0 {
			sb.WriteByte(',')
		}
		t := "?"
		switch w.Type {
		case kvrpcpb.Op_Put:
			t = "P"
		case kvrpcpb.Op_Del:
			t = "D"
		case kvrpcpb.Op_Rollback:
			t = "R"
		case kvrpcpb.Op_Lock:
			t = "L"
		}
		fmt.Fprintf(&sb, "W(%s,%s,%s,%s)", t, hx(w.StartTs), hx(w.CommitTs), vid(w.ShortValue))
		if i >= len(info.Values) || info.Values[i].StartTs != w.StartTs || vid(info.Values[i].Value) != vid(w.ShortValue) {
			sb.WriteString("!values-mismatch")
		}
	}
	return sb.String() + ")"
}

// exec runs one command (textual form, space separated) and returns the canonical response.
func exec(st *mocktikv.MVCCLevelDB, c string) (res string) {
	defer func() {
		if r := recover(); r != nil {
			res = "panic:" + strings.ReplaceAll(fmt.Sprint(r), "\t", " ")
			if strings.Contains(res, "pessimistic lock result count not match") {
				res = "PANIC"
			}
		}
	}()
	f := strings.Split(c, " ")
	si := kvrpcpb.IsolationLevel_SI
	switch f[0] {
	case "pw": // pw primary start fu ttl mc asserton mut;mut  (mut = op:key:val:assert:pesscheck)
		return errsc(st.Prewrite(buildPrewrite(f)))
	case "pl": // pl primary start fu ttl mc rv ce loie force nowait key:ne,key:ne
		req, force := buildPessLock(f)
		return canonPessLock(req, st.PessimisticLock(req), force)
	case "pr": // pr s e keys start fu
		return errsc(st.PessimisticRollback(kb(pu(f[1])), kb(pu(f[2])), keys(f[3]), pu(f[4]), pu(f[5])))
	case "cm":
		return errc(st.Commit(keys(f[1]), pu(f[2]), pu(f[3])))
	case "rb":
		return errc(st.Rollback(keys(f[1]), pu(f[2])))
	case "cl":
		return errc(st.Cleanup(kb(pu(f[1])), pu(f[2]), pu(f[3])))
	case "cs": // cs k lockts caller current rine rp
		ttl, commit, action, err := st.CheckTxnStatus(kb(pu(f[1])), pu(f[2]), pu(f[3]), pu(f[4]), pb(f[5]), pb(f[6]))
		if err != nil {
			return errc(err)
		}
		return "ST(" + hx(ttl) + "," + hx(commit) + "," + actionName(action) + ")"
	case "hb":
		ttl, err := st.TxnHeartBeat(kb(pu(f[1])), pu(f[2]), pu(f[3]))
		if err != nil {
			return errc(err)
		}
		return "TTL(" + hx(ttl) + ")"
	case "rl":
		return errc(st.ResolveLock(kb(pu(f[1])), kb(pu(f[2])), pu(f[3]), pu(f[4])))
	case "br":
		infos := map[uint64]uint64{}
		if f[3] != "-" {
			for _, x := range strings.Split(f[3], ",") {
				p := strings.Split(x, ":")
				if _, dup := infos[pu(p[0])]; !dup { // first entry wins, as in the model's assoc list
					infos[pu(p[0])] = pu(p[1])
				}
			}
		}
		return errc(st.BatchResolveLock(kb(pu(f[1])), kb(pu(f[2])), infos))
	case "sl":
		ls, err := st.ScanLock(kb(pu(f[1])), kb(pu(f[2])), pu(f[3]))
		if err != nil {
			return errc(err)
		}
		p := make([]string, len(ls))
		for i, l := range ls {
			p[i] = lockInfo(l)
			if stored, _, err := st.ZZDumpKey(l.Key); err != nil || stored == nil || stored.TxnSize != l.TxnSize {
				p[i] += "!txnsize"
			}
		}
		return "K[" + strings.Join(p, ";") + "]"
	case "slh": // handler-level scan lock: slh s e limit max
		return scanLockHandler(st, f)
	case "gc":
		return errc(st.GC(kb(pu(f[1])), kb(pu(f[2])), pu(f[3])))
	case "rcget", "rcbg", "rcsc", "rcrs": // isolation level RC: rcget k ts | rcbg keys ts | rcsc s e limit ts | rcrs s e limit ts
		rc := kvrpcpb.IsolationLevel_RC
		switch f[0] {
		case "rcget":
			p := st.GetKVPair(kb(pu(f[1])), pu(f[2]), rc, nil)
			if p.Err != nil {
				return errc(p.Err)
			}
			if p.Value == nil {
				return "V(-)"
			}
			return "V(" + vid(p.Value) + "," + hx(p.CommitTS) + ")"
		case "rcbg":
			return pairs(st.BatchGet(keys(f[1]), pu(f[2]), rc, nil))
		case "rcsc":
			return pairs(st.Scan(kb(pu(f[1])), kb(pu(f[2])), int(pu(f[3])), pu(f[4]), rc, nil))
		default:
			return pairs(st.ReverseScan(kb(pu(f[1])), kb(pu(f[2])), int(pu(f[3])), pu(f[4]), rc, nil))
		}
	case "dr":
		return errc(st.DeleteRange(kb(pu(f[1])), kb(pu(f[2]))))
	case "ms": // MvccGetByStartTS
		info, key := st.MvccGetByStartTS(pu(f[1]))
		return canonMvcc(info, key)
	case "get":
		p := st.GetKVPair(kb(pu(f[1])), pu(f[2]), si, plist(f[3]))
		if p.Err != nil {
			return errc(p.Err)
		}
		if p.Value == nil {
			return "V(-)"
		}
		return "V(" + vid(p.Value) + "," + hx(p.CommitTS) + ")"
	case "bg":
		return pairs(st.BatchGet(keys(f[1]), pu(f[2]), si, plist(f[3])))
	case "sc":
		return pairs(st.Scan(kb(pu(f[1])), kb(pu(f[2])), int(pu(f[3])), pu(f[4]), si, plist(f[5])))
	case "rs":
		return pairs(st.ReverseScan(kb(pu(f[1])), kb(pu(f[2])), int(pu(f[3])), pu(f[4]), si, plist(f[5])))
	}
	return "unknown-command"
}

type runner struct {
	st *mocktikv.MVCCLevelDB
	n  int
}

func (r *runner) begin(id, class string) {
	// a fresh leveldb every 20 sequences, wiped (all rows deleted, checked empty) in between
	if r.st != nil && r.n%20 != 0 {
		if err := r.st.ZZWipe(); err != nil {
			panic(err)
		}
		if d := dump(r.st); d != "-/ -/ -/ -/" {
			panic("wipe left rows: " + d)
		}
	} else {
		if r.st != nil {
			r.st.Close()
		}
		st, err := mocktikv.NewMVCCLevelDB("")
		if err != nil {
			panic(err)
		}
		r.st = st
	}
	r.n++
	fmt.Fprintf(out, "S\t%s\t%s\n", id, class)
}
func (r *runner) cmd(c string) {
	res := exec(r.st, c)
	fmt.Fprintf(out, "O\t%s\t%s\t%s\t%s\n", c, res, dump(r.st), detectorDump(r.st))
}
func (r *runner) seq(id, class string, cmds []string) {
	r.begin(id, class)
	for _, c := range cmds {
		r.cmd(c)
	}
	// a sample of the sequences also goes through the RPC handlers (see rpc.go)
	every := 3
	if class == "exhaustive" {
		every = 40
	}
	if r.n%every == 0 {
		runRPC(id, cmds, (r.n/every)%2 == 1)
	}
}

func main() {
	log.ReplaceGlobals(zap.NewNop(), &log.ZapProperties{})
	out = bufio.NewWriterSize(os.Stdout, 1<<20)
	defer out.Flush()
	r := &runner{}
	if len(os.Args) >= 3 && os.Args[1] == "run" {
		in := os.Stdin
		if os.Args[2] != "-" {
			f, err := os.Open(os.Args[2])
			if err != nil {
				panic(err)
			}
			in = f
		}
		sc := bufio.NewScanner(in)
		sc.Buffer(make([]byte, 1<<20), 1<<24)
		var rpcCmds []string // class "rpc": the sequence is run through the handlers too
		rpcID := ""
		rpcSplit := false
		flush := func() {
			if rpcID != "" {
				runRPC(rpcID, rpcCmds, rpcSplit)
			}
			rpcID, rpcCmds = "", nil
		}
		for sc.Scan() {
			f := strings.Split(sc.Text(), "\t")
			switch f[0] {
			case "S":
				flush()
				r.begin(f[1], f[2])
				if f[2] == "rpc" || f[2] == "rpc2" {
					rpcID, rpcSplit = f[1], f[2] == "rpc2"
				}
			case "C", "O":
				if r.st == nil {
					r.begin("0", "replay")
				}
				r.cmd(f[1])
				if rpcID != "" {
					rpcCmds = append(rpcCmds, f[1])
				}
			}
		}
		flush()
		return
	}
	seed, _ := strconv.ParseInt(os.Getenv("VERIF_SEED"), 10, 64)
	if seed == 0 {
		seed = 1
	}
	generate(r, seed, os.Getenv("VERIF_TIER"))
	if r.st != nil {
		r.st.Close()
	}
}
