//go:build verif

package main

// Handler glue: the same command sequence is sent through mocktikv.RPCClient.SendRequest (kvHandler: key-in-region
// checks, error conversion, region errors) to a second store; its canonical answer must equal the answer of the direct
// MVCCStore call (which the model is compared with), transformed by the documented glue rules (rpcExpect), and both
// stores must hold the same rows afterwards. Output: H \t cmd \t direct \t rpc \t pass|fail:<why>
import (
	"context"
	"fmt"
	"strings"
	"time"

	"github.com/pingcap/kvproto/pkg/kvrpcpb"
	"github.com/pingcap/kvproto/pkg/metapb"
	"github.com/tikv/client-go/v2/internal/mockstore/mocktikv"
	"github.com/tikv/client-go/v2/tikvrpc"
)

type rpcSide struct {
	st      *mocktikv.MVCCLevelDB
	cluster *mocktikv.Cluster
	client  *mocktikv.RPCClient
	addr    string
	region  uint64
	peer    *metapb.Peer
}

func newRPCSide() *rpcSide {
	st, err := mocktikv.NewMVCCLevelDB("")
	if err != nil {
		panic(err)
	}
	cl := mocktikv.NewCluster(st)
	storeID, peerID, regionID := mocktikv.BootstrapWithSingleStore(cl)
	return &rpcSide{st: st, cluster: cl, client: mocktikv.NewRPCClient(cl, st, nil), addr: cl.GetStore(storeID).Address,
		region: regionID, peer: &metapb.Peer{Id: peerID, StoreId: storeID}}
}

func (r *rpcSide) ctx(resolved []uint64, rc bool) kvrpcpb.Context {
	reg, _ := r.cluster.GetRegion(r.region)
	c := kvrpcpb.Context{RegionId: r.region, RegionEpoch: reg.RegionEpoch, Peer: r.peer, ResolvedLocks: resolved}
	if rc {
		c.IsolationLevel = kvrpcpb.IsolationLevel_RC
	}
	return c
}

func (r *rpcSide) send(t tikvrpc.CmdType, pb interface{}, c kvrpcpb.Context) (resp *tikvrpc.Response, perr string) {
	defer func() {
		if x := recover(); x != nil {
			perr = "panic:" + fmt.Sprint(x)
			if strings.Contains(perr, "pessimistic lock result count not match") {
				perr = "PANIC"
			}
		}
	}()
	req := tikvrpc.NewRequest(t, pb, c)
	resp, err := r.client.SendRequest(context.Background(), r.addr, req, time.Second)
	if err != nil {
		return nil, "senderr:" + err.Error()
	}
	if re, _ := resp.GetRegionError(); re != nil {
		return nil, "regionerr:" + re.String()
	}
	return resp, ""
}

func kerrs(es []*kvrpcpb.KeyError) string {
	p := make([]string, len(es))
	for i, e := range es {
		p[i] = keyErr(e)
	}
	return "[" + strings.Join(p, ";") + "]"
}
func pbPairs(ps []*kvrpcpb.KvPair) string {
	p := make([]string, len(ps))
	for i, x := range ps {
		if x.Error != nil {
			p[i] = "!" + keyErr(x.Error)
		} else {
			p[i] = kid(x.Key) + "=" + vid(x.Value) + "@" + hx(x.CommitTs)
		}
	}
	return "[" + strings.Join(p, ";") + "]"
}

// rpcExpect transforms the direct MVCCStore answer into what the handler must answer. "" = not comparable (the handler
// ignores the range arguments of this command and the command used a proper sub-range).
func rpcExpect(c string, direct string) string {
	f := strings.Split(c, " ")
	inner := func(s string) []string {
		s = s[strings.Index(s, "[")+1 : len(s)-1]
		if s == "" {
			return nil
		}
		return strings.Split(s, ";")
	}
	whole := func(s, e string) bool { return s == "0" && e == "0" }
	switch f[0] {
	case "pw": // nil entries dropped; a non-KeyIsLocked error hides everything else
		var out []string
		for _, e := range inner(direct) {
			if e == "ok" {
				continue
			}
			if !strings.HasPrefix(e, "L(") {
				return "[" + e + "]"
			}
			out = append(out, e)
		}
		return "[" + strings.Join(out, ";") + "]"
	case "pr":
		if f[3] == "-" && !whole(f[1], f[2]) {
			return ""
		}
		return "[]"
	case "rb": // ErrAlreadyCommitted has no KeyError form: Abort
		if strings.HasPrefix(direct, "AC(") {
			return "AB:?txn already committed"
		}
	case "rl", "br", "sl", "gc":
		if !whole(f[1], f[2]) {
			return ""
		}
	case "bg", "sc", "rs", "rcbg", "rcsc", "rcrs": // an error pair carries no key
		var out []string
		for _, e := range inner(direct) {
			if i := strings.Index(e, "!"); i >= 0 {
				e = e[i:]
			}
			out = append(out, e)
		}
		return "[" + strings.Join(out, ";") + "]"
	}
	return direct
}

// exec through the handlers
func (r *rpcSide) exec(c string) string {
	f := strings.Split(c, " ")
	done := func(resp *tikvrpc.Response, perr string, canon func() string) string {
		if perr != "" {
			return perr
		}
		return canon()
	}
	switch f[0] {
	case "pw":
		req := buildPrewrite(f)
		req.Context = nil
		resp, e := r.send(tikvrpc.CmdPrewrite, req, r.ctx(nil, false))
		return done(resp, e, func() string { return kerrs(resp.Resp.(*kvrpcpb.PrewriteResponse).Errors) })
	case "pl":
		req, force := buildPessLock(f)
		req.Context = nil
		r.st.ZZResetDeadlockDetector()
		resp, e := r.send(tikvrpc.CmdPessimisticLock, req, r.ctx(nil, false))
		return done(resp, e, func() string { return canonPessLock(req, resp.Resp.(*kvrpcpb.PessimisticLockResponse), force) })
	case "pr":
		req := &kvrpcpb.PessimisticRollbackRequest{Keys: keys(f[3]), StartVersion: pu(f[4]), ForUpdateTs: pu(f[5])}
		resp, e := r.send(tikvrpc.CmdPessimisticRollback, req, r.ctx(nil, false))
		return done(resp, e, func() string { return kerrs(resp.Resp.(*kvrpcpb.PessimisticRollbackResponse).Errors) })
	case "cm":
		req := &kvrpcpb.CommitRequest{Keys: keys(f[1]), StartVersion: pu(f[2]), CommitVersion: pu(f[3])}
		resp, e := r.send(tikvrpc.CmdCommit, req, r.ctx(nil, false))
		return done(resp, e, func() string { return keyErr(resp.Resp.(*kvrpcpb.CommitResponse).Error) })
	case "rb":
		req := &kvrpcpb.BatchRollbackRequest{Keys: keys(f[1]), StartVersion: pu(f[2])}
		resp, e := r.send(tikvrpc.CmdBatchRollback, req, r.ctx(nil, false))
		return done(resp, e, func() string { return keyErr(resp.Resp.(*kvrpcpb.BatchRollbackResponse).Error) })
	case "cl":
		req := &kvrpcpb.CleanupRequest{Key: kb(pu(f[1])), StartVersion: pu(f[2]), CurrentTs: pu(f[3])}
		resp, e := r.send(tikvrpc.CmdCleanup, req, r.ctx(nil, false))
		return done(resp, e, func() string {
			x := resp.Resp.(*kvrpcpb.CleanupResponse)
			if x.CommitVersion != 0 {
				return "AC(" + hx(x.CommitVersion) + ")"
			}
			return keyErr(x.Error)
		})
	case "cs":
		req := &kvrpcpb.CheckTxnStatusRequest{PrimaryKey: kb(pu(f[1])), LockTs: pu(f[2]), CallerStartTs: pu(f[3]), CurrentTs: pu(f[4]),
			RollbackIfNotExist: pb(f[5]), ResolvingPessimisticLock: pb(f[6])}
		resp, e := r.send(tikvrpc.CmdCheckTxnStatus, req, r.ctx(nil, false))
		return done(resp, e, func() string {
			x := resp.Resp.(*kvrpcpb.CheckTxnStatusResponse)
			if x.Error != nil {
				return keyErr(x.Error)
			}
			return "ST(" + hx(x.LockTtl) + "," + hx(x.CommitVersion) + "," + actionName(x.Action) + ")"
		})
	case "hb":
		req := &kvrpcpb.TxnHeartBeatRequest{PrimaryLock: kb(pu(f[1])), StartVersion: pu(f[2]), AdviseLockTtl: pu(f[3])}
		resp, e := r.send(tikvrpc.CmdTxnHeartBeat, req, r.ctx(nil, false))
		return done(resp, e, func() string {
			x := resp.Resp.(*kvrpcpb.TxnHeartBeatResponse)
			if x.Error != nil {
				return keyErr(x.Error)
			}
			return "TTL(" + hx(x.LockTtl) + ")"
		})
	case "rl":
		req := &kvrpcpb.ResolveLockRequest{StartVersion: pu(f[3]), CommitVersion: pu(f[4])}
		resp, e := r.send(tikvrpc.CmdResolveLock, req, r.ctx(nil, false))
		return done(resp, e, func() string { return keyErr(resp.Resp.(*kvrpcpb.ResolveLockResponse).Error) })
	case "br": // the batch form (TxnInfos) of ResolveLock
		req := &kvrpcpb.ResolveLockRequest{}
		seen := map[uint64]bool{}
		if f[3] != "-" {
			for _, x := range strings.Split(f[3], ",") {
				p := strings.Split(x, ":")
				if !seen[pu(p[0])] {
					seen[pu(p[0])] = true
					req.TxnInfos = append(req.TxnInfos, &kvrpcpb.TxnInfo{Txn: pu(p[0]), Status: pu(p[1])})
				}
			}
		}
		if len(req.TxnInfos) == 0 {
			return "skip"
		}
		resp, e := r.send(tikvrpc.CmdResolveLock, req, r.ctx(nil, false))
		return done(resp, e, func() string { return keyErr(resp.Resp.(*kvrpcpb.ResolveLockResponse).Error) })
	case "sl":
		req := &kvrpcpb.ScanLockRequest{MaxVersion: pu(f[3])}
		resp, e := r.send(tikvrpc.CmdScanLock, req, r.ctx(nil, false))
		return done(resp, e, func() string {
			x := resp.Resp.(*kvrpcpb.ScanLockResponse)
			if x.Error != nil {
				return keyErr(x.Error)
			}
			p := make([]string, len(x.Locks))
			for i, l := range x.Locks {
				p[i] = kid(l.Key) + "," + kid(l.PrimaryLock) + "," + hx(l.LockVersion)
			}
			return "K[" + strings.Join(p, ";") + "]"
		})
	case "gc":
		req := &kvrpcpb.GCRequest{SafePoint: pu(f[3])}
		resp, e := r.send(tikvrpc.CmdGC, req, r.ctx(nil, false))
		return done(resp, e, func() string { return keyErr(resp.Resp.(*kvrpcpb.GCResponse).Error) })
	case "get", "rcget":
		var res []uint64
		if f[0] == "get" {
			res = plist(f[3])
		}
		req := &kvrpcpb.GetRequest{Key: kb(pu(f[1])), Version: pu(f[2]), NeedCommitTs: true}
		resp, e := r.send(tikvrpc.CmdGet, req, r.ctx(res, f[0] == "rcget"))
		return done(resp, e, func() string {
			x := resp.Resp.(*kvrpcpb.GetResponse)
			if x.Error != nil {
				return keyErr(x.Error)
			}
			if x.Value == nil {
				return "V(-)"
			}
			return "V(" + vid(x.Value) + "," + hx(x.CommitTs) + ")"
		})
	case "bg", "rcbg":
		var res []uint64
		if f[0] == "bg" {
			res = plist(f[3])
		}
		req := &kvrpcpb.BatchGetRequest{Keys: keys(f[1]), Version: pu(f[2]), NeedCommitTs: true}
		resp, e := r.send(tikvrpc.CmdBatchGet, req, r.ctx(res, f[0] == "rcbg"))
		return done(resp, e, func() string { return pbPairs(resp.Resp.(*kvrpcpb.BatchGetResponse).Pairs) })
	case "sc", "rcsc", "rs", "rcrs":
		var res []uint64
		if f[0] == "sc" || f[0] == "rs" {
			res = plist(f[5])
		}
		rev := f[0] == "rs" || f[0] == "rcrs"
		req := &kvrpcpb.ScanRequest{StartKey: kb(pu(f[1])), EndKey: kb(pu(f[2])), Limit: uint32(pu(f[3])), Version: pu(f[4]), Reverse: rev}
		if rev { // TiKV's reverse scan covers [end_key, start_key)
			req.StartKey, req.EndKey = kb(pu(f[2])), kb(pu(f[1]))
		}
		resp, e := r.send(tikvrpc.CmdScan, req, r.ctx(res, f[0] == "rcsc" || f[0] == "rcrs"))
		return done(resp, e, func() string { return pbPairs(resp.Resp.(*kvrpcpb.ScanResponse).Pairs) })
	case "dr":
		req := &kvrpcpb.DeleteRangeRequest{StartKey: kb(pu(f[1])), EndKey: kb(pu(f[2]))}
		resp, e := r.send(tikvrpc.CmdDeleteRange, req, r.ctx(nil, false))
		return done(resp, e, func() string {
			if m := resp.Resp.(*kvrpcpb.DeleteRangeResponse).Error; m != "" {
				return "err:" + m
			}
			return "ok"
		})
	case "ms":
		req := &kvrpcpb.MvccGetByStartTsRequest{StartTs: pu(f[1])}
		resp, e := r.send(tikvrpc.CmdMvccGetByStartTs, req, r.ctx(nil, false))
		return done(resp, e, func() string {
			x := resp.Resp.(*kvrpcpb.MvccGetByStartTsResponse)
			return canonMvcc(x.Info, x.Key)
		})
	}
	return "unknown-command"
}

// region errors: a stale epoch / an unknown region must be refused without touching the store
func (r *rpcSide) regionErrorProbe(c string) string {
	before := dump(r.st)
	ctx := r.ctx(nil, false)
	ep := *ctx.RegionEpoch
	ep.Version += 7
	ctx.RegionEpoch = &ep
	f := strings.Split(c, " ")
	var perr string
	switch f[0] {
	case "cm":
		_, perr = r.send(tikvrpc.CmdCommit, &kvrpcpb.CommitRequest{Keys: keys(f[1]), StartVersion: pu(f[2]), CommitVersion: pu(f[3])}, ctx)
	case "rb":
		_, perr = r.send(tikvrpc.CmdBatchRollback, &kvrpcpb.BatchRollbackRequest{Keys: keys(f[1]), StartVersion: pu(f[2])}, ctx)
	case "gc":
		_, perr = r.send(tikvrpc.CmdGC, &kvrpcpb.GCRequest{SafePoint: pu(f[3])}, ctx)
	case "get":
		_, perr = r.send(tikvrpc.CmdGet, &kvrpcpb.GetRequest{Key: kb(pu(f[1])), Version: pu(f[2])}, ctx)
	default:
		return ""
	}
	if !strings.HasPrefix(perr, "regionerr:") || !strings.Contains(perr, "epoch_not_match") {
		return "fail:stale epoch answered " + perr
	}
	ctx2 := r.ctx(nil, false)
	ctx2.RegionId += 1000
	_, perr = r.send(tikvrpc.CmdGet, &kvrpcpb.GetRequest{Key: kb(1), Version: 1}, ctx2)
	if !strings.HasPrefix(perr, "regionerr:") {
		return "fail:unknown region answered " + perr
	}
	if dump(r.st) != before {
		return "fail:a refused request changed the store"
	}
	return "pass"
}

// runRPC executes cmds on a direct store and through the handlers, printing one H line per command
func runRPC(id string, cmds []string) {
	direct, err := mocktikv.NewMVCCLevelDB("")
	if err != nil {
		panic(err)
	}
	defer direct.Close()
	side := newRPCSide()
	defer side.st.Close()
	fmt.Fprintf(out, "HS\t%s\n", id)
	for i, c := range cmds {
		d := exec(direct, c)
		want := rpcExpect(c, d)
		if want == "" { // the handler ignores this command's range: keep both stores in step through the direct call
			exec(side.st, c)
			continue
		}
		if i%5 == 2 {
			if v := side.regionErrorProbe(c); v != "" && v != "pass" {
				fmt.Fprintf(out, "H\t%s\t%s\t%s\t%s\n", c, "region-error-probe", "-", v)
			}
		}
		got := side.exec(c)
		verdict := "pass"
		if got == "skip" {
			exec(side.st, c)
		} else if got != want {
			verdict = "fail:answer"
		}
		if dd, ds := dump(direct), dump(side.st); dd != ds {
			verdict = "fail:state direct=" + dd + " rpc=" + ds
		}
		fmt.Fprintf(out, "H\t%s\t%s\t%s\t%s\n", c, want, got, verdict)
	}
}
