//go:build verif

package main

// Handler glue: the same command sequence is sent through mocktikv.RPCClient.SendRequest (kvHandler: key-in-region
// checks, error conversion, region errors) to a second store; its canonical answer must equal the answer of the direct
// MVCCStore call (which the model is compared with), transformed by the documented glue rules (rpcExpect), and both
// stores must hold the same rows afterwards. Output: H \t cmd \t direct \t rpc \t pass|fail:<why>
import (
	"context"
	"fmt"
	"strings"
	"time"

	"github.com/pingcap/kvproto/pkg/kvrpcpb"
	"github.com/pingcap/kvproto/pkg/metapb"
	"github.com/tikv/client-go/v2/internal/mockstore/mocktikv"
	"github.com/tikv/client-go/v2/tikvrpc"
)

// false since 390bcd2 (handleKvPessimisticRollback decodes the region bounds like the other range handlers): the scan
// form covers exactly the addressed region. true describes the old double-encoding defect (F39).
const pessRollbackEncodedBounds = false

const splitKey = 3 // a split cluster has the regions [-inf, k3) and [k3, +inf)

type rpcSide struct {
	st      *mocktikv.MVCCLevelDB
	cluster *mocktikv.Cluster
	client  *mocktikv.RPCClient
	addr    string
	regions [2]uint64 // left, right (equal when not split)
	peers   [2]*metapb.Peer
	split   bool
	cur     int // region the next request is addressed to
}

func newRPCSide(split bool) *rpcSide {
	st, err := mocktikv.NewMVCCLevelDB("")
	if err != nil {
		panic(err)
	}
	cl := mocktikv.NewCluster(st)
	storeID, peerID, regionID := mocktikv.BootstrapWithSingleStore(cl)
	r := &rpcSide{st: st, cluster: cl, client: mocktikv.NewRPCClient(cl, st, nil), addr: cl.GetStore(storeID).Address, split: split}
	r.regions = [2]uint64{regionID, regionID}
	r.peers = [2]*metapb.Peer{{Id: peerID, StoreId: storeID}, {Id: peerID, StoreId: storeID}}
	if split {
		ids := cl.AllocIDs(2)
		cl.Split(regionID, ids[0], kb(splitKey), []uint64{ids[1]}, ids[1])
		r.regions[1] = ids[0]
		r.peers[1] = &metapb.Peer{Id: ids[1], StoreId: storeID}
	}
	return r
}

// bounds of the addressed region as key ids (0 = unbounded)
func (r *rpcSide) bounds() (uint64, uint64) {
	if !r.split {
		return 0, 0
	}
	if r.cur == 0 {
		return 0, splitKey
	}
	return splitKey, 0
}
func (r *rpcSide) contains(k uint64) bool {
	lo, hi := r.bounds()
	return lo <= k && (hi == 0 || k < hi) // the empty key 0 is contained in the left region only, like every key below k3
}
func (r *rpcSide) regionOf(k uint64) int {
	if r.split && k >= splitKey {
		return 1
	}
	return 0
}

func (r *rpcSide) ctx(resolved []uint64, rc bool) kvrpcpb.Context {
	reg, _ := r.cluster.GetRegion(r.regions[r.cur])
	c := kvrpcpb.Context{RegionId: r.regions[r.cur], RegionEpoch: reg.RegionEpoch, Peer: r.peers[r.cur], ResolvedLocks: resolved}
	if rc {
		c.IsolationLevel = kvrpcpb.IsolationLevel_RC
	}
	return c
}

func (r *rpcSide) send(t tikvrpc.CmdType, pb interface{}, c kvrpcpb.Context) (resp *tikvrpc.Response, perr string) {
	defer func() {
		if x := recover(); x != nil {
			perr = "panic:" + fmt.Sprint(x)
			if strings.Contains(perr, "pessimistic lock result count not match") {
				perr = "PANIC"
			} else if strings.Contains(perr, "not in region") {
				perr = "PANIC:region"
			}
		}
	}()
	req := tikvrpc.NewRequest(t, pb, c)
	resp, err := r.client.SendRequest(context.Background(), r.addr, req, time.Second)
	if err != nil {
		return nil, "senderr:" + err.Error()
	}
	if re, _ := resp.GetRegionError(); re != nil {
		return nil, "regionerr:" + re.String()
	}
	return resp, ""
}

// scanLockCanon: the canonical answer of a ScanLock response (TxnSize cross-checked against the stored lock)
func scanLockCanon(st *mocktikv.MVCCLevelDB, x *kvrpcpb.ScanLockResponse) string {
	if x.Error != nil {
		return keyErr(x.Error)
	}
	p := make([]string, len(x.Locks))
	for i, l := range x.Locks {
		p[i] = lockInfo(l)
		if stored, _, err := st.ZZDumpKey(l.Key); err != nil || stored == nil || stored.TxnSize != l.TxnSize {
			p[i] += "!txnsize"
		}
	}
	return "K[" + strings.Join(p, ";") + "]"
}

// scanLockHandler sends "slh s e limit max" (ScanLockRequest with start key, end key, limit) through handleKvScanLock
// of a one-region cluster built around st: the MVCCStore interface has no such call, the logic lives in the handler.
func scanLockHandler(st *mocktikv.MVCCLevelDB, f []string) (res string) {
	defer func() {
		if x := recover(); x != nil {
			res = "panic:" + fmt.Sprint(x)
		}
	}()
	cl := mocktikv.NewCluster(st)
	storeID, peerID, regionID := mocktikv.BootstrapWithSingleStore(cl)
	reg, _ := cl.GetRegion(regionID)
	c := kvrpcpb.Context{RegionId: regionID, RegionEpoch: reg.RegionEpoch, Peer: &metapb.Peer{Id: peerID, StoreId: storeID}}
	req := tikvrpc.NewRequest(tikvrpc.CmdScanLock, &kvrpcpb.ScanLockRequest{StartKey: kb(pu(f[1])), EndKey: kb(pu(f[2])), Limit: uint32(pu(f[3])), MaxVersion: pu(f[4])}, c)
	resp, err := mocktikv.NewRPCClient(cl, st, nil).SendRequest(context.Background(), cl.GetStore(storeID).Address, req, time.Second)
	if err != nil {
		return "senderr:" + err.Error()
	}
	if re, _ := resp.GetRegionError(); re != nil {
		return "regionerr:" + re.String()
	}
	return scanLockCanon(st, resp.Resp.(*kvrpcpb.ScanLockResponse))
}

func kerrs(es []*kvrpcpb.KeyError) string {
	p := make([]string, len(es))
	for i, e := range es {
		p[i] = keyErr(e)
	}
	return "[" + strings.Join(p, ";") + "]"
}
func pbPairs(ps []*kvrpcpb.KvPair) string {
	p := make([]string, len(ps))
	for i, x := range ps {
		if x.Error != nil {
			p[i] = "!" + keyErr(x.Error)
		} else {
			p[i] = kid(x.Key) + "=" + vid(x.Value) + "@" + hx(x.CommitTs)
		}
	}
	return "[" + strings.Join(p, ";") + "]"
}

func minEnd(e, hi uint64) uint64 { // the smaller of two upper bounds, 0 = unbounded
	if e == 0 || (hi != 0 && hi < e) {
		return hi
	}
	return e
}

// effective picks the region a command is addressed to (r.cur) and returns the MVCCStore-level command the handler is
// expected to execute for it: key-in-region checks ("" + panic=true when the handler must panic), the range commands'
// clipping by / replacement with the region bounds. The choice depends on the command text only (replayable).
func (r *rpcSide) effective(c string) (eff string, wantPanic bool) {
	f := strings.Split(c, " ")
	h := 0
	for i := 0; i < len(c); i++ {
		h += int(c[i])
	}
	r.cur = 0
	if r.split {
		r.cur = h % 2
	}
	allIn := func(ks []uint64) bool {
		for _, k := range ks {
			if !r.contains(k) {
				return false
			}
		}
		return true
	}
	first := func(ks []uint64) {
		if len(ks) > 0 {
			r.cur = r.regionOf(ks[0])
			if h%7 == 0 && r.split { // now and then address the wrong region on purpose
				r.cur = 1 - r.cur
			}
		}
	}
	lo, hi := r.bounds()
	switch f[0] {
	case "pw":
		var ks []uint64
		for _, m := range strings.Split(f[7], ";") {
			ks = append(ks, pu(strings.Split(m, ":")[1]))
		}
		first(ks)
		return c, !allIn(ks)
	case "pl":
		var ks []uint64
		for _, m := range strings.Split(f[11], ",") {
			ks = append(ks, pu(strings.Split(m, ":")[0]))
		}
		first(ks)
		return c, !allIn(ks)
	case "pr":
		ks := plist(f[3])
		if len(ks) > 0 {
			first(ks)
			return c, !allIn(ks)
		}
		lo, hi = r.bounds() // scan form: the whole region ...
		// (before 390bcd2 handleKvPessimisticRollback handed the ENCODED region bounds to the store, which encoded them again; the doubly encoded bound of k3 sorts between the rows of k3 and k4, so the left
		// region's scan includes k3 and the right region's scan started after k3)
		if pessRollbackEncodedBounds {
			if hi != 0 {
				hi++
			}
			if lo != 0 {
				lo++
			}
		}
		return fmt.Sprintf("pr %s %s - %s %s", hx(lo), hx(hi), f[4], f[5]), false
	case "cm":
		first(plist(f[1]))
		return c, !allIn(plist(f[1]))
	case "rb": // handleKvBatchRollback has no key-in-region check
		first(plist(f[1]))
		return c, false
	case "bg", "rcbg":
		first(plist(f[1]))
		return c, !allIn(plist(f[1]))
	case "cl", "cs", "hb", "get", "rcget":
		first([]uint64{pu(f[1])})
		return c, !r.contains(pu(f[1]))
	case "dr": // only the start key is checked; the range is not clipped
		first([]uint64{pu(f[1])})
		return c, !r.contains(pu(f[1]))
	case "sc", "rcsc", "rs", "rcrs": // the lower bound must lie in the region, the upper bound is clipped by the region's end
		first([]uint64{pu(f[1])})
		_, hi = r.bounds()
		g := append([]string{}, f...)
		g[2] = hx(minEnd(pu(f[2]), hi))
		return strings.Join(g, " "), !r.contains(pu(f[1]))
	case "slh": // the request's window clipped to the region (since 9f23e58); the limit is kept
		g := append([]string{}, f...)
		if lo > pu(f[1]) {
			g[1] = hx(lo)
		}
		g[2] = hx(minEnd(pu(f[2]), hi))
		return strings.Join(g, " "), false
	case "rl", "br", "sl", "gc": // the request carries no range: the whole region
		g := append([]string{}, f...)
		g[1], g[2] = hx(lo), hx(hi)
		return strings.Join(g, " "), false
	}
	return c, false
}

// rpcExpect transforms the direct MVCCStore answer (of the effective command) into what the handler must answer.
func rpcExpect(c string, direct string) string {
	f := strings.Split(c, " ")
	inner := func(s string) []string {
		s = s[strings.Index(s, "[")+1 : len(s)-1]
		if s == "" {
			return nil
		}
		return strings.Split(s, ";")
	}
	switch f[0] {
	case "pw": // nil entries dropped; a non-KeyIsLocked error hides everything else
		var out []string
		for _, e := range inner(direct) {
			if e == "ok" {
				continue
			}
			if !strings.HasPrefix(e, "L(") {
				return "[" + e + "]"
			}
			out = append(out, e)
		}
		return "[" + strings.Join(out, ";") + "]"
	case "pr":
		return "[]"
	case "rb": // ErrAlreadyCommitted has no KeyError form: Abort
		if strings.HasPrefix(direct, "AC(") {
			return "AB:?txn already committed"
		}
	case "bg", "sc", "rs", "rcbg", "rcsc", "rcrs": // an error pair carries no key
		var out []string
		for _, e := range inner(direct) {
			if i := strings.Index(e, "!"); i >= 0 {
				e = e[i:]
			}
			out = append(out, e)
		}
		return "[" + strings.Join(out, ";") + "]"
	}
	return direct
}

// exec through the handlers
func (r *rpcSide) exec(c string) string {
	f := strings.Split(c, " ")
	done := func(resp *tikvrpc.Response, perr string, canon func() string) string {
		if perr != "" {
			return perr
		}
		return canon()
	}
	switch f[0] {
	case "pw":
		req := buildPrewrite(f)
		req.Context = nil
		resp, e := r.send(tikvrpc.CmdPrewrite, req, r.ctx(nil, false))
		return done(resp, e, func() string { return kerrs(resp.Resp.(*kvrpcpb.PrewriteResponse).Errors) })
	case "pl":
		req, force := buildPessLock(f)
		req.Context = nil
		resp, e := r.send(tikvrpc.CmdPessimisticLock, req, r.ctx(nil, false))
		return done(resp, e, func() string { return canonPessLock(req, resp.Resp.(*kvrpcpb.PessimisticLockResponse), force) })
	case "pr":
		req := &kvrpcpb.PessimisticRollbackRequest{Keys: keys(f[3]), StartVersion: pu(f[4]), ForUpdateTs: pu(f[5])}
		resp, e := r.send(tikvrpc.CmdPessimisticRollback, req, r.ctx(nil, false))
		return done(resp, e, func() string { return kerrs(resp.Resp.(*kvrpcpb.PessimisticRollbackResponse).Errors) })
	case "cm":
		req := &kvrpcpb.CommitRequest{Keys: keys(f[1]), StartVersion: pu(f[2]), CommitVersion: pu(f[3])}
		resp, e := r.send(tikvrpc.CmdCommit, req, r.ctx(nil, false))
		return done(resp, e, func() string { return keyErr(resp.Resp.(*kvrpcpb.CommitResponse).Error) })
	case "rb":
		req := &kvrpcpb.BatchRollbackRequest{Keys: keys(f[1]), StartVersion: pu(f[2])}
		resp, e := r.send(tikvrpc.CmdBatchRollback, req, r.ctx(nil, false))
		return done(resp, e, func() string { return keyErr(resp.Resp.(*kvrpcpb.BatchRollbackResponse).Error) })
	case "cl":
		req := &kvrpcpb.CleanupRequest{Key: kb(pu(f[1])), StartVersion: pu(f[2]), CurrentTs: pu(f[3])}
		resp, e := r.send(tikvrpc.CmdCleanup, req, r.ctx(nil, false))
		return done(resp, e, func() string {
			x := resp.Resp.(*kvrpcpb.CleanupResponse)
			if x.CommitVersion != 0 {
				return "AC(" + hx(x.CommitVersion) + ")"
			}
			return keyErr(x.Error)
		})
	case "cs":
		req := &kvrpcpb.CheckTxnStatusRequest{PrimaryKey: kb(pu(f[1])), LockTs: pu(f[2]), CallerStartTs: pu(f[3]), CurrentTs: pu(f[4]),
			RollbackIfNotExist: pb(f[5]), ResolvingPessimisticLock: pb(f[6])}
		resp, e := r.send(tikvrpc.CmdCheckTxnStatus, req, r.ctx(nil, false))
		return done(resp, e, func() string {
			x := resp.Resp.(*kvrpcpb.CheckTxnStatusResponse)
			if x.Error != nil {
				return keyErr(x.Error)
			}
			return "ST(" + hx(x.LockTtl) + "," + hx(x.CommitVersion) + "," + actionName(x.Action) + ")"
		})
	case "hb":
		req := &kvrpcpb.TxnHeartBeatRequest{PrimaryLock: kb(pu(f[1])), StartVersion: pu(f[2]), AdviseLockTtl: pu(f[3])}
		resp, e := r.send(tikvrpc.CmdTxnHeartBeat, req, r.ctx(nil, false))
		return done(resp, e, func() string {
			x := resp.Resp.(*kvrpcpb.TxnHeartBeatResponse)
			if x.Error != nil {
				return keyErr(x.Error)
			}
			return "TTL(" + hx(x.LockTtl) + ")"
		})
	case "rl":
		req := &kvrpcpb.ResolveLockRequest{StartVersion: pu(f[3]), CommitVersion: pu(f[4])}
		resp, e := r.send(tikvrpc.CmdResolveLock, req, r.ctx(nil, false))
		return done(resp, e, func() string { return keyErr(resp.Resp.(*kvrpcpb.ResolveLockResponse).Error) })
	case "br": // the batch form (TxnInfos) of ResolveLock
		req := &kvrpcpb.ResolveLockRequest{}
		seen := map[uint64]bool{}
		if f[3] != "-" {
			for _, x := range strings.Split(f[3], ",") {
				p := strings.Split(x, ":")
				if !seen[pu(p[0])] {
					seen[pu(p[0])] = true
					req.TxnInfos = append(req.TxnInfos, &kvrpcpb.TxnInfo{Txn: pu(p[0]), Status: pu(p[1])})
				}
			}
		}
		if len(req.TxnInfos) == 0 {
			return "skip"
		}
		resp, e := r.send(tikvrpc.CmdResolveLock, req, r.ctx(nil, false))
		return done(resp, e, func() string { return keyErr(resp.Resp.(*kvrpcpb.ResolveLockResponse).Error) })
	case "sl":
		req := &kvrpcpb.ScanLockRequest{MaxVersion: pu(f[3])}
		resp, e := r.send(tikvrpc.CmdScanLock, req, r.ctx(nil, false))
		return done(resp, e, func() string {
			x := resp.Resp.(*kvrpcpb.ScanLockResponse)
			if x.Error != nil {
				return keyErr(x.Error)
			}
			p := make([]string, len(x.Locks))
			for i, l := range x.Locks {
				p[i] = lockInfo(l)
				if stored, _, err := r.st.ZZDumpKey(l.Key); err != nil || stored == nil || stored.TxnSize != l.TxnSize {
					p[i] += "!txnsize"
				}
			}
			return "K[" + strings.Join(p, ";") + "]"
		})
	case "slh":
		req := &kvrpcpb.ScanLockRequest{StartKey: kb(pu(f[1])), EndKey: kb(pu(f[2])), Limit: uint32(pu(f[3])), MaxVersion: pu(f[4])}
		resp, e := r.send(tikvrpc.CmdScanLock, req, r.ctx(nil, false))
		return done(resp, e, func() string { return scanLockCanon(r.st, resp.Resp.(*kvrpcpb.ScanLockResponse)) })
	case "gc":
		req := &kvrpcpb.GCRequest{SafePoint: pu(f[3])}
		resp, e := r.send(tikvrpc.CmdGC, req, r.ctx(nil, false))
		return done(resp, e, func() string { return keyErr(resp.Resp.(*kvrpcpb.GCResponse).Error) })
	case "get", "rcget":
		var res []uint64
		if f[0] == "get" {
			res = plist(f[3])
		}
		req := &kvrpcpb.GetRequest{Key: kb(pu(f[1])), Version: pu(f[2]), NeedCommitTs: true}
		resp, e := r.send(tikvrpc.CmdGet, req, r.ctx(res, f[0] == "rcget"))
		return done(resp, e, func() string {
			x := resp.Resp.(*kvrpcpb.GetResponse)
			if x.Error != nil {
				return keyErr(x.Error)
			}
			if x.Value == nil {
				return "V(-)"
			}
			return "V(" + vid(x.Value) + "," + hx(x.CommitTs) + ")"
		})
	case "bg", "rcbg":
		var res []uint64
		if f[0] == "bg" {
			res = plist(f[3])
		}
		req := &kvrpcpb.BatchGetRequest{Keys: keys(f[1]), Version: pu(f[2]), NeedCommitTs: true}
		resp, e := r.send(tikvrpc.CmdBatchGet, req, r.ctx(res, f[0] == "rcbg"))
		return done(resp, e, func() string { return pbPairs(resp.Resp.(*kvrpcpb.BatchGetResponse).Pairs) })
	case "sc", "rcsc", "rs", "rcrs":
		var res []uint64
		if f[0] == "sc" || f[0] == "rs" {
			res = plist(f[5])
		}
		rev := f[0] == "rs" || f[0] == "rcrs"
		req := &kvrpcpb.ScanRequest{StartKey: kb(pu(f[1])), EndKey: kb(pu(f[2])), Limit: uint32(pu(f[3])), Version: pu(f[4]), Reverse: rev}
		if rev { // TiKV's reverse scan covers [end_key, start_key)
			req.StartKey, req.EndKey = kb(pu(f[2])), kb(pu(f[1]))
		}
		resp, e := r.send(tikvrpc.CmdScan, req, r.ctx(res, f[0] == "rcsc" || f[0] == "rcrs"))
		return done(resp, e, func() string { return pbPairs(resp.Resp.(*kvrpcpb.ScanResponse).Pairs) })
	case "dr":
		req := &kvrpcpb.DeleteRangeRequest{StartKey: kb(pu(f[1])), EndKey: kb(pu(f[2]))}
		resp, e := r.send(tikvrpc.CmdDeleteRange, req, r.ctx(nil, false))
		return done(resp, e, func() string {
			if m := resp.Resp.(*kvrpcpb.DeleteRangeResponse).Error; m != "" {
				return "err:" + m
			}
			return "ok"
		})
	case "ms":
		req := &kvrpcpb.MvccGetByStartTsRequest{StartTs: pu(f[1])}
		resp, e := r.send(tikvrpc.CmdMvccGetByStartTs, req, r.ctx(nil, false))
		return done(resp, e, func() string {
			x := resp.Resp.(*kvrpcpb.MvccGetByStartTsResponse)
			return canonMvcc(x.Info, x.Key)
		})
	}
	return "unknown-command"
}

// region errors: a stale epoch / an unknown region must be refused without touching the store
func (r *rpcSide) regionErrorProbe(c string) string {
	before := dump(r.st)
	ctx := r.ctx(nil, false)
	ep := *ctx.RegionEpoch
	ep.Version += 7
	ctx.RegionEpoch = &ep
	f := strings.Split(c, " ")
	var perr string
	switch f[0] {
	case "cm":
		_, perr = r.send(tikvrpc.CmdCommit, &kvrpcpb.CommitRequest{Keys: keys(f[1]), StartVersion: pu(f[2]), CommitVersion: pu(f[3])}, ctx)
	case "rb":
		_, perr = r.send(tikvrpc.CmdBatchRollback, &kvrpcpb.BatchRollbackRequest{Keys: keys(f[1]), StartVersion: pu(f[2])}, ctx)
	case "gc":
		_, perr = r.send(tikvrpc.CmdGC, &kvrpcpb.GCRequest{SafePoint: pu(f[3])}, ctx)
	case "get":
		_, perr = r.send(tikvrpc.CmdGet, &kvrpcpb.GetRequest{Key: kb(pu(f[1])), Version: pu(f[2])}, ctx)
	default:
		return ""
	}
	if !strings.HasPrefix(perr, "regionerr:") || !strings.Contains(perr, "epoch_not_match") {
		return "fail:stale epoch answered " + perr
	}
	ctx2 := r.ctx(nil, false)
	ctx2.RegionId += 1000
	_, perr = r.send(tikvrpc.CmdGet, &kvrpcpb.GetRequest{Key: kb(1), Version: 1}, ctx2)
	if !strings.HasPrefix(perr, "regionerr:") {
		return "fail:unknown region answered " + perr
	}
	if dump(r.st) != before {
		return "fail:a refused request changed the store"
	}
	return "pass"
}

// runRPC executes cmds on a direct store (the handler's effective command) and through the handlers, one H line per command
func runRPC(id string, cmds []string, split bool) {
	direct, err := mocktikv.NewMVCCLevelDB("")
	if err != nil {
		panic(err)
	}
	defer direct.Close()
	side := newRPCSide(split)
	defer side.st.Close()
	cls := "rpc"
	if split {
		cls = "rpc2"
	}
	fmt.Fprintf(out, "HS\t%s\t%s\n", id, cls)
	for i, c := range cmds {
		eff, wantPanic := side.effective(c)
		if i%5 == 2 {
			if v := side.regionErrorProbe(c); v != "" && v != "pass" {
				fmt.Fprintf(out, "H\t%s\t%s\t%s\t%s\n", c, "region-error-probe", "-", v)
			}
		}
		want := "PANIC:region"
		if !wantPanic {
			want = rpcExpect(c, exec(direct, eff))
		}
		got := side.exec(c)
		verdict := "pass"
		if got == "skip" {
			exec(side.st, eff)
		} else if got != want {
			verdict = "fail:answer (region " + fmt.Sprint(side.cur) + ", effective command " + eff + ")"
		}
		if dd, ds := dump(direct)+" | "+detectorDump(direct), dump(side.st)+" | "+detectorDump(side.st); dd != ds {
			verdict = "fail:state direct=" + dd + " rpc=" + ds + " (region " + fmt.Sprint(side.cur) + ", effective command " + eff + ")"
		}
		fmt.Fprintf(out, "H\t%s\t%s\t%s\t%s\n", c, want, got, verdict)
	}
}
